(* ForLoop.v -- executable model of pyiron_workflow/nodes/for_loop.py (C16).

   Part 1  dictionary_to_index_maps, branch for branch (including what it does when one
           group of keys has zero length and the other has not).
   Part 2  the For node: class creation checks (__init_subclass__), the instance state
           (inputs, children, cache, outputs, failed), and one `run`:
           Node._before_run (cache test -> _on_cache_miss -> readiness gate)
           -> For._build_body (_clean_existing_subgraph, _create_and_connect_input_to_body_nodes,
           _collect_output_as_dataframe | _collect_output_as_lists) -> the body DAG with the
           body nodes completing in an arbitrary order -> collectors -> outputs -> Node._run_finally
           (cache key written after a successful run).
   Part 3  the plain mathematical reference (mixed-radix decoding) the theorems compare with.
   Part 4  concrete toy bodies + printing to Base.obs for the correspondence check.

   Cell values are integers; labels are strings.  The body node's function is a field of
   the [body] record, i.e. universally quantified in every theorem. *)
From PW Require Import Base.
Open Scope nat_scope.

(* ---------------------------------------------------------------------------------- *)
(* exceptions the anchored code can leave with                                         *)
Inductive exc :=
| KeyError | TypeError | ValueErrorNoKeys | ValueErrorAllZero
| ReadinessError | AttributeError | FailedChildError
| UnmappedConflictError | MapsToNonexistentOutputError | ValueErrorNotInput.

Definition exc_name (e : exc) : string :=
  match e with
  | KeyError => "KeyError" | TypeError => "TypeError"
  | ValueErrorNoKeys => "ValueError:nokeys" | ValueErrorAllZero => "ValueError:allzero"
  | ReadinessError => "ReadinessError" | AttributeError => "AttributeError"
  | FailedChildError => "FailedChildError"
  | UnmappedConflictError => "UnmappedConflictError"
  | MapsToNonexistentOutputError => "MapsToNonexistentOutputError"
  | ValueErrorNotInput => "ValueError:notinput"
  end.

Inductive res (A : Type) := Ok (a : A) | Err (e : exc).
Arguments Ok {A} a.
Arguments Err {A} e.

(* python dicts with string keys: association lists; [supd] is `d[k] = v` (position of the
   first insertion is kept, the value is replaced) *)
Definition supd {B} (k : string) (v : B) (d : list (string * B)) := upd String.eqb k v d.
Definition sassoc {B} (k : string) (d : list (string * B)) : option B := assoc String.eqb k d.

(* ================================================================================== *)
(* Part 1: dictionary_to_index_maps                                                    *)
Definition imap := list (string * nat).

(* [len(data[key]) for key in keys]; data maps a key to Some length, or to None when the
   value has no len().  Evaluated left to right, the first exception wins. *)
Fixpoint lengths (data : list (string * option nat)) (keys : list string) : res (list nat) :=
  match keys with
  | [] => Ok []
  | k :: r =>
      match sassoc k data with
      | None => Err KeyError
      | Some None => Err TypeError
      | Some (Some n) =>
          match lengths data r with
          | Ok ns => Ok (n :: ns)
          | Err e => Err e
          end
      end
  end.

Fixpoint prod (l : list nat) : nat :=
  match l with [] => 1 | n :: r => n * prod r end.

Fixpoint minl (l : list nat) : nat :=
  match l with
  | [] => 0
  | n :: r => match r with [] => n | _ => Nat.min n (minl r) end
  end.

(* itertools.product over the ranges of ls: the last position varies fastest *)
Fixpoint product (ls : list nat) : list (list nat) :=
  match ls with
  | [] => [[]]
  | n :: r => flat_map (fun i => map (cons i) (product r)) (seq 0 n)
  end.

(* {nested_keys[i_key]: nested_index for i_key, nested_index in enumerate(nested_indices)} *)
Definition nmap (nk : list string) (ixs : list nat) : imap :=
  fold_left (fun m (ki : string * nat) => supd (fst ki) (snd ki) m) (combine nk ixs) [].
(* dict.fromkeys(zipped_keys, zipped_index) *)
Definition zmap (zk : list string) (z : nat) : imap :=
  fold_left (fun m k => supd k z m) zk [].
(* d1.update(d2); return d1 *)
Definition merge (d1 d2 : imap) : imap :=
  fold_left (fun m (ki : string * nat) => supd (fst ki) (snd ki) m) d2 d1.

Definition okeys (o : option (list string)) : list string :=
  match o with None => [] | Some l => l end.
Definition isnone {A} (o : option A) : bool :=
  match o with None => true | Some _ => false end.
Definition isnil {A} (l : list A) : bool :=
  match l with [] => true | _ => false end.

Definition index_maps (data : list (string * option nat)) (nk zk : option (list string))
  : res (list imap) :=
  match lengths data (okeys nk) with
  | Err e => Err e
  | Ok nls =>
      let n_nest := match nls with [] => 0 | _ => prod nls end in
      match lengths data (okeys zk) with
      | Err e => Err e
      | Ok zls =>
          let n_zip := match zls with [] => 0 | _ => minl zls end in
          if (0 <? n_nest) && (0 <? n_zip) then
            Ok (flat_map (fun ixs => map (fun z => merge (nmap (okeys nk) ixs) (zmap (okeys zk) z))
                                         (seq 0 n_zip))
                         (product nls))
          else if 0 <? n_nest then Ok (map (nmap (okeys nk)) (product nls))
          else if 0 <? n_zip then Ok (map (zmap (okeys zk)) (seq 0 n_zip))
          else if isnone nk && isnone zk then Err ValueErrorNoKeys
          else Err ValueErrorAllZero
      end
  end.

(* ================================================================================== *)
(* Part 2: the For node                                                                *)
Record body := {
  b_ins  : list (string * option Z);   (* input labels in signature order, default or NOT_DATA *)
  b_outs : list string;                (* output labels *)
  b_fun  : list Z -> list Z            (* the node function: inputs in order -> outputs in order *)
}.

Record cfg := {
  c_body  : body;
  c_iter  : list string;               (* _iter_on *)
  c_zip   : list string;               (* _zip_on *)
  c_df    : bool;                      (* _output_as_dataframe *)
  c_map   : list (string * string);    (* output_column_map argument (empty = None) *)
  c_cache : bool                       (* use_cache *)
}.

Definition in_labels (c : cfg) : list string := map fst (b_ins (c_body c)).
Definition looped (c : cfg) : list string := c_iter c ++ c_zip c.
(* For.output_column_map()[label] *)
Definition out_col (c : cfg) (l : string) : string :=
  match sassoc l (c_map c) with Some n => n | None => l end.
Definition out_cols (c : cfg) : list string := map (out_col c) (b_outs (c_body c)).

(* For.__init_subclass__ *)
Definition check_class (c : cfg) : option exc :=
  if existsb (fun l => mems l (looped c) && mems l (b_outs (c_body c))
                       && negb (mems l (map fst (c_map c)))) (in_labels c)
  then Some UnmappedConflictError
  else if existsb (fun k => negb (mems k (b_outs (c_body c)))) (map fst (c_map c))
  then Some MapsToNonexistentOutputError
  else None.

Inductive ival := IZ (z : Z) | IL (l : list Z).
Definition inputs := list (string * option ival).       (* None = NOT_DATA *)

Definition table := (list string * list (list Z))%type.  (* names, rows (df) | columns (lists) *)

Record fstate := {
  s_in       : inputs;
  s_children : list obs;               (* child labels in insertion order, canonical form *)
  s_cached   : option inputs;          (* Node._cached_inputs *)
  s_out      : option table;           (* None = NOT_DATA on the output channel(s) *)
  s_failed   : bool;
  s_cache    : bool                    (* the instance's use_cache (starts as the class's, may be re-assigned) *)
}.

Fixpoint list_eqb {A} (eqb : A -> A -> bool) (a b : list A) : bool :=
  match a, b with
  | [], [] => true
  | x :: a', y :: b' => eqb x y && list_eqb eqb a' b'
  | _, _ => false
  end.
Definition ival_eqb (a b : ival) : bool :=
  match a, b with
  | IZ x, IZ y => Z.eqb x y
  | IL x, IL y => list_eqb Z.eqb x y
  | _, _ => false
  end.
Definition oival_eqb (a b : option ival) : bool :=
  match a, b with
  | None, None => true
  | Some x, Some y => ival_eqb x y
  | _, _ => false
  end.
Definition inputs_eqb (a b : inputs) : bool :=
  list_eqb (fun p q => String.eqb (fst p) (fst q) && oival_eqb (snd p) (snd q)) a b.

(* _build_inputs_preview: looped inputs start as NOT_DATA, the others with the body default *)
Definition init_inputs (c : cfg) : inputs :=
  map (fun ld : string * option Z =>
         (fst ld, if mems (fst ld) (looped c) then None else option_map IZ (snd ld)))
      (b_ins (c_body c)).

Definition in_child (l : string) : obs := OL [OS "in"; OS l].
Definition body_child (n : nat) : obs := OL [OS "body"; on n].
Definition gi_child (l : string) (ix : nat) : obs := OL [OS "gi"; OS l; on ix].
Definition row_child (n : nat) : obs := OL [OS "row"; on n].
Definition col_child (l : string) : obs := OL [OS "col"; OS l].
Definition df_child : obs := OL [OS "dataframe"].

Definition init_state (c : cfg) : fstate :=
  {| s_in := init_inputs c; s_children := map in_child (in_labels c);
     s_cached := None; s_out := None; s_failed := false; s_cache := c_cache c |}.

(* for_node(...): class creation, then the instance *)
Definition create (c : cfg) : res fstate :=
  match check_class c with Some e => Err e | None => Ok (init_state c) end.

Definition assign (st : fstate) (l : string) (v : ival) : fstate :=
  {| s_in := supd l (Some v) (s_in st); s_children := s_children st; s_cached := s_cached st;
     s_out := s_out st; s_failed := s_failed st; s_cache := s_cache st |}.
Definition assign_all (st : fstate) (a : list (string * ival)) : fstate :=
  fold_left (fun s lv => assign s (fst lv) (snd lv)) a st.

(* inputs.to_value_dict() as seen by dictionary_to_index_maps *)
Definition data_of (i : inputs) : list (string * option nat) :=
  map (fun lv : string * option ival =>
         (fst lv, match snd lv with Some (IL xs) => Some (List.length xs) | _ => None end)) i.

Definition all_data (i : inputs) : bool :=
  forallb (fun lv : string * option ival => negb (isnone (snd lv))) i.

Definition listof (i : inputs) (l : string) : list Z :=
  match sassoc l i with Some (Some (IL xs)) => xs | _ => [] end.
Definition bval (i : inputs) (l : string) : option Z :=
  match sassoc l i with Some (Some (IZ z)) => Some z | _ => None end.

(* the value body node n sees on input l: the item picked by the index map, the broadcast
   value, or -- for a looped label the index map does not mention -- the body's own default *)
Definition arg_of (c : cfg) (i : inputs) (m : imap) (ld : string * option Z) : option Z :=
  match sassoc (fst ld) m with
  | Some ix => Some (nth ix (listof i (fst ld)) 0%Z)
  | None => if mems (fst ld) (looped c) then snd ld else bval i (fst ld)
  end.

Fixpoint all_some {A} (l : list (option A)) : option (list A) :=
  match l with
  | [] => Some []
  | None :: _ => None
  | Some x :: r => match all_some r with Some xs => Some (x :: xs) | None => None end
  end.

(* None = that body node is not ready *)
Definition args_of (c : cfg) (i : inputs) (m : imap) : option (list Z) :=
  all_some (map (arg_of c i m) (b_ins (c_body c))).

Definition picked (i : inputs) (m : imap) : list (string * Z) :=
  map (fun ki : string * nat => (fst ki, nth (snd ki) (listof i (fst ki)) 0%Z)) m.

Definition dict_of {B} (l : list (string * B)) : list (string * B) :=
  fold_left (fun d kv => supd (fst kv) (snd kv) d) l [].

Definition lookupz (k : string) (r : list (string * Z)) : Z :=
  match sassoc k r with Some z => z | None => 0%Z end.

(* the input channels of a row collector: _build_row_collector_node's row_specification
   (looped labels, then renamed outputs; a repeated name is one channel) *)
Definition row_keys (c : cfg) : list string :=
  map fst (dict_of (map (fun k => (k, tt)) (looped c ++ out_cols c))).

(* what row collector n ends up holding: each channel shows the value connected to it last
   (looped items are connected first, then the renamed body outputs) *)
Definition row_of (c : cfg) (i : inputs) (m : imap) (a : list Z) : list (string * Z) :=
  let d := dict_of (picked i m ++ combine (out_cols c) (b_fun (c_body c) a)) in
  map (fun k => (k, lookupz k d)) (row_keys c).

(* children after _build_body *)
Definition add_child (x : obs) (ch : list obs) : list obs :=
  if memb obs_eqb x ch then ch else ch ++ [x].

Definition body_children (ch0 : list obs) (maps : list imap) : list obs :=
  fold_left (fun ch (nm : nat * imap) =>
               fold_left (fun ch' (ki : string * nat) => add_child (gi_child (fst ki) (snd ki)) ch')
                         (snd nm) (ch ++ [body_child (fst nm)]))
            (combine (seq 0 (List.length maps)) maps) ch0.

Definition collector_names (c : cfg) : list string := out_cols c ++ c_zip c ++ c_iter c.

Definition build_children (c : cfg) (maps : list imap) : list obs :=
  let ch1 := body_children (map in_child (in_labels c)) maps in
  if c_df c then ch1 ++ [df_child] ++ map row_child (seq 0 (List.length maps))
  else ch1 ++ map col_child (collector_names c).

(* --- completion order of the body nodes and the collectors ------------------------- *)
(* the body nodes named in [order] complete first, in that order (a name that is out of range
   or repeated changes nothing), then whichever are still outstanding *)
Definition sched (n : nat) (order : list nat) : list nat := order ++ seq 0 n.

Fixpoint set_nth {A} (n : nat) (x : A) (l : list A) : list A :=
  match l, n with
  | [], _ => []
  | _ :: r, 0 => x :: r
  | y :: r, S k => y :: set_nth k x r
  end.

(* collectors are keyed by row number: completion i fills slot i *)
Definition collect {A} (n : nat) (f : nat -> A) (sch : list nat) : list (option A) :=
  fold_left (fun sl i => set_nth i (Some (f i)) sl) sch (repeat None n).

(* names of the list-form outputs: _build_outputs_preview *)
Definition list_names (c : cfg) : list string :=
  map fst (dict_of (map (fun l => (l, tt)) (filter (fun l => mems l (looped c)) (in_labels c)
                                                ++ out_cols c))).

Definition table_of (c : cfg) (rows : list (list (string * Z))) : table :=
  if c_df c then (map fst (hd [] rows), map (map snd) rows)
  else (list_names c, map (fun k => map (lookupz k) rows) (list_names c)).

(* --- sorting the call log (multiset of calls) --------------------------------------- *)
Fixpoint lex_leb (a b : list Z) : bool :=
  match a, b with
  | [], _ => true
  | _ :: _, [] => false
  | x :: a', y :: b' => if Z.ltb x y then true else if Z.ltb y x then false else lex_leb a' b'
  end.
Fixpoint insert_call (x : list Z) (l : list (list Z)) : list (list Z) :=
  match l with
  | [] => [x]
  | y :: r => if lex_leb x y then x :: l else y :: insert_call x r
  end.
Definition sort_calls (l : list (list Z)) : list (list Z) := fold_right insert_call [] l.

Fixpoint somes {A} (l : list (option A)) : list A :=
  match l with [] => [] | Some x :: r => x :: somes r | None :: r => somes r end.

(* --- one run ------------------------------------------------------------------------ *)
Inductive outcome :=
| Returned (t : option table) (calls : list (list Z))
| Raised (e : exc) (failed : bool) (calls : list (list Z)).

Definition dropped (c : cfg) (maps : list imap) : list string :=
  filter (fun l => negb (mems l (map fst (hd [] maps)))) (looped c).

Definition default_of (c : cfg) (l : string) : option Z :=
  match sassoc l (b_ins (c_body c)) with Some d => d | None => None end.

(* Node.cache_hit (under use_cache): never while failed; the key is written only by a run
   that succeeded (Node._run_finally) *)
Definition hit (c : cfg) (st : fstate) : bool :=
  s_cache st && negb (s_failed st) &&
  match s_cached st with Some ci => inputs_eqb (s_in st) ci | None => false end.

Definition run (c : cfg) (order : list nat) (st : fstate) : fstate * outcome :=
  let i := s_in st in
  (* Node._before_run: cache hit *)
  if hit c st then
    (st, Returned (s_out st) [])
  else
    (* _on_cache_miss: if self.ready: self._build_body() *)
    let ready := all_data i && negb (s_failed st) in
    if negb ready then
      (* no build; the readiness gate raises *)
      (st, Raised ReadinessError (s_failed st) [])
    else
      match index_maps (data_of i) (Some (c_iter c)) (Some (c_zip c)) with
      | Err e => (st, Raised e false [])          (* raised before anything is touched *)
      | Ok maps =>
          let n := List.length maps in
          if negb (c_df c) && negb (nodupb String.eqb (collector_names c)) then
            (* _collect_output_as_lists: a second child with the same label is refused;
               the sub-graph is left half built, remove_child/add_child cleared the cache *)
            ({| s_in := i; s_children := body_children (map in_child (in_labels c)) maps;
                s_cached := None; s_out := s_out st; s_failed := false; s_cache := s_cache st |},
             Raised AttributeError false [])
          else
            (* rebuilt sub-graph; Composite.remove_child/add_child forgot the remembered inputs --
               whether or not use_cache is on at the moment *)
            let finish (out : option table) (cached : option inputs) (failed : bool) :=
              {| s_in := i; s_children := build_children c maps; s_cached := cached;
                 s_out := out; s_failed := failed; s_cache := s_cache st |} in
            let argso := map (args_of c i) maps in
            (* looped labels the index maps do not mention (see index_maps) ... *)
            let missing := dropped c maps in
            (* ... leave their collector channel without a source unless a renamed output
               happens to be connected to the channel of that name *)
            let unfed := filter (fun l => negb (mems l (out_cols c))) missing in
            if negb (c_df c) && negb (isnil missing) then
              (* list form: the column collector of a missing label has no upstream, is a
                 starting node and is refused by its readiness gate before anything runs *)
              (finish (s_out st) None true, Raised ReadinessError true [])
            else
              match unfed, all_some argso with
              | [], Some argss =>
                  let rows := map (fun ma : imap * list Z => row_of c i (fst ma) (snd ma))
                                  (combine maps argss) in
                  let slots := collect n (fun r => nth r rows []) (sched n order) in
                  let t := table_of c (map (fun o => match o with Some r => r | None => [] end) slots) in
                  (* Node._run_finally: the run succeeded, its inputs become the cache key *)
                  (finish (Some t) (if s_cache st then Some i else None) false,
                   Returned (Some t) (sort_calls argss))
              | _, _ =>
                  (* a row collector channel without source, or a body node without data on
                     some input: the ready body nodes run, the others and the collectors fail *)
                  (finish (s_out st) None true,
                   Raised FailedChildError true (sort_calls (somes argso)))
              end
      end.

(* a scenario: create, then steps (assignments; run with a completion order) *)
Definition step := (list (string * ival) * list nat)%type.

Definition do_step (c : cfg) (st : fstate) (s : step) : fstate * outcome :=
  run c (snd s) (assign_all st (fst s)).

(* `node.use_cache = b` between two runs *)
Definition set_cache (st : fstate) (b : bool) : fstate :=
  {| s_in := s_in st; s_children := s_children st; s_cached := s_cached st; s_out := s_out st;
     s_failed := s_failed st; s_cache := b |}.
Definition set_cache_opt (st : fstate) (o : option bool) : fstate :=
  match o with Some b => set_cache st b | None => st end.
(* a step that may first re-assign use_cache *)
Definition xstep := (option bool * step)%type.
Definition do_xstep (c : cfg) (st : fstate) (x : xstep) : fstate * outcome :=
  do_step c (set_cache_opt st (fst x)) (snd x).

(* ================================================================================== *)
(* Part 3: the mathematical reference                                                  *)

(* mixed-radix digits of r for the radices ls, most significant first *)
Fixpoint digits (ls : list nat) (r : nat) : list nat :=
  match ls with
  | [] => []
  | _ :: rest => (r / prod rest) :: digits rest (r mod prod rest)
  end.

(* number of zipped positions: the shortest zipped input; an absent group does not constrain *)
Definition zfac (zk : list string) (zls : list nat) : nat :=
  match zk with [] => 1 | _ => minl zls end.

(* the r-th combination: nested key j at digit j of r / nz, every zipped key at r mod nz *)
Definition spec_entry (nk : list string) (nls : list nat) (zk : list string) (nz : nat) (r : nat) : imap :=
  combine nk (digits nls (r / nz)) ++ map (fun k => (k, r mod nz)) zk.

Definition spec_maps (nk : list string) (nls : list nat) (zk : list string) (zls : list nat) : list imap :=
  map (spec_entry nk nls zk (zfac zk zls)) (seq 0 (prod nls * zfac zk zls)).

(* one group of keys is present but has no position while the other would produce rows *)
Definition mixed_zero (nk : list string) (nls : list nat) (zk : list string) (zls : list nat) : bool :=
  negb (isnil nk) && negb (isnil zk) &&
  (((prod nls =? 0) && negb (minl zls =? 0)) || (negb (prod nls =? 0) && (minl zls =? 0))).

(* --- the table the property demands ------------------------------------------------- *)
Definition lens (i : inputs) (ks : list string) : list nat :=
  map (fun l => List.length (listof i l)) ks.
Definition nz_of (c : cfg) (i : inputs) : nat := zfac (c_zip c) (lens i (c_zip c)).
Definition nrows (c : cfg) (i : inputs) : nat := prod (lens i (c_iter c)) * nz_of c i.
Definition entry_of (c : cfg) (i : inputs) (r : nat) : imap :=
  spec_entry (c_iter c) (lens i (c_iter c)) (c_zip c) (nz_of c i) r.

(* the arguments of the body for row r: looped inputs at the decoded positions, every other
   input broadcast *)
Definition spec_arg (i : inputs) (m : imap) (ld : string * option Z) : Z :=
  match sassoc (fst ld) m with
  | Some ix => nth ix (listof i (fst ld)) 0%Z
  | None => match bval i (fst ld) with Some z => z | None => 0%Z end
  end.
Definition spec_args (c : cfg) (i : inputs) (r : nat) : list Z :=
  map (spec_arg i (entry_of c i r)) (b_ins (c_body c)).

(* row r: the looped input values, then what the body computes, under the renamed labels *)
Definition spec_row (c : cfg) (i : inputs) (r : nat) : list (string * Z) :=
  picked i (entry_of c i r) ++ combine (out_cols c) (b_fun (c_body c) (spec_args c i r)).

Definition spec_rows (c : cfg) (i : inputs) : list (list (string * Z)) :=
  map (spec_row c i) (seq 0 (nrows c i)).

Definition spec_list_names (c : cfg) : list string :=
  filter (fun l => mems l (looped c)) (in_labels c) ++ out_cols c.

Definition spec_table (c : cfg) (i : inputs) : table :=
  if c_df c then (looped c ++ out_cols c, map (map snd) (spec_rows c i))
  else (spec_list_names c, map (fun k => map (lookupz k) (spec_rows c i)) (spec_list_names c)).

Definition spec_calls (c : cfg) (i : inputs) : list (list Z) :=
  sort_calls (map (spec_args c i) (seq 0 (nrows c i))).

(* children: input nodes, then per row the body node and the item-access nodes it is the
   first to need, then the collectors -- a function of the current inputs only *)
Definition spec_children (c : cfg) (i : inputs) : list obs :=
  build_children c (map (entry_of c i) (seq 0 (nrows c i))).

(* the node after a rebuilding run on inputs i, as the property wants it *)
Definition built (c : cfg) (use_cache : bool) (i : inputs) : fstate :=
  {| s_in := i; s_children := spec_children c i;
     s_cached := if use_cache then Some i else None;
     s_out := Some (spec_table c i); s_failed := false; s_cache := use_cache |}.

Definition count_kind (k : string) (ch : list obs) : nat :=
  List.length (filter (fun o => match o with OL (OS k' :: _) => String.eqb k k' | _ => false end) ch).

(* well-formed loop layout: something is looped, iterated / zipped / broadcast is a partition
   of the body's inputs, the column map renames existing outputs, and all column names are
   distinct *)
Definition wf_cfg (c : cfg) : bool :=
  negb (isnil (looped c)) &&
  nodupb String.eqb (in_labels c) && nodupb String.eqb (looped c) &&
  subsetb String.eqb (looped c) (in_labels c) &&
  nodupb String.eqb (looped c ++ out_cols c) &&
  subsetb String.eqb (map fst (c_map c)) (b_outs (c_body c)).

(* the inputs are those of the loop node and every value present has the right shape: lists
   on looped labels, scalars elsewhere *)
Definition typed (c : cfg) (i : inputs) : bool :=
  list_eqb String.eqb (map fst i) (in_labels c) &&
  forallb (fun lv : string * option ival =>
             match snd lv with
             | Some (IL _) => mems (fst lv) (looped c)
             | Some (IZ _) => negb (mems (fst lv) (looped c))
             | None => true
             end) i.
(* ... and every input holds data *)
Definition shaped (c : cfg) (i : inputs) : bool := typed c i && all_data i.

(* the node function returns one value per output label *)
Definition body_total (c : cfg) : Prop :=
  forall a, List.length (b_fun (c_body c) a) = List.length (b_outs (c_body c)).

Definition mixed_zero_in (c : cfg) (i : inputs) : bool :=
  mixed_zero (c_iter c) (lens i (c_iter c)) (c_zip c) (lens i (c_zip c)).

(* ================================================================================== *)
(* Part 4: toy bodies and printing                                                     *)
Open Scope Z_scope.
Definition zn (l : list Z) (k : nat) : Z := nth k l 0.
Definition toy (k : nat) : body :=
  match k with
  | 0%nat => {| b_ins := [("a", None)]; b_outs := ["y"];
                b_fun := fun x => [2 * zn x 0 + 1] |}
  | 1%nat => {| b_ins := [("a", Some 5); ("b", Some 7)]; b_outs := ["s"; "p"];
                b_fun := fun x => [zn x 0 + 10 * zn x 1; zn x 0 * zn x 1] |}
  | 2%nat => {| b_ins := [("a", None); ("b", None); ("c", Some 1)]; b_outs := ["t"];
                b_fun := fun x => [zn x 0 + 10 * zn x 1 + 100 * zn x 2] |}
  | 3%nat => {| b_ins := [("a", None); ("b", None); ("c", Some 2); ("d", Some 3)]; b_outs := ["u"; "v"];
                b_fun := fun x => [zn x 0 + 10 * zn x 1 + 100 * zn x 2 + 1000 * zn x 3; zn x 0 - zn x 3] |}
  | 4%nat => {| b_ins := [("a", Some 4); ("b", Some 6)]; b_outs := ["a"; "q"];
                b_fun := fun x => [zn x 0 + zn x 1; zn x 0 * zn x 1 + 1] |}
  | 5%nat => {| b_ins := [("x", Some 1); ("y", Some 2); ("z", Some 3)]; b_outs := ["w"];
                b_fun := fun x => [zn x 0 * 100 + zn x 1 * 10 + zn x 2] |}
  (* two definitions of a body class of the same name "Scale" (a re-run notebook cell) *)
  | 6%nat => {| b_ins := [("xs", None); ("factor", Some 1)]; b_outs := ["y"];
                b_fun := fun x => [zn x 0 * 2 * zn x 1] |}
  | 7%nat => {| b_ins := [("xs", None); ("factor", Some 1)]; b_outs := ["y"];
                b_fun := fun x => [zn x 0 * 3 * zn x 1] |}
  | _ => {| b_ins := [("xs", None); ("ys", None); ("val", Some 1)]; b_outs := ["u"; "w"];
            b_fun := fun x => [zn x 0 + 10 * zn x 1 + 100 * zn x 2; zn x 0 * zn x 1] |}
  end.
Close Scope Z_scope.
(* __name__ of the toy body classes *)
Definition toy_name (k : nat) : string :=
  match k with
  | 0 => "T0" | 1 => "T1" | 2 => "T2" | 3 => "T3" | 4 => "T4" | 5 => "T5"
  | 6 => "Scale" | 7 => "Scale" | _ => "Pair"
  end.

Definition ozs (l : list Z) : obs := OL (map OZ l).
Definition oss (l : list string) : obs := OL (map OS l).

Definition obs_imap (m : imap) : obs := OL (map (fun ki : string * nat => OL [OS (fst ki); on (snd ki)]) m).
Definition exc_class (e : exc) : string :=
  match e with
  | ValueErrorNoKeys | ValueErrorAllZero | ValueErrorNotInput => "ValueError"
  | _ => exc_name e
  end.
Definition exc_tag (e : exc) : string :=
  match e with
  | ValueErrorNoKeys => "nokeys" | ValueErrorAllZero => "allzero" | ValueErrorNotInput => "notinput"
  | _ => ""
  end.

Definition obs_index_maps (r : res (list imap)) : obs :=
  match r with
  | Ok maps => OL [OS "ok"; OL (map obs_imap maps)]
  | Err e => OL [OS "exc"; OS (exc_class e); OS (exc_tag e)]
  end.

Definition obs_table (t : option table) : obs :=
  match t with
  | None => OL [OS "notdata"]
  | Some (names, m) => OL [oss names; OL (map ozs m)]
  end.

Definition obs_outcome (children : bool) (st : fstate) (o : outcome) : obs :=
  match o with
  | Returned t calls =>
      OL [OS "ok"; obs_table t; (if children then OL (s_children st) else OL []); OL (map ozs calls)]
  | Raised e failed calls => OL [OS "exc"; OS (exc_class e); OS (exc_tag e); ob failed; OL (map ozs calls)]
  end.

Definition outcome_failed (o : outcome) : bool :=
  match o with Raised _ true _ => true | _ => false end.

(* the driver stops a scenario at the first run that fails while running *)
Fixpoint run_steps (c : cfg) (st : fstate) (steps : list xstep) : list obs :=
  match steps with
  | [] => []
  | s :: r =>
      let (st', o) := do_xstep c st s in
      obs_outcome true st' o :: (if outcome_failed o then [] else run_steps c st' r)
  end.

Definition scenario (c : cfg) (steps : list xstep) : obs :=
  match create c with
  | Err e => OL [OL [OS "exc"; OS (exc_class e); OS (exc_tag e)]]
  | Ok st => OL (OL [OS "created"] :: run_steps c st steps)
  end.

(* StaticNode.iter / StaticNode.zip on a body node instance whose inputs hold [held]:
   a dataframe-form loop over the keyword arguments, run once; only the table comes back *)
Definition shortcut (b : body) (zip : bool) (held : list (string * option Z))
           (loops : list (string * list Z)) (colmap : list (string * string)) (order : list nat) : obs :=
  if existsb (fun l => negb (mems l (map fst b.(b_ins)))) (map fst loops) then
    OL [OS "exc"; OS (exc_class ValueErrorNotInput); OS (exc_tag ValueErrorNotInput); ob false; OL []]
  else
    let c := {| c_body := b; c_iter := if zip then [] else map fst loops;
                c_zip := if zip then map fst loops else []; c_df := true; c_map := colmap;
                c_cache := true |} in
    match create c with
    | Err e => OL [OS "exc"; OS (exc_class e); OS (exc_tag e); ob false; OL []]
    | Ok st =>
        let st1 := fold_left (fun s (lv : string * option Z) =>
                                if mems (fst lv) (map fst loops) then s
                                else match snd lv with
                                     | Some z => assign s (fst lv) (IZ z)
                                     | None => {| s_in := supd (fst lv) None (s_in s); s_children := s_children s;
                                                  s_cached := s_cached s; s_out := s_out s; s_failed := s_failed s;
                                                  s_cache := s_cache s |}
                                     end) held st in
        let st2 := assign_all st1 (map (fun lv : string * list Z => (fst lv, IL (snd lv))) loops) in
        let (st3, o) := run c order st2 in
        obs_outcome false st3 o
    end.

(* ================================================================================== *)
(* Part 5: for_node and the class registry of for_node_factory                           *)
From Coq Require Import Ascii.

(* str.title() on ASCII labels: a letter is upper-cased after a non-letter, lower-cased after
   a letter *)
Definition is_lower (a : ascii) : bool := let n := nat_of_ascii a in (97 <=? n) && (n <=? 122).
Definition is_upper (a : ascii) : bool := let n := nat_of_ascii a in (65 <=? n) && (n <=? 90).
Definition to_upper (a : ascii) : ascii := if is_lower a then ascii_of_nat (nat_of_ascii a - 32) else a.
Definition to_lower (a : ascii) : ascii := if is_upper a then ascii_of_nat (nat_of_ascii a + 32) else a.
Fixpoint title_go (prev_cased : bool) (s : string) : string :=
  match s with
  | EmptyString => EmptyString
  | String a r => String (if prev_cased then to_lower a else to_upper a)
                         (title_go (is_lower a || is_upper a) r)
  end.
Definition title (s : string) : string := title_go false s.

(* how the caller spells iter_on / zip_on: a bare string or a tuple of strings *)
Inductive spelling := SBare (s : string) | STuple (l : list string).
(* `(x,) if isinstance(x, str) else x` *)
Definition wrap (sp : spelling) : list string :=
  match sp with SBare s => [s] | STuple l => l end.

(* _for_node_class_name on wrapped field tuples *)
Definition class_name (bname : string) (it zp : list string) (df : bool) : string :=
  "For" ++ bname
  ++ (if isnil it then "" else "Iter" ++ String.concat "" (map title it))
  ++ (if isnil zp then "" else "Zip" ++ String.concat "" (map title zp))
  ++ (if df then "DataOut" else "ListOut").

Record request := {
  q_name  : string;        (* body_node_class.__name__ *)
  q_body  : body;
  q_iter  : spelling;
  q_zip   : spelling;
  q_df    : bool;
  q_map   : list (string * string);
  q_cache : bool
}.

Definition cfg_of (q : request) : cfg :=
  {| c_body := q_body q; c_iter := wrap (q_iter q); c_zip := wrap (q_zip q); c_df := q_df q;
     c_map := q_map q; c_cache := q_cache q |}.

(* _ClassFactory.class_registry of for_node_factory: class name -> the class made under it *)
Definition registry := list (string * cfg).

(* for_node(...) up to the class: wrap bare strings, clear the registry entry of the class
   name, then for_node_factory(...): wrap (again), name the class, hand back the registered
   class of that name or build (and check, and register) a new one *)
Definition for_node_class (reg : registry) (q : request) : registry * res cfg :=
  let it := wrap (q_iter q) in
  let zp := wrap (q_zip q) in
  let reg1 := del String.eqb (class_name (q_name q) it zp (q_df q)) reg in
  let name := class_name (q_name q) (wrap (q_iter q)) (wrap (q_zip q)) (q_df q) in
  match sassoc name reg1 with
  | Some c => (reg1, Ok c)
  | None =>
      match check_class (cfg_of q) with
      | Some e => (reg1, Err e)
      | None => (supd name (cfg_of q) reg1, Ok (cfg_of q))
      end
  end.

(* the instance of whatever class came back, then the steps *)
Definition scenario_of (r : res cfg) (steps : list xstep) : obs :=
  match r with
  | Err e => OL [OL [OS "exc"; OS (exc_class e); OS (exc_tag e)]]
  | Ok c => OL (OL [OS "created"] :: run_steps c (init_state c) steps)
  end.

(* type(node).__name__ as the caller can read it (nothing to read after a creation error) *)
Definition name_of (q : request) (r : res cfg) : string :=
  match r with
  | Ok _ => class_name (q_name q) (wrap (q_iter q)) (wrap (q_zip q)) (q_df q)
  | Err _ => ""
  end.

(* several for-nodes made and used one after the other in one process *)
Fixpoint session_go (reg : registry) (qs : list (request * list xstep)) : list obs :=
  match qs with
  | [] => []
  | (q, steps) :: r =>
      let (reg', c) := for_node_class reg q in
      OL [OS (name_of q c); scenario_of c steps] :: session_go reg' r
  end.
Definition session (qs : list (request * list xstep)) : obs := OL (session_go [] qs).
