(* StoreProofs.v -- proofs about Store.v (C19).  Plan:
   1. decidable equalities, association-list facts, `read` through one step / a step list
      as a function of the reads before (rstep / rsteps);
   2. the four paths of one location as SLOTS: a save only touches the slots of its
      location, so its effect on them is a closed computation (astep), everything else is
      framed;
   3. the refinement invariant [inv f r]: the final files of every location are exactly
      what the specification [spec] says is visible -- preserved by every operation,
      including every crash prefix of every save;
   4. the property's statements as corollaries; delete; directories. *)
From PW Require Import Base Store.

(* ---- 1. equalities --------------------------------------------------------------------- *)
Lemma fl_eqb_eq a b : fl_eqb a b = true <-> a = b.
Proof. destruct a, b; simpl; split; congruence. Qed.

Lemma dir_eqb_eq a b : dir_eqb a b = true <-> a = b.
Proof.
  destruct a as [x|], b as [y|]; simpl; try (split; congruence).
  rewrite String.eqb_eq. split; congruence.
Qed.
Lemma dir_eqb_refl a : dir_eqb a a = true.
Proof. apply dir_eqb_eq; reflexivity. Qed.

Lemma name_eqb_eq a b : name_eqb a b = true <-> a = b.
Proof.
  destruct a as [s f|s f|s], b as [s' f'|s' f'|s']; simpl; try (split; congruence).
  - rewrite andb_true_iff, fl_eqb_eq, String.eqb_eq. split; [intros [-> ->]; reflexivity|intros H; inversion H; auto].
  - rewrite andb_true_iff, fl_eqb_eq, String.eqb_eq. split; [intros [-> ->]; reflexivity|intros H; inversion H; auto].
  - rewrite String.eqb_eq. split; congruence.
Qed.

Lemma path_eqb_eq p q : path_eqb p q = true <-> p = q.
Proof.
  destruct p as [d n], q as [d' n']; unfold path_eqb; simpl.
  rewrite andb_true_iff, name_eqb_eq, dir_eqb_eq. split; [intros [-> ->]; reflexivity|intros H; inversion H; auto].
Qed.
Lemma path_eqb_refl p : path_eqb p p = true.
Proof. apply path_eqb_eq; reflexivity. Qed.
Lemma path_eqb_sym p q : path_eqb p q = path_eqb q p.
Proof.
  destruct (path_eqb p q) eqn:E.
  - apply path_eqb_eq in E; subst; symmetry; apply path_eqb_refl.
  - destruct (path_eqb q p) eqn:E'; [|reflexivity]. apply path_eqb_eq in E'; subst.
    rewrite path_eqb_refl in E; discriminate.
Qed.

Lemma loc_eqb_eq a b : loc_eqb a b = true <-> a = b.
Proof.
  destruct a as [d s], b as [d' s']; unfold loc_eqb; simpl.
  rewrite andb_true_iff, String.eqb_eq, dir_eqb_eq. split; [intros [-> ->]; reflexivity|intros H; inversion H; auto].
Qed.
Lemma loc_eqb_refl a : loc_eqb a a = true.
Proof. apply loc_eqb_eq; reflexivity. Qed.
Lemma loc_eqb_neq a b : a <> b -> loc_eqb a b = false.
Proof. intros H; destruct (loc_eqb a b) eqn:E; [apply loc_eqb_eq in E; contradiction|reflexivity]. Qed.

Lemma cls_eqb_eq a b : cls_eqb a b = true <-> a = b.
Proof. destruct a, b; simpl; split; congruence. Qed.

(* ---- association lists ------------------------------------------------------------------ *)
Section Assoc.
  Context {A B : Type} (eqb : A -> A -> bool).
  Hypothesis eqb_eq : forall a b, eqb a b = true <-> a = b.

  Lemma eqb_refl' a : eqb a a = true.
  Proof. apply eqb_eq; reflexivity. Qed.

  Lemma eqb_trans_l k k' x : eqb k' x = true -> eqb k x = eqb k k'.
  Proof. intros H; apply eqb_eq in H; subst; reflexivity. Qed.

  Lemma assoc_upd k k' (v : B) l :
    assoc eqb k (upd eqb k' v l) = if eqb k k' then Some v else assoc eqb k l.
  Proof.
    induction l as [|[x w] r IH]; simpl.
    - destruct (eqb k k'); reflexivity.
    - destruct (eqb k' x) eqn:E; simpl.
      + rewrite (eqb_trans_l k k' x E). destruct (eqb k k'); reflexivity.
      + rewrite IH. destruct (eqb k x) eqn:E2; [|reflexivity].
        destruct (eqb k k') eqn:E3; [|reflexivity].
        apply eqb_eq in E2, E3; subst. rewrite eqb_refl' in E; discriminate.
  Qed.

  Lemma assoc_del k k' (l : list (A * B)) :
    assoc eqb k (del eqb k' l) = if eqb k k' then None else assoc eqb k l.
  Proof.
    induction l as [|[x w] r IH]; simpl.
    - destruct (eqb k k'); reflexivity.
    - destruct (eqb k' x) eqn:E; simpl.
      + rewrite IH, (eqb_trans_l k k' x E). destruct (eqb k k'); reflexivity.
      + rewrite IH. destruct (eqb k x) eqn:E2; [|reflexivity].
        destruct (eqb k k') eqn:E3; [|reflexivity].
        apply eqb_eq in E2, E3; subst. rewrite eqb_refl' in E; discriminate.
  Qed.
End Assoc.

Lemma read_set p c f q : read (set_file p c f) q = if path_eqb q p then Some c else read f q.
Proof. unfold read, set_file; simpl. apply assoc_upd, path_eqb_eq. Qed.
Lemma read_rm p f q : read (rm_file p f) q = if path_eqb q p then None else read f q.
Proof. unfold read, rm_file; simpl. apply assoc_del, path_eqb_eq. Qed.

(* ---- read through steps ------------------------------------------------------------------- *)
Definition rfun := path -> option content.

Definition rstep (s : step) (r : rfun) : rfun := fun q =>
  match s with
  | SCreate p => if path_eqb q p then Some (Partial 0) else r q
  | SWrite p c _ => if path_eqb q p then Some c else r q
  | SRename p p' =>
      match r p with
      | Some c => if path_eqb q p' then Some c else if path_eqb q p then None else r q
      | None => r q
      end
  | SUnlink p => if path_eqb q p then None else r q
  | _ => r q
  end.

Fixpoint rsteps (ss : list step) (r : rfun) : rfun :=
  match ss with [] => r | s :: t => rsteps t (rstep s r) end.

Lemma rstep_ext s r r' : (forall q, r q = r' q) -> forall q, rstep s r q = rstep s r' q.
Proof. intros H q; destruct s; simpl; rewrite ?H; reflexivity. Qed.
Lemma rsteps_ext ss : forall r r', (forall q, r q = r' q) -> forall q, rsteps ss r q = rsteps ss r' q.
Proof. induction ss as [|s t IH]; intros r r' H q; simpl; [apply H|]. apply IH, rstep_ext, H. Qed.

Lemma files_rmdir f d : files (fs_of (exec (SRmdirIfEmpty d) f)) = files f.
Proof.
  unfold fs_of; simpl. destruct (dir_exists f d); [|reflexivity].
  destruct (dir_empty f d); [|reflexivity]. destruct d; reflexivity.
Qed.

Lemma read_exec s f q : read (fs_of (exec s f)) q = rstep s (read f) q.
Proof.
  destruct s as [d|p|p c n|p|p p'|p|d]; simpl; unfold fs_of; simpl.
  - destruct d as [x|]; [|reflexivity]. destruct (mems x (dirs f)); reflexivity.
  - apply read_set.
  - apply read_set.
  - reflexivity.
  - destruct (read f p) as [c|]; [|reflexivity]. rewrite read_set, read_rm. reflexivity.
  - apply read_rm.
  - unfold read. change (fst (fst (exec (SRmdirIfEmpty d) f))) with (fs_of (exec (SRmdirIfEmpty d) f)).
    rewrite files_rmdir. reflexivity.
Qed.

Lemma run_steps_cons s t f :
  fs_of (run_steps (s :: t) f) = fs_of (run_steps t (fs_of (exec s f))).
Proof.
  unfold fs_of; simpl. destruct (exec s f) as [[f1 e1] t1]; simpl.
  destruct (run_steps t f1) as [[f2 e2] t2]; reflexivity.
Qed.

Lemma read_run_steps ss : forall f q, read (fs_of (run_steps ss f)) q = rsteps ss (read f) q.
Proof.
  induction ss as [|s t IH]; intros f q; [reflexivity|].
  rewrite run_steps_cons, IH. simpl. apply rsteps_ext. intros q'; apply read_exec.
Qed.

Definition rcrash (ss : list step) (i k : nat) (r : rfun) : rfun := fun q =>
  let r1 := rsteps (firstn i ss) r in
  match nth_error ss i with
  | Some (SWrite p c n) => if Nat.ltb k n then (if path_eqb q p then Some (Partial k) else r1 q) else r1 q
  | _ => r1 q
  end.

Lemma read_crash_at ss i k f q : read (fst (crash_at ss i k f)) q = rcrash ss i k (read f) q.
Proof.
  unfold crash_at, rcrash.
  pose proof (read_run_steps (firstn i ss) f) as H. unfold fs_of in H.
  destruct (run_steps (firstn i ss) f) as [[f1 e1] t1]; simpl in H.
  destruct (nth_error ss i) as [[d|p|p c n|p|p p'|p|d]|]; simpl; try apply H.
  destruct (Nat.ltb k n); simpl; [|apply H]. rewrite read_set, H. reflexivity.
Qed.
