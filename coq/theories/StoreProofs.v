(* StoreProofs.v -- proofs about Store.v (C19).  Plan:
   1. decidable equalities, association-list facts, `read` through one step / a step list
      as a function of the reads before (rstep / rsteps);
   2. the four paths of one location as SLOTS: a save only touches the slots of its
      location, so its effect on them is a closed computation (astep), everything else is
      framed;
   3. the refinement invariant [inv f r]: the final files of every location are exactly
      what the specification [spec] says is visible -- preserved by every operation,
      including every crash prefix of every save;
   4. the property's statements as corollaries; delete; directories. *)
From PW Require Import Base Store.

(* ---- 1. equalities --------------------------------------------------------------------- *)
Lemma fl_eqb_eq a b : fl_eqb a b = true <-> a = b.
Proof. destruct a, b; simpl; split; congruence. Qed.

Lemma dir_eqb_eq a b : dir_eqb a b = true <-> a = b.
Proof.
  destruct a as [x|], b as [y|]; simpl; try (split; congruence).
  rewrite String.eqb_eq. split; congruence.
Qed.
Lemma dir_eqb_refl a : dir_eqb a a = true.
Proof. apply dir_eqb_eq; reflexivity. Qed.

Lemma name_eqb_eq a b : name_eqb a b = true <-> a = b.
Proof.
  destruct a as [s f|s f|s], b as [s' f'|s' f'|s']; simpl; try (split; congruence).
  - rewrite andb_true_iff, fl_eqb_eq, String.eqb_eq. split; [intros [-> ->]; reflexivity|intros H; inversion H; auto].
  - rewrite andb_true_iff, fl_eqb_eq, String.eqb_eq. split; [intros [-> ->]; reflexivity|intros H; inversion H; auto].
  - rewrite String.eqb_eq. split; congruence.
Qed.

Lemma path_eqb_eq p q : path_eqb p q = true <-> p = q.
Proof.
  destruct p as [d n], q as [d' n']; unfold path_eqb; simpl.
  rewrite andb_true_iff, name_eqb_eq, dir_eqb_eq. split; [intros [-> ->]; reflexivity|intros H; inversion H; auto].
Qed.
Lemma path_eqb_refl p : path_eqb p p = true.
Proof. apply path_eqb_eq; reflexivity. Qed.
Lemma path_eqb_sym p q : path_eqb p q = path_eqb q p.
Proof.
  destruct (path_eqb p q) eqn:E.
  - apply path_eqb_eq in E; subst; symmetry; apply path_eqb_refl.
  - destruct (path_eqb q p) eqn:E'; [|reflexivity]. apply path_eqb_eq in E'; subst.
    rewrite path_eqb_refl in E; discriminate.
Qed.

Lemma loc_eqb_eq a b : loc_eqb a b = true <-> a = b.
Proof.
  destruct a as [d s], b as [d' s']; unfold loc_eqb; simpl.
  rewrite andb_true_iff, String.eqb_eq, dir_eqb_eq. split; [intros [-> ->]; reflexivity|intros H; inversion H; auto].
Qed.
Lemma loc_eqb_refl a : loc_eqb a a = true.
Proof. apply loc_eqb_eq; reflexivity. Qed.
Lemma loc_eqb_neq a b : a <> b -> loc_eqb a b = false.
Proof. intros H; destruct (loc_eqb a b) eqn:E; [apply loc_eqb_eq in E; contradiction|reflexivity]. Qed.

Lemma cls_eqb_eq a b : cls_eqb a b = true <-> a = b.
Proof. destruct a, b; simpl; split; congruence. Qed.

(* ---- association lists ------------------------------------------------------------------ *)
Section Assoc.
  Context {A B : Type} (eqb : A -> A -> bool).
  Hypothesis eqb_eq : forall a b, eqb a b = true <-> a = b.

  Lemma eqb_refl' a : eqb a a = true.
  Proof. apply eqb_eq; reflexivity. Qed.

  Lemma eqb_trans_l k k' x : eqb k' x = true -> eqb k x = eqb k k'.
  Proof. intros H; apply eqb_eq in H; subst; reflexivity. Qed.

  Lemma assoc_upd k k' (v : B) l :
    assoc eqb k (upd eqb k' v l) = if eqb k k' then Some v else assoc eqb k l.
  Proof.
    induction l as [|[x w] r IH]; simpl.
    - destruct (eqb k k'); reflexivity.
    - destruct (eqb k' x) eqn:E; simpl.
      + rewrite (eqb_trans_l k k' x E). destruct (eqb k k'); reflexivity.
      + rewrite IH. destruct (eqb k x) eqn:E2; [|reflexivity].
        destruct (eqb k k') eqn:E3; [|reflexivity].
        apply eqb_eq in E2, E3; subst. rewrite eqb_refl' in E; discriminate.
  Qed.

  Lemma assoc_del k k' (l : list (A * B)) :
    assoc eqb k (del eqb k' l) = if eqb k k' then None else assoc eqb k l.
  Proof.
    induction l as [|[x w] r IH]; simpl.
    - destruct (eqb k k'); reflexivity.
    - destruct (eqb k' x) eqn:E; simpl.
      + rewrite IH, (eqb_trans_l k k' x E). destruct (eqb k k'); reflexivity.
      + rewrite IH. destruct (eqb k x) eqn:E2; [|reflexivity].
        destruct (eqb k k') eqn:E3; [|reflexivity].
        apply eqb_eq in E2, E3; subst. rewrite eqb_refl' in E; discriminate.
  Qed.
End Assoc.

Lemma read_set p c f q : read (set_file p c f) q = if path_eqb q p then Some c else read f q.
Proof. unfold read, set_file; simpl. apply assoc_upd, path_eqb_eq. Qed.
Lemma read_rm p f q : read (rm_file p f) q = if path_eqb q p then None else read f q.
Proof. unfold read, rm_file; simpl. apply assoc_del, path_eqb_eq. Qed.

(* ---- read through steps ------------------------------------------------------------------- *)
Definition rfun := path -> option content.

Definition rstep (s : step) (r : rfun) : rfun := fun q =>
  match s with
  | SCreate p => if path_eqb q p then Some (Partial 0) else r q
  | SWrite p c _ => if path_eqb q p then Some c else r q
  | SRename p p' =>
      match r p with
      | Some c => if path_eqb q p' then Some c else if path_eqb q p then None else r q
      | None => r q
      end
  | SUnlink p => if path_eqb q p then None else r q
  | _ => r q
  end.

Fixpoint rsteps (ss : list step) (r : rfun) : rfun :=
  match ss with [] => r | s :: t => rsteps t (rstep s r) end.

Lemma rstep_ext s r r' : (forall q, r q = r' q) -> forall q, rstep s r q = rstep s r' q.
Proof. intros H q; destruct s; simpl; rewrite ?H; reflexivity. Qed.
Lemma rsteps_ext ss : forall r r', (forall q, r q = r' q) -> forall q, rsteps ss r q = rsteps ss r' q.
Proof. induction ss as [|s t IH]; intros r r' H q; simpl; [apply H|]. apply IH, rstep_ext, H. Qed.

Lemma files_rmdir f d : files (fs_of (exec (SRmdirIfEmpty d) f)) = files f.
Proof.
  unfold fs_of; simpl. destruct d as [x|]; [|reflexivity]. destruct (mems x (dirs f)); [|reflexivity].
  destruct (dir_empty f (Some x)); reflexivity.
Qed.

Lemma read_exec s f q : read (fs_of (exec s f)) q = rstep s (read f) q.
Proof.
  destruct s as [d|p|p c n|p|p p'|p|d].
  7: { unfold read. rewrite files_rmdir. reflexivity. }
  all: simpl; unfold fs_of; simpl.
  - destruct d as [x|]; [|reflexivity]. destruct (mems x (dirs f)); reflexivity.
  - apply read_set.
  - apply read_set.
  - reflexivity.
  - destruct (read f p) as [c|]; [|reflexivity]. rewrite read_set, read_rm. reflexivity.
  - apply read_rm.
Qed.

Lemma run_steps_cons s t f :
  fs_of (run_steps (s :: t) f) = fs_of (run_steps t (fs_of (exec s f))).
Proof.
  unfold fs_of; simpl. destruct (exec s f) as [[f1 e1] t1]; simpl.
  destruct (run_steps t f1) as [[f2 e2] t2]; reflexivity.
Qed.

Lemma read_run_steps ss : forall f q, read (fs_of (run_steps ss f)) q = rsteps ss (read f) q.
Proof.
  induction ss as [|s t IH]; intros f q; [reflexivity|].
  rewrite run_steps_cons, IH. simpl. apply rsteps_ext. intros q'; apply read_exec.
Qed.

Definition rcrash (ss : list step) (i k : nat) (r : rfun) : rfun := fun q =>
  let r1 := rsteps (firstn i ss) r in
  match nth_error ss i with
  | Some (SWrite p c n) => if Nat.ltb k n then (if path_eqb q p then Some (Partial k) else r1 q) else r1 q
  | _ => r1 q
  end.

Lemma read_crash_at ss i k f q : read (fst (crash_at ss i k f)) q = rcrash ss i k (read f) q.
Proof.
  unfold crash_at, rcrash.
  pose proof (read_run_steps (firstn i ss) f) as H. unfold fs_of in H.
  destruct (run_steps (firstn i ss) f) as [[f1 e1] t1]; simpl in H.
  destruct (nth_error ss i) as [[d|p|p c n|p|p p'|p|d]|]; simpl; try apply H.
  destruct (Nat.ltb k n); simpl; [|apply H]. rewrite read_set, H. reflexivity.
Qed.

(* ---- 2. slots: the four paths of one location ------------------------------------------------ *)
Inductive slot := FP | FC | TP | TC.      (* final .pckl, final .cpckl, tmp .pckl, tmp .cpckl *)
Definition slot_eqb (a b : slot) : bool :=
  match a, b with FP, FP => true | FC, FC => true | TP, TP => true | TC, TC => true | _, _ => false end.
Definition spath (l : loc) (s : slot) : path :=
  match s with FP => fin l Pk | FC => fin l Cp | TP => tmp l Pk | TC => tmp l Cp end.

Lemma spath_eqb l a b : path_eqb (spath l a) (spath l b) = slot_eqb a b.
Proof.
  destruct l as [d s]. destruct a, b; unfold path_eqb, spath, fin, tmp; simpl;
    rewrite ?String.eqb_refl, ?dir_eqb_refl; reflexivity.
Qed.

Lemma spath_other l l' a b : loc_eqb l' l = false -> path_eqb (spath l' a) (spath l b) = false.
Proof.
  destruct l as [d s], l' as [d' s']. unfold loc_eqb; simpl. intros H.
  destruct a, b; unfold path_eqb, spath, fin, tmp; simpl; try reflexivity; exact H.
Qed.

Lemma spath_user l d u b : path_eqb (d, NUser u) (spath l b) = false.
Proof. destruct b; reflexivity. Qed.

Inductive astep :=
| AMkdir | ACreate (s : slot) | AWrite (s : slot) (c : content) (n : nat) | AClose (s : slot)
| ARename (s t : slot) | AUnlink (s : slot) | ARmdir.

Definition conc (l : loc) (a : astep) : step :=
  match a with
  | AMkdir => SMkdir (fst l)
  | ACreate s => SCreate (spath l s)
  | AWrite s c n => SWrite (spath l s) c n
  | AClose s => SClose (spath l s)
  | ARename s t => SRename (spath l s) (spath l t)
  | AUnlink s => SUnlink (spath l s)
  | ARmdir => SRmdirIfEmpty (fst l)
  end.

Definition aview := slot -> option content.
Definition arstep (a : astep) (r : aview) : aview := fun q =>
  match a with
  | ACreate p => if slot_eqb q p then Some (Partial 0) else r q
  | AWrite p c _ => if slot_eqb q p then Some c else r q
  | ARename p p' =>
      match r p with
      | Some c => if slot_eqb q p' then Some c else if slot_eqb q p then None else r q
      | None => r q
      end
  | AUnlink p => if slot_eqb q p then None else r q
  | _ => r q
  end.
Fixpoint arsteps (ss : list astep) (r : aview) : aview :=
  match ss with [] => r | s :: t => arsteps t (arstep s r) end.

Lemma rstep_conc l a (F : rfun) (r : aview) :
  (forall sl, F (spath l sl) = r sl) -> forall sl, rstep (conc l a) F (spath l sl) = arstep a r sl.
Proof.
  intros H sl. destruct a; simpl; rewrite ?spath_eqb, ?H; try reflexivity.
Qed.

Lemma rsteps_conc l ss : forall (F : rfun) (r : aview),
  (forall sl, F (spath l sl) = r sl) -> forall sl, rsteps (map (conc l) ss) F (spath l sl) = arsteps ss r sl.
Proof.
  induction ss as [|a t IH]; intros F r H sl; simpl; [apply H|].
  apply IH. intros sl'. apply rstep_conc, H.
Qed.

Lemma rstep_frame l a (F : rfun) q :
  (forall sl, path_eqb q (spath l sl) = false) -> rstep (conc l a) F q = F q.
Proof.
  intros H. destruct a; simpl; rewrite ?H; try reflexivity.
  destruct (F (spath l s)); reflexivity.
Qed.

Lemma rsteps_frame l ss : forall (F : rfun) q,
  (forall sl, path_eqb q (spath l sl) = false) -> rsteps (map (conc l) ss) F q = F q.
Proof.
  induction ss as [|a t IH]; intros F q H; simpl; [reflexivity|].
  rewrite IH by exact H. apply rstep_frame, H.
Qed.

Definition acrash (ss : list astep) (i k : nat) (r : aview) : aview := fun q =>
  let r1 := arsteps (firstn i ss) r in
  match nth_error ss i with
  | Some (AWrite p c n) => if Nat.ltb k n then (if slot_eqb q p then Some (Partial k) else r1 q) else r1 q
  | _ => r1 q
  end.

Lemma nth_error_map' {A B} (f : A -> B) l : forall i, nth_error (map f l) i = option_map f (nth_error l i).
Proof. induction l as [|x r IH]; intros [|i]; simpl; auto. Qed.

Lemma rcrash_conc l ss i k (F : rfun) (r : aview) :
  (forall sl, F (spath l sl) = r sl) ->
  forall sl, rcrash (map (conc l) ss) i k F (spath l sl) = acrash ss i k r sl.
Proof.
  intros H sl. unfold rcrash, acrash. rewrite firstn_map, nth_error_map'.
  pose proof (rsteps_conc l (firstn i ss) F r H sl) as E.
  destruct (nth_error ss i) as [[| | s c n | | | |]|]; simpl; try exact E.
  destruct (Nat.ltb k n); [|exact E]. rewrite spath_eqb, E. reflexivity.
Qed.

Lemma rcrash_frame l ss i k (F : rfun) q :
  (forall sl, path_eqb q (spath l sl) = false) -> rcrash (map (conc l) ss) i k F q = F q.
Proof.
  intros H. unfold rcrash. rewrite firstn_map, nth_error_map', rsteps_frame by exact H.
  destruct (nth_error ss i) as [[| | s c n | | | |]|]; simpl; try reflexivity.
  rewrite H. destruct (Nat.ltb k n); reflexivity.
Qed.

(* the save program over slots *)
Definition tslot (fl : flavour) : slot := match fl with Pk => TP | Cp => TC end.
Definition fslot (fl : flavour) : slot := match fl with Pk => FP | Cp => FC end.

Definition aattack (fb : bool) (c : cls) (v : Z) (k : kind) (n g : nat) (fl : flavour) : list astep :=
  if pickles k fl then
    [ACreate (tslot fl); AWrite (tslot fl) (Full c v) n; AClose (tslot fl); ARename (tslot fl) (fslot fl)]
    ++ (if fb then [AUnlink (fslot (other fl))] else [])
  else [ACreate (tslot fl); AWrite (tslot fl) (Partial g) g; AClose (tslot fl); AUnlink (tslot fl)].

(* sub = the location's directory is a sub-directory (for the cwd there is no clean-up step) *)
Definition asave_steps (sub : bool) (fb : bool) (c : cls) (v : Z) (k : kind) (n g : nat) : list astep :=
  [AMkdir] ++ aattack fb c v k n g Pk
  ++ (if pickles k Pk then [] else if fb then aattack fb c v k n g Cp else [])
  ++ (if sub then [ARmdir] else []).

Lemma save_steps_conc l fb c v k n g :
  save_steps l fb c v k n g = map (conc l) (asave_steps (isSome (fst l)) fb c v k n g).
Proof. destruct l as [[d|] s]; destruct k, fb; reflexivity. Qed.

Lemma save_steps_length l fb c v k n g : List.length (save_steps l fb c v k n g) <= 11.
Proof. destruct l as [[d|] s]; destruct k, fb; simpl; lia. Qed.

(* ---- 3. the refinement between files and the specification ------------------------------------- *)
Definition good (x : option content) : Prop := forall k, x <> Some (Partial k).

Definition rel (w : aview) (x : option (flavour * cls * Z)) : Prop :=
  match x with
  | Some (Pk, c, v) => w FP = Some (Full c v) /\ good (w FC)
  | Some (Cp, c, v) => w FP = None /\ w FC = Some (Full c v)
  | None => w FP = None /\ w FC = None
  end.

Lemma good_none : good None. Proof. intros k; discriminate. Qed.
Lemma good_full c v : good (Some (Full c v)). Proof. intros k; discriminate. Qed.
#[export] Hint Resolve good_none good_full : store.

Local Arguments Nat.ltb : simpl never.

Ltac rel_case :=
  unfold acrash; cbn;
  repeat match goal with |- context [Nat.ltb ?a ?b] => destruct (Nat.ltb a b) end; cbn;
  repeat match goal with
         | H : ?w FP = _ |- _ => rewrite H
         | H : ?w FC = _ |- _ => rewrite H
         end; cbn; auto with store.

Lemma asave_rel sub fb c v kd n g i k (w : aview) x :
  rel w x ->
  rel (acrash (asave_steps sub fb c v kd n g) i k w)
      (if committed kd fb (is_pk x) (Some (i, k)) then Some (save_flavour kd, c, v) else x).
Proof.
  intros H.
  destruct x as [[[[|] c0] v0]|]; simpl in H; destruct H as [H1 H2].
  - (* visible .pckl *)
    assert (G : w FC = None \/ exists c' v', w FC = Some (Full c' v')).
    { destruct (w FC) as [[c' v'|k']|]; [right; eauto|exfalso; exact (H2 k' eq_refl)|left; reflexivity]. }
    clear H2. destruct G as [H2|(c' & v' & H2)];
    destruct sub, kd, fb; do 12 (destruct i as [|i]; [rel_case|]); rel_case.
  - destruct sub, kd, fb; do 12 (destruct i as [|i]; [rel_case|]); rel_case.
  - destruct sub, kd, fb; do 12 (destruct i as [|i]; [rel_case|]); rel_case.
Qed.

Definition view (f : fs) (l : loc) : aview := fun sl => read f (spath l sl).
Definition inv (f : fs) (r : vis) : Prop := forall l, rel (view f l) (r l).

Lemma rel_ext (w w' : aview) x : (forall sl, w' sl = w sl) -> rel w x -> rel w' x.
Proof. intros E. unfold rel. rewrite !E. auto. Qed.

Lemma rel_load f l x : rel (view f l) x -> load_file f l = lres_of x.
Proof.
  unfold load_file, view; simpl. change (fin l Pk) with (spath l FP). change (fin l Cp) with (spath l FC).
  destruct x as [[[[|] c] v]|]; simpl; intros [H1 H2]; rewrite ?H1, ?H2; reflexivity.
Qed.

Lemma rel_has f l x : rel (view f l) x -> has_saved f l = isSome x.
Proof.
  unfold has_saved, view; simpl. change (fin l Pk) with (spath l FP). change (fin l Cp) with (spath l FC).
  destruct x as [[[[|] c] v]|]; simpl; intros [H1 H2]; rewrite ?H1, ?H2; reflexivity.
Qed.

Lemma rel_good f l x : rel (view f l) x -> good (read f (fin l Pk)) /\ good (read f (fin l Cp)).
Proof.
  unfold view; simpl. change (fin l Pk) with (spath l FP). change (fin l Cp) with (spath l FC).
  destruct x as [[[[|] c] v]|]; simpl; intros [H1 H2]; rewrite ?H1, ?H2; auto with store.
Qed.

Lemma rel_is_pk f l x : rel (view f l) x -> is_pk x = isSome (read f (fin l Pk)).
Proof.
  unfold view; simpl. change (fin l Pk) with (spath l FP).
  destruct x as [[[[|] c] v]|]; simpl; intros [H1 H2]; rewrite H1; reflexivity.
Qed.

(* a save, crashed or not, is a crash prefix *)
Definition crash_i (crash : option (nat * nat)) : nat := match crash with None => 12 | Some (i, _) => i end.
Definition crash_k (crash : option (nat * nat)) : nat := match crash with None => 0 | Some (_, k) => k end.

Lemma crash_at_all ss i k f : List.length ss <= i ->
  crash_at ss i k f = (let '(f1, _, t) := run_steps ss f in (f1, t)).
Proof.
  intros H. unfold crash_at. rewrite firstn_all2 by exact H.
  assert (E : nth_error ss i = None) by (apply nth_error_None; exact H). rewrite E.
  destruct (run_steps ss f) as [[f1 e1] t1]; reflexivity.
Qed.

Lemma save_fs l fb c v kd n g crash f :
  fst (fst (save l fb c v kd n g crash f))
  = fst (crash_at (save_steps l fb c v kd n g) (crash_i crash) (crash_k crash) f).
Proof.
  unfold save. cbv zeta. pose proof (save_steps_length l fb c v kd n g) as L.
  set (ss := save_steps l fb c v kd n g) in *. clearbody ss.
  destruct crash as [[i j]|]; unfold crash_i, crash_k.
  - destruct (Nat.ltb i (List.length ss)) eqn:E.
    + destruct (crash_at ss i j f) as [f1 t]; reflexivity.
    + apply Nat.ltb_ge in E. rewrite crash_at_all by exact E.
      destruct (run_steps ss f) as [[f1 e1] t1]; reflexivity.
  - rewrite crash_at_all by lia. destruct (run_steps ss f) as [[f1 e1] t1]; reflexivity.
Qed.

Lemma committed_crash kd fb sh crash :
  committed kd fb sh crash = committed kd fb sh (Some (crash_i crash, crash_k crash)).
Proof. destruct crash as [[i j]|]; [reflexivity|]. destruct kd, fb, sh; reflexivity. Qed.

Lemma view_save_same l fb c v kd n g i k f sl :
  view (fst (crash_at (save_steps l fb c v kd n g) i k f)) l sl
  = acrash (asave_steps (isSome (fst l)) fb c v kd n g) i k (view f l) sl.
Proof.
  unfold view. rewrite read_crash_at, save_steps_conc. apply rcrash_conc. reflexivity.
Qed.

Lemma view_save_other l l' fb c v kd n g i k f sl :
  loc_eqb l' l = false ->
  view (fst (crash_at (save_steps l fb c v kd n g) i k f)) l' sl = view f l' sl.
Proof.
  intros H. unfold view. rewrite read_crash_at, save_steps_conc. apply rcrash_frame.
  intros sl'. apply spath_other, H.
Qed.

Lemma read_save_user l fb c v kd n g i k f d u :
  read (fst (crash_at (save_steps l fb c v kd n g) i k f)) (d, NUser u) = read f (d, NUser u).
Proof.
  rewrite read_crash_at, save_steps_conc. apply rcrash_frame. intros sl. apply spath_user.
Qed.

(* delete *)
Definition adelete_steps (sub : bool) : list astep :=
  [AUnlink FP; AUnlink TP; AUnlink FC; AUnlink TC] ++ (if sub then [ARmdir] else []).
Lemma delete_steps_conc l : delete_steps l = map (conc l) (adelete_steps (isSome (fst l))).
Proof. destruct l as [[d|] s]; reflexivity. Qed.

Lemma view_delete_same l f sl : view (fs_of (delete l f)) l sl = None.
Proof.
  unfold view, delete. rewrite read_run_steps, delete_steps_conc.
  rewrite (rsteps_conc l _ (read f) (fun sl => read f (spath l sl))) by reflexivity.
  destruct (isSome (fst l)), sl; reflexivity.
Qed.

Lemma view_delete_other l l' f sl : loc_eqb l' l = false -> view (fs_of (delete l f)) l' sl = view f l' sl.
Proof.
  intros H. unfold view, delete. rewrite read_run_steps, delete_steps_conc. apply rsteps_frame.
  intros sl'. apply spath_other, H.
Qed.

Lemma read_delete_user l f d u : read (fs_of (delete l f)) (d, NUser u) = read f (d, NUser u).
Proof.
  unfold delete. rewrite read_run_steps, delete_steps_conc. apply rsteps_frame. intros sl. apply spath_user.
Qed.

Lemma rel_delete f l : rel (view (fs_of (delete l f)) l) None.
Proof. split; apply view_delete_same. Qed.

Lemma view_touch d s f l sl : view (touch d s f) l sl = view f l sl.
Proof.
  unfold view, touch. rewrite read_set, path_eqb_sym, spath_user, read_exec. reflexivity.
Qed.

Lemma ctor_fs label c del auto f :
  fst (fst (ctor label c del auto f)) = if del then fs_of (delete (default_loc label) f) else f.
Proof.
  unfold ctor, fs_of. destruct del.
  - destruct (delete (default_loc label) f) as [[f1 e] t]; simpl.
    destruct e; [reflexivity|]. destruct (auto && has_saved f1 (default_loc label)); reflexivity.
  - simpl. destruct (auto && has_saved f (default_loc label)); reflexivity.
Qed.

Lemma vset_same l x r : vset l x r l = x.
Proof. unfold vset. rewrite loc_eqb_refl. reflexivity. Qed.
Lemma vset_other l l' x r : loc_eqb l' l = false -> vset l x r l' = r l'.
Proof. unfold vset. intros ->. reflexivity. Qed.

Lemma inv_delete f r l : inv f r -> inv (fs_of (delete l f)) (vset l None r).
Proof.
  intros H l'. destruct (loc_eqb l' l) eqn:E.
  - apply loc_eqb_eq in E; subst l'. rewrite vset_same. apply rel_delete.
  - rewrite vset_other by exact E. eapply rel_ext; [|apply H]. intros sl. apply view_delete_other, E.
Qed.

Lemma inv_apply o f r : inv f r -> inv (apply o f) (spec_step o r).
Proof.
  intros H. destruct o as [l fb c v kd n g crash|l c w|label c del auto|l|d s]; simpl.
  - rewrite save_fs, committed_crash. intros l'. destruct (loc_eqb l' l) eqn:E.
    + apply loc_eqb_eq in E; subst l'.
      eapply rel_ext; [intros sl; apply view_save_same|].
      pose proof (asave_rel (isSome (fst l)) fb c v kd n g (crash_i crash) (crash_k crash) _ _ (H l)) as A.
      destruct (committed kd fb (is_pk (r l)) (Some (crash_i crash, crash_k crash))).
      * rewrite vset_same. exact A.
      * exact A.
    + eapply rel_ext; [intros sl; apply view_save_other, E|].
      destruct (committed kd fb (is_pk (r l)) (Some (crash_i crash, crash_k crash))).
      * rewrite vset_other by exact E. apply H.
      * apply H.
  - exact H.
  - rewrite ctor_fs. destruct del; [apply inv_delete, H|exact H].
  - apply inv_delete, H.
  - intros l. eapply rel_ext; [intros sl; apply view_touch|apply H].
Qed.

Lemma inv_run_from ops : forall f r, inv f r ->
  inv (run_from f ops) (fold_left (fun r o => spec_step o r) ops r).
Proof.
  induction ops as [|o t IH]; intros f r H; simpl; [exact H|]. apply IH, inv_apply, H.
Qed.

Lemma inv0 : inv fs0 vis0.
Proof. intros l. split; reflexivity. Qed.

Theorem inv_run ops : inv (run ops) (spec ops).
Proof. apply inv_run_from, inv0. Qed.

(* ---- 4. the statements ------------------------------------------------------------------------ *)
Lemma run_snoc ops o : run (ops ++ [o]) = apply o (run ops).
Proof. unfold run, run_from. rewrite fold_left_app. reflexivity. Qed.
Lemma spec_snoc ops o : spec (ops ++ [o]) = spec_step o (spec ops).
Proof. unfold spec. rewrite fold_left_app. reflexivity. Qed.

Theorem history_load ops l : load_file (run ops) l = lres_of (spec ops l).
Proof. apply rel_load, inv_run. Qed.

Theorem history_has ops l : has_saved (run ops) l = isSome (spec ops l).
Proof. apply rel_has, inv_run. Qed.

Theorem history_no_partial ops d s fl k : read (run ops) (d, NFinal s fl) <> Some (Partial k).
Proof.
  destruct (rel_good _ _ _ (inv_run ops (d, s))) as [G1 G2]. destruct fl; [apply G1|apply G2].
Qed.

Definition adopt (x : option (flavour * cls * Z)) (nd : node) (missing : nres) : node * nres :=
  match x with
  | None => (nd, missing)
  | Some (_, c', v) => if cls_eqb c' (fst nd) then ((c', v), NOk) else (nd, NTypeErr)
  end.

Theorem history_node_load ops l nd : node_load (run ops) l nd = adopt (spec ops l) nd NNotFound.
Proof.
  unfold node_load. rewrite history_load. destruct (spec ops l) as [[[fl c'] v]|]; reflexivity.
Qed.

Theorem history_autoload ops label c :
  snd (fst (ctor label c false true (run ops))) = adopt (spec ops (default_loc label)) (c, 0%Z) NOk.
Proof.
  unfold ctor. simpl. rewrite history_has.
  pose proof (history_node_load ops (default_loc label) (c, 0%Z)) as E.
  destruct (spec ops (default_loc label)) as [[[fl c'] v]|]; simpl in *; [rewrite E|]; reflexivity.
Qed.

(* final files are literally untouched by a failing save and by any save cut before its rename *)
Definition rename_idx (kd : kind) : nat := match kd with KOk => 5 | _ => 9 end.

Ltac same_case :=
  unfold acrash; cbn;
  repeat match goal with |- context [Nat.ltb ?a ?b] => destruct (Nat.ltb a b) end; cbn; auto.

Lemma asave_untouched sub fb c v kd n g i k (w : aview) :
  save_ok kd fb = false \/ i < rename_idx kd ->
  acrash (asave_steps sub fb c v kd n g) i k w FP = w FP /\ acrash (asave_steps sub fb c v kd n g) i k w FC = w FC.
Proof.
  intros [H|H].
  - destruct sub, kd, fb; try discriminate H; do 12 (destruct i as [|i]; [same_case|]); same_case.
  - destruct sub, kd, fb; simpl in H; do 9 (destruct i as [|i]; [try (exfalso; lia); same_case|]); exfalso; lia.
Qed.

Lemma commit_le_rename kd sh : rename_idx kd <= commit_idx kd sh.
Proof. destruct kd, sh; simpl; lia. Qed.

Theorem crash_safe ops l fb c v kd n g crash :
  let o := OSave l fb c v kd n g crash in
  let i := crash_i crash in
  let shadow := isSome (read (run ops) (fin l Pk)) in
  let before := load_file (run ops) l in
  let after := load_file (run (ops ++ [o])) l in
  (save_ok kd fb = false \/ i < commit_idx kd shadow -> after = before) /\
  (save_ok kd fb = true -> commit_idx kd shadow <= i -> after = LOk c v) /\
  (save_ok kd fb = false \/ i < rename_idx kd ->
     forall fl, read (run (ops ++ [o])) (fin l fl) = read (run ops) (fin l fl)) /\
  after <> LCorrupt /\
  has_saved (run (ops ++ [o])) l = negb (match after with LNotFound => true | _ => false end) /\
  (forall l', l' <> l -> load_file (run (ops ++ [o])) l' = load_file (run ops) l') /\
  (forall l' fl j, read (run (ops ++ [o])) (fin l' fl) <> Some (Partial j)).
Proof.
  intros o i shadow before after. subst before after.
  rewrite !history_load, history_has, spec_snoc. simpl.
  rewrite committed_crash. fold i.
  assert (Esh : is_pk (spec ops l) = shadow) by (apply rel_is_pk, inv_run). rewrite Esh.
  unfold committed.
  repeat split.
  - intros [H|H].
    + rewrite H. reflexivity.
    + apply Nat.leb_gt in H. rewrite H, andb_false_r. reflexivity.
  - intros H1 H2. apply Nat.leb_le in H2. rewrite H1, H2. simpl. rewrite vset_same. reflexivity.
  - intros H fl. rewrite run_snoc. simpl. rewrite save_fs. fold i.
    pose proof (view_save_same l fb c v kd n g i (crash_k crash) (run ops)) as E. unfold view in E.
    destruct (asave_untouched (isSome (fst l)) fb c v kd n g i (crash_k crash) (fun sl => read (run ops) (spath l sl)) H) as [A B].
    destruct fl.
    + change (fin l Pk) with (spath l FP). rewrite E. exact A.
    + change (fin l Cp) with (spath l FC). rewrite E. exact B.
  - destruct (save_ok kd fb && Nat.leb (commit_idx kd shadow) i).
    + rewrite vset_same. discriminate.
    + destruct (spec ops l) as [[[? ?] ?]|]; discriminate.
  - destruct (save_ok kd fb && Nat.leb (commit_idx kd shadow) i).
    + rewrite vset_same. reflexivity.
    + destruct (spec ops l) as [[[? ?] ?]|]; reflexivity.
  - intros l' Hl. rewrite !history_load, spec_snoc. simpl. rewrite committed_crash. fold i. rewrite Esh.
    unfold committed. destruct (save_ok kd fb && Nat.leb (commit_idx kd shadow) i); [|reflexivity].
    rewrite vset_other by (apply loc_eqb_neq, Hl). reflexivity.
  - intros [d s] fl j. apply (history_no_partial (ops ++ [o])).
Qed.

Theorem success_visible ops l fb c v kd n g w :
  save_ok kd fb = true ->
  let f' := run (ops ++ [OSave l fb c v kd n g None]) in
  load_file f' l = LOk c v /\ has_saved f' l = true /\ node_load f' l (c, w) = ((c, v), NOk) /\
  (forall label, l = default_loc label -> snd (fst (ctor label c false true f')) = ((c, v), NOk)).
Proof.
  intros H f'. subst f'.
  assert (E : spec (ops ++ [OSave l fb c v kd n g None]) l = Some (save_flavour kd, c, v)).
  { rewrite spec_snoc. simpl. unfold committed. rewrite H. simpl. apply vset_same. }
  assert (R : cls_eqb c c = true) by (apply cls_eqb_eq; reflexivity).
  repeat split.
  - rewrite history_load, E. reflexivity.
  - rewrite history_has, E. reflexivity.
  - rewrite history_node_load, E. simpl. rewrite R. reflexivity.
  - intros label ->. rewrite history_autoload, E. simpl. rewrite R. reflexivity.
Qed.

(* no primitive step raises OSError any more *)
Lemma exec_no_err s f : snd (fst (exec s f)) = false.
Proof.
  destruct s as [d|p|p c n|p|p p'|p|d]; simpl; try reflexivity.
  destruct d as [x|]; [|reflexivity]. destruct (mems x (dirs f)); [|reflexivity].
  destruct (dir_empty f (Some x)); reflexivity.
Qed.

Lemma run_steps_no_err ss : forall f, snd (fst (run_steps ss f)) = false.
Proof.
  induction ss as [|s t IH]; intros f; simpl; [reflexivity|].
  pose proof (exec_no_err s f) as E. destruct (exec s f) as [[f1 e1] t1]; simpl in E.
  specialize (IH f1). destruct (run_steps t f1) as [[f2 e2] t2]; simpl in *. subst. reflexivity.
Qed.

Theorem class_refused f l c w c' v :
  load_file f l = LOk c' v -> c' <> c -> node_load f l (c, w) = ((c, w), NTypeErr).
Proof.
  intros H N. unfold node_load. rewrite H. simpl.
  destruct (cls_eqb c' c) eqn:E; [apply cls_eqb_eq in E; contradiction|reflexivity].
Qed.

Theorem class_refused_ctor f label c c' v (dl : bool) :
  load_file (if dl then fs_of (delete (default_loc label) f) else f) (default_loc label) = LOk c' v -> c' <> c ->
  snd (fst (ctor label c dl true f)) = ((c, 0%Z), NTypeErr).
Proof.
  intros H N. unfold ctor, fs_of in *. destruct dl.
  - pose proof (run_steps_no_err (delete_steps (default_loc label)) f) as E. fold (delete (default_loc label) f) in E.
    destruct (delete (default_loc label) f) as [[f1 e] t]; simpl in *. subst e.
    assert (Hs : has_saved f1 (default_loc label) = true).
    { unfold has_saved. unfold load_file in H.
      destruct (read f1 (fin (default_loc label) Pk)); [reflexivity|].
      destruct (read f1 (fin (default_loc label) Cp)); [reflexivity|discriminate]. }
    rewrite Hs. simpl. apply (class_refused _ _ c 0%Z c' v); assumption.
  - simpl in *.
    assert (Hs : has_saved f (default_loc label) = true).
    { unfold has_saved. unfold load_file in H.
      destruct (read f (fin (default_loc label) Pk)); [reflexivity|].
      destruct (read f (fin (default_loc label) Cp)); [reflexivity|discriminate]. }
    rewrite Hs. simpl. apply (class_refused _ _ c 0%Z c' v); assumption.
Qed.

Theorem class_accepted f l c w v : load_file f l = LOk c v -> node_load f l (c, w) = ((c, v), NOk).
Proof.
  intros H. unfold node_load. rewrite H. simpl.
  assert (R : cls_eqb c c = true) by (apply cls_eqb_eq; reflexivity). rewrite R. reflexivity.
Qed.

(* ---- delete; directories ---------------------------------------------------------------------- *)
Lemma run_steps_app a : forall b f, fs_of (run_steps (a ++ b) f) = fs_of (run_steps b (fs_of (run_steps a f))).
Proof.
  induction a as [|s t IH]; intros b f; [reflexivity|].
  simpl app. rewrite !run_steps_cons. apply IH.
Qed.

Lemma dirs_set p c f : dirs (set_file p c f) = dirs f. Proof. reflexivity. Qed.
Lemma dirs_rm p f : dirs (rm_file p f) = dirs f. Proof. reflexivity. Qed.

Lemma mems_remove1_other x d l : String.eqb d x = false -> mems d (remove1 String.eqb x l) = mems d l.
Proof.
  intros N. induction l as [|y r IH]; [reflexivity|]. unfold mems in *. simpl.
  destruct (String.eqb x y) eqn:E.
  - apply String.eqb_eq in E; subst y. rewrite N. reflexivity.
  - simpl. rewrite IH. reflexivity.
Qed.

Lemma mems_remove1_same x l : NoDup l -> mems x (remove1 String.eqb x l) = false.
Proof.
  induction 1 as [|y r Hn Hd IH]; [reflexivity|]. simpl.
  destruct (String.eqb x y) eqn:E.
  - apply String.eqb_eq in E; subst y. destruct (mems x r) eqn:M; [apply mems_In in M; contradiction|reflexivity].
  - unfold mems in *. simpl. rewrite E, IH. reflexivity.
Qed.

Lemma nodup_remove1 x l : NoDup l -> NoDup (remove1 String.eqb x l).
Proof.
  induction 1 as [|y r Hn Hd IH]; [constructor|]. simpl.
  destruct (String.eqb x y); [exact Hd|]. constructor; [|exact IH].
  intros Hin. apply Hn. clear -Hin. induction r as [|z r IH]; [contradiction|].
  simpl in Hin. destruct (String.eqb x z); [right; exact Hin|]. destruct Hin; [left; auto|right; auto].
Qed.

Lemma nodup_exec s f : NoDup (dirs f) -> NoDup (dirs (fs_of (exec s f))).
Proof.
  intros H. destruct s as [d|p|p c n|p|p p'|p|d]; unfold fs_of; simpl; auto.
  - destruct d as [x|]; [|exact H]. destruct (mems x (dirs f)) eqn:M; [exact H|]. simpl.
    constructor; [|exact H]. intros Hin. apply mems_In in Hin. congruence.
  - destruct (read f p); exact H.
  - destruct d as [x|]; [|exact H]. destruct (mems x (dirs f)); [|exact H].
    destruct (dir_empty f (Some x)); [|exact H]. simpl. apply nodup_remove1, H.
Qed.

Lemma nodup_run_steps ss : forall f, NoDup (dirs f) -> NoDup (dirs (fs_of (run_steps ss f))).
Proof.
  induction ss as [|s t IH]; intros f H; [exact H|]. rewrite run_steps_cons. apply IH, nodup_exec, H.
Qed.

Lemma nodup_crash_at ss i k f : NoDup (dirs f) -> NoDup (dirs (fst (crash_at ss i k f))).
Proof.
  intros H. unfold crash_at. pose proof (nodup_run_steps (firstn i ss) f H) as N. unfold fs_of in N.
  destruct (run_steps (firstn i ss) f) as [[f1 e1] t1]; simpl in N.
  destruct (nth_error ss i) as [[d|p|p c n|p|p p'|p|d]|]; simpl; try exact N.
  destruct (Nat.ltb k n); exact N.
Qed.

Lemma nodup_apply o f : NoDup (dirs f) -> NoDup (dirs (apply o f)).
Proof.
  intros H. destruct o as [l fb c v kd n g crash|l c w|label c dl auto|l|d s]; simpl.
  - rewrite save_fs. apply nodup_crash_at, H.
  - exact H.
  - rewrite ctor_fs. destruct dl; [apply nodup_run_steps, H|exact H].
  - apply nodup_run_steps, H.
  - change (NoDup (dirs (fs_of (exec (SMkdir d) f)))). apply nodup_exec, H.
Qed.

Lemma nodup_run ops : NoDup (dirs (run ops)).
Proof.
  unfold run. assert (G : forall f, NoDup (dirs f) -> NoDup (dirs (run_from f ops))).
  { induction ops as [|o t IH]; intros f H; simpl; [exact H|]. apply IH, nodup_apply, H. }
  apply G. constructor.
Qed.

Lemma rmdir_removes f d :
  NoDup (dirs f) ->
  let f' := fs_of (exec (SRmdirIfEmpty (Some d)) f) in
  has_file_in f' (Some d) = false -> dir_exists f' (Some d) = false.
Proof.
  intros N f'. subst f'. unfold fs_of; simpl.
  destruct (mems d (dirs f)) eqn:M; [|simpl; intros _; exact M].
  unfold dir_empty. destruct (has_file_in f (Some d)) eqn:Hf; simpl.
  - intros H. rewrite Hf in H. discriminate.
  - intros _. apply mems_remove1_same, N.
Qed.

(* what delete guarantees in every reachable state: the files load looks at are gone, nothing else is
   touched, the directory goes when it is left without files *)
Theorem delete_final_gone ops l :
  let f' := run (ops ++ [ODelete l]) in
  read f' (fin l Pk) = None /\ read f' (fin l Cp) = None /\ has_saved f' l = false /\ load_file f' l = LNotFound /\
  (forall l', l' <> l -> load_file f' l' = load_file (run ops) l') /\
  (forall d u, read f' (d, NUser u) = read (run ops) (d, NUser u)) /\
  (forall d, fst l = Some d -> has_file_in f' (Some d) = false -> dir_exists f' (Some d) = false).
Proof.
  intros f'. subst f'.
  assert (E : spec (ops ++ [ODelete l]) l = None) by (rewrite spec_snoc; simpl; apply vset_same).
  pose proof (inv_run (ops ++ [ODelete l]) l) as R. rewrite E in R. destruct R as [R1 R2].
  repeat split.
  - exact R1.
  - exact R2.
  - rewrite history_has, E. reflexivity.
  - rewrite history_load, E. reflexivity.
  - intros l' Hl. rewrite !history_load, spec_snoc. simpl. rewrite vset_other by (apply loc_eqb_neq, Hl). reflexivity.
  - intros d u. rewrite run_snoc. simpl. apply read_delete_user.
  - intros d Hd. rewrite run_snoc. simpl. unfold delete, delete_steps. rewrite run_steps_app.
    destruct l as [dl s]; simpl in Hd; subst dl. simpl fst. simpl rmdir_steps.
    rewrite run_steps_cons. change (fs_of (run_steps [] ?x)) with x.
    apply rmdir_removes, nodup_run_steps, nodup_run.
Qed.

(* nothing the storage wrote for the location remains -- final files and scratch files alike *)
Theorem delete_cleans ops l :
  let f' := run (ops ++ [ODelete l]) in
  forall fl, read f' (fin l fl) = None /\ read f' (tmp l fl) = None.
Proof.
  intros f' fl. subst f'. rewrite run_snoc. simpl.
  pose proof (view_delete_same l (run ops)) as V. unfold view in V.
  destruct fl; split.
  - exact (V FP).
  - exact (V TP).
  - exact (V FC).
  - exact (V TC).
Qed.

Theorem delete_no_error f l : snd (fst (delete l f)) = false.
Proof. apply run_steps_no_err. Qed.

Theorem save_never_oserror l fb c v kd n g crash f : snd (fst (save l fb c v kd n g crash f)) <> SOsErr.
Proof.
  unfold save. cbv zeta.
  pose proof (run_steps_no_err (save_steps l fb c v kd n g) f) as E.
  destruct (run_steps (save_steps l fb c v kd n g) f) as [[f1 e] t]; simpl in E; subst e.
  destruct crash as [[i j]|].
  - destruct (Nat.ltb i (List.length (save_steps l fb c v kd n g))).
    + destruct (crash_at (save_steps l fb c v kd n g) i j f) as [f2 t2]; simpl; discriminate.
    + simpl. destruct (save_ok kd fb); discriminate.
  - simpl. destruct (save_ok kd fb); discriminate.
Qed.

(* ---- files live in existing directories (so "the file is still there" includes its directory) ---- *)
Definition wfd (f : fs) : Prop := forall d nm c, read f (Some d, nm) = Some c -> mems d (dirs f) = true.

Definition creates_in (s : step) : option dir :=
  match s with
  | SCreate p | SWrite p _ _ => Some (fst p)
  | SRename _ q => Some (fst q)
  | _ => None
  end.

Lemma read_has_file f p c : read f p = Some c -> has_file_in f (fst p) = true.
Proof.
  unfold read, has_file_in. induction (files f) as [|[k v] r IH]; simpl; [discriminate|].
  destruct (path_eqb p k) eqn:E.
  - apply path_eqb_eq in E; subst k. intros _. rewrite dir_eqb_refl. reflexivity.
  - intros H. rewrite (IH H). apply orb_true_r.
Qed.

Lemma path_eqb_dir d nm p : path_eqb (Some d, nm) p = true -> fst p = Some d.
Proof. intros H. apply path_eqb_eq in H. subst p. reflexivity. Qed.

Lemma wfd_exec s f :
  wfd f -> (forall d, creates_in s = Some d -> dir_exists f d = true) -> wfd (fs_of (exec s f)).
Proof.
  intros W C d nm c0. rewrite read_exec.
  destruct s as [d0|p|p c n|p|p p'|p|d0]; simpl; unfold fs_of; simpl.
  - intros H. apply W in H. destruct d0 as [x|]; [|exact H].
    destruct (mems x (dirs f)) eqn:M; [exact H|]. unfold mems in *. simpl. rewrite H. apply orb_true_r.
  - destruct (path_eqb (Some d, nm) p) eqn:E; [|apply W].
    intros _. apply path_eqb_dir in E. specialize (C (fst p) eq_refl). rewrite E in C. exact C.
  - destruct (path_eqb (Some d, nm) p) eqn:E; [|apply W].
    intros _. apply path_eqb_dir in E. specialize (C (fst p) eq_refl). rewrite E in C. exact C.
  - apply W.
  - destruct (read f p) as [cp|]; [|apply W]. simpl.
    destruct (path_eqb (Some d, nm) p') eqn:E.
    + intros _. apply path_eqb_dir in E. specialize (C (fst p') eq_refl). rewrite E in C. exact C.
    + destruct (path_eqb (Some d, nm) p); [discriminate|apply W].
  - destruct (path_eqb (Some d, nm) p); [discriminate|apply W].
  - intros H. pose proof (W _ _ _ H) as M.
    destruct d0 as [x|]; [|exact M]. destruct (mems x (dirs f)); [|exact M].
    destruct (dir_empty f (Some x)) eqn:Em; [|exact M]. simpl.
    destruct (String.eqb d x) eqn:Ex.
    + apply String.eqb_eq in Ex; subst x. apply read_has_file in H. simpl in H.
      unfold dir_empty in Em. rewrite H in Em. discriminate.
    + rewrite mems_remove1_other by exact Ex. exact M.
Qed.

Definition no_rmdir (a : astep) : bool := match a with ARmdir => false | _ => true end.

Lemma creates_conc l a d : creates_in (conc l a) = Some d -> d = fst l.
Proof. destruct a as [|s|s c n|s|s t|s|]; simpl; try discriminate; intros H; inversion H; [destruct s|destruct s|destruct t]; reflexivity. Qed.

Lemma dir_exists_exec l a f : no_rmdir a = true -> dir_exists f (fst l) = true ->
  dir_exists (fs_of (exec (conc l a) f)) (fst l) = true.
Proof.
  intros N H. destruct a as [|s|s c n|s|s t|s|]; simpl; unfold fs_of; simpl; try exact H; try discriminate.
  - destruct (fst l) as [x|]; [|reflexivity]. simpl in *. rewrite H. exact H.
  - destruct (read f (spath l s)); exact H.
Qed.

Lemma wfd_run_confined l ss : forall f, forallb no_rmdir ss = true -> wfd f -> dir_exists f (fst l) = true ->
  wfd (fs_of (run_steps (map (conc l) ss) f)) /\ dir_exists (fs_of (run_steps (map (conc l) ss) f)) (fst l) = true.
Proof.
  induction ss as [|a t IH]; intros f N W D; [split; assumption|].
  simpl in N. apply andb_true_iff in N. destruct N as [Na Nt].
  simpl map. rewrite run_steps_cons. apply IH; [exact Nt| |apply dir_exists_exec; assumption].
  apply wfd_exec; [exact W|]. intros d Hd. apply creates_conc in Hd. subst d. exact D.
Qed.

Lemma forallb_firstn {A} (p : A -> bool) l : forall j, forallb p l = true -> forallb p (firstn j l) = true.
Proof.
  induction l as [|x r IH]; intros [|j] H; simpl; auto.
  simpl in H. apply andb_true_iff in H. destruct H as [Hx Hr]. rewrite Hx. apply IH, Hr.
Qed.

Definition abody (fb : bool) (c : cls) (v : Z) (k : kind) (n g : nat) : list astep :=
  aattack fb c v k n g Pk ++ (if pickles k Pk then [] else if fb then aattack fb c v k n g Cp else []).

Lemma asave_steps_body sub fb c v k n g :
  asave_steps sub fb c v k n g = AMkdir :: abody fb c v k n g ++ (if sub then [ARmdir] else []).
Proof. unfold asave_steps, abody. simpl. rewrite <- app_assoc. reflexivity. Qed.
Lemma abody_no_rmdir fb c v k n g : forallb no_rmdir (abody fb c v k n g) = true.
Proof. destruct k, fb; reflexivity. Qed.

Lemma wfd_mkdir (l : loc) f : wfd f ->
  wfd (fs_of (exec (SMkdir (fst l)) f)) /\ dir_exists (fs_of (exec (SMkdir (fst l)) f)) (fst l) = true.
Proof.
  intros W. split; [apply wfd_exec; [exact W|simpl; discriminate]|].
  unfold fs_of; simpl. destruct (fst l) as [x|]; [|reflexivity].
  destruct (mems x (dirs f)) eqn:M; simpl; [exact M|]. unfold mems; simpl. rewrite String.eqb_refl. reflexivity.
Qed.

Lemma wfd_prefix l fb c v kd n g i f : wfd f ->
  wfd (fs_of (run_steps (firstn i (save_steps l fb c v kd n g)) f)).
Proof.
  intros W. rewrite save_steps_conc, asave_steps_body.
  destruct i as [|j]; [exact W|].
  simpl map. simpl firstn. rewrite run_steps_cons.
  destruct (wfd_mkdir l f W) as [W1 D1].
  change (SMkdir (fst l)) with (conc l AMkdir) in *.
  set (f1 := fs_of (exec (conc l AMkdir) f)) in *. clearbody f1.
  rewrite firstn_map, firstn_app, map_app, run_steps_app.
  destruct (wfd_run_confined l (firstn j (abody fb c v kd n g)) f1
              (forallb_firstn _ _ _ (abody_no_rmdir fb c v kd n g)) W1 D1) as [W2 D2].
  destruct (isSome (fst l)); [|rewrite firstn_nil; exact W2].
  destruct (j - List.length (abody fb c v kd n g)) as [|m]; [exact W2|].
  simpl firstn. simpl map. rewrite run_steps_cons, firstn_nil. simpl map. change (fs_of (run_steps [] ?x)) with x.
  apply wfd_exec; [exact W2|simpl; discriminate].
Qed.

Lemma awrite_target_exists sub fb c v kd n g i sl c0 n0 (w : aview) :
  nth_error (asave_steps sub fb c v kd n g) i = Some (AWrite sl c0 n0) ->
  arsteps (firstn i (asave_steps sub fb c v kd n g)) w sl = Some (Partial 0).
Proof.
  destruct sub, kd, fb; do 12 (destruct i as [|i]; [cbn; intros H; inversion H; subst; reflexivity|]);
    cbn; intros H; destruct i; discriminate.
Qed.

Lemma wfd_crash l fb c v kd n g i k f : wfd f -> wfd (fst (crash_at (save_steps l fb c v kd n g) i k f)).
Proof.
  intros W. unfold crash_at.
  pose proof (wfd_prefix l fb c v kd n g i f W) as W1.
  pose proof (read_run_steps (firstn i (save_steps l fb c v kd n g)) f) as R.
  unfold fs_of in W1, R.
  destruct (run_steps (firstn i (save_steps l fb c v kd n g)) f) as [[f1 e1] t1]; simpl in W1, R.
  destruct (nth_error (save_steps l fb c v kd n g) i) as [[d|p|p c1 n1|p|p p'|p|d]|] eqn:E; simpl; try exact W1.
  destruct (Nat.ltb k n1); [|exact W1]. simpl.
  (* the file being written already exists *)
  rewrite save_steps_conc, nth_error_map' in E.
  destruct (nth_error (asave_steps (isSome (fst l)) fb c v kd n g) i) as [[|s|s c2 n2|s|s t|s|]|] eqn:E2; simpl in E; try discriminate.
  inversion E; subst p c1 n1.
  assert (X : read f1 (spath l s) = Some (Partial 0)).
  { rewrite R, save_steps_conc, firstn_map.
    rewrite (rsteps_conc l _ (read f) (fun sl => read f (spath l sl))) by reflexivity.
    eapply awrite_target_exists, E2. }
  intros d nm c3. rewrite read_set.
  destruct (path_eqb (Some d, nm) (spath l s)) eqn:Ep; [|apply W1].
  intros _. apply path_eqb_eq in Ep. rewrite <- Ep in X. eapply W1, X.
Qed.

Lemma wfd_run_steps_nocreate ss : forall f, (forall s, In s ss -> creates_in s = None) -> wfd f ->
  wfd (fs_of (run_steps ss f)).
Proof.
  induction ss as [|s t IH]; intros f H W; [exact W|]. rewrite run_steps_cons.
  apply IH; [intros s' Hs; apply H; right; exact Hs|].
  apply wfd_exec; [exact W|]. intros d Hd. rewrite (H s (or_introl eq_refl)) in Hd. discriminate.
Qed.

Lemma wfd_delete l f : wfd f -> wfd (fs_of (delete l f)).
Proof.
  intros W. unfold delete. apply wfd_run_steps_nocreate; [|exact W].
  intros s Hs. unfold delete_steps, rmdir_steps in Hs. destruct (fst l); simpl in Hs;
    repeat (destruct Hs as [Hs|Hs]; [subst s; reflexivity|]); contradiction.
Qed.

Lemma wfd_apply o f : wfd f -> wfd (apply o f).
Proof.
  intros W. destruct o as [l fb c v kd n g crash|l c w|label c dl auto|l|d s]; simpl.
  - rewrite save_fs. apply wfd_crash, W.
  - exact W.
  - rewrite ctor_fs. destruct dl; [apply wfd_delete, W|exact W].
  - apply wfd_delete, W.
  - unfold touch. destruct (wfd_mkdir (d, s) f W) as [W1 D1]. simpl fst in *.
    intros d' nm c. rewrite read_set.
    destruct (path_eqb (Some d', nm) (d, NUser s)) eqn:E; [|apply W1].
    intros _. apply path_eqb_dir in E. simpl in E. subst d. exact D1.
Qed.

Theorem wfd_run ops : wfd (run ops).
Proof.
  unfold run. assert (G : forall f, wfd f -> wfd (run_from f ops)).
  { induction ops as [|o t IH]; intros f H; simpl; [exact H|]. apply IH, wfd_apply, H. }
  apply G. intros d nm c H. discriminate.
Qed.

(* the observation function of the correspondence check walks the same file systems as [run] *)
Lemma obs_op_fs locs ds users o f prev : fst (fst (obs_op locs ds users o f prev)) = apply o f.
Proof.
  destruct o as [l fb c v kd n g crash|l c w|label c dl auto|l|d s]; simpl.
  - destruct (save l fb c v kd n g crash f) as [[f1 r] t]; reflexivity.
  - destruct (node_load f l (c, w)) as [[c1 v1] r]; reflexivity.
  - destruct (ctor label c dl auto f) as [[f1 [[c1 v1] r]] t]; reflexivity.
  - unfold fs_of. destruct (delete l f) as [[f1 e] t]; reflexivity.
  - reflexivity.
Qed.
