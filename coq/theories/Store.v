(* Store.v -- executable model of pyiron_workflow/storage.py (StorageInterface.save/load/
   has_saved_content/delete, PickleStorage._save/_load/_delete/_has_saved_content) and of
   Node.save/load/delete_storage/_after_node_setup (pyiron_workflow/node.py), AS THE CODE IS
   after commits 8ca9d2e (scratch file + replace) and 816f4c3 (delete also
   removes scratch files; the cwd is never rmdir'ed).

   File system model.  The universe is one working directory (the cwd) and its direct
   sub-directories.  A file system is a set of existing sub-directories plus a finite map
   path -> content.  ASSUMED of the real FS: every primitive below is atomic (in
   particular os.replace), a process that dies leaves exactly the effects of the
   primitives it completed plus a prefix of the bytes of the write in flight, and
   completed effects are durable (no fsync / power-loss semantics).  One directory level
   (mkdir(parents=True) never has to create more than one directory), file stems contain
   no dot (Path.with_suffix only appends).

   A SAVE is an explicit list of primitive steps; a CRASH is any prefix of that list,
   with the write in flight cut after k of its n bytes. *)
From PW Require Import Base.

(* ---- names ------------------------------------------------------------------------ *)
Inductive flavour := Pk | Cp.                       (* ".pckl" / ".cpckl" *)
Definition other (f : flavour) : flavour := match f with Pk => Cp | Cp => Pk end.
Definition fl_eqb (a b : flavour) : bool :=
  match a, b with Pk, Pk => true | Cp, Cp => true | _, _ => false end.

Inductive name :=
| NFinal (stem : string) (f : flavour)              (* <stem>.pckl  | <stem>.cpckl        *)
| NTmp (stem : string) (f : flavour)                (* <stem>.pckl.tmp | <stem>.cpckl.tmp *)
| NUser (s : string).                               (* anything else living in the directory *)

Definition dir := option string.                    (* None = the cwd, Some d = cwd/d *)
Definition path := (dir * name)%type.
Definition loc := (dir * string)%type.              (* the `filename` without extension *)

Definition name_eqb (a b : name) : bool :=
  match a, b with
  | NFinal s f, NFinal s' f' => fl_eqb f f' && String.eqb s s'
  | NTmp s f, NTmp s' f' => fl_eqb f f' && String.eqb s s'
  | NUser s, NUser s' => String.eqb s s'
  | _, _ => false
  end.
Definition dir_eqb (a b : dir) : bool :=
  match a, b with
  | None, None => true
  | Some x, Some y => String.eqb x y
  | _, _ => false
  end.
Definition path_eqb (p q : path) : bool := name_eqb (snd p) (snd q) && dir_eqb (fst p) (fst q).
Definition loc_eqb (a b : loc) : bool := String.eqb (snd a) (snd b) && dir_eqb (fst a) (fst b).

Definition fin (l : loc) (f : flavour) : path := (fst l, NFinal (snd l) f).
Definition tmp (l : loc) (f : flavour) : path := (fst l, NTmp (snd l) f).

(* ---- contents ----------------------------------------------------------------------- *)
(* two function-node classes, Workflow, two distinct classes that share module and qualified
   name (class identity is what Node.load compares, not names), and a class CE with a subclass CD
   (a node of the one is not a node of the other for Node.load, in either direction) *)
Inductive cls := CA | CB | CW | CP | CQ | CE | CD.
Definition cls_eqb (a b : cls) : bool :=
  match a, b with
  | CA, CA => true | CB, CB => true | CW, CW => true | CP, CP => true | CQ, CQ => true
  | CE, CE => true | CD, CD => true
  | _, _ => false
  end.

Inductive content :=
| Full (c : cls) (v : Z)                             (* a complete pickle of a node of class c in state v *)
| Partial (k : nat).                                 (* k bytes that do not form a complete pickle *)

Record fs := mkfs { dirs : list string; files : list (path * content) }.
Definition fs0 : fs := mkfs [] [].

Definition read (f : fs) (p : path) : option content := assoc path_eqb p (files f).
Definition set_file (p : path) (c : content) (f : fs) : fs := mkfs (dirs f) (upd path_eqb p c (files f)).
Definition rm_file (p : path) (f : fs) : fs := mkfs (dirs f) (del path_eqb p (files f)).
Definition dir_exists (f : fs) (d : dir) : bool :=
  match d with None => true | Some s => mems s (dirs f) end.
Definition has_file_in (f : fs) (d : dir) : bool :=
  existsb (fun pc => dir_eqb (fst (fst pc)) d) (files f).
(* `not any(d.iterdir())` for a sub-directory (one level: it only holds files) *)
Definition dir_empty (f : fs) (d : dir) : bool := negb (has_file_in f d).

(* ---- primitive steps ---------------------------------------------------------------- *)
Inductive step :=
| SMkdir (d : dir)                                   (* Path.mkdir(parents=True, exist_ok=True) *)
| SCreate (p : path)                                 (* open(p, "wb"): create or truncate *)
| SWrite (p : path) (c : content) (n : nat)          (* the n bytes of the dump; c once all are written *)
| SClose (p : path)
| SRename (p q : path)                               (* Path.replace *)
| SUnlink (p : path)                                 (* Path.unlink(missing_ok=True) *)
| SRmdirIfEmpty (d : dir).     (* if d.exists() and d.resolve() != cwd and not any(d.iterdir()): d.rmdir() *)

(* the os-level calls a step makes (the trace the harness records on the real code) *)
Inductive ev :=
| EMkdir (d : dir) | ECreate (p : path) | EWrite (p : path) | EClose (p : path)
| ERename (p q : path) | EUnlink (p : path) | EScan (d : dir) | ERmdir (d : dir).

(* one step: new file system, whether OSError was raised (no step does since 816f4c3: the rmdir of
   the cwd is gone), its calls *)
Definition exec (s : step) (f : fs) : fs * bool * list ev :=
  match s with
  | SMkdir d =>
      (match d with
       | None => f
       | Some x => if mems x (dirs f) then f else mkfs (x :: dirs f) (files f)
       end, false, [EMkdir d])
  | SCreate p => (set_file p (Partial 0) f, false, [ECreate p])
  | SWrite p c n => (set_file p c f, false, [EWrite p])
  | SClose p => (f, false, [EClose p])
  | SRename p q =>
      (match read f p with
       | Some c => set_file q c (rm_file p f)
       | None => f
       end, false, [ERename p q])
  | SUnlink p => (rm_file p f, false, [EUnlink p])
  | SRmdirIfEmpty d =>
      match d with
      | None => (f, false, [])                   (* the cwd is never scanned nor removed *)
      | Some x =>
          if mems x (dirs f) then
            if dir_empty f d then (mkfs (remove1 String.eqb x (dirs f)) (files f), false, [EScan d; ERmdir d])
            else (f, false, [EScan d])
          else (f, false, [])
      end
  end.

Fixpoint run_steps (ss : list step) (f : fs) : fs * bool * list ev :=
  match ss with
  | [] => (f, false, [])
  | s :: r =>
      let '(f1, e1, t1) := exec s f in
      let '(f2, e2, t2) := run_steps r f1 in
      (f2, e1 || e2, t1 ++ t2)
  end.
Definition fs_of (x : fs * bool * list ev) : fs := fst (fst x).

(* the process dies after completing the first i steps; if step i is a write, k of its n
   bytes have reached the file *)
Definition crash_at (ss : list step) (i k : nat) (f : fs) : fs * list ev :=
  let '(f1, _, t1) := run_steps (firstn i ss) f in
  match nth_error ss i with
  | Some (SWrite p c n) => if Nat.ltb k n then (set_file p (Partial k) f1, t1) else (f1, t1)
  | _ => (f1, t1)
  end.

(* ---- PickleStorage._save inside StorageInterface.save ------------------------------- *)
Inductive kind := KOk | KCloud | KBad.      (* picklable / only cloudpicklable / neither *)
Definition pickles (k : kind) (fl : flavour) : bool :=
  match k, fl with KOk, _ => true | KCloud, Cp => true | _, _ => false end.

(* one iteration of `for suffix, save_method in attacks` *)
Definition attack (l : loc) (fb : bool) (c : cls) (v : Z) (k : kind) (n g : nat) (fl : flavour) : list step :=
  if pickles k fl then
    [SCreate (tmp l fl); SWrite (tmp l fl) (Full c v) n; SClose (tmp l fl); SRename (tmp l fl) (fin l fl)]
    ++ (if fb then [SUnlink (fin l (other fl))] else [])
  else
    (* the dump raises after g bytes; `with` closes; except: tmp.unlink(missing_ok=True) *)
    [SCreate (tmp l fl); SWrite (tmp l fl) (Partial g) g; SClose (tmp l fl); SUnlink (tmp l fl)].

(* the clean-up of `save`'s finally / of `delete`: nothing at all (not even a scan) for the cwd *)
Definition rmdir_steps (d : dir) : list step :=
  match d with None => [] | Some _ => [SRmdirIfEmpty d] end.

Definition save_steps (l : loc) (fb : bool) (c : cls) (v : Z) (k : kind) (n g : nat) : list step :=
  [SMkdir (fst l)]
  ++ attack l fb c v k n g Pk
  ++ (if pickles k Pk then [] else if fb then attack l fb c v k n g Cp else [])
  ++ rmdir_steps (fst l).

Definition save_ok (k : kind) (fb : bool) : bool := pickles k Pk || (fb && pickles k Cp).

Inductive sres := SOk | SFail | SOsErr | SCrashed.

Definition save (l : loc) (fb : bool) (c : cls) (v : Z) (k : kind) (n g : nat)
           (crash : option (nat * nat)) (f : fs) : fs * sres * list ev :=
  let ss := save_steps l fb c v k n g in
  match crash with
  | Some (i, j) =>
      if Nat.ltb i (List.length ss) then let '(f1, t) := crash_at ss i j f in (f1, SCrashed, t)
      else let '(f1, e, t) := run_steps ss f in (f1, if e then SOsErr else if save_ok k fb then SOk else SFail, t)
  | None =>
      let '(f1, e, t) := run_steps ss f in
      (f1, if e then SOsErr else if save_ok k fb then SOk else SFail, t)
  end.

(* ---- _load / _has_saved_content / delete ------------------------------------------- *)
Inductive lres := LOk (c : cls) (v : Z) | LNotFound | LCorrupt.

Definition unpickle (x : content) : lres :=
  match x with Full c v => LOk c v | Partial _ => LCorrupt end.

(* `for suffix in [.pckl, .cpckl]: if p.is_file(): return load(p)`; else FileNotFoundError *)
Definition load_file (f : fs) (l : loc) : lres :=
  match read f (fin l Pk) with
  | Some x => unpickle x
  | None => match read f (fin l Cp) with Some x => unpickle x | None => LNotFound end
  end.

Definition isSome {A} (o : option A) : bool := match o with Some _ => true | None => false end.
Definition has_saved (f : fs) (l : loc) : bool := isSome (read f (fin l Pk)) || isSome (read f (fin l Cp)).

(* StorageInterface.delete: _delete unconditionally (each final file and its scratch file), then the
   directory if it is not the cwd and is left empty *)
Definition delete_steps (l : loc) : list step :=
  [SUnlink (fin l Pk); SUnlink (tmp l Pk); SUnlink (fin l Cp); SUnlink (tmp l Cp)] ++ rmdir_steps (fst l).
Definition delete (l : loc) (f : fs) : fs * bool * list ev := run_steps (delete_steps l) f.

(* ---- Node.load, construction ---------------------------------------------------------- *)
Definition node := (cls * Z)%type.
Inductive nres := NOk | NNotFound | NTypeErr | NCorrupt | NOsErr.

Definition node_load (f : fs) (l : loc) (nd : node) : node * nres :=
  match load_file f l with
  | LOk c v => if cls_eqb c (fst nd) then ((c, v), NOk) else (nd, NTypeErr)
  | LNotFound => (nd, NNotFound)
  | LCorrupt => (nd, NCorrupt)
  end.

Definition default_loc (label : string) : loc := (Some label, "picklestorage").

(* Node.__init__ -> _after_node_setup(delete_existing_savefiles, autoload) for a fresh node
   of class c (state 0) labelled `label` *)
Definition ctor (label : string) (c : cls) (del auto : bool) (f : fs) : fs * (node * nres) * list ev :=
  let l := default_loc label in
  let '(f1, e, t) := if del then delete l f else (f, false, []) in
  if e then (f1, ((c, 0%Z), NOsErr), t)
  else if auto && has_saved f1 l then (f1, node_load f1 l (c, 0%Z), t)
  else (f1, ((c, 0%Z), NOk), t).

(* ---- histories -------------------------------------------------------------------------- *)
Inductive op :=
| OSave (l : loc) (fb : bool) (c : cls) (v : Z) (k : kind) (n g : nat) (crash : option (nat * nat))
| OLoad (l : loc) (c : cls) (w : Z)
| OCtor (label : string) (c : cls) (del auto : bool)
| ODelete (l : loc)
| OTouch (d : dir) (s : string).                     (* somebody else puts a file into the directory *)

Definition touch (d : dir) (s : string) (f : fs) : fs :=
  set_file (d, NUser s) (Partial 0) (fs_of (exec (SMkdir d) f)).

Definition apply (o : op) (f : fs) : fs :=
  match o with
  | OSave l fb c v k n g crash => fst (fst (save l fb c v k n g crash f))
  | OLoad _ _ _ => f
  | OCtor label c del auto => fst (fst (ctor label c del auto f))
  | ODelete l => fs_of (delete l f)
  | OTouch d s => touch d s f
  end.

Definition run_from (f : fs) (ops : list op) : fs := fold_left (fun f o => apply o f) ops f.
Definition run (ops : list op) : fs := run_from fs0 ops.

(* ---- the specification histories are compared with: what SHOULD be loadable ------------- *)
(* per location: the save that is currently visible, and the flavour of its file *)
Definition vis := loc -> option (flavour * cls * Z).
Definition vis0 : vis := fun _ => None.
Definition vset (l : loc) (x : option (flavour * cls * Z)) (r : vis) : vis :=
  fun l' => if loc_eqb l' l then x else r l'.

Definition is_pk (x : option (flavour * cls * Z)) : bool :=
  match x with Some (Pk, _, _) => true | _ => false end.

(* the number of steps after which the new content is what load returns: the rename for a
   .pckl; for a .cpckl the rename, or the unlink of the .pckl that would shadow it *)
Definition commit_idx (k : kind) (shadowed : bool) : nat :=
  match k with KOk => 5 | _ => if shadowed then 10 else 9 end.
Definition save_flavour (k : kind) : flavour := match k with KOk => Pk | _ => Cp end.

Definition committed (k : kind) (fb : bool) (shadowed : bool) (crash : option (nat * nat)) : bool :=
  save_ok k fb && match crash with None => true | Some (i, _) => Nat.leb (commit_idx k shadowed) i end.

Definition spec_step (o : op) (r : vis) : vis :=
  match o with
  | OSave l fb c v k n g crash =>
      if committed k fb (is_pk (r l)) crash then vset l (Some (save_flavour k, c, v)) r else r
  | OLoad _ _ _ => r
  | OCtor label c del auto => if del then vset (default_loc label) None r else r
  | ODelete l => vset l None r
  | OTouch _ _ => r
  end.
Definition spec (ops : list op) : vis := fold_left (fun r o => spec_step o r) ops vis0.

Definition lres_of (x : option (flavour * cls * Z)) : lres :=
  match x with Some (_, c, v) => LOk c v | None => LNotFound end.

(* ---- observations (what the harness prints for the real code) --------------------------- *)
Definition ocls (c : cls) : obs :=
  OS (match c with CA => "A" | CB => "B" | CW => "W" | CP => "P" | CQ => "Q" | CE => "E" | CD => "D" end).
Definition ocontent (o : option content) : obs :=
  match o with
  | None => OZ 0
  | Some (Partial _) => OS "partial"
  | Some (Full c v) => OL [ocls c; OZ v]
  end.
Definition olres (r : lres) : obs :=
  match r with
  | LOk c v => OL [ocls c; OZ v]
  | LNotFound => OS "FileNotFoundError"
  | LCorrupt => OS "Corrupt"
  end.
Definition onres (r : nres) : obs :=
  OS (match r with
      | NOk => "ok" | NNotFound => "FileNotFoundError" | NTypeErr => "TypeError"
      | NCorrupt => "Corrupt" | NOsErr => "OSError"
      end).
Definition osres (r : sres) : obs :=
  OS (match r with SOk => "ok" | SFail => "SaveError" | SOsErr => "OSError" | SCrashed => "crashed" end).

(* trace events as numbers relative to the scenario's universe of locations / directories *)
Fixpoint index_of {A} (eqb : A -> A -> bool) (x : A) (l : list A) (i : nat) : option nat :=
  match l with [] => None | y :: r => if eqb x y then Some i else index_of eqb x r (S i) end.
Definition pcode (locs : list loc) (p : path) : Z :=
  let at_loc s k := match index_of loc_eqb (fst p, s) locs 0 with
                    | Some i => (10 * (Z.of_nat i + 1) + k)%Z | None => 0%Z end in
  match snd p with
  | NFinal s Pk => at_loc s 0%Z | NFinal s Cp => at_loc s 1%Z
  | NTmp s Pk => at_loc s 2%Z | NTmp s Cp => at_loc s 3%Z
  | NUser _ => 9%Z
  end.
Definition dcode (ds : list string) (d : dir) : Z :=
  match d with
  | None => 1%Z
  | Some x => match index_of String.eqb x ds 0 with Some i => (2 + Z.of_nat i)%Z | None => 0%Z end
  end.
Definition oev (locs : list loc) (ds : list string) (e : ev) : obs :=
  let one v a := OZ (v * 10000 + a * 100)%Z in
  match e with
  | EMkdir d => one 1%Z (dcode ds d)
  | ECreate p => one 2%Z (pcode locs p)
  | EWrite p => one 3%Z (pcode locs p)
  | EClose p => one 4%Z (pcode locs p)
  | ERename p q => OZ (5 * 10000 + pcode locs p * 100 + pcode locs q)%Z
  | EUnlink p => one 6%Z (pcode locs p)
  | EScan d => one 7%Z (dcode ds d)
  | ERmdir d => one 8%Z (dcode ds d)
  end.

(* the part of the file system the scenario can touch, in a fixed order *)
Definition snapshot (locs : list loc) (ds : list string) (users : list path) (f : fs) : obs :=
  OL [ OL (map (fun l => OL [ocontent (read f (fin l Pk)); ocontent (read f (fin l Cp));
                             ocontent (read f (tmp l Pk)); ocontent (read f (tmp l Cp));
                             ob (has_saved f l); olres (load_file f l)]) locs);
       OL (map (fun d => ob (dir_exists f (Some d))) ds);
       OL (map (fun p => ob (isSome (read f p))) users) ].

(* an unchanged snapshot is printed as "=" *)
Definition obs_op (locs : list loc) (ds : list string) (users : list path) (o : op) (f : fs) (prev : obs)
  : fs * obs * obs :=
  let snap f1 := snapshot locs ds users f1 in
  let sq f1 := if obs_eqb (snap f1) prev then OS "=" else snap f1 in
  match o with
  | OSave l fb c v k n g crash =>
      let '(f1, r, t) := save l fb c v k n g crash f in
      (f1, OL [OS "save"; osres r; OL (map (oev locs ds) t); sq f1], snap f1)
  | OLoad l c w =>
      let '((c1, v1), r) := node_load f l (c, w) in
      (f, OL [OS "load"; onres r; OL [ocls c1; OZ v1]; sq f], snap f)
  | OCtor label c del auto =>
      let '(f1, ((c1, v1), r), t) := ctor label c del auto f in
      (f1, OL [OS "ctor"; onres r; OL [ocls c1; OZ v1]; OL (map (oev locs ds) t); sq f1], snap f1)
  | ODelete l =>
      let '(f1, e, t) := delete l f in
      (f1, OL [OS "delete"; OS (if e then "OSError" else "ok"); OL (map (oev locs ds) t); sq f1], snap f1)
  | OTouch d s =>
      let f1 := touch d s f in (f1, OL [OS "touch"; sq f1], snap f1)
  end.

Fixpoint obs_ops (locs : list loc) (ds : list string) (users : list path) (ops : list op) (f : fs) (prev : obs)
  : list obs :=
  match ops with
  | [] => []
  | o :: r => let '(f1, x, p1) := obs_op locs ds users o f prev in x :: obs_ops locs ds users r f1 p1
  end.

Definition obs_run (locs : list loc) (ds : list string) (users : list path) (ops : list op) : obs :=
  OL (obs_ops locs ds users ops fs0 (OL [])).
