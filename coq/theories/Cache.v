(* Cache.v -- the run cycle of ONE node with input caching (Node.run / _before_run /
   Runnable._run / _finish_run / _run_exception / Node._run_finally as of the current
   /repo), and its twin with caching switched off (use_cache = False).  C05, leaf level;
   the hidden configuration [cfg] stands for a composite's children and internal wiring.

   The node function is deterministic: [fsem cfg args] is a value or a raised exception,
   decided by the arguments alone. *)
From PW Require Import Base.

Inductive res := RVal (z : Z) | RRaise (tag : Z).

Record nstate := { ins : list (option Z);          (* input channel values (None = NOT_DATA)   *)
                   outp : option Z;                 (* output channel value                      *)
                   cached : option (list (option Z)); (* _cached_inputs                           *)
                   running : bool; failed : bool;
                   flight : option (list Z);        (* arguments of the job that is out on an executor *)
                   cfg : Z }.

Inductive outcome :=
| OValue (o : option Z)      (* run returned the output value(s)             *)
| OFuture                    (* run returned a Future (job submitted)         *)
| OReadiness                 (* ReadinessError                                 *)
| OLocked                    (* RuntimeError: data input locked                *)
| OUser (tag : Z)            (* the node function's exception                  *)
| ODone.                     (* operations without a result                    *)

Section Machine.
  Variable fsem : Z -> list Z -> res.        (* the node function (composite: depends on cfg) *)
  Variable use_cache : bool.

  Fixpoint set_nth {A} (l : list A) (n : nat) (x : A) : list A :=
    match l, n with
    | [], _ => []
    | _ :: r, O => x :: r
    | y :: r, S m => y :: set_nth r m x
    end.

  Fixpoint all_some (l : list (option Z)) : option (list Z) :=
    match l with
    | [] => Some []
    | Some v :: r => match all_some r with Some vs => Some (v :: vs) | None => None end
    | None :: _ => None
    end.

  Fixpoint slots_eqb (a b : list (option Z)) : bool :=
    match a, b with
    | [], [] => true
    | Some x :: a', Some y :: b' => Z.eqb x y && slots_eqb a' b'
    | None :: a', None :: b' => slots_eqb a' b'
    | _, _ => false
    end.

  (* Node.cache_hit (current code: a running or failed node never reports a hit) *)
  Definition cache_hit (s : nstate) : bool :=
    use_cache && negb (running s || failed s) &&
    match cached s with Some c => slots_eqb (ins s) c | None => false end.

  (* _finish_run + _run_finally for a result r computed from the inputs the node shows *)
  Definition finish (s : nstate) (r : res) : nstate * outcome :=
    match r with
    | RVal v => ({| ins := ins s; outp := Some v;
                    cached := if use_cache then Some (ins s) else cached s;
                    running := false; failed := false; flight := None; cfg := cfg s |}, OValue (Some v))
    | RRaise t => ({| ins := ins s; outp := outp s; cached := None;   (* a failed run drops the remembered inputs *)
                      running := false; failed := true; flight := None; cfg := cfg s |}, OUser t)
    end.

  (* run(): [remote] = the node has an executor *)
  Definition run (s : nstate) (remote : bool) : nstate * outcome :=
    if cache_hit s then (s, OValue (outp s))
    else if running s || failed s then (s, OReadiness)
    else match all_some (ins s) with
         | None => (s, OReadiness)
         | Some args =>
             if remote then
               ({| ins := ins s; outp := outp s; cached := cached s; running := true; failed := false;
                   flight := Some args; cfg := cfg s |}, OFuture)
             else finish s (fsem (cfg s) args)
         end.

  Inductive op :=
  | Assign (j : nat) (v : Z)        (* node.inputs[j].value = v                                  *)
  | RunLocal                        (* node.run() without executor                                *)
  | Submit                          (* node.run() with an executor: returns at once               *)
  | Complete                        (* the executor finishes the job: the done-callback runs      *)
  | ClearFailed                     (* node.failed = False                                        *)
  | EditReset (c : Z)               (* composite: add / remove / replace a child (cache is reset) *)
  | EditSilent (c : Z)              (* composite: rewire an internal connection / assign an internal input *)
  | WhileOut (o : op).              (* attempted only if a job is out at that moment (else skipped)  *)

  Fixpoint step (s : nstate) (o : op) : nstate * outcome :=
    match o with
    | WhileOut o' => if running s then step s o' else (s, ODone)
    | Assign j v =>
        if running s then (s, OLocked)
        else ({| ins := set_nth (ins s) j (Some v); outp := outp s; cached := cached s; running := running s;
                 failed := failed s; flight := flight s; cfg := cfg s |}, ODone)
    | RunLocal => run s false
    | Submit => run s true
    | Complete => match flight s with
                  | Some args => finish s (fsem (cfg s) args)
                  | None => (s, ODone)
                  end
    | ClearFailed => ({| ins := ins s; outp := outp s; cached := cached s; running := running s; failed := false;
                         flight := flight s; cfg := cfg s |}, ODone)
    | EditReset c => if running s then (s, OLocked) else
                     ({| ins := ins s; outp := outp s; cached := None; running := running s; failed := failed s;
                         flight := flight s; cfg := c |}, ODone)
    | EditSilent c => if running s then (s, OLocked) else
                      ({| ins := ins s; outp := outp s; cached := cached s; running := running s; failed := failed s;
                          flight := flight s; cfg := c |}, ODone)
    end.

  Fixpoint exec (s : nstate) (ops : list op) : nstate * list outcome :=
    match ops with
    | [] => (s, [])
    | o :: r => let '(s1, x) := step s o in let '(s2, xs) := exec s1 r in (s2, x :: xs)
    end.
End Machine.

Definition init (n_in : list (option Z)) (c : Z) : nstate :=
  {| ins := n_in; outp := None; cached := None; running := false; failed := false; flight := None; cfg := c |}.

(* what a user can see of a node *)
Definition visible (s : nstate) : list (option Z) * option Z * bool * bool := (ins s, outp s, running s, failed s).

(* ---- concrete function for the correspondence check: lin, raising on a negative argument --- *)
Definition MODULUS : Z := 1000003.
Fixpoint lin_sum (i : Z) (args : list Z) : Z :=
  match args with [] => 0 | a :: r => (i * a + lin_sum (i + 1) r)%Z end.
Definition chk (c : Z) (args : list Z) : res :=
  if existsb (fun a => (a <? 0)%Z) args then RRaise 1 else RVal ((c + lin_sum 1 args) mod MODULUS)%Z.

Definition obs_outcome (o : outcome) : obs :=
  match o with
  | OValue (Some z) => OL [OS "val"; OZ z]
  | OValue None => OL [OS "val"; OS "nd"]
  | OFuture => OS "future" | OReadiness => OS "Readiness" | OLocked => OS "Locked"
  | OUser t => OL [OS "UserExc"; OZ t] | ODone => OS "done"
  end.
Definition obs_slot (o : option Z) : obs := match o with None => OS "nd" | Some z => OZ z end.
Definition obs_visible (s : nstate) : obs :=
  OL [OL (map obs_slot (ins s)); obs_slot (outp s); ob (running s); ob (failed s)].

(* observations after every op *)
Fixpoint obs_trace (fsem : Z -> list Z -> res) (uc : bool) (s : nstate) (ops : list op) : list obs :=
  match ops with
  | [] => []
  | o :: r => let '(s1, x) := step fsem uc s o in OL [obs_outcome x; obs_visible s1] :: obs_trace fsem uc s1 r
  end.
Definition obs_run (uc : bool) (n_in : list (option Z)) (c : Z) (ops : list op) : obs :=
  OL (obs_trace chk uc (init n_in c) ops).
