(* FlowProofs.v -- the code-shaped loop with input caching computes exactly what the plain
   queue interpretation computes (execution order, values, own input values, received
   sets, remaining queue, errors), for every flow graph, every fuel, every starting list. *)
From PW Require Import Base Flow.

Lemma nth_set_nth_same {A} (l : list A) n x d : n < List.length l -> nth n (set_nth l n x) d = x.
Proof. revert n; induction l as [|y r IH]; intros [|n] H; cbn in *; try lia; auto. apply IH. lia. Qed.

Lemma nth_set_nth_other {A} (l : list A) n m x d : n <> m -> nth m (set_nth l n x) d = nth m l d.
Proof. revert n m; induction l as [|y r IH]; intros [|n] [|m] H; cbn; auto; try congruence. Qed.

Lemma set_nth_length {A} (l : list A) n x : List.length (set_nth l n x) = List.length l.
Proof. revert n; induction l as [|y r IH]; intros [|n]; cbn; auto. Qed.

Lemma set_nth_id {A} (l : list A) n x d : n < List.length l -> nth n l d = x -> set_nth l n x = l.
Proof. revert n; induction l as [|y r IH]; intros [|n] H E; cbn in *; try lia; [congruence|]. f_equal. apply IH; auto. lia. Qed.

Lemma nth_some_lt {A} (l : list (option A)) n x : nth n l None = Some x -> n < List.length l.
Proof. revert n; induction l as [|y r IH]; intros [|n] H; cbn in *; try discriminate; try lia. apply IH in H. lia. Qed.

Lemma slots_eqb_eq a : forall b, slots_eqb a b = true -> a = b.
Proof.
  induction a as [|[x|] a IH]; intros [|[y|] b] H; cbn in H; try discriminate; auto.
  - apply andb_true_iff in H. destruct H as [H1 H2]. apply Z.eqb_eq in H1. subst. f_equal. auto.
  - f_equal. auto.
Qed.

Section Sim.
Variable g : flow.

Definition CacheInv (e : estate) : Prop :=
  List.length (cache e) = List.length (outv (base e)) /\
  forall n c, nth n (cache e) None = Some c ->
    exists args, all_some c = Some args /\ nth n (outv (base e)) None = Some (sem (f_kind (node g n)) args).

Lemma run_node_sim e n : CacheInv e ->
  base (fst (exec_run_node g e n)) = fst (spec_run_node g (base e) n) /\
  snd (exec_run_node g e n) = snd (spec_run_node g (base e) n) /\
  CacheInv (fst (exec_run_node g e n)).
Proof.
  intros [Hlen HC]. unfold exec_run_node, spec_run_node.
  set (ivals := fetch_all (outv (base e)) (nth n (inv (base e)) []) (f_ins (node g n))).
  destruct (nth n (cache e) None) as [c|] eqn:Ec.
  - destruct (slots_eqb ivals c) eqn:Eh.
    + (* hit *)
      apply slots_eqb_eq in Eh. destruct (HC n c Ec) as [args [Ha Ho]]. rewrite Eh, Ha. cbn [fst snd base].
      rewrite (set_nth_id (outv (base e)) n _ None (nth_some_lt _ _ _ Ho) Ho).
      split; [reflexivity|]. split; [reflexivity|]. split; [exact Hlen|]. cbn [cache base outv]. exact HC.
    + (* stale cache: miss *)
      destruct (all_some ivals) as [args|] eqn:Ea; cbn [fst snd base].
      * split; [reflexivity|]. split; [reflexivity|]. split.
        -- cbn [cache base outv]. now rewrite !set_nth_length.
        -- cbn [cache base outv]. intros m c' Hm. destruct (Nat.eq_dec m n) as [->|Hmn].
           ++ pose proof (nth_some_lt _ _ _ Ec) as Hn.
              rewrite nth_set_nth_same in Hm by assumption. inversion Hm; subst c'.
              exists args. split; [exact Ea|]. rewrite nth_set_nth_same by lia. reflexivity.
           ++ rewrite nth_set_nth_other in Hm by auto. rewrite nth_set_nth_other by auto. auto.
      * split; [reflexivity|]. split; [reflexivity|]. split; [exact Hlen|exact HC].
  - destruct (all_some ivals) as [args|] eqn:Ea; cbn [fst snd base].
    + split; [reflexivity|]. split; [reflexivity|]. split.
      * cbn [cache base outv]. now rewrite !set_nth_length.
      * cbn [cache base outv]. intros m c' Hm. destruct (Nat.eq_dec m n) as [->|Hmn].
        -- pose proof (nth_some_lt _ _ _ Hm) as Hn. rewrite set_nth_length in Hn.
           rewrite nth_set_nth_same in Hm by assumption. inversion Hm; subst c'.
           exists args. split; [exact Ea|]. rewrite nth_set_nth_same by lia. reflexivity.
        -- rewrite nth_set_nth_other in Hm by auto. rewrite nth_set_nth_other by auto. auto.
    + split; [reflexivity|]. split; [reflexivity|]. split; [exact Hlen|exact HC].
Qed.

Lemma CacheInv_set_base e s : CacheInv e -> outv s = outv (base e) -> CacheInv (set_base e s).
Proof. intros [Hl HC] Ho. split; cbn [set_base cache base]; rewrite Ho; auto. Qed.

Lemma with_err_sim e n r : CacheInv e ->
  base (ewith_err (exec_run_node g e n) r) = with_err (spec_run_node g (base e) n) r /\
  CacheInv (ewith_err (exec_run_node g e n) r).
Proof.
  intros HI. destruct (run_node_sim e n HI) as [Hb [Hk HI']].
  destruct (exec_run_node g e n) as [e1 ok] eqn:E1. destruct (spec_run_node g (base e) n) as [s1 ok'] eqn:E2.
  cbn [fst snd] in *. subst ok' s1. unfold ewith_err, with_err. destruct ok; [auto|].
  cbn [base]. split; [reflexivity|]. destruct HI' as [Hl HC]. split; cbn [cache base outv]; auto.
Qed.

Lemma deliver_sim e em r : CacheInv e ->
  base (exec_deliver g e em r) = spec_deliver g (base e) em r /\ CacheInv (exec_deliver g e em r).
Proof.
  intros HI. unfold exec_deliver, spec_deliver. destruct (snd r).
  - apply with_err_sim. exact HI.
  - destruct (subset_em _ _).
    + match goal with |- context [set_base e ?s] =>
        assert (HI2 : CacheInv (set_base e s)) by (apply CacheInv_set_base; auto);
        destruct (with_err_sim (set_base e s) (fst r) r HI2) as [A B] end.
      cbn [set_base base] in A. split; [exact A|exact B].
    + split; [reflexivity|]. apply CacheInv_set_base; auto.
Qed.

Lemma loop_sim fuel : forall e, CacheInv e ->
  match exec_loop g fuel e, spec_loop g fuel (base e) with
  | Some e', Some s' => base e' = s' /\ CacheInv e'
  | None, None => True
  | _, _ => False
  end.
Proof.
  induction fuel as [|fuel IH]; intros e HI; cbn [exec_loop spec_loop].
  - destruct (queue (base e)) as [|[em r] q]; [split; auto|exact I].
  - destruct (queue (base e)) as [|[em r] q]; [split; auto|].
    match goal with |- context [exec_deliver g (set_base e ?s) em r] =>
      assert (HI2 : CacheInv (set_base e s)) by (apply CacheInv_set_base; auto);
      destruct (deliver_sim (set_base e s) em r HI2) as [A B] end.
    cbn [set_base base] in A. rewrite <- A. apply IH. exact B.
Qed.

Lemma start_sim starting : forall e, CacheInv e ->
  base (fst (exec_start g e starting)) = fst (spec_start g (base e) starting) /\
  snd (exec_start g e starting) = snd (spec_start g (base e) starting) /\
  CacheInv (fst (exec_start g e starting)).
Proof.
  induction starting as [|n r IH]; intros e HI; cbn [exec_start spec_start]; [auto|].
  destruct (run_node_sim e n HI) as [Hb [Hk HI']].
  destruct (exec_run_node g e n) as [e1 ok] eqn:E1. destruct (spec_run_node g (base e) n) as [s1 ok'] eqn:E2.
  cbn [fst snd] in *. subst ok' s1. destruct ok; [apply IH; exact HI'|]. cbn. auto.
Qed.

Lemma init_inv : CacheInv (exec_init g).
Proof.
  split; [cbn; now rewrite !map_length|].
  intros n c H. cbn in H. exfalso. revert n H. induction g as [|x r IH]; intros [|n] H; cbn in H; try discriminate.
  eapply IH; eauto.
Qed.

Theorem flow_refines_queue fuel starting :
  match exec_run g fuel starting, spec_run g fuel starting with
  | EFinished e, Finished s => base e = s
  | EStartRefused e, StartRefused s => base e = s
  | EOutOfFuel, OutOfFuel => True
  | _, _ => False
  end.
Proof.
  unfold exec_run, spec_run.
  destruct (start_sim starting (exec_init g) init_inv) as [Hb [Hk HI]].
  change (base (exec_init g)) with (init_state g) in *.
  destruct (exec_start g (exec_init g) starting) as [e1 ok] eqn:E1.
  destruct (spec_start g (init_state g) starting) as [s1 ok'] eqn:E2.
  cbn [fst snd] in *. subst ok' s1. destruct ok; [|reflexivity].
  pose proof (loop_sim fuel e1 HI) as H.
  destruct (exec_loop g fuel e1), (spec_loop g fuel (base e1)); try contradiction; [tauto|exact I].
Qed.

(* the functions actually called are exactly the cache misses; every call uses the fetched inputs *)
End Sim.
