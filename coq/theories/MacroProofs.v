(* MacroProofs.v -- proofs about Macro.v (C09).  Stdlib only, no axioms. *)
From PW Require Import Base Macro.
Open Scope nat_scope.

(* ================================================================================== *)
(* A. lists                                                                            *)
Lemma upd_nth_length {A} n (x : A) l : List.length (upd_nth n x l) = List.length l.
Proof. revert n; induction l as [|y r IH]; intros [|n]; simpl; auto. Qed.

Lemma nth_upd_same {A} n (x d : A) l : n < List.length l -> nth n (upd_nth n x l) d = x.
Proof. revert n; induction l as [|y r IH]; intros [|n] H; simpl in *; try lia; auto. apply IH; lia. Qed.

Lemma nth_upd_other {A} n m (x d : A) l : n <> m -> nth m (upd_nth n x l) d = nth m l d.
Proof.
  revert n m; induction l as [|y r IH]; intros [|n] [|m] H; simpl; auto; try congruence.
Qed.

Lemma nth_upd {A} n m (x d : A) l :
  nth m (upd_nth n x l) d = if Nat.eqb n m then (if Nat.ltb n (List.length l) then x else nth m l d) else nth m l d.
Proof.
  destruct (Nat.eqb_spec n m) as [->|Hne].
  - destruct (Nat.ltb_spec m (List.length l)).
    + now apply nth_upd_same.
    + rewrite !nth_overflow; auto. now rewrite upd_nth_length.
  - now apply nth_upd_other.
Qed.

Lemma upd_nth_overflow {A} n (x : A) l : List.length l <= n -> upd_nth n x l = l.
Proof. revert n; induction l as [|y r IH]; intros [|n] H; simpl in *; auto; try lia. f_equal; apply IH; lia. Qed.

Lemma upd_nth_same_val {A} n (d : A) l : upd_nth n (nth n l d) l = l.
Proof. revert n; induction l as [|y r IH]; intros [|n]; simpl; auto. f_equal; apply IH. Qed.

Lemma list_eq_nth {A} (d : A) l1 l2 :
  List.length l1 = List.length l2 -> (forall n, n < List.length l1 -> nth n l1 d = nth n l2 d) -> l1 = l2.
Proof.
  revert l2; induction l1 as [|x r IH]; intros [|y r2] HL H; simpl in *; try discriminate; auto.
  f_equal.
  - apply (H 0); lia.
  - apply IH; [lia|]. intros n Hn. apply (H (S n)); lia.
Qed.

Lemma val_eqb_eq a b : val_eqb a b = true <-> a = b.
Proof.
  destruct a, b; simpl; try (split; congruence).
  rewrite Z.eqb_eq. split; congruence.
Qed.

Lemma vals_eqb_eq a b : vals_eqb a b = true <-> a = b.
Proof.
  revert b; induction a as [|x a IH]; intros [|y b]; simpl; try (split; congruence).
  rewrite andb_true_iff, val_eqb_eq, IH. split; [intros [-> ->]; auto|intros H; inversion H; auto].
Qed.

Lemma cache_hit_iff c ins : cache_hit c ins = true <-> c = Some ins.
Proof.
  destruct c as [l|]; simpl; [|split; congruence].
  rewrite vals_eqb_eq. split; congruence.
Qed.

Lemma cache_hit_false c ins : cache_hit c ins = false <-> c <> Some ins.
Proof.
  rewrite <- cache_hit_iff. destruct (cache_hit c ins); split; congruence.
Qed.

(* ================================================================================== *)
(* B. unfolding the recursion through the children                                     *)
Lemma dispatch_nth {R} (f : snode -> R) body j :
  dispatch f (f (sb_node dsb)) body j = f (sb_node (nth j body dsb)).
Proof.
  revert j; induction body as [|e r IH]; intros [|j]; simpl; auto.
Qed.

Lemma dispatch_spec {R} (f : snode -> R) dflt body j :
  dispatch f dflt body j = if Nat.ltb j (List.length body) then f (sb_node (nth j body dsb)) else dflt.
Proof.
  revert j; induction body as [|e r IH]; intros [|j]; simpl; auto. rewrite IH. reflexivity.
Qed.

Definition kid (body : list (sbody snode)) (j : nat) : snode := sb_node (nth j body dsb).

Lemma set_in_mac l ps ols recvs kept uirecv body manual order v k x :
  set_in (SMac l ps ols recvs kept uirecv body manual order) v k x =
  set_mac_with (fun j vj k' => set_in (kid body j) vj k' x) recvs v k x.
Proof.
  simpl. unfold set_mac_with. destruct v as [ins outs c ui vb].
  destruct (nth_error recvs k) as [[i|j k'|]|]; auto.
  do 2 f_equal. unfold kid.
  exact (dispatch_nth (fun s' => set_in s' (nth j vb dv) k' x) body j).
Qed.

Lemma fetch_from_ext f g ui body conns k vj :
  (forall v k x, f v k x = g v k x) -> fetch_from f ui body conns k vj = fetch_from g ui body conns k vj.
Proof.
  intros H. revert k vj; induction conns as [|c r IH]; intros k vj; simpl; auto.
  destruct (first_data _); [rewrite H|]; apply IH.
Qed.

Lemma fold_opt_ext {A B} (f g : A -> B -> option A) l a :
  (forall a b, f a b = g a b) -> fold_opt f l a = fold_opt g l a.
Proof.
  intros H. revert a; induction l as [|b r IH]; intros a; simpl; auto.
  rewrite H. destruct (g a b); auto.
Qed.

Lemma run_mac_with_ext s1 s2 r1 r2 kept uirecv cinfo order v :
  (forall j vj k x, s1 j vj k x = s2 j vj k x) -> (forall j vj, r1 j vj = r2 j vj) ->
  run_mac_with s1 r1 kept uirecv cinfo order v = run_mac_with s2 r2 kept uirecv cinfo order v.
Proof.
  intros Hs Hr. unfold run_mac_with. destruct v as [ins outs c ui vb].
  destruct (cache_hit c ins); auto. destruct (all_data ins); auto.
  erewrite fold_opt_ext; [reflexivity|].
  intros st [i|j]; simpl; auto.
  destruct (nth j cinfo ([], [])) as [conns orecv].
  erewrite fetch_from_ext; [|intros; apply Hs]. rewrite Hr. reflexivity.
Qed.

Lemma run_mac l ps ols recvs kept uirecv body manual order v :
  run (SMac l ps ols recvs kept uirecv body manual order) v =
  run_mac_with (fun j vj k x => set_in (kid body j) vj k x) (fun j vj => run (kid body j) vj)
               kept uirecv (cinfo_of body) order v.
Proof.
  cbn [run]. apply run_mac_with_ext; auto.
  intros j vj. unfold kid. exact (dispatch_nth (fun s' => run s' vj) body j).
Qed.

Lemma set_in_at_nil s v k x : set_in_at s v [] k x = set_in s v k x.
Proof. destruct s; reflexivity. Qed.

Lemma set_in_at_body l ps ols recvs kept uirecv body manual order ins outs c ui vb j p k x :
  set_in_at (SMac l ps ols recvs kept uirecv body manual order) (VN ins outs c ui vb) (KBody j :: p) k x =
  VN ins outs c ui (upd_nth j (if Nat.ltb j (List.length body) then set_in_at (kid body j) (nth j vb dv) p k x
                              else nth j vb dv) vb).
Proof.
  cbn [set_in_at]. do 2 f_equal. unfold kid. apply dispatch_spec.
Qed.

Lemma set_out_at_body l ps ols recvs kept uirecv body manual order ins outs c ui vb j p lo x :
  set_out_at (SMac l ps ols recvs kept uirecv body manual order) (VN ins outs c ui vb) (KBody j :: p) lo x =
  (let '(vj', ps') := (if Nat.ltb j (List.length body) then set_out_at (kid body j) (nth j vb dv) p lo x
                       else (nth j vb dv, [])) in
   let '(outs', q) := apply_pushes (sb_orecv (nth j body dsb)) ps' outs in
   (VN ins outs' c ui (upd_nth j vj' vb), q)).
Proof.
  cbn [set_out_at]. unfold kid. rewrite dispatch_spec. reflexivity.
Qed.

(* ================================================================================== *)
(* C. induction principles, pointwise predicates                                        *)
Lemma snode_ind' (P : snode -> Prop) :
  (forall l i a, P (SFn l i a)) ->
  (forall l ps ols recvs kept uirecv body manual order,
      (forall j, P (kid body j)) -> P (SMac l ps ols recvs kept uirecv body manual order)) ->
  forall s, P s.
Proof.
  intros Hf Hm. fix IH 1. intros [l i a|l ps ols recvs kept uirecv body manual order]; [apply Hf|apply Hm].
  unfold kid. induction body as [|e r IHr]; intros j.
  - destruct j; simpl; apply Hf.
  - destruct j; simpl; [destruct e as [n c o]; simpl; apply IH|apply IHr].
Qed.

Definition dstmt : stmt mdef := mkStmt "" None [].

Lemma mdef_ind' (P : mdef -> Prop) :
  (forall ps body rets fl,
      (forall j d', s_mac (nth j body dstmt) = Some d' -> P d') -> P (MDef ps body rets fl)) ->
  forall d, P d.
Proof.
  intros H. fix IH 1. intros [ps body rets fl]. apply H.
  induction body as [|st r IHr]; intros j d'.
  - destruct j; simpl; discriminate.
  - destruct j; simpl; [|apply IHr].
    destruct st as [l [m|] a]; simpl; intros E; [|discriminate].
    exact (match E in _ = o return match o with Some d'' => P d'' | None => True end with eq_refl => IH m end).
Qed.

Definition all2 {A B} (P : A -> B -> Prop) : list A -> list B -> Prop :=
  fix go (l1 : list A) (l2 : list B) : Prop :=
    match l1, l2 with
    | [], [] => True
    | a :: r1, b :: r2 => P a b /\ go r1 r2
    | _, _ => False
    end.

Lemma all2_nth {A B} (P : A -> B -> Prop) da db l1 l2 :
  all2 P l1 l2 <-> List.length l1 = List.length l2 /\ forall j, j < List.length l1 -> P (nth j l1 da) (nth j l2 db).
Proof.
  revert l2; induction l1 as [|a r IH]; intros [|b r2]; simpl.
  - split; auto. intros _. split; auto. intros j Hj; lia.
  - split; [tauto|intros [E _]; discriminate].
  - split; [tauto|intros [E _]; discriminate].
  - rewrite IH. split.
    + intros [Hab [HL Hn]]. split; [lia|]. intros [|j] Hj; auto. apply Hn; lia.
    + intros [HL Hn]. split; [apply (Hn 0); lia|]. split; [lia|]. intros j Hj. apply (Hn (S j)); lia.
Qed.

Definition all3 {A B C} (P : A -> B -> C -> Prop) : list A -> list B -> list C -> Prop :=
  fix go (l1 : list A) (l2 : list B) (l3 : list C) : Prop :=
    match l1, l2, l3 with
    | [], [], [] => True
    | a :: r1, b :: r2, c :: r3 => P a b c /\ go r1 r2 r3
    | _, _, _ => False
    end.

Lemma all3_nth {A B C} (P : A -> B -> C -> Prop) da db dc l1 l2 l3 :
  all3 P l1 l2 l3 <-> List.length l1 = List.length l2 /\ List.length l1 = List.length l3 /\
                      forall j, j < List.length l1 -> P (nth j l1 da) (nth j l2 db) (nth j l3 dc).
Proof.
  revert l2 l3; induction l1 as [|a r IH]; intros [|b r2] [|c r3]; simpl;
    try (split; [tauto|intros (E1 & E2 & _); discriminate]).
  - split; auto. intros _. repeat split; auto. intros j Hj; lia.
  - rewrite IH. split.
    + intros [Hab (HL & HL' & Hn)]. repeat split; try lia. intros [|j] Hj; auto. apply Hn; lia.
    + intros (HL & HL' & Hn). split; [apply (Hn 0); lia|]. repeat split; try lia. intros j Hj. apply (Hn (S j)); lia.
Qed.

(* ---- what the setter touches --------------------------------------------------------- *)
Lemma set_fn_ins v k x : v_ins (set_fn v k x) = upd_nth k x (v_ins v).
Proof. destruct v; reflexivity. Qed.

Lemma set_in_ins s v k x : v_ins (set_in s v k x) = upd_nth k x (v_ins v).
Proof.
  destruct s as [l i a|l ps ols recvs kept uirecv body manual order].
  - apply set_fn_ins.
  - rewrite set_in_mac. unfold set_mac_with. destruct v as [ins outs c ui vb].
    destruct (nth_error recvs k) as [[i|j k'|]|]; reflexivity.
Qed.

Lemma set_in_outs s v k x : v_outs (set_in s v k x) = v_outs v.
Proof.
  destruct s as [l i a|l ps ols recvs kept uirecv body manual order].
  - destruct v; reflexivity.
  - rewrite set_in_mac. unfold set_mac_with. destruct v as [ins outs c ui vb].
    destruct (nth_error recvs k) as [[i|j k'|]|]; reflexivity.
Qed.

Lemma set_in_cache s v k x : v_cache (set_in s v k x) = v_cache v.
Proof.
  destruct s as [l i a|l ps ols recvs kept uirecv body manual order].
  - destruct v; reflexivity.
  - rewrite set_in_mac. unfold set_mac_with. destruct v as [ins outs c ui vb].
    destruct (nth_error recvs k) as [[i|j k'|]|]; reflexivity.
Qed.

(* ================================================================================== *)
(* D. the wiring a definition gets ([wired]) and the states in which a macro agrees
      with its definition ([coh])                                                      *)
Fixpoint last_idx (a : arg) (rets : list (string * arg)) (o : nat) : option nat :=
  match rets with
  | [] => None
  | (_, a') :: r => match last_idx a r (S o) with
                    | Some x => Some x
                    | None => if arg_eqb a a' then Some o else None
                    end
  end.

Definition conn_of (kept : list bool) (a : option arg) : list src :=
  match a with
  | Some (AParam i) => if nth i kept false then [SUI i] else []
  | Some (AOut j l) => [SBody j l]
  | _ => []
  end.

Definition sargs (body : list (stmt mdef)) (j : nat) : list arg := s_args (nth j body dstmt).

Definition wired_level (ps : list param) (body : list (stmt mdef)) (rets : list (string * arg)) (fl : flow)
    (recvs : list recv) (kept : list bool) (uirecv : list (option nat)) (sb : list (sbody snode))
    (manual : bool) (order : list kidref) : Prop :=
  let np := List.length ps in
  List.length recvs = np /\ List.length kept = np /\ List.length uirecv = np /\
  configure fl kept (List.length body) = Some (manual, order) /\
  (forall i, i < np -> nth i uirecv None = last_idx (AParam i) rets 0) /\
  (forall i, i < np -> nth i kept false = true -> nth i recvs ROrphan = RUI i) /\
  (forall i j k, i < np -> nth i kept false = false -> j < List.length body ->
                 nth_error (sargs body j) k = Some (AParam i) -> nth i recvs ROrphan = RBody j k) /\
  (forall i, i < np -> nth i kept false = false ->
             match nth i recvs ROrphan with
             | RBody j k => j < List.length body /\ nth_error (sargs body j) k = Some (AParam i)
             | ROrphan => True
             | RUI _ => False
             end) /\
  (forall i, i < np -> last_idx (AParam i) rets 0 <> None -> nth i kept false = true) /\
  (forall j, j < List.length body ->
     let e := nth j sb dsb in
     List.length (sargs body j) <= s_nins (sb_node e) /\
     List.length (sb_conns e) = s_nins (sb_node e) /\ List.length (sb_orecv e) = s_nouts (sb_node e) /\
     (forall k, k < s_nins (sb_node e) -> nth k (sb_conns e) [] = conn_of kept (nth_error (sargs body j) k)) /\
     (forall l, l < s_nouts (sb_node e) -> nth l (sb_orecv e) None = last_idx (AOut j l) rets 0)).

Fixpoint wired (d : mdef) (s : snode) {struct d} : Prop :=
  match d with MDef ps body rets fl =>
    match s with
    | SFn _ _ _ => False
    | SMac l ps' ols recvs kept uirecv sb manual order =>
        ps' = ps /\ ols = map fst rets /\
        wired_level ps body rets fl recvs kept uirecv sb manual order /\
        all2 (fun st e => match s_mac st with
                          | None => sb_node e = SFn (s_label st) false (List.length (s_args st))
                          | Some d' => wired d' (sb_node e) /\ s_label_of (sb_node e) = s_label st
                          end) body sb
    end
  end.

Definition fn_coh (idf : bool) (v : vnode) : Prop :=
  List.length (v_outs v) = 1 /\
  forall cc, v_cache v = Some cc ->
    all_data cc = true /\ v_outs v = [Some (if idf then hd 0%Z (vals cc) else mlin (vals cc))].

Definition coh_level (ps : list param) (body : list (stmt mdef)) (rets : list (string * arg))
    (recvs : list recv) (kept : list bool) (uirecv : list (option nat)) (sb : list (sbody snode))
    (ins outs : list val) (ui vb : list vnode) : Prop :=
  let np := List.length ps in
  List.length ins = np /\ List.length outs = List.length rets /\ List.length ui = np /\
  List.length vb = List.length body /\
  (forall i, i < np -> List.length (v_ins (nth i ui dv)) = 1 /\ fn_coh true (nth i ui dv)) /\
  (forall i, i < np -> nth i kept false = true -> v_ins (nth i ui dv) = [nth i ins None]) /\
  (forall i j k, i < np -> nth i kept false = false -> nth i recvs ROrphan = RBody j k ->
                 nth k (v_ins (nth j vb dv)) None = nth i ins None) /\
  (forall j k z, j < List.length body -> nth_error (sargs body j) k = Some (AConst z) ->
                 nth k (v_ins (nth j vb dv)) None = Some z) /\
  (forall j, j < List.length body -> List.length (v_ins (nth j vb dv)) = s_nins (kid sb j)) /\
  (forall i o, i < np -> nth i uirecv None = Some o -> nth o outs None = nth 0 (v_outs (nth i ui dv)) None) /\
  (forall j l o, j < List.length body -> nth l (sb_orecv (nth j sb dsb)) None = Some o ->
                 nth o outs None = nth l (v_outs (nth j vb dv)) None).

Fixpoint coh (d : mdef) (s : snode) (v : vnode) {struct d} : Prop :=
  match d with MDef ps body rets fl =>
    match s with
    | SFn _ _ _ => False
    | SMac l _ ols recvs kept uirecv sb _ _ =>
        coh_level ps body rets recvs kept uirecv sb (v_ins v) (v_outs v) (v_ui v) (v_body v) /\
        (forall cc, v_cache v = Some cc -> all_data cc = true /\ denote d cc = Some (v_outs v)) /\
        all3 (fun st e vj => match s_mac st with
                             | None => fn_coh false vj
                             | Some d' => coh d' (sb_node e) vj /\
                                          forall k, List.length (s_args st) <= k -> k < List.length (d_params d') ->
                                                    nth k (v_ins vj) None = p_default (nth k (d_params d') (mkParam "" None None))
                             end) body sb (v_body v)
    end
  end.

(* ================================================================================== *)
(* E. plain composition                                                                 *)
Definition dparam := mkParam "" None None.

Lemma fill_length given ps : List.length (fill given ps) = List.length ps.
Proof. revert given; induction ps as [|p r IH]; intros [|x g]; simpl; auto. Qed.

Lemma fill_nth given ps k : k < List.length ps ->
  nth k (fill given ps) None = if Nat.ltb k (List.length given) then nth k given None else p_default (nth k ps dparam).
Proof.
  revert given k; induction ps as [|p r IH]; intros given k Hk; simpl in *; [lia|].
  destruct given as [|x g]; destruct k as [|k]; simpl; auto.
  - rewrite IH by lia. destruct k; reflexivity.
  - rewrite IH by lia. reflexivity.
Qed.

Lemma all_data_nth l : all_data l = true <-> forall k, k < List.length l -> is_data (nth k l None) = true.
Proof.
  unfold all_data. rewrite forallb_forall. split.
  - intros H k Hk. apply H. now apply nth_In.
  - intros H x Hx. destruct (In_nth _ _ None Hx) as (k & Hk & <-). now apply H.
Qed.

Definition stmt_nouts (st : stmt mdef) : nat := match s_mac st with None => 1 | Some d' => d_nouts d' end.
Definition body_nouts (body : list (stmt mdef)) : list nat := map stmt_nouts body.

Lemma wf_body_spec wf np rets body acc :
  wf_body wf np rets body acc = true ->
  (forall j, j < List.length body ->
     forallb (ref_ok np (acc ++ firstn j (body_nouts body)) true) (sargs body j) = true /\
     match s_mac (nth j body dstmt) with
     | None => True
     | Some d' => wf d' = true /\ List.length (sargs body j) <= List.length (d_params d') /\
                  forallb (fun p => is_data (p_default p)) (skipn (List.length (sargs body j)) (d_params d')) = true
     end) /\
  forallb (fun la => ref_ok np (acc ++ body_nouts body) false (snd la)) rets = true.
Proof.
  revert acc; induction body as [|st r IH]; intros acc H; simpl in H.
  - split; [intros j Hj; simpl in Hj; lia|]. simpl. now rewrite app_nil_r.
  - apply andb_true_iff in H as [Ha H].
    assert (HR : wf_body wf np rets r (acc ++ [stmt_nouts st]) = true /\
                 match s_mac st with
                 | None => True
                 | Some d' => wf d' = true /\ List.length (s_args st) <= List.length (d_params d') /\
                              forallb (fun p => is_data (p_default p)) (skipn (List.length (s_args st)) (d_params d')) = true
                 end).
    { unfold stmt_nouts. destruct (s_mac st) as [d'|]; [|auto].
      apply andb_true_iff in H as [H H4]. apply andb_true_iff in H as [H H3]. apply andb_true_iff in H as [H1 H2].
      apply Nat.leb_le in H2. auto. }
    destruct HR as [HR Hst]. destruct (IH _ HR) as [IH1 IH2]. split.
    + intros [|j] Hj; unfold sargs; simpl.
      * rewrite app_nil_r. auto.
      * simpl in Hj. destruct (IH1 j ltac:(lia)) as [A B]. rewrite <- app_assoc in A. simpl in A. auto.
    + simpl. rewrite <- app_assoc in IH2. exact IH2.
Qed.

Definition refs_lt (n : nat) (a : arg) : Prop := match a with AOut j _ => j < n | _ => True end.

Lemma env_val_firstn args E n a : refs_lt n a -> env_val args (firstn n E) a = env_val args E a.
Proof.
  destruct a as [i|j l|z]; simpl; auto. intros H.
  destruct (Nat.ltb_spec j (List.length E)).
  - f_equal. rewrite <- (firstn_skipn n E) at 2. rewrite app_nth1; auto.
    rewrite firstn_length. lia.
  - rewrite !nth_overflow with (n := j); auto. rewrite firstn_length. lia.
Qed.

Lemma env_val_app args E E' a : refs_lt (List.length E) a -> env_val args (E ++ E') a = env_val args E a.
Proof.
  destruct a as [i|j l|z]; simpl; auto. intros H. now rewrite app_nth1.
Qed.

Lemma denote_body_app den args b env E :
  denote_body den args b env = Some E -> exists E', E = env ++ E' /\ List.length E' = List.length b.
Proof.
  revert env; induction b as [|st r IH]; intros env H; simpl in H.
  - inversion H. exists []. now rewrite app_nil_r.
  - destruct (s_mac st) as [d'|].
    + destruct (all_data _); [|discriminate]. destruct (den d' _) as [outs|]; [|discriminate].
      destruct (IH _ H) as (E' & -> & HL). exists (outs :: E'). rewrite <- app_assoc. simpl. auto.
    + destruct (all_data _); [|discriminate].
      destruct (IH _ H) as (E' & -> & HL). eexists (_ :: E'). rewrite <- app_assoc. simpl. auto.
Qed.

(* every statement's result, in terms of the FINAL environment *)
Lemma denote_body_spec den args body env E :
  denote_body den args body env = Some E ->
  (forall j a, j < List.length body -> In a (sargs body j) -> refs_lt (List.length env + j) a) ->
  forall j, j < List.length body ->
    let avs := map (env_val args E) (sargs body j) in
    match s_mac (nth j body dstmt) with
    | None => all_data avs = true /\ nth (List.length env + j) E [] = [Some (mlin (vals avs))]
    | Some d' => all_data (fill avs (d_params d')) = true /\
                 den d' (fill avs (d_params d')) = Some (nth (List.length env + j) E [])
    end.
Proof.
  revert env; induction body as [|st r IH]; intros env H Hr j Hj; simpl in Hj; [lia|].
  simpl in H.
  assert (Hst : forall E0, map (env_val args (env ++ E0)) (s_args st) = map (env_val args env) (s_args st)).
  { intros E0. apply map_ext_in. intros a Ha. apply env_val_app.
    specialize (Hr 0 a ltac:(simpl; lia) Ha). now rewrite Nat.add_0_r in Hr. }
  destruct j as [|j].
  - unfold sargs; simpl. rewrite Nat.add_0_r.
    destruct (s_mac st) as [d'|].
    + destruct (all_data (fill _ _)) eqn:Ead; [|discriminate].
      destruct (den d' _) as [outs|] eqn:Eden; [|discriminate].
      destruct (denote_body_app _ _ _ _ _ H) as (E' & -> & _).
      rewrite <- app_assoc. rewrite Hst. split; auto.
      rewrite Eden. f_equal. rewrite app_nth2 by lia. now rewrite Nat.sub_diag.
    + destruct (all_data (map _ _)) eqn:Ead; [|discriminate].
      destruct (denote_body_app _ _ _ _ _ H) as (E' & -> & _).
      rewrite <- app_assoc. rewrite Hst. split; auto.
      rewrite app_nth2 by lia. now rewrite Nat.sub_diag.
  - assert (H' : exists x, denote_body den args r (env ++ [x]) = Some E).
    { destruct (s_mac st) as [d'|].
      - destruct (all_data _); [|discriminate]. destruct (den d' _) as [outs|]; [|discriminate]. eauto.
      - destruct (all_data _); [|discriminate]. eauto. }
    destruct H' as [x H'].
    assert (IH' := IH _ H'). rewrite app_length in IH'. simpl in IH'.
    replace (List.length env + S j) with (List.length env + 1 + j) by lia.
    apply IH'; [|lia].
    intros j' a Hj' Ha. specialize (Hr (S j') a ltac:(simpl; lia) Ha).
    replace (List.length env + 1 + j') with (List.length env + S j') by lia. exact Hr.
Qed.

Definition env_ok (nouts : list nat) (env : list (list val)) : Prop :=
  List.length env = List.length nouts /\
  forall j, j < List.length env -> List.length (nth j env []) = nth j nouts 0 /\ all_data (nth j env []) = true.

Lemma env_val_data np nouts args env c a :
  List.length args = np -> all_data args = true -> env_ok nouts env -> ref_ok np nouts c a = true ->
  (a = AParam 0 \/ True) -> match a with AConst _ => True | _ => is_data (env_val args env a) = true end.
Proof.
  intros HL Had [HE Hn] Hr _. destruct a as [i|j l|z]; simpl in *; auto.
  - apply Nat.ltb_lt in Hr. apply all_data_nth; auto. lia.
  - apply andb_true_iff in Hr as [Hj Hl]. apply Nat.ltb_lt in Hj, Hl.
    destruct (Hn j ltac:(lia)) as [A B]. apply all_data_nth; auto. lia.
Qed.

Lemma env_vals_data np nouts args env l :
  List.length args = np -> all_data args = true -> env_ok nouts env ->
  forallb (ref_ok np nouts true) l = true -> all_data (map (env_val args env) l) = true.
Proof.
  intros HL Had He Hl. unfold all_data. rewrite forallb_forall. intros x Hx.
  apply in_map_iff in Hx as (a & <- & Ha). rewrite forallb_forall in Hl. specialize (Hl a Ha).
  pose proof (env_val_data np nouts args env true a HL Had He Hl (or_intror I)) as H.
  destruct a; auto.
Qed.

Lemma env_ok_snoc nouts env n outs :
  env_ok nouts env -> List.length outs = n -> all_data outs = true -> env_ok (nouts ++ [n]) (env ++ [outs]).
Proof.
  intros [HE Hn] HL Ha. split; [rewrite !app_length; simpl; lia|].
  intros j Hj. rewrite app_length in Hj. simpl in Hj.
  destruct (Nat.eq_dec j (List.length env)) as [->|Hne].
  - rewrite app_nth2 by lia. rewrite Nat.sub_diag. rewrite HE. rewrite app_nth2 by lia. rewrite Nat.sub_diag. simpl. auto.
  - rewrite !app_nth1 by lia. apply Hn. lia.
Qed.

Definition total (den : mdef -> list val -> option (list val)) (d' : mdef) : Prop :=
  forall args, List.length args = List.length (d_params d') -> all_data args = true ->
    exists outs, den d' args = Some outs /\ List.length outs = d_nouts d' /\ all_data outs = true.

Lemma fill_data avs ps :
  List.length avs <= List.length ps -> all_data avs = true ->
  forallb (fun p => is_data (p_default p)) (skipn (List.length avs) ps) = true ->
  all_data (fill avs ps) = true.
Proof.
  revert avs; induction ps as [|p r IH]; intros [|x g] HL Ha Hd; simpl in *; auto; try lia.
  - apply andb_true_iff in Hd as [Hp Hd]. rewrite Hp. simpl. apply (IH []); auto; simpl; lia.
  - apply andb_true_iff in Ha as [Hx Ha]. rewrite Hx. simpl. apply IH; auto. lia.
Qed.

Lemma denote_body_total den wf np rets args body acc env :
  (forall j d', j < List.length body -> s_mac (nth j body dstmt) = Some d' -> wf d' = true -> total den d') ->
  wf_body wf np rets body acc = true ->
  List.length args = np -> all_data args = true -> env_ok acc env ->
  exists E, denote_body den args body env = Some E /\ env_ok (acc ++ body_nouts body) E.
Proof.
  revert acc env; induction body as [|st r IH]; intros acc env Hden Hwf HL Had He; simpl.
  - exists env. split; auto. simpl. now rewrite app_nil_r.
  - simpl in Hwf. apply andb_true_iff in Hwf as [Ha Hwf].
    pose proof (env_vals_data _ _ _ _ _ HL Had He Ha) as Havs.
    assert (Hden' : forall j d', j < List.length r -> s_mac (nth j r dstmt) = Some d' -> wf d' = true -> total den d').
    { intros j d' Hj. apply (Hden (S j)). simpl; lia. }
    destruct (s_mac st) as [d'|] eqn:Em.
    + apply andb_true_iff in Hwf as [Hwf H4]. apply andb_true_iff in Hwf as [Hwf H3].
      apply andb_true_iff in Hwf as [H1 H2]. apply Nat.leb_le in H2.
      assert (Hf : all_data (fill (map (env_val args env) (s_args st)) (d_params d')) = true).
      { apply fill_data; rewrite ?map_length; auto. }
      rewrite Hf.
      destruct (Hden 0 d' ltac:(simpl; lia) Em H1 _ (fill_length _ _) Hf) as (outs & -> & HLo & Hao).
      destruct (IH (acc ++ [d_nouts d']) (env ++ [outs]) Hden' H4 HL Had (env_ok_snoc _ _ _ _ He HLo Hao)) as (E & HE & HEok).
      exists E. split; auto. unfold body_nouts; simpl. unfold stmt_nouts at 1. rewrite Em.
      now rewrite <- app_assoc in HEok.
    + rewrite Havs.
      destruct (IH (acc ++ [1]) (env ++ [[Some (mlin (vals (map (env_val args env) (s_args st))))]]) Hden' Hwf HL Had
                   (env_ok_snoc _ _ 1 [Some (mlin (vals (map (env_val args env) (s_args st))))] He eq_refl eq_refl)) as (E & HE & HEok).
      exists E. split; auto. unfold body_nouts; simpl. unfold stmt_nouts at 1. rewrite Em.
      now rewrite <- app_assoc in HEok.
Qed.

Lemma denote_total d : wfd d = true -> total denote d.
Proof.
  induction d as [ps body rets fl IH] using mdef_ind'. intros Hwf args HL Had. simpl in *.
  apply andb_true_iff in Hwf as [Hwf Hb]. 
  destruct (denote_body_total denote wfd (List.length ps) rets args body [] []) as (E & HE & HEok); auto.
  { intros j d' _ Em Hw. now apply (IH j d'). }
  { split; auto. simpl. intros j Hj; lia. }
  rewrite HE. eexists. split; [reflexivity|]. rewrite map_length. split; [reflexivity|].
  apply wf_body_spec in Hb as [_ Hr]. simpl in *.
  unfold all_data. rewrite forallb_forall. intros x Hx. apply in_map_iff in Hx as ([lab a] & <- & Ha).
  rewrite forallb_forall in Hr. specialize (Hr _ Ha). simpl in *.
  pose proof (env_val_data _ _ args E false a HL Had HEok Hr (or_intror I)) as H.
  destruct a; auto.
Qed.

(* ================================================================================== *)
(* F. reading [wired] / [coh] pointwise                                                 *)
Lemma wired_kids ps body rets fl l ps' ols recvs kept uirecv sb manual order :
  wired (MDef ps body rets fl) (SMac l ps' ols recvs kept uirecv sb manual order) ->
  List.length body = List.length sb /\
  forall j, j < List.length body ->
    match s_mac (nth j body dstmt) with
    | None => kid sb j = SFn (s_label (nth j body dstmt)) false (List.length (sargs body j))
    | Some d' => wired d' (kid sb j) /\ s_label_of (kid sb j) = s_label (nth j body dstmt)
    end.
Proof.
  simpl. intros (_ & _ & _ & H). apply (all2_nth _ dstmt dsb) in H. exact H.
Qed.

Lemma wired_nins d s : wired d s -> s_nins s = List.length (d_params d).
Proof. destruct d, s; simpl; [tauto|]. intros (-> & _). reflexivity. Qed.

Lemma wired_nouts d s : wired d s -> s_nouts s = d_nouts d.
Proof. destruct d, s; simpl; [tauto|]. intros (_ & -> & _). unfold d_nouts. simpl. now rewrite map_length. Qed.

Lemma coh_kids ps body rets fl l ps' ols recvs kept uirecv sb manual order v :
  coh (MDef ps body rets fl) (SMac l ps' ols recvs kept uirecv sb manual order) v ->
  forall j, j < List.length body ->
    match s_mac (nth j body dstmt) with
    | None => fn_coh false (nth j (v_body v) dv)
    | Some d' => coh d' (kid sb j) (nth j (v_body v) dv) /\
                 forall k, List.length (sargs body j) <= k -> k < List.length (d_params d') ->
                           nth k (v_ins (nth j (v_body v) dv)) None = p_default (nth k (d_params d') dparam)
    end.
Proof.
  simpl. intros (_ & _ & H). apply (all3_nth _ dstmt dsb dv) in H. apply H.
Qed.

Lemma coh_intro ps body rets fl l ps' ols recvs kept uirecv sb manual order v :
  coh_level ps body rets recvs kept uirecv sb (v_ins v) (v_outs v) (v_ui v) (v_body v) ->
  (forall cc, v_cache v = Some cc -> all_data cc = true /\ denote (MDef ps body rets fl) cc = Some (v_outs v)) ->
  List.length body = List.length sb ->
  (forall j, j < List.length body ->
    match s_mac (nth j body dstmt) with
    | None => fn_coh false (nth j (v_body v) dv)
    | Some d' => coh d' (kid sb j) (nth j (v_body v) dv) /\
                 forall k, List.length (sargs body j) <= k -> k < List.length (d_params d') ->
                           nth k (v_ins (nth j (v_body v) dv)) None = p_default (nth k (d_params d') dparam)
    end) ->
  coh (MDef ps body rets fl) (SMac l ps' ols recvs kept uirecv sb manual order) v.
Proof.
  intros HL Hc Hlen Hk. cbn [coh]. split; [exact HL|]. split; [exact Hc|].
  apply (all3_nth _ dstmt dsb dv). split; [exact Hlen|]. split; [|exact Hk].
  destruct HL as (_ & _ & _ & H & _). lia.
Qed.

Lemma nth_error_nth2 {A} (l : list A) k d x : nth_error l k = Some x -> nth k l d = x /\ k < List.length l.
Proof. intros H. split; [now apply nth_error_nth|]. apply nth_error_Some. congruence. Qed.

Lemma nth_error_of_nth {A} (l : list A) k d : k < List.length l -> nth_error l k = Some (nth k l d).
Proof. intros H. now apply List.nth_error_nth'. Qed.

(* ================================================================================== *)
(* G. a macro-level input update keeps the macro in agreement with its definition       *)
Lemma arg_lt_nins ps body rets fl recvs kept uirecv sb manual order j k a :
  wired_level ps body rets fl recvs kept uirecv sb manual order ->
  j < List.length body -> nth_error (sargs body j) k = Some a -> k < s_nins (kid sb j).
Proof.
  intros (_ & _ & _ & _ & _ & _ & _ & _ & _ & Hb) Hj Ha.
  destruct (Hb j Hj) as (Hle & _). apply nth_error_nth2 with (d := a) in Ha as [_ Ha]. unfold kid. lia.
Qed.

Lemma ui_set u x :
  List.length (v_ins u) = 1 -> fn_coh true u ->
  List.length (v_ins (set_fn u 0 x)) = 1 /\ fn_coh true (set_fn u 0 x) /\
  v_ins (set_fn u 0 x) = [x] /\ v_outs (set_fn u 0 x) = v_outs u.
Proof.
  destruct u as [ins outs c ui vb]. simpl. intros HL HF.
  destruct ins as [|a [|b r]]; simpl in *; try discriminate. auto.
Qed.

Ltac level_intro :=
  unfold coh_level; rewrite ?upd_nth_length;
  repeat match goal with |- _ /\ _ => split end.

Lemma set_in_coh d : forall s v k x,
  wired d s -> coh d s v -> k < List.length (d_params d) -> coh d s (set_in s v k x).
Proof.
  induction d as [ps body rets fl IH] using mdef_ind'. intros s v k x Hw Hc Hk.
  destruct s as [|l ps' ols recvs kept uirecv sb manual order]; [simpl in Hw; tauto|].
  pose proof (wired_kids _ _ _ _ _ _ _ _ _ _ _ _ _ Hw) as [Hlen Hwk].
  pose proof (coh_kids _ _ _ _ _ _ _ _ _ _ _ _ _ _ Hc) as Hck.
  destruct Hw as (-> & -> & HWL & _).
  pose proof (fun j k a => arg_lt_nins _ _ _ _ _ _ _ _ _ _ j k a HWL) as Hargk.
  destruct HWL as (Hlr & Hlk & Hlu & Hcfg & Hui & Hrk & Hrb & Hrb' & Hpass & Hbody).
  destruct Hc as (HCL & Hcache & _).
  destruct v as [ins outs c ui vb]. simpl in HCL, Hcache, Hck, Hk.
  destruct HCL as (Li & Lo & Lu & Lb & Hu1 & Hu2 & Hc1 & Hc2 & Hlin & Hc4u & Hc4b).
  rewrite set_in_mac. unfold set_mac_with.
  rewrite (nth_error_of_nth recvs k ROrphan) by lia.
  destruct (nth k kept false) eqn:Ekept.
  - (* forwarded to its interface node *)
    rewrite (Hrk k Hk Ekept).
    destruct (Hu1 k Hk) as [HLk HFk]. destruct (ui_set _ x HLk HFk) as (S1 & S2 & S3 & S4).
    apply coh_intro; simpl; auto.
    level_intro; auto.
    + intros i Hi. destruct (Nat.eq_dec i k) as [->|Hne].
      * rewrite nth_upd_same by lia. auto.
      * rewrite nth_upd_other by auto. apply Hu1; auto.
    + intros i Hi Hki. destruct (Nat.eq_dec i k) as [->|Hne].
      * rewrite !nth_upd_same by lia. exact S3.
      * rewrite !nth_upd_other by auto. apply Hu2; auto.
    + intros i j k' Hi Hki Hr. rewrite (Hc1 i j k' Hi Hki Hr).
      rewrite nth_upd_other; auto. intros ->. congruence.
    + intros i o Hi Ho. rewrite (Hc4u i o Hi Ho).
      destruct (Nat.eq_dec i k) as [->|Hne].
      * rewrite nth_upd_same by lia. now rewrite S4.
      * rewrite nth_upd_other by auto. reflexivity.
  - (* the interface node was removed *)
    pose proof (Hrb' k Hk Ekept) as Hk'.
    destruct (nth k recvs ROrphan) as [i0|j0 k0|] eqn:Erecv; [tauto| |].
    + destruct Hk' as [Hj0 Harg0].
      assert (Hk0 : k0 < s_nins (kid sb j0)) by (eapply Hargk; eauto).
      assert (Hother : forall j k' a, j < List.length body -> nth_error (sargs body j) k' = Some a ->
                         a <> AParam k -> nth k' (v_ins (nth j (upd_nth j0 (set_in (kid sb j0) (nth j0 vb dv) k0 x) vb) dv)) None
                                          = nth k' (v_ins (nth j vb dv)) None).
      { intros j k' a Hj Ha Hne. destruct (Nat.eq_dec j j0) as [->|Hnj].
        - rewrite nth_upd_same by lia. rewrite set_in_ins. rewrite nth_upd_other; auto.
          intros ->. congruence.
        - rewrite nth_upd_other by auto. reflexivity. }
      apply coh_intro; simpl; auto.
      * level_intro; auto.
        -- intros i Hi Hki. rewrite (Hu2 i Hi Hki). rewrite nth_upd_other; auto. intros ->. congruence.
        -- intros i j k' Hi Hki Hr. destruct (Nat.eq_dec i k) as [->|Hne].
           ++ rewrite Erecv in Hr. inversion Hr; subst j k'.
              rewrite !nth_upd_same by lia. rewrite set_in_ins. rewrite nth_upd_same; auto.
              rewrite Hlin by lia. exact Hk0.
           ++ rewrite (nth_upd_other k i) by auto. rewrite <- (Hc1 i j k' Hi Hki Hr).
              pose proof (Hrb' i Hi Hki) as Hi'. rewrite Hr in Hi'. destruct Hi' as [Hj Ha].
              apply (Hother j k' (AParam i)); auto. congruence.
        -- intros j k' z Hj Ha. rewrite <- (Hc2 j k' z Hj Ha). apply (Hother j k' (AConst z)); auto. discriminate.
        -- intros j Hj. destruct (Nat.eq_dec j j0) as [->|Hnj].
           ++ rewrite nth_upd_same by lia. rewrite set_in_ins, upd_nth_length. auto.
           ++ rewrite nth_upd_other by auto. auto.
        -- intros j lo o Hj Ho. rewrite (Hc4b j lo o Hj Ho). destruct (Nat.eq_dec j j0) as [->|Hnj].
           ++ rewrite nth_upd_same by lia. now rewrite set_in_outs.
           ++ rewrite nth_upd_other by auto. reflexivity.
      * intros j Hj. specialize (Hck j Hj). specialize (Hwk j Hj).
        destruct (Nat.eq_dec j j0) as [->|Hnj]; [|rewrite nth_upd_other by auto; exact Hck].
        rewrite nth_upd_same by lia.
        destruct (s_mac (nth j0 body dstmt)) as [d'|] eqn:Em.
        -- destruct Hck as [Hck1 Hck2]. destruct Hwk as [Hwk1 _]. split.
           ++ apply (IH j0 d' Em); auto. rewrite <- (wired_nins _ _ Hwk1). exact Hk0.
           ++ intros k1 Hk1 Hk1'. rewrite set_in_ins. rewrite nth_upd_other; [auto|].
              apply nth_error_nth2 with (d := AConst 0) in Harg0 as [_ Hlt]. lia.
        -- rewrite Hwk. simpl. destruct Hck as [A B]. destruct (nth j0 vb dv). exact (conj A B).
    + (* nothing listens *)
      apply coh_intro; simpl; auto.
      level_intro; auto.
      * intros i Hi Hki. rewrite (Hu2 i Hi Hki). rewrite nth_upd_other; auto. intros ->. congruence.
      * intros i j k' Hi Hki Hr. rewrite (Hc1 i j k' Hi Hki Hr). rewrite nth_upd_other; auto.
        intros ->. congruence.
Qed.

(* ================================================================================== *)
(* H. pushes, fetch, function nodes                                                     *)
Definition app_pushes (ps : list (nat * val)) (o : list val) : list val :=
  fold_left (fun acc lx => upd_nth (fst lx) (snd lx) acc) ps o.

Lemma app_pushes_length ps o : List.length (app_pushes ps o) = List.length o.
Proof. revert o; induction ps as [|[l x] r IH]; intros o; simpl; auto. rewrite IH. apply upd_nth_length. Qed.

Lemma app_pushes_app p q o : app_pushes (p ++ q) o = app_pushes q (app_pushes p o).
Proof. unfold app_pushes. apply fold_left_app. Qed.

Lemma apply_pushes_exact orecv ps outs :
  fst (apply_pushes orecv ps outs) = app_pushes (snd (apply_pushes orecv ps outs)) outs.
Proof.
  revert outs; induction ps as [|[l x] r IH]; intros outs; simpl; auto.
  destruct (nth l orecv None) as [o|]; [|apply IH].
  specialize (IH (upd_nth o x outs)). destruct (apply_pushes orecv r (upd_nth o x outs)) as [o' q]. simpl in *. exact IH.
Qed.

Lemma apply_pushes_len orecv ps outs : List.length (fst (apply_pushes orecv ps outs)) = List.length outs.
Proof. rewrite apply_pushes_exact. apply app_pushes_length. Qed.

Lemma apply_pushes_range orecv ps outs n :
  (forall l o, nth l orecv None = Some o -> o < n) ->
  forall ox, In ox (snd (apply_pushes orecv ps outs)) -> fst ox < n.
Proof.
  intros Hr. revert outs; induction ps as [|[l x] r IH]; intros outs ox; simpl; [tauto|].
  destruct (nth l orecv None) as [o|] eqn:El; [|apply IH].
  specialize (IH (upd_nth o x outs)). destruct (apply_pushes orecv r (upd_nth o x outs)) as [o' q]. simpl in *.
  intros [<-|H]; [simpl; eauto|auto].
Qed.

(* after the pushes of a child have been absorbed, every linked output of the parent holds what
   the child's output holds, and nothing else changed *)
Lemma apply_pushes_link orecv ps outs co :
  (forall l l' o, nth l orecv None = Some o -> nth l' orecv None = Some o -> l = l') ->
  (forall l o, nth l orecv None = Some o -> o < List.length outs) ->
  (forall lx, In lx ps -> fst lx < List.length co) ->
  (forall l o, nth l orecv None = Some o -> nth o outs None = nth l co None) ->
  let outs' := fst (apply_pushes orecv ps outs) in
  (forall l o, nth l orecv None = Some o -> nth o outs' None = nth l (app_pushes ps co) None) /\
  (forall o, (forall l, nth l orecv None <> Some o) -> nth o outs' None = nth o outs None).
Proof.
  intros Hinj. revert outs co; induction ps as [|[l x] r IH]; intros outs co Hrange Hps Hlink; simpl.
  - split; auto.
  - assert (Hl : l < List.length co) by (apply (Hps (l, x)); simpl; auto).
    assert (Hps' : forall lx, In lx r -> fst lx < List.length (upd_nth l x co)).
    { intros lx H. rewrite upd_nth_length. apply Hps. simpl; auto. }
    destruct (nth l orecv None) as [o|] eqn:El.
    + assert (Ho : o < List.length outs) by eauto.
      destruct (IH (upd_nth o x outs) (upd_nth l x co)) as [A B]; auto.
      { intros l0 o0 H0. rewrite upd_nth_length. eauto. }
      { intros l0 o0 H0. destruct (Nat.eq_dec o0 o) as [->|Hne].
        - assert (l0 = l) by eauto. subst l0. rewrite !nth_upd_same; auto.
        - rewrite !nth_upd_other; auto. intros ->. congruence. }
      destruct (apply_pushes orecv r (upd_nth o x outs)) as [o' q]. simpl in *. split; auto.
      intros o0 H0. rewrite B by auto. apply nth_upd_other. intros ->. apply (H0 l). exact El.
    + destruct (IH outs (upd_nth l x co)) as [A B]; auto.
      intros l0 o0 H0. rewrite (Hlink l0 o0 H0). rewrite nth_upd_other; auto. intros ->. congruence.
Qed.

Lemma fetch_from_spec sj ui body conns : forall k0 vj n (P : vnode -> Prop),
  (forall v k x, k < n -> P v -> P (set_in sj v k x)) -> k0 + List.length conns <= n -> P vj ->
  let vj' := fetch_from (fun v k x => set_in sj v k x) ui body conns k0 vj in
  P vj' /\ v_outs vj' = v_outs vj /\ v_cache vj' = v_cache vj /\
  List.length (v_ins vj') = List.length (v_ins vj) /\
  (forall k, k < List.length (v_ins vj) ->
     nth k (v_ins vj') None =
     if Nat.leb k0 k && Nat.ltb k (k0 + List.length conns) then
       match first_data (map (src_val ui body) (nth (k - k0) conns [])) with
       | Some z => Some z
       | None => nth k (v_ins vj) None
       end
     else nth k (v_ins vj) None).
Proof.
  induction conns as [|c r IH]; intros k0 vj n P HP Hn Hvj; simpl.
  - repeat split; auto. intros k Hk. rewrite Nat.add_0_r.
    destruct (Nat.leb_spec k0 k), (Nat.ltb_spec k k0); simpl; auto; lia.
  - simpl in Hn.
    set (vj1 := match first_data (map (src_val ui body) c) with Some z => set_in sj vj k0 (Some z) | None => vj end).
    assert (H1 : P vj1 /\ v_outs vj1 = v_outs vj /\ v_cache vj1 = v_cache vj /\
                 v_ins vj1 = match first_data (map (src_val ui body) c) with
                             | Some z => upd_nth k0 (Some z) (v_ins vj) | None => v_ins vj end).
    { unfold vj1. destruct (first_data _) as [z|]; auto.
      rewrite set_in_outs, set_in_cache, set_in_ins. repeat split; auto. apply HP; auto. lia. }
    destruct H1 as (P1 & O1 & C1 & I1).
    destruct (IH (S k0) vj1 n P HP ltac:(lia) P1) as (P2 & O2 & C2 & L2 & N2).
    fold vj1. repeat split; auto; try congruence.
    + rewrite L2, I1. destruct (first_data _); auto. apply upd_nth_length.
    + intros k Hk. rewrite N2.
      2:{ rewrite I1. destruct (first_data _); auto. now rewrite upd_nth_length. }
      rewrite I1.
      destruct (Nat.eq_dec k k0) as [->|Hne].
      * assert (B1 : Nat.leb (S k0) k0 = false) by (apply Nat.leb_gt; lia).
        assert (B2 : Nat.leb k0 k0 = true) by (apply Nat.leb_le; lia).
        assert (B3 : Nat.ltb k0 (k0 + S (List.length r)) = true) by (apply Nat.ltb_lt; lia).
        rewrite B1, B2, B3, Nat.sub_diag. cbn [andb nth].
        destruct (first_data (map (src_val ui body) c)); auto. apply nth_upd_same; auto.
      * assert (Hold : forall z, nth k (upd_nth k0 (Some z) (v_ins vj)) None = nth k (v_ins vj) None).
        { intros z. apply nth_upd_other; auto. }
        destruct (Nat.leb_spec (S k0) k) as [Hle|Hgt].
        -- assert (B2 : Nat.leb k0 k = true) by (apply Nat.leb_le; lia). rewrite B2.
           replace (k0 + S (List.length r)) with (S k0 + List.length r) by lia.
           cbn [andb]. replace (k - k0) with (S (k - S k0)) by lia. cbn [nth].
           destruct (first_data (map (src_val ui body) c)); rewrite ?Hold; reflexivity.
        -- assert (B2 : Nat.leb k0 k = false) by (apply Nat.leb_gt; lia). rewrite B2. cbn [andb].
           destruct (first_data (map (src_val ui body) c)); rewrite ?Hold; reflexivity.
Qed.

Lemma run_fn_spec idf v :
  fn_coh idf v -> all_data (v_ins v) = true ->
  exists v' c ps, run_fn idf v = Some (v', c, ps) /\ fn_coh idf v' /\ v_ins v' = v_ins v /\
    v_outs v' = [Some (if idf then hd 0%Z (vals (v_ins v)) else mlin (vals (v_ins v)))] /\
    v_outs v' = app_pushes ps (v_outs v) /\ (forall lx, In lx ps -> fst lx < List.length (v_outs v)).
Proof.
  destruct v as [ins outs c ui vb]. unfold fn_coh. simpl. intros [HL HC] Had.
  destruct (cache_hit c ins) eqn:Eh.
  - apply cache_hit_iff in Eh. destruct (HC ins Eh) as [_ Ho].
    exists (VN ins outs c ui vb), 0, []. simpl.
    split; [reflexivity|]. split; [split; assumption|]. split; [reflexivity|]. split; [assumption|].
    split; [reflexivity|]. intros lx [].
  - rewrite Had. eexists _, _, _. split; [reflexivity|]. simpl.
    destruct outs as [|o [|o2 r]]; simpl in HL; try discriminate.
    split; [split; [reflexivity|]|].
    + intros cc Hcc. inversion Hcc; subst. auto.
    + split; [reflexivity|]. split; [reflexivity|]. split; [reflexivity|].
      intros lx [<-|[]]. simpl. lia.
Qed.

(* ================================================================================== *)
(* I. which output a returned channel is linked to                                      *)
Lemma arg_eqb_eq a b : arg_eqb a b = true <-> a = b.
Proof.
  destruct a, b; simpl; try (split; congruence).
  - rewrite Nat.eqb_eq. split; congruence.
  - rewrite andb_true_iff, !Nat.eqb_eq. split; [intros [-> ->]; auto|intros H; inversion H; auto].
  - rewrite Z.eqb_eq. split; congruence.
Qed.

Definition dret : string * arg := (""%string, AConst 0).

Lemma last_idx_some a rets o0 o :
  last_idx a rets o0 = Some o -> o0 <= o /\ o < o0 + List.length rets /\ snd (nth (o - o0) rets dret) = a.
Proof.
  revert o0; induction rets as [|[lab a'] r IH]; intros o0; simpl; [discriminate|].
  destruct (last_idx a r (S o0)) as [x|] eqn:El.
  - intros H; inversion H; subst x. destruct (IH _ El) as (A & B & C).
    repeat split; try lia. replace (o - o0) with (S (o - S o0)) by lia. exact C.
  - destruct (arg_eqb a a') eqn:Ea; [|discriminate]. intros H; inversion H; subst o.
    apply arg_eqb_eq in Ea. rewrite Nat.sub_diag. simpl. repeat split; auto; lia.
Qed.

Lemma last_idx_inj a a' rets o : last_idx a rets 0 = Some o -> last_idx a' rets 0 = Some o -> a = a'.
Proof.
  intros H H'. apply last_idx_some in H as (_ & _ & <-). apply last_idx_some in H' as (_ & _ & <-). reflexivity.
Qed.

Lemma last_idx_none a rets o0 : last_idx a rets o0 = None <-> ~ In a (map snd rets).
Proof.
  revert o0; induction rets as [|[lab a'] r IH]; intros o0; simpl; [tauto|].
  destruct (last_idx a r (S o0)) as [x|] eqn:El.
  - split; [discriminate|]. intros H. exfalso. apply H. right.
    apply last_idx_some in El as (A & B & C). rewrite <- C.
    apply in_map. apply nth_In. lia.
  - rewrite (IH (S o0)) in El. destruct (arg_eqb a a') eqn:Ea.
    + apply arg_eqb_eq in Ea. subst. split; [discriminate|]. intros H; exfalso; apply H; auto.
    + split; auto. intros _ [->|H]; auto.
      assert (arg_eqb a a = true) by now apply arg_eqb_eq. congruence.
Qed.

Lemma memb_arg_In a l : memb arg_eqb a l = true <-> In a l.
Proof.
  induction l as [|y r IH]; simpl; [split; [discriminate|tauto]|].
  rewrite orb_true_iff, IH, arg_eqb_eq. split; intros [H|H]; auto.
Qed.

Lemma last_idx_nodup rets : nodupb arg_eqb (map snd rets) = true ->
  forall o o0, o < List.length rets -> last_idx (snd (nth o rets dret)) rets o0 = Some (o0 + o).
Proof.
  induction rets as [|[lab a'] r IH]; intros Hnd o o0 Ho; simpl in *; [lia|].
  apply andb_true_iff in Hnd as [Hn Hnd]. destruct o as [|o].
  - simpl. assert (El : last_idx a' r (S o0) = None).
    { apply last_idx_none. intros Hin. apply memb_arg_In in Hin. rewrite Hin in Hn. discriminate. }
    rewrite El. replace (arg_eqb a' a') with true by (symmetry; now apply arg_eqb_eq). f_equal. lia.
  - rewrite (IH Hnd o (S o0)) by lia. f_equal. lia.
Qed.

(* ================================================================================== *)
(* J. one run of a body                                                                 *)
Definition run_spec (d' : mdef) : Prop :=
  forall s v, wired d' s -> coh d' s v -> all_data (v_ins v) = true ->
    exists v' c ps, run s v = Some (v', c, ps) /\ coh d' s v' /\ v_ins v' = v_ins v /\
      denote d' (v_ins v) = Some (v_outs v') /\ v_outs v' = app_pushes ps (v_outs v) /\
      (forall lx, In lx ps -> fst lx < List.length (v_outs v)).

Lemma data_some (x : val) : is_data x = true -> Some (zval x) = x.
Proof. destruct x; simpl; [auto|discriminate]. Qed.

Section Loop.
  Variables (ps : list param) (body : list (stmt mdef)) (rets : list (string * arg)) (fl : flow).
  Variables (recvs : list recv) (kept : list bool) (uirecv : list (option nat))
            (sb : list (sbody snode)) (manual : bool) (order : list kidref).
  Let np := List.length ps.
  Let nb := List.length body.
  Let nr := List.length rets.
  Hypothesis HWL : wired_level ps body rets fl recvs kept uirecv sb manual order.
  Hypothesis Hlen : List.length body = List.length sb.
  Hypothesis Hwk : forall j, j < nb ->
    match s_mac (nth j body dstmt) with
    | None => kid sb j = SFn (s_label (nth j body dstmt)) false (List.length (sargs body j))
    | Some d' => wired d' (kid sb j) /\ s_label_of (kid sb j) = s_label (nth j body dstmt)
    end.
  Variable ins : list val.
  Hypothesis Hins_len : List.length ins = np.
  Hypothesis Hins_data : all_data ins = true.
  Variable E : list (list val).
  Hypothesis HEok : env_ok (body_nouts body) E.
  Hypothesis HE : forall j, j < nb ->
    let avs := map (env_val ins E) (sargs body j) in
    match s_mac (nth j body dstmt) with
    | None => all_data avs = true /\ nth j E [] = [Some (mlin (vals avs))]
    | Some d' => all_data (fill avs (d_params d')) = true /\
                 denote d' (fill avs (d_params d')) = Some (nth j E [])
    end.
  Hypothesis Hrefs : forall j, j < nb ->
    forallb (ref_ok np (firstn j (body_nouts body)) true) (sargs body j) = true.
  Hypothesis Hnest : forall j d', j < nb -> s_mac (nth j body dstmt) = Some d' ->
    List.length (sargs body j) <= List.length (d_params d') /\ run_spec d'.
  Variable outs0 : list val.

  Definition child_ok (j : nat) (vj : vnode) : Prop :=
    match s_mac (nth j body dstmt) with
    | None => fn_coh false vj
    | Some d' => coh d' (kid sb j) vj /\
                 forall k, List.length (sargs body j) <= k -> k < List.length (d_params d') ->
                           nth k (v_ins vj) None = p_default (nth k (d_params d') dparam)
    end.

  Definition linv (done : list kidref) (st : mstate) : Prop :=
    coh_level ps body rets recvs kept uirecv sb ins (ms_outs st) (ms_ui st) (ms_body st) /\
    (forall j, j < nb -> child_ok j (nth j (ms_body st) dv)) /\
    (forall i, In (KUI i) done -> i < np -> nth i kept false = true ->
               v_outs (nth i (ms_ui st) dv) = [nth i ins None]) /\
    (forall j, In (KBody j) done -> j < nb -> v_outs (nth j (ms_body st) dv) = nth j E []) /\
    ms_outs st = app_pushes (ms_pushes st) outs0 /\
    (forall ox, In ox (ms_pushes st) -> fst ox < nr).

  Definition deps_ok (done : list kidref) (r : kidref) : Prop :=
    match r with
    | KUI i => i < np
    | KBody j => j < nb /\
        (forall i k, nth_error (sargs body j) k = Some (AParam i) -> nth i kept false = true -> In (KUI i) done) /\
        (forall j' l k, nth_error (sargs body j) k = Some (AOut j' l) -> In (KBody j') done)
    end.

  Let step := step_kid (fun j vj k x => set_in (kid sb j) vj k x) (fun j vj => run (kid sb j) vj)
                       kept uirecv (cinfo_of sb).

  Lemma uirecv_lt i o : i < np -> nth i uirecv None = Some o -> o < nr.
  Proof.
    destruct HWL as (_ & _ & _ & _ & Hui & _). intros Hi Ho. rewrite (Hui i Hi) in Ho.
    apply last_idx_some in Ho. unfold nr. lia.
  Qed.

  Lemma orecv_lt j l o : j < nb -> nth l (sb_orecv (nth j sb dsb)) None = Some o -> o < nr.
  Proof.
    destruct HWL as (_ & _ & _ & _ & _ & _ & _ & _ & _ & Hb). intros Hj Ho.
    destruct (Hb j Hj) as (_ & _ & HLo & _ & Hor).
    destruct (Nat.ltb_spec l (s_nouts (sb_node (nth j sb dsb)))) as [Hl|Hl].
    - rewrite (Hor l Hl) in Ho. apply last_idx_some in Ho. unfold nr. lia.
    - rewrite nth_overflow in Ho by lia. discriminate.
  Qed.

  Lemma orecv_is j l o : j < nb -> nth l (sb_orecv (nth j sb dsb)) None = Some o ->
    last_idx (AOut j l) rets 0 = Some o.
  Proof.
    destruct HWL as (_ & _ & _ & _ & _ & _ & _ & _ & _ & Hb). intros Hj Ho.
    destruct (Hb j Hj) as (_ & _ & HLo & _ & Hor).
    destruct (Nat.ltb_spec l (s_nouts (sb_node (nth j sb dsb)))) as [Hl|Hl].
    - now rewrite <- (Hor l Hl).
    - rewrite nth_overflow in Ho by lia. discriminate.
  Qed.

  Lemma uirecv_is i o : i < np -> nth i uirecv None = Some o -> last_idx (AParam i) rets 0 = Some o.
  Proof. destruct HWL as (_ & _ & _ & _ & Hui & _). intros Hi Ho. now rewrite <- (Hui i Hi). Qed.

  Lemma step_ui done st i : linv done st -> i < np ->
    exists st', step st (KUI i) = Some st' /\ linv (KUI i :: done) st'.
  Proof.
    intros (HCL & Hch & Hdu & Hdb & Hpo & Hpr) Hi.
    unfold step, step_kid. destruct (nth i kept false) eqn:Ek.
    2:{ exists st. split; auto.
        split; [exact HCL|split; [exact Hch|split; [|split; [|split; [exact Hpo|exact Hpr]]]]].
        - intros i' [H|H] Hi' Hk'; [inversion H; subst; congruence|auto].
        - intros j [H|H] Hj; [discriminate|auto]. }
    destruct HCL as (Li & Lo & Lu & Lb & Hu1 & Hu2 & Hc1 & Hc2 & Hlin & Hc4u & Hc4b).
    destruct (Hu1 i Hi) as [HLi HFi].
    assert (Hdata : all_data (v_ins (nth i (ms_ui st) dv)) = true).
    { rewrite (Hu2 i Hi Ek). simpl. rewrite andb_true_r. apply all_data_nth; auto. lia. }
    destruct (run_fn_spec true _ HFi Hdata) as (u' & c & pp & Erun & HF' & Hins' & Houts' & Hpush & Hprange).
    rewrite Erun. eexists. split; [reflexivity|].
    assert (Hu'out : v_outs u' = [nth i ins None]).
    { rewrite Houts', (Hu2 i Hi Ek). simpl. f_equal. apply data_some. apply all_data_nth; auto. lia. }
    unfold absorb.
    pose proof (apply_pushes_exact [nth i uirecv None] pp (ms_outs st)) as Hex.
    pose proof (apply_pushes_len [nth i uirecv None] pp (ms_outs st)) as Hexl.
    pose proof (apply_pushes_range [nth i uirecv None] pp (ms_outs st) nr) as Hexr.
    destruct (apply_pushes_link [nth i uirecv None] pp (ms_outs st) (v_outs (nth i (ms_ui st) dv))) as [Hlk1 Hlk2].
    { intros l l' o Hl Hl'. destruct l as [|l], l' as [|l']; auto; simpl in *; try (destruct l; discriminate); destruct l'; discriminate. }
    { intros l o Hl. destruct l as [|l]; [|destruct l; discriminate]. simpl in Hl.
      exact (eq_ind_r (fun n => o < n) (uirecv_lt i o Hi Hl) Lo). }
    { exact Hprange. }
    { intros l o Hl. destruct l as [|l]; [|destruct l; discriminate]. simpl in Hl. apply Hc4u; auto. }
    rewrite <- Hpush in Hlk1.
    destruct (apply_pushes [nth i uirecv None] pp (ms_outs st)) as [outs' q]. simpl in *.
    assert (Hother : forall o, nth i uirecv None <> Some o -> nth o outs' None = nth o (ms_outs st) None).
    { intros o Ho. apply Hlk2. intros l. destruct l as [|l]; [exact Ho|destruct l; discriminate]. }
    unfold linv. simpl. split; [|split; [|split; [|split; [|split]]]].
    - level_intro; auto; try lia.
      + intros i' Hi'. destruct (Nat.eq_dec i' i) as [->|Hne].
        * rewrite nth_upd_same by lia. split; auto. congruence.
        * rewrite nth_upd_other by auto. auto.
      + intros i' Hi' Hk'. destruct (Nat.eq_dec i' i) as [->|Hne].
        * rewrite nth_upd_same by lia. rewrite Hins'. auto.
        * rewrite nth_upd_other by auto. auto.
      + intros i' o Hi' Ho. destruct (Nat.eq_dec i' i) as [->|Hne].
        * rewrite nth_upd_same by lia. apply (Hlk1 0 o). exact Ho.
        * rewrite nth_upd_other by auto. rewrite Hother; auto.
          intros Ho'. apply Hne. 
          pose proof (last_idx_inj _ _ _ _ (uirecv_is i' o Hi' Ho) (uirecv_is i o Hi Ho')) as Heq. congruence.
      + intros j l o Hj Ho. rewrite Hother; auto.
        intros Ho'. pose proof (last_idx_inj _ _ _ _ (orecv_is j l o Hj Ho) (uirecv_is i o Hi Ho')). discriminate.
    - exact Hch.
    - intros i' [H|H] Hi' Hk'.
      + inversion H; subst i'. rewrite nth_upd_same by lia. exact Hu'out.
      + destruct (Nat.eq_dec i' i) as [->|Hne].
        * rewrite nth_upd_same by lia. exact Hu'out.
        * rewrite nth_upd_other by auto. auto.
    - intros j [H|H] Hj; [discriminate|auto].
    - rewrite app_pushes_app, <- Hpo. exact Hex.
    - intros ox Hin. apply in_app_or in Hin as [Hin|Hin]; auto.
      apply Hexr; auto. intros l o Hl. destruct l as [|l]; [|destruct l; discriminate]. simpl in Hl. eapply uirecv_lt; eauto.
  Qed.

  Lemma cinfo_nth j : nth j (cinfo_of sb) ([], []) = (sb_conns (nth j sb dsb), sb_orecv (nth j sb dsb)).
  Proof.
    unfold cinfo_of. change (@nil (list src), @nil (option nat)) with ((fun e : sbody snode => (sb_conns e, sb_orecv e)) dsb).
    now rewrite map_nth.
  Qed.

  (* the inputs child j must run with *)
  Definition tgt (j : nat) : list val :=
    let avs := map (env_val ins E) (sargs body j) in
    match s_mac (nth j body dstmt) with None => avs | Some d' => fill avs (d_params d') end.

  Lemma tgt_length j : j < nb -> List.length (tgt j) = s_nins (kid sb j).
  Proof.
    intros Hj. unfold tgt. specialize (Hwk j Hj). destruct (s_mac (nth j body dstmt)) as [d'|].
    - rewrite fill_length. destruct Hwk as [Hw _]. now rewrite (wired_nins _ _ Hw).
    - rewrite Hwk. simpl. now rewrite map_length.
  Qed.

  Lemma tgt_arg j k a : j < nb -> nth_error (sargs body j) k = Some a -> nth k (tgt j) None = env_val ins E a.
  Proof.
    intros Hj Ha. unfold tgt. pose proof (nth_error_nth2 _ _ a _ Ha) as [_ Hk].
    assert (Hm : nth k (map (env_val ins E) (sargs body j)) None = env_val ins E a).
    { apply nth_error_nth. now apply map_nth_error. }
    destruct (s_mac (nth j body dstmt)) as [d'|] eqn:Em; auto.
    destruct (Hnest j d' Hj Em) as [Hle _].
    rewrite fill_nth by lia. rewrite map_length.
    replace (Nat.ltb k (List.length (sargs body j))) with true by (symmetry; apply Nat.ltb_lt; lia). exact Hm.
  Qed.

  Lemma tgt_data j : j < nb -> all_data (tgt j) = true.
  Proof.
    intros Hj. unfold tgt. specialize (HE j Hj). simpl in HE.
    destruct (s_mac (nth j body dstmt)); tauto.
  Qed.

  Lemma E_out j' l j : j < nb -> j' < j -> l < nth j' (firstn j (body_nouts body)) 0 ->
    is_data (nth l (nth j' E []) None) = true.
  Proof.
    intros Hj Hj' Hl. destruct HEok as [HL HEn].
    assert (Hlt : j' < List.length E). { rewrite HL. unfold body_nouts. rewrite map_length. fold nb. lia. }
    destruct (HEn j' Hlt) as [A B]. apply all_data_nth; auto. rewrite A.
    rewrite <- (firstn_skipn j (body_nouts body)) at 1. rewrite app_nth1 in *; auto.
    - rewrite firstn_length. unfold body_nouts. rewrite map_length. fold nb. lia.
  Qed.

  Lemma ref_ok_arg j k a : j < nb -> nth_error (sargs body j) k = Some a ->
    ref_ok np (firstn j (body_nouts body)) true a = true.
  Proof.
    intros Hj Ha. specialize (Hrefs j Hj). rewrite forallb_forall in Hrefs. apply Hrefs.
    eapply nth_error_In; eauto.
  Qed.

  Lemma firstn_nouts_len j : j < nb -> List.length (firstn j (body_nouts body)) = j.
  Proof. intros Hj. rewrite firstn_length. unfold body_nouts. rewrite map_length. fold nb. lia. Qed.

  Lemma fetch_ok done st j : linv done st -> deps_ok done (KBody j) ->
    let vj' := fetch_from (fun v k x => set_in (kid sb j) v k x) (ms_ui st) (ms_body st)
                          (sb_conns (nth j sb dsb)) 0 (nth j (ms_body st) dv) in
    v_ins vj' = tgt j /\ v_outs vj' = v_outs (nth j (ms_body st) dv) /\
    match s_mac (nth j body dstmt) with None => fn_coh false vj' | Some d' => coh d' (kid sb j) vj' end.
  Proof.
    intros (HCL & Hch & Hdu & Hdb & Hpo & Hpr) (Hj & Hdp & Hdo).
    destruct HCL as (Li & Lo & Lu & Lb & Hu1 & Hu2 & Hc1 & Hc2 & Hlin & Hc4u & Hc4b).
    pose proof HWL as (Hlr & Hlk & Hlu & Hcfg & Hui & Hrk & Hrb & Hrb' & Hpass & Hbody).
    destruct (Hbody j Hj) as (Hale & HLc & HLo & Hconn & Hor). fold (kid sb j) in Hale, HLc, HLo, Hconn, Hor.
    set (P := fun vj : vnode => match s_mac (nth j body dstmt) with
                                | None => fn_coh false vj | Some d' => coh d' (kid sb j) vj end).
    assert (HP : forall v k x, k < s_nins (kid sb j) -> P v -> P (set_in (kid sb j) v k x)).
    { intros v k x Hk. unfold P. specialize (Hwk j Hj). destruct (s_mac (nth j body dstmt)) as [d'|].
      - destruct Hwk as [Hw _]. intros Hc. apply set_in_coh; auto. now rewrite <- (wired_nins _ _ Hw).
      - rewrite Hwk. simpl. unfold fn_coh. destruct v; simpl; auto. }
    assert (HP0 : P (nth j (ms_body st) dv)).
    { unfold P. specialize (Hch j Hj). unfold child_ok in Hch. destruct (s_mac (nth j body dstmt)); tauto. }
    destruct (fetch_from_spec (kid sb j) (ms_ui st) (ms_body st) (sb_conns (nth j sb dsb)) 0 _ (s_nins (kid sb j)) P HP
                ltac:(simpl; lia) HP0) as (P1 & O1 & C1 & L1 & N1).
    simpl. split; [|split; [exact O1|exact P1]].
    apply (@list_eq_nth val None).
    { rewrite L1, tgt_length by auto. apply Hlin; auto. }
    intros k Hk. rewrite L1 in Hk. rewrite N1 by auto. rewrite (Hlin j Hj) in Hk.
    replace (Nat.leb 0 k && Nat.ltb k (0 + List.length (sb_conns (nth j sb dsb)))) with true
      by (symmetry; apply andb_true_iff; split; [apply Nat.leb_le|apply Nat.ltb_lt]; lia).
    rewrite Nat.sub_0_r. rewrite (Hconn k Hk).
    destruct (nth_error (sargs body j) k) as [a|] eqn:Ea.
    - rewrite (tgt_arg j k a Hj Ea). pose proof (ref_ok_arg j k a Hj Ea) as Hr.
      destruct a as [i|j' l|z]; simpl in *.
      + apply Nat.ltb_lt in Hr. destruct (nth i kept false) eqn:Ek; simpl.
        * rewrite (Hdu i (Hdp i k Ea Ek) Hr Ek). simpl.
          assert (Hd : is_data (nth i ins None) = true) by (apply all_data_nth; auto; lia).
          destruct (nth i ins None); [reflexivity|discriminate].
        * apply (Hc1 i j k Hr Ek). apply (Hrb i j k Hr Ek Hj Ea).
      + apply andb_true_iff in Hr as [Hj' Hl]. apply Nat.ltb_lt in Hj', Hl.
        rewrite firstn_nouts_len in Hj' by auto.
        rewrite (Hdb j' (Hdo j' l k Ea) ltac:(lia)).
        pose proof (E_out j' l j Hj Hj' Hl) as Hd.
        destruct (nth l (nth j' E []) None); [reflexivity|discriminate].
      + apply (Hc2 j k z Hj Ea).
    - simpl. apply nth_error_None in Ea. unfold tgt.
      specialize (Hch j Hj). unfold child_ok in Hch. specialize (Hwk j Hj).
      destruct (s_mac (nth j body dstmt)) as [d'|] eqn:Em.
      + destruct Hwk as [Hw _]. rewrite (wired_nins _ _ Hw) in Hk.
        rewrite fill_nth by lia. rewrite map_length.
        replace (Nat.ltb k (List.length (sargs body j))) with false by (symmetry; apply Nat.ltb_ge; lia).
        apply Hch; auto.
      + rewrite Hwk in Hk. simpl in Hk. lia.
  Qed.

  Lemma tgt_beyond j d' k : j < nb -> s_mac (nth j body dstmt) = Some d' ->
    List.length (sargs body j) <= k -> k < List.length (d_params d') ->
    nth k (tgt j) None = p_default (nth k (d_params d') dparam).
  Proof.
    intros Hj Em Hk Hk'. unfold tgt. rewrite Em. rewrite fill_nth by auto. rewrite map_length.
    now replace (Nat.ltb k (List.length (sargs body j))) with false by (symmetry; apply Nat.ltb_ge; lia).
  Qed.

  Lemma child_run j vj' : j < nb -> v_ins vj' = tgt j ->
    match s_mac (nth j body dstmt) with None => fn_coh false vj' | Some d' => coh d' (kid sb j) vj' end ->
    exists v'' c pp, run (kid sb j) vj' = Some (v'', c, pp) /\ child_ok j v'' /\ v_ins v'' = tgt j /\
      v_outs v'' = nth j E [] /\ v_outs v'' = app_pushes pp (v_outs vj') /\
      (forall lx, In lx pp -> fst lx < List.length (v_outs vj')).
  Proof.
    intros Hj Hi HP. pose proof (tgt_data j Hj) as Hd. rewrite <- Hi in Hd.
    pose proof (HE j Hj) as HEj. simpl in HEj. pose proof (Hwk j Hj) as Hwj. unfold child_ok.
    destruct (s_mac (nth j body dstmt)) as [d'|] eqn:Em.
    - destruct (Hnest j d' Hj Em) as [Hle Hrun]. destruct Hwj as [Hw _]. destruct HEj as [_ HEj].
      destruct (Hrun _ _ Hw HP Hd) as (v'' & c & pp & Er & Hc & Hi' & Hden & Hpush & Hrange).
      exists v'', c, pp. split; [exact Er|]. split; [split; [exact Hc|]|].
      + intros k Hk Hk'. rewrite Hi', Hi. apply tgt_beyond; auto.
      + split; [congruence|]. split; [|split; [exact Hpush|exact Hrange]].
        rewrite Hi in Hden. unfold tgt in Hden. rewrite Em in Hden. congruence.
    - rewrite Hwj. cbn [run]. destruct HEj as [_ HEj].
      destruct (run_fn_spec false vj' HP Hd) as (v'' & c & pp & Er & Hc & Hi' & Ho & Hpush & Hrange).
      exists v'', c, pp. split; [exact Er|]. split; [exact Hc|]. split; [congruence|].
      split; [|split; [exact Hpush|exact Hrange]].
      rewrite Ho, HEj, Hi. unfold tgt. now rewrite Em.
  Qed.

  Lemma step_body done st j : linv done st -> deps_ok done (KBody j) ->
    exists st', step st (KBody j) = Some st' /\ linv (KBody j :: done) st'.
  Proof.
    intros Hinv Hdeps. pose proof Hdeps as (Hj & _ & _).
    destruct (fetch_ok done st j Hinv Hdeps) as (Fi & Fo & FP).
    set (vj' := fetch_from (fun v k x => set_in (kid sb j) v k x) (ms_ui st) (ms_body st)
                           (sb_conns (nth j sb dsb)) 0 (nth j (ms_body st) dv)) in *.
    destruct (child_run j vj' Hj Fi FP) as (v'' & c & pp & Er & Hck & Hi'' & Ho'' & Hpush & Hrange).
    destruct Hinv as (HCL & Hch & Hdu & Hdb & Hpo & Hpr).
    destruct HCL as (Li & Lo & Lu & Lb & Hu1 & Hu2 & Hc1 & Hc2 & Hlin & Hc4u & Hc4b).
    pose proof HWL as (Hlr & Hlk & Hlu & Hcfg & Hui & Hrk & Hrb & Hrb' & Hpass & Hbody).
    unfold step, step_kid. rewrite cinfo_nth. fold vj'. rewrite Er. eexists. split; [reflexivity|].
    unfold absorb. rewrite Fo in Hpush, Hrange.
    pose proof (apply_pushes_exact (sb_orecv (nth j sb dsb)) pp (ms_outs st)) as Hex.
    pose proof (apply_pushes_range (sb_orecv (nth j sb dsb)) pp (ms_outs st) nr) as Hexr.
    destruct (apply_pushes_link (sb_orecv (nth j sb dsb)) pp (ms_outs st) (v_outs (nth j (ms_body st) dv))) as [Hlk1 Hlk2].
    { intros l l' o Hl Hl'.
      pose proof (last_idx_inj _ _ _ _ (orecv_is j l o Hj Hl) (orecv_is j l' o Hj Hl')) as Heq. congruence. }
    { intros l o Hl. exact (eq_ind_r (fun n => o < n) (orecv_lt j l o Hj Hl) Lo). }
    { exact Hrange. }
    { intros l o Hl. apply Hc4b; auto. }
    rewrite <- Hpush in Hlk1.
    destruct (apply_pushes (sb_orecv (nth j sb dsb)) pp (ms_outs st)) as [outs' q]. simpl in *.
    unfold linv. simpl. split; [|split; [|split; [|split; [|split]]]].
    - level_intro; auto; try lia.
      + rewrite Hex. rewrite app_pushes_length. exact Lo.
      + intros i j1 k Hi Hk Hr. destruct (Nat.eq_dec j1 j) as [->|Hne].
        * rewrite nth_upd_same by lia. rewrite Hi''.
          pose proof (Hrb' i Hi Hk) as Hx. rewrite Hr in Hx. destruct Hx as [_ Ha].
          now rewrite (tgt_arg j k _ Hj Ha).
        * rewrite nth_upd_other by auto. eauto.
      + intros j1 k z Hj1 Ha. destruct (Nat.eq_dec j1 j) as [->|Hne].
        * rewrite nth_upd_same by lia. rewrite Hi''. now rewrite (tgt_arg j k _ Hj Ha).
        * rewrite nth_upd_other by auto. eauto.
      + intros j1 Hj1. destruct (Nat.eq_dec j1 j) as [->|Hne].
        * rewrite nth_upd_same by lia. rewrite Hi''. now apply tgt_length.
        * rewrite nth_upd_other by auto. eauto.
      + intros i o Hi Ho. rewrite Hlk2; auto.
        intros l Hl. pose proof (last_idx_inj _ _ _ _ (orecv_is j l o Hj Hl) (uirecv_is i o Hi Ho)). discriminate.
      + intros j1 l o Hj1 Ho. destruct (Nat.eq_dec j1 j) as [->|Hne].
        * rewrite nth_upd_same by lia. now apply Hlk1.
        * rewrite nth_upd_other by auto. rewrite Hlk2; auto.
          intros l' Hl'. pose proof (last_idx_inj _ _ _ _ (orecv_is j l' o Hj Hl') (orecv_is j1 l o Hj1 Ho)) as Heq.
          congruence.
    - intros j1 Hj1. destruct (Nat.eq_dec j1 j) as [->|Hne].
      + rewrite nth_upd_same by lia. exact Hck.
      + rewrite nth_upd_other by auto. auto.
    - intros i [H|H] Hi Hk; [discriminate|auto].
    - intros j1 Hin Hj1. destruct (Nat.eq_dec j1 j) as [->|Hne].
      + rewrite nth_upd_same by lia. exact Ho''.
      + rewrite nth_upd_other by auto. destruct Hin as [H|H]; [congruence|auto].
    - rewrite app_pushes_app, <- Hpo. exact Hex.
    - intros ox Hin. apply in_app_or in Hin as [Hin|Hin]; auto.
      apply Hexr; auto. intros l o Hl. eapply orecv_lt; eauto.
  Qed.

  Fixpoint sched_ok (done rest : list kidref) : Prop :=
    match rest with [] => True | r :: rest' => deps_ok done r /\ sched_ok (r :: done) rest' end.

  Lemma loop rest : forall done st, linv done st -> sched_ok done rest ->
    exists st', fold_opt step rest st = Some st' /\ linv (rev rest ++ done) st'.
  Proof.
    induction rest as [|r rest IH]; intros done st Hinv Hs; simpl.
    - exists st. auto.
    - destruct Hs as [Hd Hs].
      assert (Hstep : exists st', step st r = Some st' /\ linv (r :: done) st').
      { destruct r as [i|j]; [apply step_ui; auto|apply step_body; auto]. }
      destruct Hstep as (st1 & -> & Hinv1).
      destruct (IH _ _ Hinv1 Hs) as (st' & Hf & Hinv'). exists st'. split; auto.
      now rewrite <- app_assoc.
  Qed.

  Lemma sched_app done a b : sched_ok done a -> sched_ok (rev a ++ done) b -> sched_ok done (a ++ b).
  Proof.
    revert done; induction a as [|r a IH]; intros done; simpl; auto.
    intros [Hd Ha] Hb. split; auto. apply IH; auto. now rewrite <- app_assoc in Hb.
  Qed.

  Lemma sched_uis done l : (forall i, In i l -> i < np) -> sched_ok done (map KUI l).
  Proof. revert done; induction l as [|i l IH]; intros done H; simpl; auto. split; [apply H; simpl; auto|apply IH; intros; apply H; simpl; auto]. Qed.
End Loop.

Lemma pos_of_ge j ord k : k <= pos_of j ord k.
Proof. revert k; induction ord as [|x r IH]; intros k; simpl; [lia|]. destruct (Nat.eqb x j); [lia|]. specialize (IH (S k)). lia. Qed.

Lemma pos_of_le j ord k p d : p < List.length ord -> nth p ord d = j -> pos_of j ord k <= k + p.
Proof.
  revert k p; induction ord as [|x r IH]; intros k p Hp Hn; simpl in *; [lia|].
  destruct (Nat.eqb_spec x j); [lia|]. destruct p as [|p]; [congruence|].
  specialize (IH (S k) p ltac:(lia) Hn). lia.
Qed.

Lemma pos_of_in j ord k p : pos_of j ord k < k + p -> p <= List.length ord -> In j (firstn p ord).
Proof.
  revert k p; induction ord as [|x r IH]; intros k p Hlt Hp; simpl in *; [lia|].
  destruct p as [|p]; [pose proof (pos_of_ge j r (S k)); destruct (Nat.eqb x j); lia|].
  simpl. destruct (Nat.eqb_spec x j); [auto|].
  right. apply (IH (S k)); lia.
Qed.

Lemma in_firstn_nth {A} (l : list A) p q d : q < p -> q < List.length l -> In (nth q l d) (firstn p l).
Proof.
  revert p q; induction l as [|x r IH]; intros p q Hq Hl; simpl in *; [lia|].
  destruct p as [|p]; [lia|]. destruct q as [|q]; simpl; auto. right. apply IH; lia.
Qed.

Lemma skipn_S_nth {A} p (l : list A) d : p < List.length l -> skipn p l = nth p l d :: skipn (S p) l.
Proof.
  revert p; induction l as [|x r IH]; intros p Hp; simpl in *; [lia|].
  destruct p as [|p]; simpl; auto. apply IH. lia.
Qed.

Lemma firstn_S_nth {A} p (l : list A) d : p < List.length l -> firstn (S p) l = firstn p l ++ [nth p l d].
Proof.
  revert p; induction l as [|x r IH]; intros p Hp; simpl in *; [lia|].
  destruct p as [|p]; simpl; auto. f_equal. apply IH. lia.
Qed.

Lemma sched_body ps body kept ord : forall p done,
  p <= List.length ord ->
  (forall i, i < List.length ps -> nth i kept false = true -> In (KUI i) done) ->
  (forall j', In j' (firstn p ord) -> In (KBody j') done) ->
  (forall q, q < List.length ord ->
     nth q ord 0 < List.length body /\
     forall j' l k, nth_error (sargs body (nth q ord 0)) k = Some (AOut j' l) -> In j' (firstn q ord)) ->
  (forall j k i, j < List.length body -> nth_error (sargs body j) k = Some (AParam i) -> i < List.length ps) ->
  sched_ok ps body kept done (map KBody (skipn p ord)).
Proof.
  intros p. remember (List.length ord - p) as m eqn:Em. revert p Em.
  induction m as [|m IH]; intros p Em done Hp Hui Hdone Htopo Hpar.
  - rewrite skipn_all2 by lia. simpl. auto.
  - assert (Hlt : p < List.length ord) by lia.
    rewrite (skipn_S_nth p ord 0) by auto. rewrite map_cons.
    change (deps_ok ps body kept done (KBody (nth p ord 0)) /\ sched_ok ps body kept (KBody (nth p ord 0) :: done) (map KBody (skipn (S p) ord))).
    destruct (Htopo p Hlt) as [Hj Ha]. split.
    + split; [exact Hj|]. split.
      * intros i k Harg Hk. apply Hui; auto. eapply Hpar; eauto.
      * intros j' l k Harg. apply Hdone. eapply Ha; eauto.
    + apply IH; auto; try lia.
      * intros i Hi Hk. right. auto.
      * intros j' Hin. rewrite (firstn_S_nth p ord 0) in Hin by auto.
        apply in_app_or in Hin as [Hin|[<-|[]]]; [right; auto|left; reflexivity].
Qed.

Lemma kept_uis_in kept i : In (KUI i) (kept_uis kept) <-> i < List.length kept /\ nth i kept false = true.
Proof.
  unfold kept_uis. rewrite in_map_iff. split.
  - intros (x & Hx & Hin). inversion Hx; subst x. apply filter_In in Hin as [Hin Hk]. apply in_seq in Hin. split; [lia|auto].
  - intros [Hi Hk]. exists i. split; auto. apply filter_In. split; auto. apply in_seq. lia.
Qed.

Lemma kept_uis_only kept r : In r (kept_uis kept) -> exists i, r = KUI i /\ i < List.length kept.
Proof.
  unfold kept_uis. rewrite in_map_iff. intros (x & <- & Hin). exists x. split; auto.
  apply filter_In in Hin as [Hin _]. apply in_seq in Hin. lia.
Qed.

Lemma refs_of_ref_ok np nouts c a : ref_ok np nouts c a = true ->
  match a with AParam i => i < np | AOut j l => j < List.length nouts /\ l < nth j nouts 0 | AConst _ => True end.
Proof.
  destruct a as [i|j l|z]; simpl; auto.
  - apply Nat.ltb_lt.
  - rewrite andb_true_iff, !Nat.ltb_lt. auto.
Qed.

Lemma configure_sched ps body kept fl manual order :
  List.length kept = List.length ps ->
  configure fl kept (List.length body) = Some (manual, order) ->
  flow_ok fl body = true ->
  (forall j, j < List.length body ->
     forallb (ref_ok (List.length ps) (firstn j (body_nouts body)) true) (sargs body j) = true) ->
  sched_ok ps body kept [] order /\
  (forall i, i < List.length ps -> nth i kept false = true -> In (KUI i) order) /\
  (forall j, j < List.length body -> In (KBody j) order).
Proof.
  intros Hlk Hcfg Hflow Hrefs.
  assert (Hnl : forall j, j < List.length body -> List.length (firstn j (body_nouts body)) = j).
  { intros j Hj. rewrite firstn_length. unfold body_nouts. rewrite map_length. lia. }
  assert (Hpar : forall j k i, j < List.length body -> nth_error (sargs body j) k = Some (AParam i) -> i < List.length ps).
  { intros j k i Hj Ha. specialize (Hrefs j Hj). rewrite forallb_forall in Hrefs.
    exact (refs_of_ref_ok _ _ _ (AParam i) (Hrefs _ (nth_error_In _ _ Ha))). }
  assert (Hout : forall j k j' l, j < List.length body -> nth_error (sargs body j) k = Some (AOut j' l) -> j' < j).
  { intros j k j' l Hj Ha. specialize (Hrefs j Hj). rewrite forallb_forall in Hrefs.
    pose proof (refs_of_ref_ok _ _ _ (AOut j' l) (Hrefs _ (nth_error_In _ _ Ha))) as [H _].
    now rewrite Hnl in H. }
  assert (Hord : exists ord, order = kept_uis kept ++ map KBody ord /\
            (forall j, j < List.length body -> In j ord) /\
            (forall q, q < List.length ord -> nth q ord 0 < List.length body /\
               forall j' l k, nth_error (sargs body (nth q ord 0)) k = Some (AOut j' l) -> In j' (firstn q ord))).
  { assert (Hseq : exists ord, kept_uis kept ++ map KBody (seq 0 (List.length body)) = kept_uis kept ++ map KBody ord /\
            (forall j, j < List.length body -> In j ord) /\
            (forall q, q < List.length ord -> nth q ord 0 < List.length body /\
               forall j' l k, nth_error (sargs body (nth q ord 0)) k = Some (AOut j' l) -> In j' (firstn q ord))).
    { exists (seq 0 (List.length body)). split; auto. split; [intros j Hj; apply in_seq; lia|].
      intros q Hq. rewrite seq_length in Hq. rewrite seq_nth by auto. simpl. split; auto.
      intros j' l k Ha. pose proof (Hout q k j' l Hq Ha) as Hlt.
      replace j' with (nth j' (seq 0 (List.length body)) 0) at 1 by (rewrite seq_nth; lia).
      apply in_firstn_nth; auto. rewrite seq_length. lia. }
    destruct fl as [|ord|b]; simpl in Hcfg; try discriminate.
    - inversion Hcfg; subst. exact Hseq.
    - destruct ord as [|a [|b r]]; [simpl in Hflow; discriminate|simpl in Hcfg; discriminate|].
      cbn [configure] in Hcfg. set (ord := a :: b :: r) in *.
      destruct (forallb (fun j => Nat.ltb j (List.length body)) ord) eqn:Eall; [|discriminate].
      inversion Hcfg; subst. exists ord. split; auto.
      unfold flow_ok in Hflow. apply andb_true_iff in Hflow as [Hflow Htopo].
      apply andb_true_iff in Hflow as [_ Hperm].
      unfold perm_of_seq in Hperm. apply andb_true_iff in Hperm as [_ Hcov].
      rewrite forallb_forall in Hcov, Eall. split.
      + intros j Hj. apply memn_In. apply Hcov. apply in_seq. lia.
      + intros q Hq. assert (Hjq : nth q ord 0 < List.length body).
        { apply Nat.ltb_lt. apply Eall. now apply nth_In. }
        split; auto. intros j' l k Ha.
        unfold topo_ok in Htopo. rewrite forallb_forall in Htopo.
        specialize (Htopo (nth q ord 0) ltac:(apply in_seq; lia)).
        rewrite forallb_forall in Htopo. specialize (Htopo (AOut j' l) (nth_error_In _ _ Ha)).
        cbn beta iota in Htopo. apply Nat.ltb_lt in Htopo.
        pose proof (pos_of_le (nth q ord 0) ord 0 q 0 Hq eq_refl) as Hle.
        apply (pos_of_in j' ord 0 q); lia. }
  destruct Hord as (ord & -> & Hcov & Htopo). split; [|split].
  - apply sched_app.
    + unfold kept_uis. apply sched_uis. intros i Hi. apply filter_In in Hi as [Hi _]. apply in_seq in Hi. lia.
    + rewrite app_nil_r. apply (sched_body ps body kept ord 0); auto; try lia.
      * intros i Hi Hk. apply -> in_rev. apply kept_uis_in. split; [lia|auto].
      * simpl. tauto.
  - intros i Hi Hk. apply in_or_app. left. apply kept_uis_in. split; [lia|auto].
  - intros j Hj. apply in_or_app. right. apply in_map. auto.
Qed.

Lemma all_nested_nth f body : all_nested f body = true ->
  forall j d', s_mac (nth j body dstmt) = Some d' -> f d' = true.
Proof.
  induction body as [|st r IH]; intros H j d'; simpl in *.
  - destruct j; discriminate.
  - apply andb_true_iff in H as [H1 H2]. destruct j as [|j]; [|now apply IH].
    intros E. rewrite E in H1. exact H1.
Qed.

Lemma kid_nouts ps body rets fl l ps' ols recvs kept uirecv sb manual order j :
  wired (MDef ps body rets fl) (SMac l ps' ols recvs kept uirecv sb manual order) ->
  j < List.length body -> s_nouts (kid sb j) = nth j (body_nouts body) 0.
Proof.
  intros Hw Hj. destruct (wired_kids _ _ _ _ _ _ _ _ _ _ _ _ _ Hw) as [_ Hk]. specialize (Hk j Hj).
  unfold body_nouts. rewrite (nth_indep _ 0 (stmt_nouts dstmt)) by (now rewrite map_length).
  rewrite map_nth. unfold stmt_nouts. destruct (s_mac (nth j body dstmt)) as [d'|].
  - destruct Hk as [Hk _]. now apply wired_nouts.
  - now rewrite Hk.
Qed.

Lemma run_coh d : wfd d = true -> rets_distinct d = true -> run_spec d.
Proof.
  induction d as [ps body rets fl IH] using mdef_ind'. intros Hwf Hrd s v Hw Hc Hd.
  destruct s as [|l ps' ols recvs kept uirecv sb manual order]; [simpl in Hw; tauto|].
  pose proof (wired_kids _ _ _ _ _ _ _ _ _ _ _ _ _ Hw) as [Hlen Hwk].
  pose proof (coh_kids _ _ _ _ _ _ _ _ _ _ _ _ _ _ Hc) as Hck.
  pose proof (fun j => kid_nouts _ _ _ _ _ _ _ _ _ _ _ _ _ j Hw) as Hkn.
  pose proof Hw as (-> & -> & HWL & _).
  pose proof Hwf as Hwf0.
  simpl in Hwf. apply andb_true_iff in Hwf as [Hwf Hwb]. apply andb_true_iff in Hwf as [Hnd Hflow].
  destruct (wf_body_spec _ _ _ _ _ Hwb) as [Hst Hrets]. simpl in Hst, Hrets.
  simpl in Hrd. apply andb_true_iff in Hrd as [Hrd Hrdn].
  destruct v as [ins outs c ui vb].
  rewrite run_mac. unfold run_mac_with.
  pose proof Hc as (HCL & Hcache & _). simpl in HCL, Hcache, Hck, Hd.
  destruct (cache_hit c ins) eqn:Eh.
  { apply cache_hit_iff in Eh. destruct (Hcache _ Eh) as [_ Hden].
    exists (VN ins outs c ui vb), 0, []. simpl.
    split; [reflexivity|]. split; [exact Hc|]. split; [reflexivity|]. split; [exact Hden|].
    split; [reflexivity|]. intros lx []. }
  rewrite Hd.
  pose proof HCL as (Li & Lo & Lu & Lb & _).
  destruct (denote_body_total denote wfd (List.length ps) rets ins body [] []) as (E & HEq & HEok); auto.
  { intros j d' _ Em Hw'. apply denote_total. exact Hw'. }
  { split; auto. simpl. intros j Hj; lia. }
  simpl in HEok.
  assert (Hrefs : forall j, j < List.length body ->
            forallb (ref_ok (List.length ps) (firstn j (body_nouts body)) true) (sargs body j) = true).
  { intros j Hj. apply Hst; auto. }
  assert (HE : forall j, j < List.length body ->
            let avs := map (env_val ins E) (sargs body j) in
            match s_mac (nth j body dstmt) with
            | None => all_data avs = true /\ nth j E [] = [Some (mlin (vals avs))]
            | Some d' => all_data (fill avs (d_params d')) = true /\
                         denote d' (fill avs (d_params d')) = Some (nth j E [])
            end).
  { intros j Hj. apply (denote_body_spec denote ins body [] E HEq); auto.
    intros j0 a Hj0 Ha. simpl. specialize (Hrefs j0 Hj0). rewrite forallb_forall in Hrefs.
    pose proof (refs_of_ref_ok _ _ _ a (Hrefs a Ha)) as Hr. destruct a; simpl; auto.
    rewrite firstn_length in Hr. lia. }
  assert (Hnest : forall j d', j < List.length body -> s_mac (nth j body dstmt) = Some d' ->
            List.length (sargs body j) <= List.length (d_params d') /\ run_spec d').
  { intros j d' Hj Em. destruct (Hst j Hj) as [_ Hm]. rewrite Em in Hm. destruct Hm as (Hw' & Hle & _).
    split; auto. apply (IH j d' Em); auto. eapply all_nested_nth; eauto. }
  destruct (configure_sched ps body kept fl manual order) as (Hsched & Hcovu & Hcovb); auto.
  { destruct HWL as (_ & H & _). exact H. }
  { destruct HWL as (_ & _ & _ & H & _). exact H. }
  destruct (loop ps body rets fl recvs kept uirecv sb manual order HWL Hlen Hwk ins Li Hd E HEok HE Hrefs Hnest
                 outs order [] (MS outs ui vb 0 [])) as (st' & Hfold & Hinv'); auto.
  { split; [exact HCL|]. split; [|split; [|split; [|split]]]; simpl; auto.
    - intros i []. - intros j []. - intros ox []. }
  rewrite Hfold. rewrite app_nil_r in Hinv'.
  destruct Hinv' as (HCL' & Hch' & Hdu' & Hdb' & Hpo' & Hpr').
  eexists _, _, _. split; [reflexivity|]. cbn [v_ins v_outs].
  pose proof HWL as (Hlr & Hlk & Hlu & Hcfg & Hui & Hrk & Hrb & Hrb' & Hpass & Hbody).
  assert (Houts : ms_outs st' = map (fun la => env_val ins E (snd la)) rets).
  { pose proof HCL' as (_ & Lo' & Lu' & Lb' & _ & _ & _ & _ & _ & Hc4u' & Hc4b').
    apply (@list_eq_nth val None); [rewrite map_length; exact Lo'|].
    intros o Ho. rewrite Lo' in Ho.
    rewrite (nth_indep (map _ rets) None ((fun la : string * arg => env_val ins E (snd la)) dret))
      by (now rewrite map_length).
    cbv beta.
    change (env_val ins E (snd dret)) with ((fun la : string * arg => env_val ins E (snd la)) dret).
    rewrite map_nth.
    pose proof (last_idx_nodup rets Hrd o 0 Ho) as Hlast. simpl in Hlast.
    rewrite forallb_forall in Hrets. specialize (Hrets (nth o rets dret) (nth_In _ _ Ho)).
    destruct (snd (nth o rets dret)) as [i|j lo|z] eqn:Ea; simpl in Hrets; [| |discriminate].
    - apply Nat.ltb_lt in Hrets. simpl.
      assert (Hk : nth i kept false = true) by (apply Hpass; auto; congruence).
      assert (Hu : nth i uirecv None = Some o) by (rewrite Hui; auto).
      rewrite (Hc4u' i o Hrets Hu).
      rewrite (Hdu' i); auto. apply -> in_rev. auto.
    - apply andb_true_iff in Hrets as [Hj Hl]. apply Nat.ltb_lt in Hj, Hl.
      unfold body_nouts in Hj. rewrite map_length in Hj.
      destruct (Hbody j Hj) as (_ & _ & _ & _ & Hor).
      rewrite <- (Hkn j Hj) in Hl.
      assert (Ho' : nth lo (sb_orecv (nth j sb dsb)) None = Some o) by (rewrite Hor; auto).
      rewrite (Hc4b' j lo o Hj Ho'). simpl.
      rewrite (Hdb' j); auto. apply -> in_rev. auto. }
  assert (Hden : denote (MDef ps body rets fl) ins = Some (ms_outs st')).
  { cbn [denote]. rewrite HEq. f_equal. symmetry. exact Houts. }
  split; [|split; [reflexivity|split; [exact Hden|split; [exact Hpo'|]]]].
  - apply coh_intro; simpl; auto.
    intros cc Hcc. inversion Hcc; subst cc. split; auto.
  - intros lx Hin. exact (eq_ind_r (fun n => fst lx < n) (Hpr' lx Hin) Lo).
Qed.

(* ================================================================================== *)
(* K. construction: what each step of [build] produces                                  *)
Lemma script_spec bld np body : forall sofar vsofar sb vb,
  script bld np body sofar vsofar = Some (sb, vb) ->
  exists sb' vb', sb = sofar ++ sb' /\ vb = vsofar ++ vb' /\
    List.length sb' = List.length body /\ List.length vb' = List.length body /\
    forall j, j < List.length body ->
      let st := nth j body dstmt in
      forallb (arg_ok np (sofar ++ firstn j sb')) (s_args st) = true /\
      match s_mac st with
      | None => nth j sb' dsb = SB (SFn (s_label st) false (List.length (s_args st))) (map arg_conn (s_args st)) [None] /\
                nth j vb' dv = VN (map arg_val (s_args st)) [None] None [] []
      | Some d' => exists s' v', bld d' (s_label st) = Some (s', v') /\
                     List.length (s_args st) <= s_nins s' /\
                     nth j sb' dsb = SB s' (pad (s_nins s') (map arg_conn (s_args st)) []) (repeat None (s_nouts s')) /\
                     nth j vb' dv = apply_args s' v' 0 (s_args st)
      end.
Proof.
  induction body as [|st r IH]; intros sofar vsofar sb vb H; simpl in H.
  - inversion H; subst. exists [], []. rewrite !app_nil_r.
    split; [reflexivity|]. split; [reflexivity|]. split; [reflexivity|]. split; [reflexivity|].
    simpl. intros j Hj; lia.
  - destruct (forallb (arg_ok np sofar) (s_args st)) eqn:Eok; [|discriminate].
    assert (Hstep : exists e ve, script bld np r (sofar ++ [e]) (vsofar ++ [ve]) = Some (sb, vb) /\
              match s_mac st with
              | None => e = SB (SFn (s_label st) false (List.length (s_args st))) (map arg_conn (s_args st)) [None] /\
                        ve = VN (map arg_val (s_args st)) [None] None [] []
              | Some d' => exists s' v', bld d' (s_label st) = Some (s', v') /\
                             List.length (s_args st) <= s_nins s' /\
                             e = SB s' (pad (s_nins s') (map arg_conn (s_args st)) []) (repeat None (s_nouts s')) /\
                             ve = apply_args s' v' 0 (s_args st)
              end).
    { destruct (s_mac st) as [d'|].
      - destruct (bld d' (s_label st)) as [[s' v']|] eqn:Eb; [|discriminate].
        destruct (Nat.leb (List.length (s_args st)) (s_nins s')) eqn:El; [|discriminate].
        apply Nat.leb_le in El. eexists _, _. split; [exact H|]. exists s', v'. auto.
      - eexists _, _. split; [exact H|]. auto. }
    destruct Hstep as (e & ve & Hrest & He).
    destruct (IH _ _ _ _ Hrest) as (sb' & vb' & -> & -> & HL1 & HL2 & Hn).
    exists (e :: sb'), (ve :: vb'). rewrite <- !app_assoc. simpl.
    split; [reflexivity|]. split; [reflexivity|]. split; [lia|]. split; [lia|].
    intros j Hj. split.
    + destruct j as [|j]; simpl; [now rewrite app_nil_r|].
      destruct (Hn j ltac:(simpl in *; lia)) as [A _]. rewrite <- app_assoc in A. exact A.
    + destruct j as [|j]; simpl.
      * destruct (s_mac st) as [d'|]; [|destruct He; subst; auto].
        destruct He as (s' & v' & A & B & -> & ->). exists s', v'. auto.
      * destruct (Hn j ltac:(simpl in *; lia)) as [_ B]. exact B.
Qed.

Definition ret_ok (nu : nat) (body : list (sbody snode)) (a : arg) : Prop :=
  match a with
  | AParam i => i < nu
  | AOut j l => j < List.length body /\ l < s_nouts (kid body j)
  | AConst _ => False
  end.

Definition same_skel (b b' : list (sbody snode)) : Prop :=
  List.length b' = List.length b /\
  forall j, sb_node (nth j b' dsb) = sb_node (nth j b dsb) /\ sb_conns (nth j b' dsb) = sb_conns (nth j b dsb) /\
            List.length (sb_orecv (nth j b' dsb)) = List.length (sb_orecv (nth j b dsb)).

Lemma same_skel_refl b : same_skel b b.
Proof. split; auto. Qed.

Lemma same_skel_trans a b c : same_skel a b -> same_skel b c -> same_skel a c.
Proof.
  intros [L1 H1] [L2 H2]. split; [congruence|]. intros j.
  destruct (H1 j) as (A1 & B1 & C1), (H2 j) as (A2 & B2 & C2). repeat split; congruence.
Qed.

Lemma same_skel_kid b b' j : same_skel b b' -> kid b' j = kid b j.
Proof. intros [_ H]. unfold kid. apply H. Qed.

Lemma link_rets_spec rets : forall st o st',
  link_rets st o rets = Some st' ->
  b_recvs st' = b_recvs st /\ b_kept st' = b_kept st /\ b_vbody st' = b_vbody st /\
  List.length (b_uirecv st') = List.length (b_uirecv st) /\ same_skel (b_body st) (b_body st') /\
  (forall i, i < List.length (b_uirecv st) ->
     nth i (b_uirecv st') None = match last_idx (AParam i) rets o with Some x => Some x | None => nth i (b_uirecv st) None end) /\
  (forall j l, j < List.length (b_body st) -> l < List.length (sb_orecv (nth j (b_body st) dsb)) ->
     nth l (sb_orecv (nth j (b_body st') dsb)) None =
     match last_idx (AOut j l) rets o with Some x => Some x | None => nth l (sb_orecv (nth j (b_body st) dsb)) None end) /\
  (forall la, In la rets -> ret_ok (List.length (b_uirecv st)) (b_body st) (snd la)).
Proof.
  induction rets as [|[lab a] r IH]; intros st o st' H; simpl in H.
  - inversion H; subst. repeat split; auto using same_skel_refl. intros la [].
  - destruct (link_ret st o a) as [st1|] eqn:E1; [|discriminate].
    destruct (IH _ _ _ H) as (R & K & V & LU & SK & HU & HB & HR). clear IH.
    assert (H1 : b_recvs st1 = b_recvs st /\ b_kept st1 = b_kept st /\ b_vbody st1 = b_vbody st /\
                 List.length (b_uirecv st1) = List.length (b_uirecv st) /\ same_skel (b_body st) (b_body st1) /\
                 ret_ok (List.length (b_uirecv st)) (b_body st) a /\
                 (forall i, i < List.length (b_uirecv st) ->
                    nth i (b_uirecv st1) None = if arg_eqb (AParam i) a then Some o else nth i (b_uirecv st) None) /\
                 (forall j l, j < List.length (b_body st) -> l < List.length (sb_orecv (nth j (b_body st) dsb)) ->
                    nth l (sb_orecv (nth j (b_body st1) dsb)) None =
                    if arg_eqb (AOut j l) a then Some o else nth l (sb_orecv (nth j (b_body st) dsb)) None)).
    { unfold link_ret in E1. destruct a as [i|j l|z]; [| |discriminate].
      - destruct (Nat.ltb_spec i (List.length (b_uirecv st))) as [Hi|Hi]; [|discriminate].
        inversion E1; subst st1; simpl. repeat split; auto using same_skel_refl, upd_nth_length.
        intros i' Hi'. rewrite nth_upd. destruct (Nat.eqb_spec i i') as [->|Hne].
        + rewrite Nat.eqb_refl. now replace (Nat.ltb i' (List.length (b_uirecv st))) with true by (symmetry; now apply Nat.ltb_lt).
        + replace (Nat.eqb i' i) with false by (symmetry; apply Nat.eqb_neq; auto). reflexivity.
      - destruct (arg_ok 0 (b_body st) (AOut j l)) eqn:Eok; [|discriminate].
        simpl in Eok. apply andb_true_iff in Eok as [Hj Hl]. apply Nat.ltb_lt in Hj, Hl.
        inversion E1; subst st1; simpl. split; auto. split; auto. split; auto. split; auto. split; [|split; [|split]].
        + split; [apply upd_nth_length|]. intros j'. rewrite nth_upd.
          destruct (Nat.eqb_spec j j') as [->|Hne]; auto.
          replace (Nat.ltb j' (List.length (b_body st))) with true by (symmetry; now apply Nat.ltb_lt).
          simpl. repeat split; auto. apply upd_nth_length.
        + split; auto.
        + auto.
        + intros j' l' Hj' Hl'. rewrite nth_upd. destruct (Nat.eqb_spec j j') as [->|Hne].
          * replace (Nat.ltb j' (List.length (b_body st))) with true by (symmetry; now apply Nat.ltb_lt).
            simpl. rewrite nth_upd. rewrite Nat.eqb_refl. destruct (Nat.eqb_spec l l') as [->|Hnl].
            -- rewrite Nat.eqb_refl. simpl. now replace (Nat.ltb l' _) with true by (symmetry; now apply Nat.ltb_lt).
            -- replace (Nat.eqb l' l) with false by (symmetry; apply Nat.eqb_neq; auto). now rewrite andb_false_r.
          * replace (Nat.eqb j' j) with false by (symmetry; apply Nat.eqb_neq; auto). reflexivity. }
    destruct H1 as (R1 & K1 & V1 & LU1 & SK1 & OK1 & HU1 & HB1).
    destruct SK1 as [SL1 SN1]. 
    split; [congruence|]. split; [congruence|]. split; [congruence|]. split; [congruence|].
    split; [eapply same_skel_trans; eauto; split; auto|].
    split; [|split].
    + intros i Hi. rewrite HU by lia. cbn [last_idx]. destruct (last_idx (AParam i) r (S o)); auto.
      rewrite HU1 by auto. destruct (arg_eqb (AParam i) a); auto.
    + intros j l Hj Hl. destruct (SN1 j) as (_ & _ & SLo).
      rewrite HB by lia. cbn [last_idx]. destruct (last_idx (AOut j l) r (S o)); auto.
      rewrite HB1 by auto. destruct (arg_eqb (AOut j l) a); auto.
    + intros la [<-|Hin]; [exact OK1|]. specialize (HR la Hin). rewrite LU1 in HR.
      destruct (snd la) as [i|j l|z]; simpl in *; auto.
      destruct HR as [A B]. split; [lia|]. destruct (SN1 j) as (E & _). unfold kid in *. rewrite E in B. exact B.
Qed.

Definition has_ui (i : nat) (c : list src) : bool :=
  existsb (fun s => match s with SUI i' => Nat.eqb i i' | _ => false end) c.

Lemma uses_in_spec i j conns : forall k0 jk,
  In jk (uses_in i j k0 conns) <->
  fst jk = j /\ k0 <= snd jk /\ snd jk < k0 + List.length conns /\ has_ui i (nth (snd jk - k0) conns []) = true.
Proof.
  induction conns as [|c r IH]; intros k0 [j' k]; simpl.
  - split; [tauto|]. intros (_ & A & B & _). lia.
  - rewrite in_app_iff, IH. fold (has_ui i c). simpl. split.
    + intros [(A & B & C & D)|H].
      * repeat split; auto; try lia. replace (k - k0) with (S (k - S k0)) by lia. exact D.
      * destruct (has_ui i c) eqn:E; [|destruct H]. destruct H as [H|[]]. inversion H; subst.
        repeat split; auto; try lia. now rewrite Nat.sub_diag.
    + intros (A & B & C & D). destruct (Nat.eq_dec k k0) as [->|Hne].
      * right. rewrite Nat.sub_diag in D. rewrite D. left. now subst.
      * left. repeat split; auto; try lia. replace (k - k0) with (S (k - S k0)) in D by lia. exact D.
Qed.

Lemma uses_spec i body : forall j0 j k,
  In (j, k) (uses i j0 body) <->
  j0 <= j /\ j < j0 + List.length body /\
  k < List.length (sb_conns (nth (j - j0) body dsb)) /\ has_ui i (nth k (sb_conns (nth (j - j0) body dsb)) []) = true.
Proof.
  induction body as [|e r IH]; intros j0 j k; simpl.
  - split; [tauto|]. intros (A & B & _). lia.
  - rewrite in_app_iff, IH, uses_in_spec. simpl. split.
    + intros [(A & B & C & D)|(A & _ & C & D)].
      * replace (j - j0) with (S (j - S j0)) by lia. repeat split; auto; lia.
      * subst j. rewrite Nat.sub_diag. rewrite Nat.sub_0_r in D. repeat split; auto; lia.
    + intros (A & B & C & D). destruct (Nat.eq_dec j j0) as [->|Hne].
      * right. rewrite Nat.sub_diag in C, D. rewrite Nat.sub_0_r. repeat split; auto; lia.
      * left. replace (j - j0) with (S (j - S j0)) in C, D by lia. repeat split; auto; lia.
Qed.

Lemma has_ui_conn_of kept i a : has_ui i (conn_of kept a) = true <-> a = Some (AParam i) /\ nth i kept false = true.
Proof.
  destruct a as [[i'|j l|z]|]; simpl; try (split; [discriminate|intros [H _]; discriminate]).
  destruct (nth i' kept false) eqn:E; simpl.
  - rewrite orb_false_r, Nat.eqb_eq. split; [intros ->; auto|intros [H _]; inversion H; auto].
  - split; [discriminate|]. intros [H K]. inversion H; subst. congruence.
Qed.

Section Purge.
  Variables (ps : list param) (body : list (stmt mdef)) (ins : list val) (sb0 : list (sbody snode)).
  Variable Q : nat -> vnode -> Prop.
  Let np := List.length ps.
  Let nb := List.length body.
  Hypothesis HQ : forall j v k x, j < nb -> k < List.length (sargs body j) -> Q j v -> Q j (set_in (kid sb0 j) v k x).
  Hypothesis Hargs : forall j, j < nb -> List.length (sargs body j) <= s_nins (kid sb0 j).
  Hypothesis Hlen0 : List.length sb0 = nb.

  Definition PI (st : bst) : Prop :=
    List.length (b_recvs st) = np /\ List.length (b_kept st) = np /\ List.length (b_uirecv st) = np /\
    List.length (b_vbody st) = nb /\ List.length (b_body st) = nb /\
    (forall j, sb_node (nth j (b_body st) dsb) = sb_node (nth j sb0 dsb) /\
               sb_orecv (nth j (b_body st) dsb) = sb_orecv (nth j sb0 dsb) /\
               (j < nb -> List.length (sb_conns (nth j (b_body st) dsb)) = s_nins (kid sb0 j))) /\
    (forall i, i < np -> nth i (b_kept st) false = true -> nth i (b_recvs st) ROrphan = RUI i) /\
    (forall i j k, i < np -> nth i (b_kept st) false = false -> j < nb ->
                   nth_error (sargs body j) k = Some (AParam i) -> nth i (b_recvs st) ROrphan = RBody j k) /\
    (forall i, i < np -> nth i (b_kept st) false = false ->
               match nth i (b_recvs st) ROrphan with
               | RBody j k => j < nb /\ nth_error (sargs body j) k = Some (AParam i)
               | ROrphan => True
               | RUI _ => False
               end) /\
    (forall i, i < np -> nth i (b_kept st) false = false -> nth i (b_uirecv st) None = None) /\
    (forall j k, j < nb -> k < s_nins (kid sb0 j) ->
                 nth k (sb_conns (nth j (b_body st) dsb)) [] = conn_of (b_kept st) (nth_error (sargs body j) k)) /\
    (forall i j k, i < np -> nth i (b_kept st) false = false -> nth i (b_recvs st) ROrphan = RBody j k ->
                   nth k (v_ins (nth j (b_vbody st) dv)) None = nth i ins None) /\
    (forall j k z, j < nb -> nth_error (sargs body j) k = Some (AConst z) ->
                   nth k (v_ins (nth j (b_vbody st) dv)) None = Some z) /\
    (forall j, j < nb -> List.length (v_ins (nth j (b_vbody st) dv)) = s_nins (kid sb0 j)) /\
    (forall j, j < nb -> Q j (nth j (b_vbody st) dv)).

  Lemma purge_one_inv st i st' : PI st -> i < np -> nth i (b_kept st) false = true ->
    purge_one ps ins st i = Some st' ->
    PI st' /\ b_uirecv st' = b_uirecv st /\ (forall i', i' <> i -> nth i' (b_kept st') false = nth i' (b_kept st) false).
  Proof.
    intros (L1 & L2 & L3 & L4 & L5 & SK & P3 & P4 & P5 & P6 & PC & D1 & D2 & D4 & DQ) Hi Ek H.
    unfold purge_one in H.
    destruct (nth i (b_uirecv st) None) as [o|] eqn:Eu.
    { inversion H; subst. split; auto. repeat split; auto; apply SK. }
    assert (Huses : forall j k, In (j, k) (uses i 0 (b_body st)) <->
              j < nb /\ nth_error (sargs body j) k = Some (AParam i)).
    { intros j k. rewrite uses_spec. rewrite Nat.sub_0_r. simpl. rewrite L5. split.
      - intros (_ & Hj & Hk & Hu). destruct (SK j) as (_ & _ & SL). rewrite (SL Hj) in Hk.
        rewrite (PC j k Hj Hk) in Hu. apply has_ui_conn_of in Hu. tauto.
      - intros (Hj & Ha). destruct (SK j) as (_ & _ & SL).
        assert (Hkl : k < s_nins (kid sb0 j)).
        { apply nth_error_nth2 with (d := AConst 0) in Ha as [_ Ha]. specialize (Hargs j Hj). lia. }
        rewrite (SL Hj). rewrite (PC j k Hj Hkl). repeat split; auto; try lia.
        apply has_ui_conn_of. auto. }
    assert (Hkother : forall i', i' <> i -> nth i' (upd_nth i false (b_kept st)) false = nth i' (b_kept st) false).
    { intros i' Hne. apply nth_upd_other. auto. }
    assert (Hkself : nth i (upd_nth i false (b_kept st)) false = false).
    { apply nth_upd_same. lia. }
    assert (Hconn_other : forall a, a <> Some (AParam i) ->
              conn_of (upd_nth i false (b_kept st)) a = conn_of (b_kept st) a).
    { intros [[i'|j l|z]|] Hne; simpl; auto. rewrite Hkother; auto. intros ->. congruence. }
    destruct (uses i 0 (b_body st)) as [|[j0 k0] [|jk2 r]] eqn:Eus.
    - (* no use: the interface node is dropped, the macro input keeps pointing at it *)
      assert (Hno : forall j k, j < nb -> nth_error (sargs body j) k <> Some (AParam i)).
      { intros j k Hj Ha. assert (Hin : In (j, k) []) by (apply Huses; auto). destruct Hin. }
      inversion H; subst; simpl. split; [|split; auto].
      unfold PI; simpl. rewrite !upd_nth_length.
      split; auto. split; auto. split; auto. split; auto. split; auto. split; [exact SK|].
      split; [|split; [|split; [|split; [|split; [|split; [|split; [exact D2|split; [exact D4|exact DQ]]]]]]]].
      + intros i' Hi' Hk'. destruct (Nat.eq_dec i' i) as [->|Hne]; [congruence|].
        rewrite Hkother in Hk' by auto. rewrite nth_upd_other; auto.
      + intros i' j k Hi' Hk' Hj Ha. destruct (Nat.eq_dec i' i) as [->|Hne]; [exfalso; eapply Hno; eauto|].
        rewrite Hkother in Hk' by auto. rewrite nth_upd_other; auto.
      + intros i' Hi' Hk'. destruct (Nat.eq_dec i' i) as [->|Hne].
        * rewrite nth_upd_same by lia. exact I.
        * rewrite Hkother in Hk' by auto. rewrite nth_upd_other by auto. apply P5; auto.
      + intros i' Hi' Hk'. destruct (Nat.eq_dec i' i) as [->|Hne]; [exact Eu|].
        rewrite Hkother in Hk' by auto. auto.
      + intros j k Hj Hk. rewrite PC by auto. symmetry. apply Hconn_other. apply Hno; auto.
      + intros i' j k Hi' Hk' Hr. destruct (Nat.eq_dec i' i) as [->|Hne].
        * rewrite nth_upd_same in Hr by lia. discriminate.
        * rewrite Hkother in Hk' by auto. rewrite nth_upd_other in Hr by auto. auto.
    - (* a single use: link the macro input to that child input, drop the interface node *)
      assert (H0 : j0 < nb /\ nth_error (sargs body j0) k0 = Some (AParam i)) by (apply Huses; simpl; auto).
      destruct H0 as [Hj0 Ha0].
      assert (Huniq : forall j k, j < nb -> nth_error (sargs body j) k = Some (AParam i) -> j = j0 /\ k = k0).
      { intros j k Hj Ha. assert (Hin : In (j, k) [(j0, k0)]) by (apply Huses; auto).
        destruct Hin as [Hin|[]]. inversion Hin; auto. }
      assert (Hk0 : k0 < List.length (sargs body j0)).
      { apply nth_error_nth2 with (d := AConst 0) in Ha0 as [_ Ha0]. exact Ha0. }
      assert (Hk0' : k0 < s_nins (kid sb0 j0)) by (specialize (Hargs j0 Hj0); lia).
      destruct (compat _ _); [|discriminate].
      destruct (SK j0) as (SN0 & SO0 & SL0).
      inversion H; subst; simpl. split; [|split; auto].
      unfold PI; simpl. rewrite !upd_nth_length.
      split; auto. split; auto. split; auto. split; auto. split; auto.
      split; [|split; [|split; [|split; [|split; [|split; [|split; [|split]]]]]]].
      + intros j. rewrite nth_upd. destruct (Nat.eqb_spec j0 j) as [->|Hne]; [|apply SK].
        replace (Nat.ltb j (List.length (b_body st))) with true by (symmetry; apply Nat.ltb_lt; lia).
        simpl. split; auto. split; auto. intros _. rewrite upd_nth_length. auto.
      + intros i' Hi' Hk'. destruct (Nat.eq_dec i' i) as [->|Hne]; [congruence|].
        rewrite Hkother in Hk' by auto. rewrite nth_upd_other; auto.
      + intros i' j k Hi' Hk' Hj Ha. destruct (Nat.eq_dec i' i) as [->|Hne].
        * rewrite nth_upd_same by lia. destruct (Huniq j k Hj Ha) as [-> ->]. reflexivity.
        * rewrite Hkother in Hk' by auto. rewrite nth_upd_other; auto.
      + intros i' Hi' Hk'. destruct (Nat.eq_dec i' i) as [->|Hne].
        * rewrite nth_upd_same by lia. auto.
        * rewrite Hkother in Hk' by auto. rewrite nth_upd_other by auto. apply P5; auto.
      + intros i' Hi' Hk'. destruct (Nat.eq_dec i' i) as [->|Hne]; [exact Eu|].
        rewrite Hkother in Hk' by auto. auto.
      + intros j k Hj Hk. rewrite nth_upd. destruct (Nat.eqb_spec j0 j) as [->|Hnj].
        * replace (Nat.ltb j (List.length (b_body st))) with true by (symmetry; apply Nat.ltb_lt; lia).
          simpl. rewrite nth_upd. destruct (Nat.eqb_spec k0 k) as [->|Hnk].
          -- replace (Nat.ltb k _) with true by (symmetry; apply Nat.ltb_lt; rewrite (SL0 Hj); auto).
             rewrite (PC j k Hj Hk), Ha0. simpl. rewrite Ek, Hkself. simpl. now rewrite Nat.eqb_refl.
          -- rewrite (PC j k Hj Hk). symmetry. apply Hconn_other. intros Ha.
             destruct (Huniq j k Hj Ha). congruence.
        * rewrite (PC j k Hj Hk). symmetry. apply Hconn_other. intros Ha.
          destruct (Huniq j k Hj Ha). congruence.
      + intros i' j k Hi' Hk' Hr. destruct (Nat.eq_dec i' i) as [->|Hne].
        * rewrite nth_upd_same in Hr by lia. inversion Hr; subst j k.
          rewrite nth_upd_same by lia. rewrite SN0. fold (kid sb0 j0). rewrite set_in_ins.
          apply nth_upd_same. rewrite D4; auto.
        * rewrite Hkother in Hk' by auto. rewrite nth_upd_other in Hr by auto.
          rewrite <- (D1 i' j k Hi' Hk' Hr).
          pose proof (P5 i' Hi' Hk') as P5'. rewrite Hr in P5'. destruct P5' as [Hj Ha].
          destruct (Nat.eq_dec j j0) as [->|Hnj]; [|rewrite nth_upd_other by lia; reflexivity].
          rewrite nth_upd_same by lia. rewrite set_in_ins. apply nth_upd_other.
          intros ->. congruence.
      + intros j k z Hj Ha. rewrite <- (D2 j k z Hj Ha).
        destruct (Nat.eq_dec j j0) as [->|Hnj]; [|rewrite nth_upd_other by lia; reflexivity].
        rewrite nth_upd_same by lia. rewrite set_in_ins. apply nth_upd_other.
        intros ->. congruence.
      + split.
        * intros j Hj. destruct (Nat.eq_dec j j0) as [->|Hnj]; [|rewrite nth_upd_other by lia; auto].
          rewrite nth_upd_same by lia. rewrite set_in_ins, upd_nth_length. auto.
        * intros j Hj. destruct (Nat.eq_dec j j0) as [->|Hnj]; [|rewrite nth_upd_other by lia; auto].
          rewrite nth_upd_same by lia. rewrite SN0. fold (kid sb0 j0). apply HQ; auto.
    - (* forked: the interface node stays *)
      inversion H; subst. split; auto.
      repeat split; auto; apply SK.
  Qed.

  Lemma purge_inv is : forall st st', NoDup is ->
    (forall i, In i is -> i < np /\ nth i (b_kept st) false = true) ->
    PI st -> purge ps ins st is = Some st' -> PI st' /\ b_uirecv st' = b_uirecv st.
  Proof.
    induction is as [|i r IH]; intros st st' Hnd Hin HPI H; simpl in H.
    - inversion H; subst. auto.
    - destruct (purge_one ps ins st i) as [st1|] eqn:E1; [|discriminate].
      destruct (Hin i ltac:(simpl; auto)) as [Hi Hk].
      destruct (purge_one_inv st i st1 HPI Hi Hk E1) as (HPI1 & HU1 & HK1).
      inversion Hnd; subst.
      destruct (IH st1 st' H3) as [A B]; auto.
      + intros i' Hi'. destruct (Hin i' ltac:(simpl; auto)) as [A B]. split; auto.
        rewrite HK1; auto. intros ->. contradiction.
      + split; auto. congruence.
  Qed.
End Purge.

Lemma nth_repeat {A} (x d : A) n k : k < n -> nth k (repeat x n) d = x.
Proof. revert k; induction n as [|n IH]; intros [|k] H; simpl; auto; try lia. apply IH; lia. Qed.

Lemma nth_repeat_same {A} (x : A) n k : nth k (repeat x n) x = x.
Proof. revert k; induction n as [|n IH]; intros [|k]; simpl; auto. Qed.

Lemma apply_args_spec s (P : vnode -> Prop) args : forall v k0,
  (forall v k x, k < k0 + List.length args -> P v -> P (set_in s v k x)) -> P v ->
  let v' := apply_args s v k0 args in
  P v' /\ v_outs v' = v_outs v /\ v_cache v' = v_cache v /\ List.length (v_ins v') = List.length (v_ins v) /\
  (forall k, k < List.length (v_ins v) ->
     nth k (v_ins v') None =
     match (if Nat.leb k0 k then nth_error args (k - k0) else None) with
     | Some (AConst z) => Some z
     | _ => nth k (v_ins v) None
     end).
Proof.
  induction args as [|a r IH]; intros v k0 HP Hv; simpl.
  - repeat split; auto. intros k Hk. destruct (Nat.leb k0 k); auto. destruct (k - k0); auto.
  - set (v1 := match a with AConst z => set_in s v k0 (Some z) | _ => v end).
    assert (H1 : P v1 /\ v_outs v1 = v_outs v /\ v_cache v1 = v_cache v /\
                 v_ins v1 = match a with AConst z => upd_nth k0 (Some z) (v_ins v) | _ => v_ins v end).
    { unfold v1. destruct a as [i|j l|z]; auto.
      rewrite set_in_outs, set_in_cache, set_in_ins. repeat split; auto. apply HP; auto. simpl; lia. }
    destruct H1 as (P1 & O1 & C1 & I1).
    destruct (IH v1 (S k0)) as (P2 & O2 & C2 & L2 & N2); auto.
    { intros v0 k x Hk. apply HP. simpl. lia. }
    assert (L1 : List.length (v_ins v1) = List.length (v_ins v)).
    { rewrite I1. destruct a; auto. apply upd_nth_length. }
    repeat split; auto; try congruence.
    intros k Hk. rewrite N2 by lia.
    destruct (Nat.leb_spec (S k0) k) as [Hle|Hgt].
    + replace (Nat.leb k0 k) with true by (symmetry; apply Nat.leb_le; lia).
      replace (k - k0) with (S (k - S k0)) by lia. simpl.
      assert (Hsame : nth k (v_ins v1) None = nth k (v_ins v) None).
      { rewrite I1. destruct a; auto. apply nth_upd_other. lia. }
      now rewrite Hsame.
    + destruct (Nat.eq_dec k k0) as [->|Hne].
      * replace (Nat.leb k0 k0) with true by (symmetry; apply Nat.leb_le; lia). rewrite Nat.sub_diag. simpl.
        rewrite I1. destruct a; auto. apply nth_upd_same; auto.
      * replace (Nat.leb k0 k) with false by (symmetry; apply Nat.leb_gt; lia).
        rewrite I1. destruct a; auto. apply nth_upd_other. lia.
Qed.

Lemma ui_nth ps i : i < List.length ps ->
  nth i (map (fun p => VN [p_default p] [None] None [] []) ps) dv = VN [p_default (nth i ps dparam)] [None] None [] [].
Proof.
  intros Hi. rewrite (nth_indep _ dv ((fun p => VN [p_default p] [None] None [] []) dparam)) by (now rewrite map_length).
  exact (map_nth (fun p => VN [p_default p] [None] None [] []) ps dparam i).
Qed.

Lemma default_nth ps i : nth i (map p_default ps) None = p_default (nth i ps dparam).
Proof. exact (map_nth p_default ps dparam i). Qed.

Definition built_ok (d : mdef) (l : string) (s : snode) (v : vnode) : Prop :=
  wired d s /\ coh d s v /\ s_label_of s = l /\ v_ins v = map p_default (d_params d) /\
  (forall lo, nth lo (v_outs v) None = None) /\ v_cache v = None.

Lemma build_ok d : forall l s v, build d l = Some (s, v) -> built_ok d l s v.
Proof.
  induction d as [ps body rets fl IH] using mdef_ind'. intros l s v H.
  cbn [build] in H.
  destruct (negb (nodup_str (map fst rets))); [discriminate|].
  destruct (script build (List.length ps) body [] []) as [[sb vb]|] eqn:Escr; [|discriminate].
  destruct (link_rets _ 0 rets) as [st1|] eqn:Elink; [|discriminate].
  destruct (purge ps (map p_default ps) st1 (seq 0 (List.length ps))) as [st2|] eqn:Epurge; [|discriminate].
  destruct (configure fl (b_kept st2) (List.length sb)) as [[manual order]|] eqn:Ecfg; [|discriminate].
  inversion H; subst s v; clear H.
  (* the creator *)
  destruct (script_spec _ _ _ _ _ _ _ Escr) as (sb' & vb' & Esb & Evb & HLs & HLv & Hscr).
  simpl in Esb, Evb. subst sb' vb'.
  (* the links to the outputs *)
  destruct (link_rets_spec _ _ _ _ Elink) as (R1 & K1 & V1 & LU1 & SK1 & HU1 & HB1 & HR1).
  simpl in R1, K1, V1, LU1, SK1, HU1, HB1, HR1. rewrite repeat_length in LU1, HU1, HR1.
  set (np := List.length ps) in *. set (nb := List.length body) in *.
  set (sb0 := b_body st1) in *.
  assert (Hkid0 : forall j, kid sb0 j = kid sb j) by (intros j; apply same_skel_kid; exact SK1).
  destruct SK1 as [SL1 SN1].
  set (Q := fun (j : nat) (vj : vnode) =>
              (forall lo, nth lo (v_outs vj) None = None) /\
              match s_mac (nth j body dstmt) with
              | None => fn_coh false vj
              | Some d' => coh d' (kid sb0 j) vj /\
                           forall k, List.length (sargs body j) <= k -> k < List.length (d_params d') ->
                                     nth k (v_ins vj) None = p_default (nth k (d_params d') dparam)
              end).
  (* facts about every child the creator made *)
  assert (Hchild : forall j, j < nb ->
            List.length (sargs body j) <= s_nins (kid sb j) /\
            List.length (sb_conns (nth j sb dsb)) = s_nins (kid sb j) /\
            List.length (sb_orecv (nth j sb dsb)) = s_nouts (kid sb j) /\
            (forall lo, nth lo (sb_orecv (nth j sb dsb)) None = None) /\
            (forall k, k < s_nins (kid sb j) ->
               nth k (sb_conns (nth j sb dsb)) [] =
               match nth_error (sargs body j) k with Some a => arg_conn a | None => [] end) /\
            match s_mac (nth j body dstmt) with
            | None => kid sb j = SFn (s_label (nth j body dstmt)) false (List.length (sargs body j))
            | Some d' => wired d' (kid sb j) /\ s_label_of (kid sb j) = s_label (nth j body dstmt)
            end /\
            List.length (v_ins (nth j vb dv)) = s_nins (kid sb j) /\
            (forall k z, nth_error (sargs body j) k = Some (AConst z) -> nth k (v_ins (nth j vb dv)) None = Some z) /\
            (forall lo, nth lo (v_outs (nth j vb dv)) None = None) /\
            match s_mac (nth j body dstmt) with
            | None => fn_coh false (nth j vb dv)
            | Some d' => coh d' (kid sb j) (nth j vb dv) /\
                         forall k, List.length (sargs body j) <= k -> k < List.length (d_params d') ->
                                   nth k (v_ins (nth j vb dv)) None = p_default (nth k (d_params d') dparam)
            end).
  { intros j Hj. destruct (Hscr j Hj) as [Hok Hm]. unfold sargs, kid.
    destruct (s_mac (nth j body dstmt)) as [d'|] eqn:Em.
    - destruct Hm as (s' & v' & Eb & Hle & -> & ->). simpl.
      destruct (IH j d' Em _ _ _ Eb) as (W' & C' & Lab' & I' & O' & Ca').
      pose proof (wired_nins _ _ W') as Hnin.
      assert (HP : forall v k x, k < 0 + List.length (s_args (nth j body dstmt)) ->
                 coh d' s' v -> coh d' s' (set_in s' v k x)).
      { intros v k x Hk Hc. apply set_in_coh; auto. lia. }
      destruct (apply_args_spec s' (coh d' s') (s_args (nth j body dstmt)) v' 0 HP C') as (P2 & O2 & C2 & L2 & N2).
      assert (Hlv : List.length (v_ins v') = s_nins s').
      { rewrite I', map_length. auto. }
      split; auto. split; [unfold pad; rewrite app_length, map_length, repeat_length; lia|].
      split; [apply repeat_length|]. split; [intros lo; apply nth_repeat_same|].
      split.
      { intros k Hk. unfold pad.
        destruct (nth_error (s_args (nth j body dstmt)) k) as [a|] eqn:Ea.
        - pose proof (nth_error_nth2 _ _ a _ Ea) as [_ Hka].
          rewrite app_nth1 by (now rewrite map_length).
          apply nth_error_nth. now apply map_nth_error.
        - apply nth_error_None in Ea. rewrite app_nth2 by (rewrite map_length; lia).
          apply nth_repeat_same. }
      split; [auto|]. split; [congruence|]. split.
      { intros k z Ha. pose proof (nth_error_nth2 _ _ (AConst z) _ Ha) as [_ Hka].
        rewrite N2 by lia. simpl. rewrite Nat.sub_0_r, Ha. reflexivity. }
      split; [intros lo; rewrite O2; apply O'|].
      split; [exact P2|].
      intros k Hk1 Hk2. rewrite N2 by lia. simpl. rewrite Nat.sub_0_r.
      replace (nth_error (s_args (nth j body dstmt)) k) with (@None arg) by (symmetry; now apply nth_error_None).
      rewrite I'. apply default_nth.
    - destruct Hm as [-> ->]. simpl. rewrite !map_length.
      split; auto. split; auto. split; auto. split; [intros [|[|lo]]; reflexivity|].
      split.
      { intros k Hk. destruct (nth_error (s_args (nth j body dstmt)) k) as [a|] eqn:Ea.
        - apply nth_error_nth. now apply map_nth_error.
        - apply nth_error_None in Ea. lia. }
      split; auto. split; auto. split.
      { intros k z Ha. apply nth_error_nth. now apply (map_nth_error arg_val) in Ha. }
      split; [intros [|[|lo]]; reflexivity|].
      split; [reflexivity|]. simpl. discriminate. }
  assert (Hparam : forall j k i, j < nb -> nth_error (sargs body j) k = Some (AParam i) -> i < np).
  { intros j k i Hj Ha. destruct (Hscr j Hj) as [Hok _]. rewrite forallb_forall in Hok.
    specialize (Hok (AParam i) (nth_error_In _ _ Ha)). simpl in Hok. now apply Nat.ltb_lt in Hok. }
  assert (HQ : forall j v k x, j < nb -> k < List.length (sargs body j) -> Q j v -> Q j (set_in (kid sb0 j) v k x)).
  { intros j v k x Hj Hk [Qo Qc]. split; [intros lo; rewrite set_in_outs; apply Qo|].
    destruct (Hchild j Hj) as (Hle & _ & _ & _ & _ & Hw & _).
    destruct (s_mac (nth j body dstmt)) as [d'|].
    - destruct Qc as [Qc Qd]. destruct Hw as [Hw _]. split.
      + apply set_in_coh; auto. { now rewrite Hkid0. } rewrite <- (wired_nins _ _ Hw). lia.
      + intros k1 Hk1 Hk1'. rewrite set_in_ins. rewrite nth_upd_other by lia. auto.
    - rewrite Hkid0, Hw. simpl. unfold fn_coh in *. destruct v; simpl in *; auto. }
  assert (Hargs : forall j, j < nb -> List.length (sargs body j) <= s_nins (kid sb0 j)).
  { intros j Hj. rewrite Hkid0. apply Hchild; auto. }
  assert (Hlen0 : List.length sb0 = nb) by lia.
  assert (HPI1 : PI ps body (map p_default ps) sb0 Q st1).
  { unfold PI. rewrite R1, K1, V1, map_length, seq_length, repeat_length. fold np nb sb0.
    split; auto. split; auto. split; auto. split; [lia|]. split; auto.
    split; [|split; [|split; [|split; [|split; [|split; [|split; [|split; [|split]]]]]]]].
    - intros j. split; auto. split; auto. intros Hj. destruct (SN1 j) as (_ & -> & _). rewrite Hkid0. apply Hchild; auto.
    - intros i Hi _. rewrite (nth_indep _ ROrphan (RUI 0)) by (rewrite map_length, seq_length; auto).
      rewrite map_nth, seq_nth; auto.
    - intros i j k Hi Hk. rewrite nth_repeat in Hk by auto. discriminate.
    - intros i Hi Hk. rewrite nth_repeat in Hk by auto. discriminate.
    - intros i Hi Hk. rewrite nth_repeat in Hk by auto. discriminate.
    - intros j k Hj Hk. destruct (SN1 j) as (_ & -> & _). rewrite Hkid0 in Hk.
      destruct (Hchild j Hj) as (_ & _ & _ & _ & Hc & _). rewrite (Hc k Hk).
      destruct (nth_error (sargs body j) k) as [[i|j' lo|z]|] eqn:Ea; simpl; auto.
      rewrite nth_repeat; auto. eapply Hparam; eauto.
    - intros i j k Hi Hk. rewrite nth_repeat in Hk by auto. discriminate.
    - intros j k z Hj Ha. destruct (Hchild j Hj) as (_ & _ & _ & _ & _ & _ & _ & Hd2 & _). eauto.
    - intros j Hj. rewrite Hkid0. apply Hchild; auto.
    - intros j Hj. destruct (Hchild j Hj) as (_ & _ & _ & _ & _ & _ & _ & _ & Ho & Hc).
      split; auto. destruct (s_mac (nth j body dstmt)); auto. now rewrite Hkid0. }
  destruct (purge_inv ps body (map p_default ps) sb0 Q HQ Hargs Hlen0 (seq 0 np) st1 st2) as [HPI2 HU2]; auto.
  { apply seq_NoDup. }
  { intros i Hi. apply in_seq in Hi. split; [lia|]. rewrite K1. apply nth_repeat. lia. }
  destruct HPI2 as (L1 & L2 & L3 & L4 & L5 & SK & P3 & P4 & P5 & P6 & PC & D1 & D2 & D4 & DQ).
  fold np nb in L1, L2, L3, L4, L5, SK, P3, P4, P5, P6, PC, D1, D2, D4, DQ.
  assert (Hkid2 : forall j, kid (b_body st2) j = kid sb j).
  { intros j. unfold kid. destruct (SK j) as (-> & _). apply Hkid0. }
  assert (Huirecv : forall i, i < np -> nth i (b_uirecv st2) None = last_idx (AParam i) rets 0).
  { intros i Hi. rewrite HU2, HU1 by auto. destruct (last_idx (AParam i) rets 0); auto. apply nth_repeat_same. }
  assert (Horecv : forall j lo, j < nb -> lo < s_nouts (kid sb j) ->
            nth lo (sb_orecv (nth j (b_body st2) dsb)) None = last_idx (AOut j lo) rets 0).
  { intros j lo Hj Hlo. destruct (SK j) as (_ & -> & _). fold sb0.
    destruct (Hchild j Hj) as (_ & _ & HLo & Hnone & _).
    rewrite HB1 by (try rewrite HLo; auto; lia). destruct (last_idx (AOut j lo) rets 0); auto. }
  unfold built_ok. cbn [d_params s_label_of v_ins v_outs v_cache].
  split; [|split; [|split; [reflexivity|split; [reflexivity|split; [intros lo; apply nth_repeat_same|reflexivity]]]]].
  - (* wired *)
    cbn [wired]. split; [reflexivity|]. split; [reflexivity|]. split.
    + unfold wired_level. fold np nb. rewrite HLs in Ecfg.
      split; auto. split; auto. split; auto. split; [exact Ecfg|]. split; [exact Huirecv|].
      split; [exact P3|]. split; [exact P4|]. split; [exact P5|]. split.
      * intros i Hi Hl. destruct (nth i (b_kept st2) false) eqn:Ek; auto.
        exfalso. apply Hl. rewrite <- Huirecv by auto. apply P6; auto.
      * intros j Hj. cbv zeta. fold (kid (b_body st2) j). rewrite Hkid2.
        destruct (Hchild j Hj) as (Hle & _ & HLo & _).
        destruct (SK j) as (_ & SO & SL). split; auto. split; [rewrite SL, Hkid0; auto|].
        split; [rewrite SO; fold sb0; destruct (SN1 j) as (_ & _ & ->); auto|].
        split; [intros k Hk; apply PC; auto; now rewrite Hkid0|].
        intros lo Hlo. apply Horecv; auto.
    + apply (all2_nth _ dstmt dsb). split; [lia|]. intros j Hj. fold (kid (b_body st2) j). rewrite Hkid2.
      destruct (Hchild j Hj) as (_ & _ & _ & _ & _ & Hw & _). exact Hw.
  - (* coh *)
    apply coh_intro; cbn [v_ins v_outs v_ui v_body v_cache]; [|discriminate|lia|].
    + unfold coh_level. fold np nb. rewrite !map_length, repeat_length. fold np.
      split; auto. split; auto. split; auto. split; auto.
      split; [|split; [|split; [exact D1|split; [exact D2|split; [|split]]]]].
      * intros i Hi. rewrite ui_nth by auto. simpl. split; auto. split; auto. discriminate.
      * intros i Hi _. rewrite ui_nth by auto. simpl. now rewrite default_nth.
      * intros j Hj. rewrite Hkid2, <- Hkid0. apply D4; auto.
      * intros i o Hi Ho. rewrite nth_repeat_same. rewrite ui_nth by auto. reflexivity.
      * intros j lo o Hj Ho. rewrite nth_repeat_same. destruct (DQ j Hj) as [Qo _]. now rewrite Qo.
    + intros j Hj. destruct (DQ j Hj) as [_ Qc]. rewrite Hkid2, <- Hkid0. exact Qc.
Qed.

(* ================================================================================== *)
(* L. histories of macro-level operations                                               *)
Definition macro_level (o : op) : Prop :=
  match o with OSetIn [] _ _ => True | ORun => True | OSetBad [] _ => True | ORunKw _ => True | _ => False end.

Lemma set_in_out_of_range d s v k x : wired d s -> coh d s v -> List.length (d_params d) <= k -> set_in s v k x = v.
Proof.
  destruct d as [ps body rets fl]. destruct s as [|l ps' ols recvs kept uirecv sb manual order]; simpl; [tauto|].
  intros (-> & -> & HWL & _) (HCL & _) Hk. destruct HWL as (Hlr & _). destruct HCL as (Li & _).
  fold (kid sb). unfold set_mac_with. destruct v as [ins outs c ui vb]. simpl in *.
  replace (nth_error recvs k) with (@None recv) by (symmetry; apply nth_error_None; lia).
  rewrite upd_nth_overflow by lia. reflexivity.
Qed.

Lemma set_in_coh_any d s v k x : wired d s -> coh d s v -> coh d s (set_in s v k x).
Proof.
  intros Hw Hc. destruct (Nat.ltb_spec k (List.length (d_params d))).
  - apply set_in_coh; auto.
  - erewrite set_in_out_of_range; eauto.
Qed.

Lemma set_kw_coh d s kw : wired d s -> forall v, coh d s v -> coh d s (set_kw s v kw).
Proof.
  intros Hw. unfold set_kw. induction kw as [|[k x] r IH]; intros v Hc; simpl; auto.
  apply IH. now apply set_in_coh_any.
Qed.

Lemma run_keeps_coh d s v v1 c1 p1 :
  wfd d = true -> rets_distinct d = true -> wired d s -> coh d s v -> run s v = Some (v1, c1, p1) -> coh d s v1.
Proof.
  intros Hwf Hrd Hw Hc Er.
  destruct (all_data (v_ins v)) eqn:Ed.
  - destruct (run_coh d Hwf Hrd s v Hw Hc Ed) as (v2 & c2 & p2 & Er2 & Hc2 & _). congruence.
  - (* a macro that is not ready cannot have run (unless its cache says so, which needs data) *)
    exfalso. destruct d as [ps body rets fl]. destruct s as [|l ps' ols recvs kept uirecv sb manual order]; [simpl in Hw; tauto|].
    rewrite run_mac in Er. unfold run_mac_with in Er. destruct v as [ins outs c ui vb]. simpl in Ed.
    destruct (cache_hit c ins) eqn:Eh.
    + apply cache_hit_iff in Eh. destruct Hc as (_ & Hcache & _). simpl in Hcache.
      destruct (Hcache _ Eh) as [Hd _]. congruence.
    + rewrite Ed in Er. discriminate.
Qed.

Lemma apply_op_coh d s v o v' n :
  wfd d = true -> rets_distinct d = true -> wired d s -> coh d s v -> macro_level o ->
  apply_op s v o = Some (v', n) -> coh d s v'.
Proof.
  intros Hwf Hrd Hw Hc Hm H. destruct o as [[|r p] k x|p l x| |[|r p] k|kw|p]; simpl in Hm; try tauto; simpl in H.
  - inversion H; subst. rewrite set_in_at_nil. now apply set_in_coh_any.
  - destruct (run s v) as [[[v1 c1] p1]|] eqn:Er; [|discriminate]. inversion H; subst.
    eapply run_keeps_coh; eauto.
  - destruct (refuses_at s [] k); [inversion H; subst; exact Hc|discriminate].
  - destruct (run s (set_kw s v kw)) as [[[v1 c1] p1]|] eqn:Er; [|discriminate]. inversion H; subst.
    apply (run_keeps_coh d s (set_kw s v kw) v' n p1); auto. now apply set_kw_coh.
Qed.

Lemma apply_ops_coh d s : wfd d = true -> rets_distinct d = true -> wired d s ->
  forall ops v v', coh d s v -> Forall macro_level ops -> apply_ops s v ops = Some v' -> coh d s v'.
Proof.
  intros Hwf Hrd Hw. induction ops as [|o r IH]; intros v v' Hc Hall H; simpl in H.
  - inversion H; subst; auto.
  - destruct (apply_op s v o) as [[v1 n]|] eqn:E1; [|discriminate]. inversion Hall; subst.
    apply (IH v1 v'); auto. apply (apply_op_coh d s v o v1 n); auto.
Qed.

(* THE MACRO IS ITS BODY: after any history of macro-level input assignments and runs, a run
   with inputs [ins] succeeds and leaves denote d ins in the outputs *)
Theorem equals_inlined d l s v0 ops v :
  wfd d = true -> rets_distinct d = true -> build d l = Some (s, v0) ->
  Forall macro_level ops -> apply_ops s v0 ops = Some v -> all_data (v_ins v) = true ->
  exists v' calls ps, run s v = Some (v', calls, ps) /\ v_ins v' = v_ins v /\
                      denote d (v_ins v) = Some (v_outs v').
Proof.
  intros Hwf Hrd Hb Hall Hops Hd. destruct (build_ok d l s v0 Hb) as (Hw & Hc & _).
  pose proof (apply_ops_coh d s Hwf Hrd Hw ops v0 v Hc Hall Hops) as Hcv.
  destruct (run_coh d Hwf Hrd s v Hw Hcv Hd) as (v' & c & ps & Er & _ & Hi & Hden & _).
  exists v', c, ps. auto.
Qed.

(* ================================================================================== *)
(* M. value links: the pairs of channels, and when they agree                           *)
Definition all1 {A} (P : A -> Prop) : list A -> Prop :=
  fix go (l : list A) : Prop := match l with [] => True | a :: r => P a /\ go r end.

Lemma all1_nth {A} (P : A -> Prop) d l : all1 P l <-> forall j, j < List.length l -> P (nth j l d).
Proof.
  induction l as [|a r IH]; simpl.
  - split; auto. intros _ j Hj; lia.
  - rewrite IH. split.
    + intros [Ha Hr] [|j] Hj; auto. apply Hr; lia.
    + intros H. split; [apply (H 0); lia|]. intros j Hj. apply (H (S j)); lia.
Qed.

(* every value-linked pair of channels, at every depth, holds equal values *)
Fixpoint synced (s : snode) (v : vnode) {struct s} : Prop :=
  match s with
  | SFn _ _ _ => True
  | SMac _ ps _ recvs kept uirecv body _ _ =>
      (forall i, i < List.length ps ->
         match nth i recvs ROrphan with
         | RUI i' => nth 0 (v_ins (nth i' (v_ui v) dv)) None = nth i (v_ins v) None
         | RBody j k => nth k (v_ins (nth j (v_body v) dv)) None = nth i (v_ins v) None
         | ROrphan => True
         end) /\
      (forall i o, i < List.length ps -> nth i kept false = true -> nth i uirecv None = Some o ->
                   nth o (v_outs v) None = nth 0 (v_outs (nth i (v_ui v) dv)) None) /\
      (forall j l o, j < List.length body -> nth l (sb_orecv (nth j body dsb)) None = Some o ->
                     nth o (v_outs v) None = nth l (v_outs (nth j (v_body v) dv)) None) /\
      all2 (fun e vj => synced (sb_node e) vj) body (v_body v)
  end.

Lemma coh_synced d : forall s v, wired d s -> coh d s v -> synced s v.
Proof.
  induction d as [ps body rets fl IH] using mdef_ind'. intros s v Hw Hc.
  destruct s as [|l ps' ols recvs kept uirecv sb manual order]; [simpl in Hw; tauto|].
  pose proof (wired_kids _ _ _ _ _ _ _ _ _ _ _ _ _ Hw) as [Hlen Hwk].
  pose proof (coh_kids _ _ _ _ _ _ _ _ _ _ _ _ _ _ Hc) as Hck.
  destruct Hw as (-> & -> & HWL & _).
  destruct HWL as (Hlr & Hlk & Hlu & Hcfg & Hui & Hrk & Hrb & Hrb' & Hpass & Hbody).
  destruct Hc as (HCL & _ & _).
  destruct HCL as (Li & Lo & Lu & Lb & Hu1 & Hu2 & Hc1 & Hc2 & Hlin & Hc4u & Hc4b).
  cbn [synced]. split; [|split; [|split]].
  - intros i Hi. destruct (nth i kept false) eqn:Ek.
    + rewrite (Hrk i Hi Ek). rewrite (Hu2 i Hi Ek). reflexivity.
    + specialize (Hrb' i Hi Ek). destruct (nth i recvs ROrphan) as [i'|j k|] eqn:Er; [tauto| |exact I].
      apply (Hc1 i j k Hi Ek Er).
  - intros i o Hi _ Ho. apply Hc4u; auto.
  - intros j l0 o Hj Ho. rewrite <- Hlen in Hj. apply Hc4b; auto.
  - apply (all2_nth _ dsb dv). split; [lia|]. intros j Hj. rewrite <- Hlen in Hj.
    specialize (Hwk j Hj). specialize (Hck j Hj). fold (kid sb j).
    destruct (s_mac (nth j body dstmt)) as [d'|] eqn:Em.
    + apply (IH j d' Em); tauto.
    + rewrite Hwk. exact I.
Qed.

Theorem sync_partial d l s v0 ops v :
  wfd d = true -> rets_distinct d = true -> build d l = Some (s, v0) ->
  Forall macro_level ops -> apply_ops s v0 ops = Some v -> synced s v.
Proof.
  intros Hwf Hrd Hb Hall Hops. destruct (build_ok d l s v0 Hb) as (Hw & Hc & _).
  apply (coh_synced d); auto. eapply apply_ops_coh; eauto.
Qed.

(* ================================================================================== *)
(* N. shapes (kept by EVERY operation), and the directional synchronisation theorems     *)
Fixpoint sranges (s : snode) {struct s} : Prop :=
  match s with
  | SFn _ _ _ => True
  | SMac _ ps ols recvs kept uirecv body _ _ =>
      (forall k, match nth_error recvs k with
                 | Some (RUI i) => i < List.length ps
                 | Some (RBody j k') => j < List.length body /\ k' < s_nins (kid body j)
                 | _ => True
                 end) /\
      List.length uirecv = List.length ps /\
      (forall i o, nth i uirecv None = Some o -> o < List.length ols) /\
      (forall j l o, j < List.length body -> nth l (sb_orecv (nth j body dsb)) None = Some o -> o < List.length ols) /\
      all1 (fun e => sranges (sb_node e)) body
  end.

Fixpoint vshape (s : snode) (v : vnode) {struct s} : Prop :=
  match s with
  | SFn _ _ a => List.length (v_ins v) = a /\ List.length (v_outs v) = 1
  | SMac _ ps ols _ _ _ body _ _ =>
      List.length (v_ins v) = List.length ps /\ List.length (v_outs v) = List.length ols /\
      List.length (v_ui v) = List.length ps /\
      (forall i, i < List.length ps -> List.length (v_ins (nth i (v_ui v) dv)) = 1 /\
                                        List.length (v_outs (nth i (v_ui v) dv)) = 1) /\
      all2 (fun e vj => vshape (sb_node e) vj) body (v_body v)
  end.

Lemma vshape_kids l ps ols recvs kept uirecv body manual order v :
  vshape (SMac l ps ols recvs kept uirecv body manual order) v ->
  List.length (v_body v) = List.length body /\ forall j, j < List.length body -> vshape (kid body j) (nth j (v_body v) dv).
Proof.
  cbn [vshape]. intros (_ & _ & _ & _ & H). apply (all2_nth _ dsb dv) in H as [HL H]. split; [lia|exact H].
Qed.

Lemma vshape_intro l ps ols recvs kept uirecv body manual order v :
  List.length (v_ins v) = List.length ps -> List.length (v_outs v) = List.length ols ->
  List.length (v_ui v) = List.length ps ->
  (forall i, i < List.length ps -> List.length (v_ins (nth i (v_ui v) dv)) = 1 /\ List.length (v_outs (nth i (v_ui v) dv)) = 1) ->
  List.length (v_body v) = List.length body ->
  (forall j, j < List.length body -> vshape (kid body j) (nth j (v_body v) dv)) ->
  vshape (SMac l ps ols recvs kept uirecv body manual order) v.
Proof.
  intros A B C D E F. cbn [vshape]. repeat split; auto; try apply D; auto.
  apply (all2_nth _ dsb dv). split; [lia|exact F].
Qed.

Lemma wired_sranges d : forall s, wired d s -> sranges s.
Proof.
  induction d as [ps body rets fl IH] using mdef_ind'. intros s Hw.
  destruct s as [|l ps' ols recvs kept uirecv sb manual order]; [simpl in Hw; tauto|].
  pose proof (wired_kids _ _ _ _ _ _ _ _ _ _ _ _ _ Hw) as [Hlen Hwk].
  destruct Hw as (-> & -> & HWL & _).
  pose proof (fun j k a => arg_lt_nins _ _ _ _ _ _ _ _ _ _ j k a HWL) as Hargk.
  destruct HWL as (Hlr & Hlk & Hlu & Hcfg & Hui & Hrk & Hrb & Hrb' & Hpass & Hbody).
  cbn [sranges]. rewrite map_length. split; [|split; [auto|split; [|split]]].
  - intros k. destruct (nth_error recvs k) as [r|] eqn:Ek; auto.
    apply nth_error_nth2 with (d := ROrphan) in Ek as [Ek Hk]. rewrite Hlr in Hk.
    destruct (nth k kept false) eqn:Ekept.
    + rewrite (Hrk k Hk Ekept) in Ek. subst r. exact Hk.
    + specialize (Hrb' k Hk Ekept). rewrite Ek in Hrb'. destruct r as [i|j k'|]; auto; [tauto|].
      destruct Hrb' as [Hj Ha]. rewrite <- Hlen. split; auto. eapply Hargk; eauto.
  - intros i o Ho. destruct (Nat.ltb_spec i (List.length ps)) as [Hi|Hi].
    + rewrite (Hui i Hi) in Ho. apply last_idx_some in Ho. lia.
    + rewrite nth_overflow in Ho by lia. discriminate.
  - intros j lo o Hj Ho. rewrite <- Hlen in Hj. destruct (Hbody j Hj) as (_ & _ & HLo & _ & Hor).
    destruct (Nat.ltb_spec lo (s_nouts (sb_node (nth j sb dsb)))) as [Hl|Hl].
    + rewrite (Hor lo Hl) in Ho. apply last_idx_some in Ho. lia.
    + rewrite nth_overflow in Ho by lia. discriminate.
  - apply (all1_nth _ dsb). intros j Hj. rewrite <- Hlen in Hj. specialize (Hwk j Hj). fold (kid sb j).
    destruct (s_mac (nth j body dstmt)) as [d'|] eqn:Em.
    + apply (IH j d' Em). tauto.
    + rewrite Hwk. exact I.
Qed.

Lemma coh_vshape d : forall s v, wired d s -> coh d s v -> vshape s v.
Proof.
  induction d as [ps body rets fl IH] using mdef_ind'. intros s v Hw Hc.
  destruct s as [|l ps' ols recvs kept uirecv sb manual order]; [simpl in Hw; tauto|].
  pose proof (wired_kids _ _ _ _ _ _ _ _ _ _ _ _ _ Hw) as [Hlen Hwk].
  pose proof (coh_kids _ _ _ _ _ _ _ _ _ _ _ _ _ _ Hc) as Hck.
  destruct Hw as (-> & -> & HWL & _).
  destruct Hc as (HCL & _ & _).
  destruct HCL as (Li & Lo & Lu & Lb & Hu1 & Hu2 & Hc1 & Hc2 & Hlin & Hc4u & Hc4b).
  apply vshape_intro; auto; try lia.
  - now rewrite map_length.
  - intros i Hi. destruct (Hu1 i Hi) as [A [B _]]. auto.
  - intros j Hj. rewrite <- Hlen in Hj. specialize (Hwk j Hj). specialize (Hck j Hj). specialize (Hlin j Hj).
    destruct (s_mac (nth j body dstmt)) as [d'|] eqn:Em.
    + apply (IH j d' Em); tauto.
    + rewrite Hwk in *. simpl in *. destruct Hck as [A _]. auto.
Qed.

Lemma vshape_set_in : forall s v k x, vshape s v -> vshape s (set_in s v k x).
Proof.
  induction s as [l i a|l ps ols recvs kept uirecv body manual order IH] using snode_ind'; intros v k x Hv.
  - destruct v; simpl in *. now rewrite upd_nth_length.
  - destruct (vshape_kids _ _ _ _ _ _ _ _ _ _ Hv) as [HLb Hk].
    cbn [vshape] in Hv. destruct Hv as (A & B & C & D & _).
    rewrite set_in_mac. unfold set_mac_with. destruct v as [ins outs c ui vb]. simpl in *.
    destruct (nth_error recvs k) as [[i|j k'|]|]; apply vshape_intro; simpl; rewrite ?upd_nth_length; auto.
    + intros i' Hi'. destruct (Nat.eq_dec i' i) as [->|Hne].
      * rewrite nth_upd_same by lia. destruct (D i Hi') as [D1 D2]. destruct (nth i ui dv) as [ins0 outs0 c0 ui0 b0]; simpl in *.
        split; auto. destruct ins0 as [|y [|z r]]; simpl in *; auto; discriminate.
      * rewrite nth_upd_other by auto. auto.
    + intros j' Hj'. destruct (Nat.eq_dec j' j) as [->|Hne].
      * rewrite nth_upd_same by lia. apply IH. auto.
      * rewrite nth_upd_other by auto. auto.
Qed.

Lemma fn_shape_set u k x :
  List.length (v_ins u) = 1 /\ List.length (v_outs u) = 1 ->
  List.length (v_ins (set_fn u k x)) = 1 /\ List.length (v_outs (set_fn u k x)) = 1.
Proof. destruct u; simpl. now rewrite upd_nth_length. Qed.

Lemma vshape_set_in_at : forall s v p k x, vshape s v -> vshape s (set_in_at s v p k x).
Proof.
  induction s as [l i a|l ps ols recvs kept uirecv body manual order IH] using snode_ind'; intros v p k x Hv.
  - destruct p; [rewrite set_in_at_nil; now apply vshape_set_in|exact Hv].
  - destruct p as [|[i|j] p]; [rewrite set_in_at_nil; now apply vshape_set_in| |].
    + destruct (vshape_kids _ _ _ _ _ _ _ _ _ _ Hv) as [HLb Hk].
      pose proof Hv as (A & B & C & D & _). destruct v as [ins outs c ui vb]. cbn [set_in_at].
      destruct p; [|exact Hv]. simpl in A, B, C, D, HLb, Hk. apply vshape_intro; simpl; rewrite ?upd_nth_length; auto.
      intros i' Hi'. destruct (Nat.eq_dec i' i) as [->|Hne].
      * rewrite nth_upd_same by lia. apply fn_shape_set. auto.
      * rewrite nth_upd_other by auto. auto.
    + destruct (vshape_kids _ _ _ _ _ _ _ _ _ _ Hv) as [HLb Hk].
      pose proof Hv as (A & B & C & D & _). destruct v as [ins outs c ui vb].
      rewrite set_in_at_body. simpl in A, B, C, D, HLb, Hk. apply vshape_intro; simpl; rewrite ?upd_nth_length; auto.
      intros j' Hj'. destruct (Nat.eq_dec j' j) as [->|Hne].
      * rewrite nth_upd_same by lia. replace (Nat.ltb j (List.length body)) with true by (symmetry; now apply Nat.ltb_lt).
        apply IH. auto.
      * rewrite nth_upd_other by auto. auto.
Qed.

Lemma vshape_set_out_at : forall s v p l x, vshape s v -> vshape s (fst (set_out_at s v p l x)).
Proof.
  induction s as [lab i a|lab ps ols recvs kept uirecv body manual order IH] using snode_ind'; intros v p l x Hv.
  - destruct p; [|exact Hv]. destruct v; simpl in *. now rewrite upd_nth_length.
  - destruct (vshape_kids _ _ _ _ _ _ _ _ _ _ Hv) as [HLb Hk].
    pose proof Hv as (A & B & C & D & _). destruct v as [ins outs c ui vb]. simpl in A, B, C, D, HLb, Hk.
    destruct p as [|[i|j] p].
    + cbn [set_out_at set_out_here fst]. apply vshape_intro; simpl; rewrite ?upd_nth_length; auto.
    + cbn [set_out_at]. destruct p; [|exact Hv].
      destruct (nth i ui dv) as [ui_ins ui_outs ui_c ui_u ui_b] eqn:Eu. cbn [set_out_here].
      pose proof (apply_pushes_len [nth i uirecv None] [(l, x)] outs) as Hlen.
      destruct (apply_pushes [nth i uirecv None] [(l, x)] outs) as [outs' q]. simpl in Hlen. cbn [fst].
      apply vshape_intro; simpl; rewrite ?upd_nth_length; auto; try lia.
      intros i' Hi'. destruct (Nat.eq_dec i' i) as [->|Hne].
      * rewrite nth_upd_same by lia. simpl. specialize (D i Hi'). rewrite Eu in D. simpl in D.
        rewrite upd_nth_length. exact D.
      * rewrite nth_upd_other by auto. auto.
    + rewrite set_out_at_body.
      destruct (Nat.ltb_spec j (List.length body)) as [Hj|Hj].
      * specialize (IH j (nth j vb dv) p l x (Hk j Hj)).
        destruct (set_out_at (kid body j) (nth j vb dv) p l x) as [vj' ps']. simpl in IH.
        pose proof (apply_pushes_len (sb_orecv (nth j body dsb)) ps' outs) as Hlen.
        destruct (apply_pushes (sb_orecv (nth j body dsb)) ps' outs) as [outs' q]. simpl in Hlen. cbn [fst].
        apply vshape_intro; simpl; rewrite ?upd_nth_length; auto; try lia.
        intros j' Hj'. destruct (Nat.eq_dec j' j) as [->|Hne].
        -- rewrite nth_upd_same by lia. exact IH.
        -- rewrite nth_upd_other by auto. auto.
      * simpl. rewrite upd_nth_same_val. exact Hv.
Qed.

Lemma run_fn_shape idf v v' c ps :
  run_fn idf v = Some (v', c, ps) ->
  List.length (v_ins v') = List.length (v_ins v) /\ (List.length (v_outs v) = 1 -> List.length (v_outs v') = 1).
Proof.
  destruct v as [ins outs ca ui vb]. simpl. destruct (cache_hit ca ins).
  - intros H; inversion H; subst; auto.
  - destruct (all_data ins); [|discriminate]. intros H; inversion H; subst; auto.
Qed.

Lemma vshape_run : forall s v v' c ps, vshape s v -> run s v = Some (v', c, ps) -> vshape s v'.
Proof.
  induction s as [l i a|l pars ols recvs kept uirecv body manual order IH] using snode_ind'; intros v v' c ps Hv Hr.
  - cbn [run] in Hr. destruct (run_fn_shape _ _ _ _ _ Hr) as [A B]. simpl in *. destruct Hv. split; [congruence|auto].
  - destruct (vshape_kids _ _ _ _ _ _ _ _ _ _ Hv) as [HLb Hk].
    pose proof Hv as (A & B & C & D & _). rewrite run_mac in Hr. unfold run_mac_with in Hr.
    destruct v as [ins outs ca ui vb]. simpl in A, B, C, D, HLb, Hk.
    destruct (cache_hit ca ins); [inversion Hr; subst; exact Hv|].
    destruct (all_data ins); [|discriminate].
    set (step := step_kid _ _ kept uirecv (cinfo_of body)) in Hr.
    set (good := fun st : mstate =>
                   List.length (ms_outs st) = List.length ols /\ List.length (ms_ui st) = List.length pars /\
                   (forall i, i < List.length pars -> List.length (v_ins (nth i (ms_ui st) dv)) = 1 /\
                                                       List.length (v_outs (nth i (ms_ui st) dv)) = 1) /\
                   List.length (ms_body st) = List.length body /\
                   (forall j, j < List.length body -> vshape (kid body j) (nth j (ms_body st) dv))).
    assert (Hstep : forall st r st', good st -> step st r = Some st' -> good st').
    { intros st r st' (G1 & G2 & G3 & G4 & G5) Hs. unfold step, step_kid in Hs. destruct r as [i|j].
      - destruct (nth i kept false); [|inversion Hs; subst; unfold good; repeat split; auto; apply G3; auto].
        destruct (run_fn true (nth i (ms_ui st) dv)) as [[[u' cc] pp]|] eqn:Eu; [|discriminate].
        inversion Hs; subst st'. unfold absorb.
        pose proof (apply_pushes_len [nth i uirecv None] pp (ms_outs st)) as Hl.
        destruct (apply_pushes [nth i uirecv None] pp (ms_outs st)) as [o' q]. simpl in *.
        destruct (run_fn_shape _ _ _ _ _ Eu) as [S1 S2]. unfold good. cbn [ms_outs ms_ui ms_body].
        split; [exact (eq_trans Hl G1)|]. split; [now rewrite upd_nth_length|]. split; [|auto].
        intros i' Hi'. destruct (Nat.eq_dec i' i) as [->|Hne].
        + rewrite nth_upd_same by lia. destruct (G3 i Hi'). split; [congruence|auto].
        + rewrite nth_upd_other by auto. auto.
      - destruct (nth j (cinfo_of body) ([], [])) as [conns orecv].
        set (vj := fetch_from _ _ _ conns 0 _) in Hs.
        destruct (run (kid body j) vj) as [[[vj' cc] pp]|] eqn:Ej; [|discriminate].
        inversion Hs; subst st'. unfold absorb.
        pose proof (apply_pushes_len orecv pp (ms_outs st)) as Hl.
        destruct (apply_pushes orecv pp (ms_outs st)) as [o' q]. simpl in *. unfold good. cbn [ms_outs ms_ui ms_body].
        split; [exact (eq_trans Hl G1)|]. split; [auto|]. split; [auto|]. split; [now rewrite upd_nth_length|].
        intros j' Hj'. destruct (Nat.eq_dec j' j) as [->|Hne].
        + rewrite nth_upd_same by lia. apply (IH j vj vj' cc pp); auto.
          unfold vj. apply (fetch_from_spec (kid body j) (ms_ui st) (ms_body st) conns 0 (nth j (ms_body st) dv)
                              (List.length conns) (vshape (kid body j))); auto.
          intros v0 k x _. apply vshape_set_in.
        + rewrite nth_upd_other by auto. auto. }
    assert (Hfold : forall rest st st', good st -> fold_opt step rest st = Some st' -> good st').
    { induction rest as [|r rest IHr]; intros st st' Hg Hf; simpl in Hf.
      - inversion Hf; subst; auto.
      - destruct (step st r) as [st1|] eqn:E1; [|discriminate].
        apply (IHr st1 st'); [apply (Hstep st r st1); auto|exact Hf]. }
    destruct (fold_opt step order (MS outs ui vb 0 [])) as [stf|] eqn:Ef; [|discriminate].
    inversion Hr; subst v'.
    assert (Hg0 : good (MS outs ui vb 0 [])) by (unfold good; simpl; repeat split; auto; apply D; auto).
    destruct (Hfold order _ _ Hg0 Ef) as (G1 & G2 & G3 & G4 & G5).
    apply vshape_intro; simpl; auto.
Qed.

Lemma relink_inputs_shape recvs ins j w :
  List.length (v_ins (relink_inputs recvs ins j w)) = List.length (v_ins w) /\
  v_outs (relink_inputs recvs ins j w) = v_outs w.
Proof.
  unfold relink_inputs. generalize (seq 0 (List.length recvs)) as l. intros l. revert w.
  induction l as [|i r IH]; intros w; simpl; auto.
  destruct (nth i recvs ROrphan) as [i'|j' k|]; auto.
  destruct (Nat.eqb j' j); auto.
  destruct (IH (set_fn w k (nth i ins None))) as [A B]. rewrite A, B. destruct w; simpl. now rewrite upd_nth_length.
Qed.

Lemma vshape_replace_at : forall s v p v' q, vshape s v -> replace_at s v p = Some (v', q) -> vshape s v'.
Proof.
  induction s as [lab i a|lab ps ols recvs kept uirecv body manual order IH] using snode_ind'; intros v p v' q Hv H.
  - destruct p; discriminate.
  - destruct p as [|[i|j] p]; try discriminate.
    destruct (vshape_kids _ _ _ _ _ _ _ _ _ _ Hv) as [HLb Hk].
    pose proof Hv as (A & B & C & D & _). destruct v as [ins outs c ui vb]. simpl in A, B, C, D, HLb, Hk.
    cbn [replace_at] in H. destruct (Nat.ltb_spec j (List.length body)) as [Hj|Hj]; [|discriminate].
    destruct p as [|r p].
    + rewrite dispatch_spec in H. replace (Nat.ltb j (List.length body)) with true in H by (symmetry; now apply Nat.ltb_lt).
      fold (kid body j) in H. pose proof (Hk j Hj) as Hkj.
      destruct (kid body j) as [l0 idf a0|] eqn:Ek; [|simpl in H; discriminate].
      destruct idf; simpl in H; [discriminate|]. simpl in Hkj.
      set (w := relink_inputs recvs ins j _) in H.
      destruct (relink_inputs_shape recvs ins j (VN (v_ins (nth j vb dv)) (v_outs (nth j vb dv)) None [] [])) as [R1 R2].
      fold w in R1, R2. simpl in R1, R2.
      pose proof (apply_pushes_len (sb_orecv (nth j body dsb)) (all_out_pushes w) outs) as Hl.
      destruct (apply_pushes (sb_orecv (nth j body dsb)) (all_out_pushes w) outs) as [o' q']. simpl in Hl.
      inversion H; subst v' q. apply vshape_intro; simpl; rewrite ?upd_nth_length; auto; try (exact (eq_trans Hl B)).
      intros j' Hj'. destruct (Nat.eq_dec j' j) as [->|Hne].
      * rewrite nth_upd_same by lia. rewrite Ek. simpl. rewrite R1, R2. exact Hkj.
      * rewrite nth_upd_other by auto. auto.
    + set (p' := r :: p) in *. assert (Hp : match p' with [] => False | _ => True end) by exact I.
      destruct p' as [|r' p'']; [destruct Hp|].
      rewrite dispatch_spec in H. replace (Nat.ltb j (List.length body)) with true in H by (symmetry; now apply Nat.ltb_lt).
      fold (kid body j) in H.
      destruct (replace_at (kid body j) (nth j vb dv) (r' :: p'')) as [[vj' ps']|] eqn:Er; [|discriminate].
      pose proof (IH j _ _ _ _ (Hk j Hj) Er) as Hvj.
      pose proof (apply_pushes_len (sb_orecv (nth j body dsb)) ps' outs) as Hl.
      destruct (apply_pushes (sb_orecv (nth j body dsb)) ps' outs) as [o' q']. simpl in Hl.
      inversion H; subst v' q. apply vshape_intro; simpl; rewrite ?upd_nth_length; auto; try (exact (eq_trans Hl B)).
      intros j' Hj'. destruct (Nat.eq_dec j' j) as [->|Hne].
      * rewrite nth_upd_same by lia. exact Hvj.
      * rewrite nth_upd_other by auto. auto.
Qed.

Lemma apply_op_vshape s v o v' n : vshape s v -> apply_op s v o = Some (v', n) -> vshape s v'.
Proof.
  intros Hv H. destruct o as [p k x|p l x| |p k|kw|p]; simpl in H;
    [| | | | |destruct (replace_at s v p) as [[v1 q1]|] eqn:Er; [|discriminate]; inversion H; subst;
              eapply vshape_replace_at; eauto].
  - inversion H; subst. now apply vshape_set_in_at.
  - inversion H; subst. now apply vshape_set_out_at.
  - destruct (run s v) as [[[v1 c1] p1]|] eqn:Er; [|discriminate]. inversion H; subst. eapply vshape_run; eauto.
  - destruct (refuses_at s p k); [inversion H; subst; exact Hv|discriminate].
  - destruct (run s (set_kw s v kw)) as [[[v1 c1] p1]|] eqn:Er; [|discriminate]. inversion H; subst.
    apply (vshape_run s (set_kw s v kw) v' n p1); auto.
    clear Er. unfold set_kw. revert v Hv. induction kw as [|[k x] r IH]; intros v Hv; simpl; auto.
    apply IH. now apply vshape_set_in.
Qed.

Lemma apply_ops_vshape s : forall ops v v', vshape s v -> apply_ops s v ops = Some v' -> vshape s v'.
Proof.
  induction ops as [|o r IH]; intros v v' Hv H; simpl in H.
  - inversion H; subst; auto.
  - destruct (apply_op s v o) as [[v1 n]|] eqn:E1; [|discriminate].
    apply (IH v1 v'); auto. eapply apply_op_vshape; eauto.
Qed.

Lemma sranges_kids l ps ols recvs kept uirecv body manual order :
  sranges (SMac l ps ols recvs kept uirecv body manual order) -> forall j, j < List.length body -> sranges (kid body j).
Proof. cbn [sranges]. intros (_ & _ & _ & _ & H). intros j Hj. exact (proj1 (all1_nth _ dsb body) H j Hj). Qed.

(* the child inputs a macro input is linked to, through any nesting *)
Fixpoint down_chain (s : snode) (k : nat) {struct s} : list (list kidref * nat) :=
  match s with
  | SFn _ _ _ => []
  | SMac _ _ _ recvs _ _ body _ _ =>
      match nth_error recvs k with
      | Some (RUI i) => [([KUI i], 0)]
      | Some (RBody j k') =>
          ([KBody j], k') :: map (fun pk => (KBody j :: fst pk, snd pk)) (dispatch (fun s' => down_chain s' k') [] body j)
      | _ => []
      end
  end.

Theorem sync_down : forall s v k x, sranges s -> vshape s v -> k < s_nins s ->
  get_in (set_in s v k x) [] k = x /\
  forall pk, In pk (down_chain s k) -> get_in (set_in s v k x) (fst pk) (snd pk) = x.
Proof.
  induction s as [l i a|l ps ols recvs kept uirecv body manual order IH] using snode_ind'; intros v k x Hs Hv Hk.
  - simpl in *. destruct Hv as [HL _]. split; [|intros pk []].
    unfold get_in. simpl. rewrite set_fn_ins. apply nth_upd_same. lia.
  - destruct (vshape_kids _ _ _ _ _ _ _ _ _ _ Hv) as [HLb Hkv].
    pose proof (sranges_kids _ _ _ _ _ _ _ _ _ Hs) as Hks.
    pose proof Hv as (A & B & C & D & _). pose proof Hs as (R1 & _).
    simpl in Hk. split.
    + unfold get_in. cbn [vget]. rewrite set_in_ins. apply nth_upd_same. lia.
    + rewrite set_in_mac. unfold set_mac_with. destruct v as [ins outs c ui vb]. simpl in A, B, C, D, HLb, Hkv.
      cbn [down_chain]. specialize (R1 k). destruct (nth_error recvs k) as [[i|j k'|]|]; [| |intros pk Hf; destruct Hf|intros pk Hf; destruct Hf].
      * intros pk [<-|[]]. unfold get_in. simpl. rewrite nth_upd_same by lia. rewrite set_fn_ins.
        apply nth_upd_same. destruct (D i R1) as [-> _]. lia.
      * destruct R1 as [Hj Hk'].
        destruct (IH j (nth j vb dv) k' x (Hks j Hj) (Hkv j Hj) Hk') as [IH1 IH2].
        rewrite dispatch_spec. replace (Nat.ltb j (List.length body)) with true by (symmetry; now apply Nat.ltb_lt).
        fold (kid body j). intros pk [<-|Hin].
        -- unfold get_in in *. simpl in *. rewrite nth_upd_same by lia. exact IH1.
        -- apply in_map_iff in Hin as (pk' & <- & Hin'). unfold get_in in *. simpl.
           rewrite nth_upd_same by lia. apply IH2. exact Hin'.
Qed.

(* the macro outputs a channel update reaches, through any nesting: (outputs that take the
   value, with the path of their macro; the output index of THIS node that forwards it) *)
Fixpoint up_chain (s : snode) (p : list kidref) (l : nat) {struct s} : list (list kidref * nat) * option nat :=
  match p with
  | [] => ([], Some l)
  | r :: p' =>
      match s with
      | SFn _ _ _ => ([], None)
      | SMac _ _ _ _ _ uirecv body _ _ =>
          match r with
          | KUI i => match p' with
                     | [] => match (if Nat.eqb l 0 then nth i uirecv None else None) with
                             | Some o => ([([], o)], Some o)
                             | None => ([], None)
                             end
                     | _ => ([], None)
                     end
          | KBody j =>
              let '(ch, top) := dispatch (fun s' => up_chain s' p' l) ([], None) body j in
              let ch' := map (fun qo => (KBody j :: fst qo, snd qo)) ch in
              match top with
              | Some l' => match nth l' (sb_orecv (nth j body dsb)) None with
                           | Some o => (([], o) :: ch', Some o)
                           | None => (ch', None)
                           end
              | None => (ch', None)
              end
          end
      end
  end.

Definition push_of (top : option nat) (x : val) : list (nat * val) :=
  match top with Some o => [(o, x)] | None => [] end.

Theorem sync_up : forall s v p l x, sranges s -> vshape s v ->
  snd (set_out_at s v p l x) = push_of (snd (up_chain s p l)) x /\
  forall qo, In qo (fst (up_chain s p l)) -> get_out (fst (set_out_at s v p l x)) (fst qo) (snd qo) = x.
Proof.
  induction s as [lab i a|lab ps ols recvs kept uirecv body manual order IH] using snode_ind'; intros v p l x Hs Hv.
  - destruct p; simpl; [destruct v; simpl; split; [auto|intros qo []]|split; [auto|intros qo []]].
  - destruct (vshape_kids _ _ _ _ _ _ _ _ _ _ Hv) as [HLb Hkv].
    pose proof (sranges_kids _ _ _ _ _ _ _ _ _ Hs) as Hks.
    pose proof Hv as (A & B & C & D & _). pose proof Hs as (_ & RL & R2 & R3 & _).
    destruct v as [ins outs c ui vb]. simpl in A, B, C, D, HLb, Hkv.
    destruct p as [|[i|j] p].
    + simpl. split; [auto|intros qo []].
    + cbn [set_out_at up_chain]. destruct p; [|simpl; split; [auto|intros qo []]].
      destruct (nth i ui dv) as [ui_ins ui_outs ui_c ui_u ui_b] eqn:Eu. cbn [set_out_here].
      cbn [apply_pushes]. destruct l as [|l]; simpl.
      * destruct (nth i uirecv None) as [o|] eqn:Eo; simpl.
        -- split; [auto|]. intros qo [<-|[]]. unfold get_out. simpl. apply nth_upd_same.
           rewrite B. eapply R2; eauto.
        -- split; [auto|intros qo []].
      * destruct l; simpl; split; auto; intros qo [].
    + rewrite set_out_at_body. cbn [up_chain]. rewrite dispatch_spec.
      destruct (Nat.ltb_spec j (List.length body)) as [Hj|Hj].
      * fold (kid body j). destruct (IH j (nth j vb dv) p l x (Hks j Hj) (Hkv j Hj)) as [IH1 IH2].
        destruct (set_out_at (kid body j) (nth j vb dv) p l x) as [vj' ps'].
        destruct (up_chain (kid body j) p l) as [ch top]. simpl in IH1, IH2. subst ps'.
        destruct top as [l'|]; cbn [push_of apply_pushes].
        -- destruct (nth l' (sb_orecv (nth j body dsb)) None) as [o|] eqn:Eo; simpl.
           ++ split; [auto|]. intros qo [<-|Hin].
              ** unfold get_out. simpl. apply nth_upd_same. rewrite B. eapply R3; eauto.
              ** apply in_map_iff in Hin as (qo' & <- & Hin'). unfold get_out in *. simpl.
                 rewrite nth_upd_same by lia. apply IH2. exact Hin'.
           ++ split; [auto|]. intros qo Hin.
              apply in_map_iff in Hin as (qo' & <- & Hin'). unfold get_out in *. simpl.
              rewrite nth_upd_same by lia. apply IH2. exact Hin'.
        -- simpl. split; [auto|]. intros qo Hin.
           apply in_map_iff in Hin as (qo' & <- & Hin'). unfold get_out in *. simpl.
           rewrite nth_upd_same by lia. apply IH2. exact Hin'.
      * simpl. split; [auto|intros qo []].
Qed.

(* ================================================================================== *)
(* O. closure, interface, non-aliasing                                                  *)
Fixpoint closed (s : snode) {struct s} : Prop :=
  match s with
  | SFn _ _ _ => True
  | SMac _ ps _ _ kept _ body _ _ =>
      (forall j k c, j < List.length body -> In c (nth k (sb_conns (nth j body dsb)) []) ->
         match c with
         | SUI i => i < List.length ps /\ nth i kept false = true
         | SBody j' l => j' < j /\ l < s_nouts (kid body j')
         end) /\
      all1 (fun e => closed (sb_node e)) body
  end.

Lemma wired_closed d : forall s, wfd d = true -> wired d s -> closed s.
Proof.
  induction d as [ps body rets fl IH] using mdef_ind'. intros s Hwf Hw.
  destruct s as [|l ps' ols recvs kept uirecv sb manual order]; [simpl in Hw; tauto|].
  pose proof (wired_kids _ _ _ _ _ _ _ _ _ _ _ _ _ Hw) as [Hlen Hwk].
  pose proof (fun j => kid_nouts _ _ _ _ _ _ _ _ _ _ _ _ _ j Hw) as Hkn.
  destruct Hw as (-> & -> & HWL & _).
  destruct HWL as (Hlr & Hlk & Hlu & Hcfg & Hui & Hrk & Hrb & Hrb' & Hpass & Hbody).
  simpl in Hwf. apply andb_true_iff in Hwf as [_ Hwb].
  destruct (wf_body_spec _ _ _ _ _ Hwb) as [Hst _]. simpl in Hst.
  cbn [closed]. split.
  - intros j k c Hj Hin. rewrite <- Hlen in Hj. destruct (Hbody j Hj) as (_ & HLc & _ & Hconn & _).
    destruct (Nat.ltb_spec k (s_nins (sb_node (nth j sb dsb)))) as [Hk|Hk].
    2:{ rewrite nth_overflow in Hin by lia. destruct Hin. }
    rewrite (Hconn k Hk) in Hin. destruct (Hst j Hj) as [Hok _]. rewrite forallb_forall in Hok.
    destruct (nth_error (sargs body j) k) as [a|] eqn:Ea; [|destruct Hin].
    pose proof (refs_of_ref_ok _ _ _ a (Hok a (nth_error_In _ _ Ea))) as Hr.
    destruct a as [i|j' lo|z]; simpl in Hin.
    + destruct (nth i kept false) eqn:Ek; [|destruct Hin]. destruct Hin as [<-|[]]. auto.
    + destruct Hin as [<-|[]]. destruct Hr as [Hj' Hl]. rewrite firstn_length in Hj'.
      assert (Hjj : j' < j) by lia. split; auto.
      rewrite Hkn by lia. rewrite <- (firstn_skipn j (body_nouts body)) at 1. rewrite app_nth1; auto.
      rewrite firstn_length. exact Hj'.
    + destruct Hin.
  - apply (all1_nth _ dsb). intros j Hj. rewrite <- Hlen in Hj. specialize (Hwk j Hj). fold (kid sb j).
    destruct (s_mac (nth j body dstmt)) as [d'|] eqn:Em.
    + destruct (Hst j Hj) as [_ Hm]. rewrite Em in Hm. apply (IH j d' Em); tauto.
    + rewrite Hwk. exact I.
Qed.

(* the static IO of an instance is that of its definition, at every depth *)
Fixpoint iface_ok (d : mdef) (s : snode) {struct d} : Prop :=
  match d with MDef ps body rets _ =>
    match s with
    | SFn _ _ _ => False
    | SMac _ ps' ols _ _ _ sb _ _ =>
        ps' = ps /\ ols = map fst rets /\
        all2 (fun st e => s_label_of (sb_node e) = s_label st /\
                          match s_mac st with
                          | None => sb_node e = SFn (s_label st) false (List.length (s_args st))
                          | Some d' => iface_ok d' (sb_node e)
                          end) body sb
    end
  end.

Lemma wired_iface d : forall s, wired d s -> iface_ok d s.
Proof.
  induction d as [ps body rets fl IH] using mdef_ind'. intros s Hw.
  destruct s as [|l ps' ols recvs kept uirecv sb manual order]; [simpl in Hw; tauto|].
  pose proof (wired_kids _ _ _ _ _ _ _ _ _ _ _ _ _ Hw) as [Hlen Hwk].
  destruct Hw as (-> & -> & _ & _). cbn [iface_ok]. split; auto. split; auto.
  apply (all2_nth _ dstmt dsb). split; auto. intros j Hj. specialize (Hwk j Hj). fold (kid sb j).
  destruct (s_mac (nth j body dstmt)) as [d'|] eqn:Em.
  - destruct Hwk as [A B]. split; auto. apply (IH j d' Em); auto.
  - rewrite Hwk. auto.
Qed.

(* by value: a channel of a child and the macro channel it stands for are different cells *)
Lemma child_input_write_leaves_macro_io s v r p k x :
  v_ins (set_in_at s v (r :: p) k x) = v_ins v /\ v_outs (set_in_at s v (r :: p) k x) = v_outs v.
Proof.
  destruct s as [l i a|l ps ols recvs kept uirecv body manual order]; [auto|].
  destruct v as [ins outs c ui vb]. destruct r as [i|j].
  - cbn [set_in_at]. destruct p; auto.
  - rewrite set_in_at_body. auto.
Qed.

Lemma macro_output_write_leaves_children s v l x r p :
  vget (fst (set_out_at s v [] l x)) (r :: p) = vget v (r :: p) /\
  v_ins (fst (set_out_at s v [] l x)) = v_ins v.
Proof. destruct s, v; simpl; destruct r; auto. Qed.

Lemma child_output_write_leaves_macro_inputs s v r p l x :
  v_ins (fst (set_out_at s v (r :: p) l x)) = v_ins v.
Proof.
  destruct s as [lab i a|lab ps ols recvs kept uirecv body manual order]; [auto|].
  destruct v as [ins outs c ui vb]. destruct r as [i|j].
  - cbn [set_out_at]. destruct p; auto. destruct (nth i ui dv). cbn [set_out_here].
    destruct (apply_pushes _ _ outs). reflexivity.
  - rewrite set_out_at_body. destruct (if Nat.ltb j (List.length body) then _ else _) as [vj' ps'].
    destruct (apply_pushes _ ps' outs). reflexivity.
Qed.

(* ================================================================================== *)
(* P. the inlined body: parameters replaced by their values                              *)
Lemma subst_env_val args env a : all_data args = true ->
  (match a with AParam i => i < List.length args | _ => True end) ->
  env_val [] env (subst_arg args a) = env_val args env a.
Proof.
  intros Hd Hi. destruct a as [i|j l|z]; simpl; auto.
  assert (H : is_data (nth i args None) = true) by (apply all_data_nth; auto).
  destruct (nth i args None); [reflexivity|discriminate].
Qed.

Definition inline_body (args : list val) (body : list (stmt mdef)) : list (stmt mdef) :=
  map (fun st => mkStmt (s_label st) (s_mac st) (map (subst_arg args) (s_args st))) body.

Lemma denote_body_inline den args body : forall env,
  all_data args = true ->
  (forall st a, In st body -> In a (s_args st) -> match a with AParam i => i < List.length args | _ => True end) ->
  denote_body den [] (inline_body args body) env = denote_body den args body env.
Proof.
  induction body as [|st r IH]; intros env Hd Hp; simpl; auto.
  assert (Hm : map (env_val [] env) (map (subst_arg args) (s_args st)) = map (env_val args env) (s_args st)).
  { rewrite map_map. apply map_ext_in. intros a Ha. apply subst_env_val; auto. apply (Hp st a); simpl; auto. }
  rewrite Hm. destruct (s_mac st) as [d'|].
  - destruct (all_data (fill (map (env_val args env) (s_args st)) (d_params d'))); auto.
    destruct (den d' _); auto. apply IH; auto. intros; eapply Hp; simpl; eauto.
  - destruct (all_data (map (env_val args env) (s_args st))); auto. apply IH; auto. intros; eapply Hp; simpl; eauto.
Qed.

(* the outputs that are returned child channels (parameters passed straight through are the values) *)
Definition aout_rets (rets : list (string * arg)) := filter (fun la => match snd la with AOut _ _ => true | _ => false end) rets.

Lemma wfd_param_lt ps body rets fl : wfd (MDef ps body rets fl) = true ->
  forall st a, In st body -> In a (s_args st) -> match a with AParam i => i < List.length ps | _ => True end.
Proof.
  simpl. intros H st a Hst Ha. apply andb_true_iff in H as [_ Hb].
  destruct (wf_body_spec _ _ _ _ _ Hb) as [Hs _]. destruct (In_nth _ _ dstmt Hst) as (j & Hj & <-).
  destruct (Hs j Hj) as [Hok _]. rewrite forallb_forall in Hok. specialize (Hok a Ha).
  apply refs_of_ref_ok in Hok. destruct a; auto.
Qed.

(* plain composition of the inlined definition = the child-channel outputs of the definition's *)
Theorem denote_inline d args : wfd d = true -> List.length args = List.length (d_params d) -> all_data args = true ->
  exists E, denote_body denote args (d_body d) [] = Some E /\
    denote d args = Some (map (fun la => env_val args E (snd la)) (d_rets d)) /\
    denote (inline d args) [] = Some (map (fun la => env_val args E (snd la)) (aout_rets (d_rets d))).
Proof.
  intros Hwf HL Hd. destruct d as [ps body rets fl]. simpl in HL.
  destruct (denote_total _ Hwf args HL Hd) as (outs & Hden & _).
  cbn [denote] in Hden. destruct (denote_body denote args body []) as [E|] eqn:HE; [|discriminate].
  exists E. split; auto. split; [cbn [denote]; now rewrite HE|].
  cbn [inline denote]. fold (inline_body args body).
  rewrite denote_body_inline; auto.
  - rewrite HE. f_equal. unfold aout_rets. apply map_ext_in. intros [lab a] Hin.
    apply filter_In in Hin as [_ Ha]. simpl in *. destruct a; try discriminate. reflexivity.
  - intros st a Hst Ha. rewrite HL. eapply wfd_param_lt; eauto.
Qed.

Lemma mems_filter_fst {B} (f : string * B -> bool) x l : mems x (map fst (filter f l)) = true -> mems x (map fst l) = true.
Proof.
  rewrite !mems_In. rewrite !in_map_iff. intros (y & Hy & Hin). apply filter_In in Hin as [Hin _]. eauto.
Qed.

Lemma nodup_str_filter {B} (f : string * B -> bool) l : nodup_str (map fst l) = true -> nodup_str (map fst (filter f l)) = true.
Proof.
  induction l as [|[x b] r IH]; simpl; auto. intros H. apply andb_true_iff in H as [Hx Hr].
  destruct (f (x, b)); simpl; auto. rewrite IH by auto. rewrite andb_true_r.
  destruct (mems x (map fst (filter f r))) eqn:E; auto. apply mems_filter_fst in E. rewrite E in Hx. discriminate.
Qed.

Lemma nodupb_filter_snd (f : string * arg -> bool) l :
  nodupb arg_eqb (map snd l) = true -> nodupb arg_eqb (map snd (filter f l)) = true.
Proof.
  induction l as [|[x b] r IH]; simpl; auto. intros H. apply andb_true_iff in H as [Hx Hr].
  destruct (f (x, b)); simpl; auto. rewrite IH by auto. rewrite andb_true_r.
  destruct (memb arg_eqb b (map snd (filter f r))) eqn:E; auto.
  apply memb_arg_In in E. apply in_map_iff in E as (y & Hy & Hin). apply filter_In in Hin as [Hin _].
  assert (memb arg_eqb b (map snd r) = true) by (apply memb_arg_In; apply in_map_iff; eauto).
  rewrite H in Hx. discriminate.
Qed.

Lemma ref_ok_subst np nouts args a : List.length args = np -> all_data args = true ->
  ref_ok np nouts true a = true -> ref_ok 0 nouts true (subst_arg args a) = true.
Proof.
  intros HL Hd H. destruct a as [i|j l|z]; simpl in *; auto.
  apply Nat.ltb_lt in H. assert (Hi : is_data (nth i args None) = true) by (apply all_data_nth; auto; lia).
  destruct (nth i args None); [reflexivity|discriminate].
Qed.

Lemma wf_body_inline np rets args body : forall acc,
  List.length args = np -> all_data args = true ->
  wf_body wfd np rets body acc = true -> wf_body wfd 0 (aout_rets rets) (inline_body args body) acc = true.
Proof.
  induction body as [|st r IH]; intros acc HL Hd H; simpl in *.
  - unfold aout_rets. rewrite forallb_forall in *. intros [lab a] Hin. apply filter_In in Hin as [Hin Ha].
    specialize (H _ Hin). simpl in *. destruct a; try discriminate. exact H.
  - apply andb_true_iff in H as [Ha H]. apply andb_true_iff. split.
    + rewrite forallb_forall in *. intros a Hin. apply in_map_iff in Hin as (a0 & <- & Hin0).
      apply (ref_ok_subst np); auto.
    + rewrite map_length. destruct (s_mac st) as [d'|]; [|apply IH; auto].
      apply andb_true_iff in H as [H H4]. rewrite H. simpl. apply IH; auto.
Qed.

Lemma topo_ok_inline ord args body : topo_ok ord body = true -> topo_ok ord (inline_body args body) = true.
Proof.
  unfold topo_ok, inline_body. rewrite map_length. intros H. rewrite forallb_forall in *. intros j Hj.
  specialize (H j Hj). apply in_seq in Hj.
  change (mkStmt "" None []) with ((fun st : stmt mdef => mkStmt (s_label st) (s_mac st) (map (subst_arg args) (s_args st))) (mkStmt "" None [])).
  rewrite map_nth. simpl. rewrite forallb_forall in *. intros a Hin. apply in_map_iff in Hin as (a0 & <- & Hin0).
  specialize (H a0 Hin0). destruct a0 as [i|j' l|z]; simpl in *; auto. destruct (nth i args None); auto.
Qed.

Lemma wfd_inline d args : wfd d = true -> List.length args = List.length (d_params d) -> all_data args = true ->
  wfd (inline d args) = true /\ (rets_distinct d = true -> rets_distinct (inline d args) = true).
Proof.
  destruct d as [ps body rets fl]. intros H HL Hd. simpl in HL. simpl in H.
  apply andb_true_iff in H as [H Hb]. apply andb_true_iff in H as [Hn Hf]. split.
  - cbn [inline wfd]. fold (inline_body args body). fold (aout_rets rets).
    unfold aout_rets at 1. rewrite (nodup_str_filter _ rets Hn). cbn [List.length andb].
    rewrite (wf_body_inline _ _ _ _ [] HL Hd Hb). rewrite andb_true_r.
    destruct fl as [|ord|b]; simpl in *; auto.
    unfold inline_body. rewrite map_length.
    apply andb_true_iff in Hf as [Hf Ht]. rewrite Hf. simpl. now apply topo_ok_inline.
  - cbn [inline rets_distinct]. intros Hr. apply andb_true_iff in Hr as [Hr1 Hr2].
    rewrite (nodupb_filter_snd _ rets Hr1). cbn [andb].
    clear -Hr2. induction body as [|st r IH]; simpl in *; auto.
    apply andb_true_iff in Hr2 as [A B]. rewrite A. simpl. auto.
Qed.

(* the same body built directly with the same inputs runs to the same values *)
Theorem inlined_run d args l' s' v0' :
  wfd d = true -> rets_distinct d = true -> List.length args = List.length (d_params d) -> all_data args = true ->
  build (inline d args) l' = Some (s', v0') ->
  exists v' c ps E, run s' v0' = Some (v', c, ps) /\
    denote d args = Some (map (fun la => env_val args E (snd la)) (d_rets d)) /\
    v_outs v' = map (fun la => env_val args E (snd la)) (aout_rets (d_rets d)).
Proof.
  intros Hwf Hrd HL Hd Hb. destruct (wfd_inline d args Hwf HL Hd) as [Hwi Hri].
  destruct (denote_inline d args Hwf HL Hd) as (E & _ & Hden & Hdi).
  destruct (build_ok _ _ _ _ Hb) as (_ & _ & _ & Hins & _).
  assert (Hi0 : v_ins v0' = []). { rewrite Hins. destruct d; reflexivity. }
  destruct (equals_inlined (inline d args) l' s' v0' [] v0' Hwi (Hri Hrd) Hb (Forall_nil _) eq_refl) as (v' & c & ps & Hr & _ & Hd').
  { now rewrite Hi0. }
  exists v', c, ps, E. split; auto. split; auto. rewrite Hi0 in Hd'. congruence.
Qed.

(* ================================================================================== *)
(* Q. the value links survive EVERY operation that is not applied on the receiving side  *)
Fixpoint slinks (s : snode) {struct s} : Prop :=
  match s with
  | SFn _ _ _ => True
  | SMac _ ps ols recvs kept uirecv body _ _ =>
      let np := List.length ps in
      let nb := List.length body in
      List.length recvs = np /\ List.length kept = np /\
      (forall i, i < np ->
         match nth i recvs ROrphan with
         | RUI i' => i' = i /\ nth i kept false = true
         | RBody j k => nth i kept false = false /\ j < nb /\ k < s_nins (kid body j) /\
                        nth k (sb_conns (nth j body dsb)) [] = []
         | ROrphan => True
         end) /\
      (forall i i' j k, i < np -> i' < np -> nth i recvs ROrphan = RBody j k -> nth i' recvs ROrphan = RBody j k -> i = i') /\
      (forall j l j' l' o, j < nb -> j' < nb ->
         nth l (sb_orecv (nth j body dsb)) None = Some o -> nth l' (sb_orecv (nth j' body dsb)) None = Some o -> j = j' /\ l = l') /\
      (forall i j l o, i < np -> j < nb -> nth i uirecv None = Some o -> nth l (sb_orecv (nth j body dsb)) None = Some o -> False) /\
      (forall i i' o, i < np -> i' < np -> nth i uirecv None = Some o -> nth i' uirecv None = Some o -> i = i') /\
      (forall i, i < np -> nth i kept false = false -> nth i uirecv None = None) /\
      (forall j, j < nb -> List.length (sb_conns (nth j body dsb)) = s_nins (kid body j)) /\
      all1 (fun e => slinks (sb_node e)) body
  end.

Lemma slinks_kids l ps ols recvs kept uirecv body manual order :
  slinks (SMac l ps ols recvs kept uirecv body manual order) -> forall j, j < List.length body -> slinks (kid body j).
Proof. cbn [slinks]. intros (_ & _ & _ & _ & _ & _ & _ & _ & _ & H) j Hj. exact (proj1 (all1_nth _ dsb body) H j Hj). Qed.

Lemma wired_slinks d : forall s, wired d s -> slinks s.
Proof.
  induction d as [ps body rets fl IH] using mdef_ind'. intros s Hw.
  destruct s as [|l ps' ols recvs kept uirecv sb manual order]; [simpl in Hw; tauto|].
  pose proof (wired_kids _ _ _ _ _ _ _ _ _ _ _ _ _ Hw) as [Hlen Hwk].
  destruct Hw as (-> & -> & HWL & _).
  pose proof (fun j k a => arg_lt_nins _ _ _ _ _ _ _ _ _ _ j k a HWL) as Hargk.
  pose proof (uirecv_is _ _ _ _ _ _ _ _ _ _ HWL) as Huis.
  pose proof (orecv_is _ _ _ _ _ _ _ _ _ _ HWL Hlen (repeat None (List.length ps)) (repeat_length _ _)) as Hois.
  destruct HWL as (Hlr & Hlk & Hlu & Hcfg & Hui & Hrk & Hrb & Hrb' & Hpass & Hbody).
  cbn [slinks]. rewrite <- Hlen.
  split; [auto|]. split; [auto|]. split; [|split; [|split; [|split; [|split; [|split; [|split]]]]]].
  - intros i Hi. destruct (nth i kept false) eqn:Ek.
    + rewrite (Hrk i Hi Ek). auto.
    + specialize (Hrb' i Hi Ek). destruct (nth i recvs ROrphan) as [i'|j k|]; [tauto| |exact I].
      destruct Hrb' as [Hj Ha]. split; auto. split; auto. split; [eapply Hargk; eauto|].
      destruct (Hbody j Hj) as (_ & _ & _ & Hconn & _). rewrite Hconn by (eapply Hargk; eauto).
      rewrite Ha. simpl. now rewrite Ek.
  - intros i i' j k Hi Hi' Hr Hr'.
    destruct (nth i kept false) eqn:Ek; [rewrite (Hrk i Hi Ek) in Hr; discriminate|].
    destruct (nth i' kept false) eqn:Ek'; [rewrite (Hrk i' Hi' Ek') in Hr'; discriminate|].
    pose proof (Hrb' i Hi Ek) as A. rewrite Hr in A. pose proof (Hrb' i' Hi' Ek') as B. rewrite Hr' in B.
    destruct A as [_ A], B as [_ B]. congruence.
  - intros j lo j' lo' o Hj Hj' Ho Ho'.
    pose proof (last_idx_inj _ _ _ _ (Hois j lo o Hj Ho) (Hois j' lo' o Hj' Ho')) as E. inversion E; auto.
  - intros i j lo o Hi Hj Ho Ho'.
    pose proof (last_idx_inj _ _ _ _ (Huis i o Hi Ho) (Hois j lo o Hj Ho')) as E. discriminate.
  - intros i i' o Hi Hi' Ho Ho'.
    pose proof (last_idx_inj _ _ _ _ (Huis i o Hi Ho) (Huis i' o Hi' Ho')) as E. inversion E; auto.
  - intros i Hi Ek. destruct (nth i uirecv None) as [o|] eqn:Eo; auto.
    assert (Hk : nth i kept false = true). { apply Hpass; auto. rewrite <- Hui by auto. congruence. } congruence.
  - intros j Hj. apply Hbody; auto.
  - apply (all1_nth _ dsb). intros j Hj. rewrite <- Hlen in Hj. specialize (Hwk j Hj). fold (kid sb j).
    destruct (s_mac (nth j body dstmt)) as [d'|] eqn:Em.
    + apply (IH j d' Em). tauto.
    + rewrite Hwk. exact I.
Qed.

Lemma synced_kids l ps ols recvs kept uirecv body manual order v :
  synced (SMac l ps ols recvs kept uirecv body manual order) v ->
  forall j, j < List.length body -> synced (kid body j) (nth j (v_body v) dv).
Proof. cbn [synced]. intros (_ & _ & _ & H). apply (all2_nth _ dsb dv) in H as [_ H]. exact H. Qed.

Definition in_links (ps : list param) (recvs : list recv) (ins : list val) (ui vb : list vnode) : Prop :=
  forall i, i < List.length ps ->
    match nth i recvs ROrphan with
    | RUI i' => nth 0 (v_ins (nth i' ui dv)) None = nth i ins None
    | RBody j k => nth k (v_ins (nth j vb dv)) None = nth i ins None
    | ROrphan => True
    end.
Definition ui_links (ps : list param) (kept : list bool) (uirecv : list (option nat)) (outs : list val) (ui : list vnode) : Prop :=
  forall i o, i < List.length ps -> nth i kept false = true -> nth i uirecv None = Some o ->
              nth o outs None = nth 0 (v_outs (nth i ui dv)) None.
Definition body_links (body : list (sbody snode)) (outs : list val) (vb : list vnode) : Prop :=
  forall j l o, j < List.length body -> nth l (sb_orecv (nth j body dsb)) None = Some o ->
                nth o outs None = nth l (v_outs (nth j vb dv)) None.

Lemma synced_intro l ps ols recvs kept uirecv body manual order v :
  in_links ps recvs (v_ins v) (v_ui v) (v_body v) -> ui_links ps kept uirecv (v_outs v) (v_ui v) ->
  body_links body (v_outs v) (v_body v) -> List.length (v_body v) = List.length body ->
  (forall j, j < List.length body -> synced (kid body j) (nth j (v_body v) dv)) ->
  synced (SMac l ps ols recvs kept uirecv body manual order) v.
Proof.
  intros A B C D E. cbn [synced]. split; [exact A|]. split; [exact B|]. split; [exact C|].
  apply (all2_nth _ dsb dv). split; [lia|exact E].
Qed.

Lemma synced_elim l ps ols recvs kept uirecv body manual order v :
  synced (SMac l ps ols recvs kept uirecv body manual order) v ->
  in_links ps recvs (v_ins v) (v_ui v) (v_body v) /\ ui_links ps kept uirecv (v_outs v) (v_ui v) /\
  body_links body (v_outs v) (v_body v).
Proof. cbn [synced]. intros (A & B & C & _). auto. Qed.

(* a macro-level input update keeps every link of the macro (and below) in agreement *)
Lemma synced_set_in : forall s v k x, slinks s -> vshape s v -> synced s v -> synced s (set_in s v k x).
Proof.
  induction s as [l i a|l ps ols recvs kept uirecv body manual order IH] using snode_ind'; intros v k x Hsl Hv Hsy.
  - exact I.
  - destruct (vshape_kids _ _ _ _ _ _ _ _ _ _ Hv) as [HLb Hkv].
    pose proof (slinks_kids _ _ _ _ _ _ _ _ _ Hsl) as Hks.
    pose proof (synced_kids _ _ _ _ _ _ _ _ _ _ Hsy) as Hksy.
    destruct (synced_elim _ _ _ _ _ _ _ _ _ _ Hsy) as (HI & HU & HB).
    pose proof Hv as (A & B & C & D & _).
    pose proof Hsl as (Lr & Lk & S0 & S2 & _).
    rewrite set_in_mac. unfold set_mac_with. destruct v as [ins outs c ui vb].
    simpl in A, B, C, D, HLb, Hkv, Hksy, HI, HU, HB.
    destruct (Nat.ltb_spec k (List.length ps)) as [Hk|Hk].
    2:{ replace (nth_error recvs k) with (@None recv) by (symmetry; apply nth_error_None; lia).
        rewrite upd_nth_overflow by lia. exact Hsy. }
    rewrite (nth_error_of_nth recvs k ROrphan) by lia.
    pose proof (S0 k Hk) as S0k. pose proof (HI k Hk) as HIk.
    destruct (nth k recvs ROrphan) as [i'|j k'|] eqn:Er.
    + destruct S0k as [-> Hkept].
      apply synced_intro; simpl; auto.
      * intros i Hi. pose proof (S0 i Hi) as S0i. pose proof (HI i Hi) as HIi.
        destruct (nth i recvs ROrphan) as [i'|j k'|] eqn:Eri; auto.
        -- destruct S0i as [-> _]. destruct (Nat.eq_dec i k) as [->|Hne].
           ++ rewrite !nth_upd_same by lia. rewrite set_fn_ins. apply nth_upd_same.
              destruct (D k Hk) as [-> _]. lia.
           ++ rewrite !nth_upd_other by auto. exact HIi.
        -- rewrite nth_upd_other; auto. intros ->. rewrite Er in Eri. discriminate.
      * intros i o Hi Hki Ho. rewrite (HU i o Hi Hki Ho). destruct (Nat.eq_dec i k) as [->|Hne].
        -- rewrite nth_upd_same by lia. destruct (nth k ui dv); reflexivity.
        -- rewrite nth_upd_other by auto. reflexivity.
    + destruct S0k as (Hkept & Hj & Hk' & _).
      apply synced_intro; simpl; rewrite ?upd_nth_length; auto.
      * intros i Hi. pose proof (S0 i Hi) as S0i. pose proof (HI i Hi) as HIi.
        destruct (nth i recvs ROrphan) as [i'|j2 k2|] eqn:Eri; auto.
        -- destruct (Nat.eq_dec i k) as [->|Hne]; [rewrite Er in Eri; discriminate|].
           rewrite nth_upd_other by auto. exact HIi.
        -- destruct (Nat.eq_dec i k) as [->|Hne].
           ++ rewrite Er in Eri. inversion Eri; subst j2 k2. rewrite !nth_upd_same by lia.
              rewrite set_in_ins. apply nth_upd_same.
              specialize (Hkv j Hj). destruct (kid body j); simpl in *; destruct Hkv as [E1 _]; lia.
           ++ rewrite (nth_upd_other k i) by auto. rewrite <- HIi.
              destruct (Nat.eq_dec j2 j) as [->|Hnj]; [|now rewrite nth_upd_other by lia].
              rewrite nth_upd_same by lia. rewrite set_in_ins. apply nth_upd_other.
              intros ->. apply Hne. apply (S2 i k j k2); auto.
      * intros j2 lo o Hj2 Ho. rewrite (HB j2 lo o Hj2 Ho). destruct (Nat.eq_dec j2 j) as [->|Hnj].
        -- rewrite nth_upd_same by lia. now rewrite set_in_outs.
        -- rewrite nth_upd_other by lia. reflexivity.
      * intros j2 Hj2. destruct (Nat.eq_dec j2 j) as [->|Hnj].
        -- rewrite nth_upd_same by lia. apply IH; auto.
        -- rewrite nth_upd_other by lia. auto.
    + apply synced_intro; simpl; auto.
      intros i Hi. pose proof (HI i Hi) as HIi.
      destruct (nth i recvs ROrphan) as [i'|j2 k2|] eqn:Eri; auto.
      * pose proof (S0 i Hi) as S0i. rewrite Eri in S0i. destruct S0i as [-> _].
        rewrite nth_upd_other; auto. intros ->. rewrite Er in Eri. discriminate.
      * rewrite nth_upd_other; auto. intros ->. rewrite Er in Eri. discriminate.
Qed.

Lemma run_fn_pushes idf v v' c ps : List.length (v_outs v) = 1 -> run_fn idf v = Some (v', c, ps) ->
  v_ins v' = v_ins v /\ v_outs v' = app_pushes ps (v_outs v) /\ (forall lx, In lx ps -> fst lx < List.length (v_outs v)) /\
  List.length (v_outs v') = 1.
Proof.
  destruct v as [ins outs ca ui vb]. simpl. intros HL. destruct (cache_hit ca ins).
  - intros H; inversion H; subst. simpl. repeat split; auto. intros lx [].
  - destruct (all_data ins); [|discriminate]. intros H; inversion H; subst. simpl.
    destruct outs as [|o [|o2 r]]; simpl in HL; try discriminate.
    repeat split; auto. intros lx [<-|[]]. simpl. lia.
Qed.

Lemma apply_pushes_nil ps outs : apply_pushes [] ps outs = (outs, []).
Proof. induction ps as [|[l x] r IH]; simpl; auto. destruct l; simpl; exact IH. Qed.

Lemma cinfo_nth' body j : nth j (cinfo_of body) ([], []) = (sb_conns (nth j body dsb), sb_orecv (nth j body dsb)).
Proof.
  unfold cinfo_of. change (@nil (list src), @nil (option nat)) with ((fun e : sbody snode => (sb_conns e, sb_orecv e)) dsb).
  now rewrite map_nth.
Qed.

Lemma run_synced : forall s v v' c ps, slinks s -> sranges s -> vshape s v -> synced s v ->
  run s v = Some (v', c, ps) ->
  synced s v' /\ v_ins v' = v_ins v /\ v_outs v' = app_pushes ps (v_outs v) /\
  (forall lx, In lx ps -> fst lx < List.length (v_outs v)).
Proof.
  induction s as [l i a|l pars ols recvs kept uirecv body manual order IH] using snode_ind';
    intros v v' c ps Hsl Hsr Hv Hsy Hr.
  - cbn [run] in Hr. destruct Hv as [_ HLo]. destruct (run_fn_pushes _ _ _ _ _ HLo Hr) as (A & B & C & _).
    split; [exact I|auto].
  - destruct (vshape_kids _ _ _ _ _ _ _ _ _ _ Hv) as [HLb Hkv].
    pose proof (slinks_kids _ _ _ _ _ _ _ _ _ Hsl) as Hks.
    pose proof (sranges_kids _ _ _ _ _ _ _ _ _ Hsr) as Hkr.
    pose proof (synced_kids _ _ _ _ _ _ _ _ _ _ Hsy) as Hksy.
    destruct (synced_elim _ _ _ _ _ _ _ _ _ _ Hsy) as (HI & HU & HB).
    pose proof Hv as (A & B & C & D & _).
    pose proof Hsl as (Lr & Lk & S0 & S2 & S3 & S4 & S5 & S6 & S7 & _).
    pose proof Hsr as (_ & RL & R2 & R3 & _).
    rewrite run_mac in Hr. unfold run_mac_with in Hr. destruct v as [ins outs ca ui vb].
    simpl in A, B, C, D, HLb, Hkv, Hksy, HI, HU, HB.
    destruct (cache_hit ca ins).
    { inversion Hr; subst. split; [exact Hsy|]. simpl. repeat split; auto. intros lx []. }
    destruct (all_data ins); [|discriminate].
    set (step := step_kid _ _ kept uirecv (cinfo_of body)) in Hr.
    set (sinv := fun st : mstate =>
                   List.length (ms_outs st) = List.length ols /\ List.length (ms_ui st) = List.length pars /\
                   (forall i, i < List.length pars -> List.length (v_ins (nth i (ms_ui st) dv)) = 1 /\
                                                       List.length (v_outs (nth i (ms_ui st) dv)) = 1) /\
                   List.length (ms_body st) = List.length body /\
                   (forall j, j < List.length body -> vshape (kid body j) (nth j (ms_body st) dv) /\
                                                      synced (kid body j) (nth j (ms_body st) dv)) /\
                   in_links pars recvs ins (ms_ui st) (ms_body st) /\
                   ui_links pars kept uirecv (ms_outs st) (ms_ui st) /\
                   body_links body (ms_outs st) (ms_body st) /\
                   ms_outs st = app_pushes (ms_pushes st) outs /\
                   (forall lx, In lx (ms_pushes st) -> fst lx < List.length ols)).
    assert (Hstep : forall st r st', sinv st -> step st r = Some st' -> sinv st').
    { intros st r st' (G1 & G2 & G3 & G4 & G5 & GI & GU & GB & GP & GR) Hs. unfold step, step_kid in Hs.
      destruct r as [i|j].
      - destruct (nth i kept false) eqn:Ek.
        2:{ inversion Hs; subst. unfold sinv. repeat split; auto; try apply G3; try apply G5; auto. }
        assert (Hi : i < List.length pars).
        { destruct (Nat.ltb_spec i (List.length pars)); auto. rewrite nth_overflow in Ek by lia. discriminate. }
        destruct (run_fn true (nth i (ms_ui st) dv)) as [[[u' cc] pp]|] eqn:Eu; [|discriminate].
        inversion Hs; subst st'. unfold absorb.
        destruct (G3 i Hi) as [G3a G3b].
        destruct (run_fn_pushes _ _ _ _ _ G3b Eu) as (F1 & F2 & F3 & F4).
        pose proof (apply_pushes_exact [nth i uirecv None] pp (ms_outs st)) as Hex.
        pose proof (apply_pushes_len [nth i uirecv None] pp (ms_outs st)) as Hel.
        pose proof (apply_pushes_range [nth i uirecv None] pp (ms_outs st) (List.length ols)) as Her.
        destruct (apply_pushes_link [nth i uirecv None] pp (ms_outs st) (v_outs (nth i (ms_ui st) dv))) as [Hlk1 Hlk2].
        { intros l0 l' o Hl Hl'. destruct l0 as [|l0], l' as [|l']; auto; simpl in *; try (destruct l0; discriminate); destruct l'; discriminate. }
        { intros l0 o Hl. destruct l0 as [|l0]; [|destruct l0; discriminate]. simpl in Hl.
          exact (eq_ind_r (fun n => o < n) (R2 i o Hl) G1). }
        { exact F3. }
        { intros l0 o Hl. destruct l0 as [|l0]; [|destruct l0; discriminate]. simpl in Hl. apply GU; auto. }
        rewrite <- F2 in Hlk1.
        destruct (apply_pushes [nth i uirecv None] pp (ms_outs st)) as [o' q]. simpl in Hex, Hel, Her, Hlk1, Hlk2.
        assert (Hother : forall o, nth i uirecv None <> Some o -> nth o o' None = nth o (ms_outs st) None).
        { intros o Ho. apply Hlk2. intros l0. destruct l0 as [|l0]; [exact Ho|destruct l0; discriminate]. }
        unfold sinv. cbn [ms_outs ms_ui ms_body ms_pushes].
        split; [exact (eq_trans Hel G1)|]. split; [now rewrite upd_nth_length|]. split; [|split; [auto|split; [auto|]]].
        { intros i' Hi'. destruct (Nat.eq_dec i' i) as [->|Hne].
          - rewrite nth_upd_same by lia. split; [congruence|auto].
          - rewrite nth_upd_other by auto. auto. }
        split; [|split; [|split; [|split]]].
        + intros i0 Hi0. specialize (GI i0 Hi0). destruct (nth i0 recvs ROrphan) as [i'|j k|]; auto.
          destruct (Nat.eq_dec i' i) as [->|Hne].
          * rewrite nth_upd_same by lia. now rewrite F1.
          * rewrite nth_upd_other by auto. auto.
        + intros i0 o Hi0 Hk0 Ho. destruct (Nat.eq_dec i0 i) as [->|Hne].
          * rewrite nth_upd_same by lia. apply (Hlk1 0 o). exact Ho.
          * rewrite nth_upd_other by auto. rewrite Hother; auto. intros Ho'. apply Hne. eapply S5; eauto.
        + intros j lo o Hj Ho. rewrite Hother; auto. intros Ho'. eapply S4; eauto.
        + rewrite app_pushes_app, <- GP. exact Hex.
        + intros lx Hin. apply in_app_or in Hin as [Hin|Hin]; auto. apply Her; auto.
          intros l0 o Hl. destruct l0 as [|l0]; [|destruct l0; discriminate]. simpl in Hl. eauto.
      - rewrite cinfo_nth' in Hs.
        set (vj := fetch_from _ (ms_ui st) (ms_body st) (sb_conns (nth j body dsb)) 0 (nth j (ms_body st) dv)) in Hs.
        destruct (run (kid body j) vj) as [[[vj' cc] pp]|] eqn:Ej; [|discriminate].
        inversion Hs; subst st'. unfold absorb.
        destruct (Nat.ltb_spec j (List.length body)) as [Hj|Hj].
        2:{ (* not a child: nothing is stored *)
            rewrite (nth_overflow body) by lia. simpl sb_orecv. rewrite apply_pushes_nil.
            unfold sinv. cbn [ms_outs ms_ui ms_body ms_pushes].
            rewrite upd_nth_overflow by lia. rewrite app_nil_r. repeat split; auto; try apply G3; try apply G5; auto. }
        destruct (G5 j Hj) as [Gv Gs].
        destruct (fetch_from_spec (kid body j) (ms_ui st) (ms_body st) (sb_conns (nth j body dsb)) 0 (nth j (ms_body st) dv)
                    (List.length (sb_conns (nth j body dsb)))
                    (fun w => vshape (kid body j) w /\ synced (kid body j) w)) as (FP & FO & _ & FL & FN); auto.
        { intros w k x _ [W1 W2]. split; [now apply vshape_set_in|apply synced_set_in; auto]. }
        fold vj in FP, FO, FL, FN. destruct FP as [FP1 FP2].
        destruct (IH j vj vj' cc pp (Hks j Hj) (Hkr j Hj) FP1 FP2 Ej) as (R1' & R2' & R3' & R4').
        pose proof (vshape_run _ _ _ _ _ FP1 Ej) as Rv.
        rewrite FO in R3', R4'.
        pose proof (apply_pushes_exact (sb_orecv (nth j body dsb)) pp (ms_outs st)) as Hex.
        pose proof (apply_pushes_len (sb_orecv (nth j body dsb)) pp (ms_outs st)) as Hel.
        pose proof (apply_pushes_range (sb_orecv (nth j body dsb)) pp (ms_outs st) (List.length ols)) as Her.
        destruct (apply_pushes_link (sb_orecv (nth j body dsb)) pp (ms_outs st) (v_outs (nth j (ms_body st) dv))) as [Hlk1 Hlk2].
        { intros l0 l' o Hl Hl'. destruct (S3 j l0 j l' o Hj Hj Hl Hl'); auto. }
        { intros l0 o Hl. exact (eq_ind_r (fun n => o < n) (R3 j l0 o Hj Hl) G1). }
        { exact R4'. }
        { intros l0 o Hl. apply GB; auto. }
        rewrite <- R3' in Hlk1.
        destruct (apply_pushes (sb_orecv (nth j body dsb)) pp (ms_outs st)) as [o' q]. simpl in Hex, Hel, Her, Hlk1, Hlk2.
        unfold sinv. cbn [ms_outs ms_ui ms_body ms_pushes].
        split; [exact (eq_trans Hel G1)|]. split; [auto|]. split; [auto|]. split; [now rewrite upd_nth_length|].
        split; [|split; [|split; [|split; [|split]]]].
        + intros j' Hj'. destruct (Nat.eq_dec j' j) as [->|Hne].
          * rewrite nth_upd_same by lia. auto.
          * rewrite nth_upd_other by auto. auto.
        + intros i0 Hi0. pose proof (GI i0 Hi0) as GIi. pose proof (S0 i0 Hi0) as S0i.
          destruct (nth i0 recvs ROrphan) as [i'|j2 k2|]; auto.
          destruct (Nat.eq_dec j2 j) as [->|Hne]; [|now rewrite nth_upd_other by lia].
          rewrite nth_upd_same by lia. rewrite R2'. destruct S0i as (_ & _ & Hk2 & Hc2).
          rewrite FN by (destruct (G5 j Hj) as [Gv' _]; destruct (kid body j); simpl in *; destruct Gv' as [E1 _]; lia).
          rewrite Nat.sub_0_r, Hc2. simpl.
          destruct (Nat.ltb k2 (List.length (sb_conns (nth j body dsb)))); exact GIi.
        + intros i0 o Hi0 Hk0 Ho. rewrite Hlk2; auto. intros l0 Hl. eapply S4; eauto.
        + intros j' lo o Hj' Ho. destruct (Nat.eq_dec j' j) as [->|Hne].
          * rewrite nth_upd_same by lia. apply Hlk1; auto.
          * rewrite nth_upd_other by auto. rewrite Hlk2; auto.
            intros l0 Hl. destruct (S3 j l0 j' lo o Hj Hj' Hl Ho). congruence.
        + rewrite app_pushes_app, <- GP. exact Hex.
        + intros lx Hin. apply in_app_or in Hin as [Hin|Hin]; auto. apply Her; auto.
          intros l0 o Hl. eauto. }
    assert (Hfold : forall rest st st', sinv st -> fold_opt step rest st = Some st' -> sinv st').
    { induction rest as [|r rest IHr]; intros st st' Hg Hf; simpl in Hf.
      - inversion Hf; subst; auto.
      - destruct (step st r) as [st1|] eqn:E1; [|discriminate].
        apply (IHr st1 st'); [apply (Hstep st r st1); auto|exact Hf]. }
    destruct (fold_opt step order (MS outs ui vb 0 [])) as [stf|] eqn:Ef; [|discriminate].
    inversion Hr; subst v' c ps.
    assert (Hg0 : sinv (MS outs ui vb 0 [])).
    { unfold sinv; simpl. repeat split; auto; try apply D; auto. intros lx []. }
    destruct (Hfold order _ _ Hg0 Ef) as (G1 & G2 & G3 & G4 & G5 & GI & GU & GB & GP & GR).
    split; [|split; [reflexivity|split; [exact GP|]]].
    + apply synced_intro; simpl; auto. intros j Hj. apply G5; auto.
    + intros lx Hin. simpl. rewrite B. auto.
Qed.

(* an input / output channel addressed by a path that is NOT the receiving side of a value link *)
Fixpoint free_in (s : snode) (p : list kidref) (k : nat) {struct s} : Prop :=
  match p with
  | [] => True
  | r :: p' =>
      match s with
      | SFn _ _ _ => True
      | SMac _ ps _ recvs _ _ body _ _ =>
          match r with
          | KUI i => p' = [] -> k = 0 -> forall i0, i0 < List.length ps -> nth i0 recvs ROrphan <> RUI i
          | KBody j =>
              match p' with
              | [] => forall i0, i0 < List.length ps -> nth i0 recvs ROrphan <> RBody j k
              | _ => dispatch (fun s' => free_in s' p' k) True body j
              end
          end
      end
  end.

Fixpoint free_out (s : snode) (p : list kidref) (l : nat) {struct s} : Prop :=
  match s with
  | SFn _ _ _ => p = [] /\ l = 0
  | SMac _ ps ols _ kept uirecv body _ _ =>
      match p with
      | [] => l < List.length ols /\
              (forall i, i < List.length ps -> nth i uirecv None <> Some l) /\
              (forall j l', j < List.length body -> nth l' (sb_orecv (nth j body dsb)) None <> Some l)
      | KUI i :: p' => p' = [] /\ l = 0 /\ i < List.length ps
      | KBody j :: p' => j < List.length body /\ dispatch (fun s' => free_out s' p' l) False body j
      end
  end.

Definition free_op (s : snode) (o : op) : Prop :=
  match o with OSetIn p k _ => free_in s p k | OSetOut p l _ => free_out s p l | ORun => True | OSetBad _ _ => True | ORunKw _ => True
  | OReplace _ => True end.

Lemma synced_set_in_at : forall s v p k x, slinks s -> vshape s v -> synced s v -> free_in s p k ->
  synced s (set_in_at s v p k x).
Proof.
  induction s as [l i a|l ps ols recvs kept uirecv body manual order IH] using snode_ind'; intros v p k x Hsl Hv Hsy Hf.
  - exact I.
  - destruct p as [|r p]; [rewrite set_in_at_nil; now apply synced_set_in|].
    destruct (vshape_kids _ _ _ _ _ _ _ _ _ _ Hv) as [HLb Hkv].
    pose proof (slinks_kids _ _ _ _ _ _ _ _ _ Hsl) as Hks.
    pose proof (synced_kids _ _ _ _ _ _ _ _ _ _ Hsy) as Hksy.
    destruct (synced_elim _ _ _ _ _ _ _ _ _ _ Hsy) as (HI & HU & HB).
    pose proof Hv as (A & B & C & D & _). pose proof Hsl as (Lr & Lk & S0 & _).
    destruct v as [ins outs c ui vb]. simpl in A, B, C, D, HLb, Hkv, Hksy, HI, HU, HB.
    destruct r as [i|j].
    + cbn [set_in_at]. destruct p; [|exact Hsy]. cbn [free_in] in Hf.
      apply synced_intro; simpl; auto.
      * intros i0 Hi0. pose proof (HI i0 Hi0) as HIi. destruct (nth i0 recvs ROrphan) as [i'|j k'|] eqn:Er; auto.
        destruct (Nat.eq_dec i' i) as [->|Hne]; [|now rewrite nth_upd_other by auto].
        destruct (Nat.ltb_spec i (List.length ui)) as [Hi|Hi]; [|now rewrite upd_nth_overflow by lia].
        rewrite nth_upd_same by lia. rewrite set_fn_ins. rewrite nth_upd_other; auto.
        intros ->. exact (Hf eq_refl eq_refl i0 Hi0 Er).
      * intros i0 o Hi0 Hk0 Ho. rewrite (HU i0 o Hi0 Hk0 Ho). destruct (Nat.eq_dec i0 i) as [->|Hne].
        -- rewrite nth_upd_same by lia. destruct (nth i ui dv); reflexivity.
        -- rewrite nth_upd_other by auto. reflexivity.
    + rewrite set_in_at_body. destruct (Nat.ltb_spec j (List.length body)) as [Hj|Hj].
      2:{ rewrite upd_nth_same_val. exact Hsy. }
      assert (Hio : v_ins (set_in_at (kid body j) (nth j vb dv) p k x) =
                    match p with [] => upd_nth k x (v_ins (nth j vb dv)) | _ => v_ins (nth j vb dv) end /\
                    v_outs (set_in_at (kid body j) (nth j vb dv) p k x) = v_outs (nth j vb dv)).
      { destruct p as [|r p]; [rewrite set_in_at_nil, set_in_ins, set_in_outs; auto|].
        apply child_input_write_leaves_macro_io. }
      destruct Hio as [Hi' Ho'].
      assert (Hchild : synced (kid body j) (set_in_at (kid body j) (nth j vb dv) p k x)).
      { apply IH; auto. cbn [free_in] in Hf. destruct p as [|r p]; [destruct (kid body j); exact I|].
        rewrite dispatch_spec in Hf. replace (Nat.ltb j (List.length body)) with true in Hf by (symmetry; now apply Nat.ltb_lt).
        exact Hf. }
      apply synced_intro; simpl; rewrite ?upd_nth_length; auto.
      * intros i0 Hi0. pose proof (HI i0 Hi0) as HIi. destruct (nth i0 recvs ROrphan) as [i'|j2 k2|] eqn:Er; auto.
        destruct (Nat.eq_dec j2 j) as [->|Hne]; [|now rewrite nth_upd_other by lia].
        rewrite nth_upd_same by lia. rewrite Hi'. destruct p as [|r p]; auto.
        rewrite nth_upd_other; auto. intros ->. cbn [free_in] in Hf. exact (Hf i0 Hi0 Er).
      * intros j2 lo o Hj2 Ho. rewrite (HB j2 lo o Hj2 Ho). destruct (Nat.eq_dec j2 j) as [->|Hne].
        -- rewrite nth_upd_same by lia. now rewrite Ho'.
        -- rewrite nth_upd_other by lia. reflexivity.
      * intros j2 Hj2. destruct (Nat.eq_dec j2 j) as [->|Hne].
        -- rewrite nth_upd_same by lia. exact Hchild.
        -- rewrite nth_upd_other by lia. auto.
Qed.

Lemma synced_set_out_at : forall s v p l x, slinks s -> sranges s -> vshape s v -> synced s v -> free_out s p l ->
  synced s (fst (set_out_at s v p l x)) /\
  v_outs (fst (set_out_at s v p l x)) = app_pushes (snd (set_out_at s v p l x)) (v_outs v) /\
  (forall lx, In lx (snd (set_out_at s v p l x)) -> fst lx < List.length (v_outs v)) /\
  v_ins (fst (set_out_at s v p l x)) = v_ins v.
Proof.
  induction s as [lab i a|lab ps ols recvs kept uirecv body manual order IH] using snode_ind';
    intros v p l x Hsl Hsr Hv Hsy Hf.
  - destruct Hf as [-> ->]. destruct v as [ins outs c ui vb]. simpl in *. destruct Hv as [_ HLo].
    split; [exact I|]. repeat split; auto. intros lx [<-|[]]. simpl. lia.
  - destruct (vshape_kids _ _ _ _ _ _ _ _ _ _ Hv) as [HLb Hkv].
    pose proof (slinks_kids _ _ _ _ _ _ _ _ _ Hsl) as Hks.
    pose proof (sranges_kids _ _ _ _ _ _ _ _ _ Hsr) as Hkr.
    pose proof (synced_kids _ _ _ _ _ _ _ _ _ _ Hsy) as Hksy.
    destruct (synced_elim _ _ _ _ _ _ _ _ _ _ Hsy) as (HI & HU & HB).
    pose proof Hv as (A & B & C & D & _).
    pose proof Hsl as (Lr & Lk & S0 & S2 & S3 & S4 & S5 & S6 & S7 & _).
    pose proof Hsr as (_ & RL & R2 & R3 & _).
    destruct v as [ins outs c ui vb]. simpl in A, B, C, D, HLb, Hkv, Hksy, HI, HU, HB.
    destruct p as [|[i|j] p].
    + (* a macro output nothing is linked into *)
      cbn [free_out] in Hf. destruct Hf as (Hl & Fu & Fb). cbn [set_out_at set_out_here fst snd v_outs v_ins].
      split; [|repeat split; auto; intros lx [<-|[]]; simpl; lia].
      apply synced_intro; simpl; auto.
      * intros i0 o Hi0 Hk0 Ho. rewrite nth_upd_other; auto. intros ->. exact (Fu i0 Hi0 Ho).
      * intros j0 lo o Hj0 Ho. rewrite nth_upd_other; auto. intros ->. exact (Fb j0 lo Hj0 Ho).
    + (* the output of an interface node *)
      cbn [free_out] in Hf. destruct Hf as (-> & -> & Hi). cbn [set_out_at].
      destruct (nth i ui dv) as [ui_ins ui_outs ui_c ui_u ui_b] eqn:Eu. cbn [set_out_here].
      destruct (D i Hi) as [D1 D2]. rewrite Eu in D1, D2. simpl in D1, D2.
      pose proof (apply_pushes_exact [nth i uirecv None] [(0, x)] outs) as Hex.
      pose proof (apply_pushes_range [nth i uirecv None] [(0, x)] outs (List.length ols)) as Her.
      destruct (apply_pushes_link [nth i uirecv None] [(0, x)] outs ui_outs) as [Hlk1 Hlk2].
      { intros l0 l' o Hl Hl'. destruct l0 as [|l0], l' as [|l']; auto; simpl in *; try (destruct l0; discriminate); destruct l'; discriminate. }
      { intros l0 o Hl. destruct l0 as [|l0]; [|destruct l0; discriminate]. simpl in Hl.
        exact (eq_ind_r (fun n => o < n) (R2 i o Hl) B). }
      { intros lx [<-|[]]. simpl. exact (eq_ind_r (fun n => 0 < n) Nat.lt_0_1 D2). }
      { intros l0 o Hl. destruct l0 as [|l0]; [|destruct l0; discriminate]. simpl in Hl.
        destruct (nth i kept false) eqn:Ek.
        - specialize (HU i o Hi Ek Hl). rewrite Eu in HU. exact HU.
        - rewrite (S6 i Hi Ek) in Hl. discriminate. }
      destruct (apply_pushes [nth i uirecv None] [(0, x)] outs) as [o' q]. cbn [fst snd v_outs v_ins] in *.
      assert (Hother : forall o, nth i uirecv None <> Some o -> nth o o' None = nth o outs None).
      { intros o Ho. apply Hlk2. intros l0. destruct l0 as [|l0]; [exact Ho|destruct l0; discriminate]. }
      split; [|split; [exact Hex|split; [|reflexivity]]].
      * apply synced_intro; simpl; rewrite ?upd_nth_length; auto.
        -- intros i0 Hi0. specialize (HI i0 Hi0). destruct (nth i0 recvs ROrphan) as [i'|j k|]; auto.
           destruct (Nat.eq_dec i' i) as [->|Hne].
           ++ rewrite nth_upd_same by lia. simpl. rewrite Eu in HI. exact HI.
           ++ rewrite nth_upd_other by auto. auto.
        -- intros i0 o Hi0 Hk0 Ho. destruct (Nat.eq_dec i0 i) as [->|Hne].
           ++ rewrite nth_upd_same by lia. simpl. apply (Hlk1 0 o). exact Ho.
           ++ rewrite nth_upd_other by auto. rewrite Hother; auto. intros Ho'. apply Hne. eapply S5; eauto.
        -- intros j lo o Hj Ho. rewrite Hother; auto. intros Ho'. eapply S4; eauto.
      * intros lx Hin. rewrite B. apply Her; auto.
        intros l0 o Hl. destruct l0 as [|l0]; [|destruct l0; discriminate]. simpl in Hl. eauto.
    + (* below a child *)
      cbn [free_out] in Hf. destruct Hf as [Hj Hf]. rewrite dispatch_spec in Hf.
      replace (Nat.ltb j (List.length body)) with true in Hf by (symmetry; now apply Nat.ltb_lt). fold (kid body j) in Hf.
      rewrite set_out_at_body. replace (Nat.ltb j (List.length body)) with true by (symmetry; now apply Nat.ltb_lt).
      destruct (IH j (nth j vb dv) p l x (Hks j Hj) (Hkr j Hj) (Hkv j Hj) (Hksy j Hj) Hf) as (I1 & I2 & I3 & I4).
      destruct (set_out_at (kid body j) (nth j vb dv) p l x) as [vj' pp]. cbn [fst snd] in I1, I2, I3, I4.
      pose proof (apply_pushes_exact (sb_orecv (nth j body dsb)) pp outs) as Hex.
      pose proof (apply_pushes_range (sb_orecv (nth j body dsb)) pp outs (List.length ols)) as Her.
      destruct (apply_pushes_link (sb_orecv (nth j body dsb)) pp outs (v_outs (nth j vb dv))) as [Hlk1 Hlk2].
      { intros l0 l' o Hl Hl'. destruct (S3 j l0 j l' o Hj Hj Hl Hl'); auto. }
      { intros l0 o Hl. exact (eq_ind_r (fun n => o < n) (R3 j l0 o Hj Hl) B). }
      { exact I3. }
      { intros l0 o Hl. apply HB; auto. }
      rewrite <- I2 in Hlk1.
      destruct (apply_pushes (sb_orecv (nth j body dsb)) pp outs) as [o' q]. cbn [fst snd v_outs v_ins] in *.
      split; [|split; [exact Hex|split; [|reflexivity]]].
      * apply synced_intro; simpl; rewrite ?upd_nth_length; auto.
        -- intros i0 Hi0. specialize (HI i0 Hi0). destruct (nth i0 recvs ROrphan) as [i'|j2 k2|]; auto.
           destruct (Nat.eq_dec j2 j) as [->|Hne]; [|now rewrite nth_upd_other by lia].
           rewrite nth_upd_same by lia. now rewrite I4.
        -- intros i0 o Hi0 Hk0 Ho. rewrite Hlk2; auto. intros l0 Hl. eapply S4; eauto.
        -- intros j' lo o Hj' Ho. destruct (Nat.eq_dec j' j) as [->|Hne].
           ++ rewrite nth_upd_same by lia. apply Hlk1; auto.
           ++ rewrite nth_upd_other by auto. rewrite Hlk2; auto.
              intros l0 Hl. destruct (S3 j l0 j' lo o Hj Hj' Hl Ho). congruence.
        -- intros j' Hj'. destruct (Nat.eq_dec j' j) as [->|Hne].
           ++ rewrite nth_upd_same by lia. exact I1.
           ++ rewrite nth_upd_other by auto. auto.
      * intros lx Hin. rewrite B. apply Her; auto. intros l0 o Hl. eauto.
Qed.

Lemma relink_inputs_nth recvs ins j w0 k :
  let w := relink_inputs recvs ins j w0 in
  (forall i, i < List.length recvs -> nth i recvs ROrphan = RBody j k -> k < List.length (v_ins w0) ->
     (forall i', i' < List.length recvs -> nth i' recvs ROrphan = RBody j k -> i' = i) ->
     nth k (v_ins w) None = nth i ins None) /\
  ((forall i, i < List.length recvs -> nth i recvs ROrphan <> RBody j k) -> nth k (v_ins w) None = nth k (v_ins w0) None).
Proof.
  unfold relink_inputs.
  set (f := fun (w : vnode) (i : nat) => match nth i recvs ROrphan with
                                         | RBody j' k0 => if Nat.eqb j' j then set_fn w k0 (nth i ins None) else w
                                         | _ => w end).
  assert (Hlen : forall w1 a, List.length (v_ins (f w1 a)) = List.length (v_ins w1)).
  { intros w1 a. unfold f. destruct (nth a recvs ROrphan) as [|j' k0|]; auto. destruct (Nat.eqb j' j); auto.
    rewrite set_fn_ins. apply upd_nth_length. }
  assert (G : forall l w1,
             (forall i, (forall i', In i' l -> nth i' recvs ROrphan = RBody j k -> i' = i) ->
                ((In i l /\ nth i recvs ROrphan = RBody j k) \/ nth k (v_ins w1) None = nth i ins None) ->
                k < List.length (v_ins w1) -> nth k (v_ins (fold_left f l w1)) None = nth i ins None) /\
             ((forall i, In i l -> nth i recvs ROrphan <> RBody j k) ->
                nth k (v_ins (fold_left f l w1)) None = nth k (v_ins w1) None)).
  { induction l as [|a r IH]; intros w1; simpl.
    - split; [|auto]. intros i _ [[[] _]|H] _; auto.
    - destruct (IH (f w1 a)) as [B C]. split.
      + intros i Hu Hor Hk. apply B; [intros i' Hi'; apply Hu; now right| |now rewrite Hlen].
        unfold f at 1. destruct (nth a recvs ROrphan) as [|j' k0|] eqn:Ea.
        * destruct Hor as [[[->|Hi] Hr]|H]; [congruence|left; auto|right; auto].
        * destruct (Nat.eqb_spec j' j) as [->|Hnj].
          -- destruct (Nat.eq_dec k0 k) as [->|Hnk].
             ++ assert (a = i) by (apply Hu; auto). subst a. right. rewrite set_fn_ins. now apply nth_upd_same.
             ++ destruct Hor as [[[->|Hi] Hr]|H]; [congruence|left; auto|right].
                rewrite set_fn_ins. rewrite nth_upd_other; auto.
          -- destruct Hor as [[[->|Hi] Hr]|H]; [congruence|left; auto|right; auto].
        * destruct Hor as [[[->|Hi] Hr]|H]; [congruence|left; auto|right; auto].
      + intros Hn. rewrite C by (intros i Hi; apply Hn; now right).
        unfold f. pose proof (Hn a (or_introl eq_refl)) as Hna.
        destruct (nth a recvs ROrphan) as [|j' k0|]; auto. destruct (Nat.eqb_spec j' j) as [->|]; auto.
        rewrite set_fn_ins. apply nth_upd_other. intros ->. now apply Hna. }
  destruct (G (seq 0 (List.length recvs)) w0) as [B C]. split.
  - intros i Hi Hr Hk Hu. apply B; auto.
    + intros i' Hi'. apply Hu. apply in_seq in Hi'. lia.
    + left. split; auto. apply in_seq. lia.
  - intros Hn. apply C. intros i Hi. apply Hn. apply in_seq in Hi. lia.
Qed.

Lemma app_pushes_self (co : list val) :
  app_pushes (map (fun l => (l, nth l co None)) (seq 0 (List.length co))) co = co.
Proof.
  assert (G : forall l acc, (forall x, In x l -> nth x acc None = nth x co None) -> List.length acc = List.length co ->
            app_pushes (map (fun l0 => (l0, nth l0 co None)) l) acc = acc).
  { induction l as [|a r IH]; intros acc H HL; simpl; auto.
    assert (E : upd_nth a (nth a co None) acc = acc).
    { rewrite <- (H a (or_introl eq_refl)). apply upd_nth_same_val. }
    rewrite E. apply IH; auto. intros x Hx. apply H. now right. }
  apply G; auto.
Qed.

Lemma synced_replace_at : forall s v p v' q, slinks s -> sranges s -> vshape s v -> synced s v ->
  replace_at s v p = Some (v', q) ->
  synced s v' /\ v_outs v' = app_pushes q (v_outs v) /\
  (forall lx, In lx q -> fst lx < List.length (v_outs v)) /\ v_ins v' = v_ins v.
Proof.
  induction s as [lab i a|lab ps ols recvs kept uirecv body manual order IH] using snode_ind';
    intros v p v' q Hsl Hsr Hv Hsy H.
  - destruct p; discriminate.
  - destruct p as [|[i|j] p]; try discriminate.
    destruct (vshape_kids _ _ _ _ _ _ _ _ _ _ Hv) as [HLb Hkv].
    pose proof (slinks_kids _ _ _ _ _ _ _ _ _ Hsl) as Hks.
    pose proof (sranges_kids _ _ _ _ _ _ _ _ _ Hsr) as Hkr.
    pose proof (synced_kids _ _ _ _ _ _ _ _ _ _ Hsy) as Hksy.
    destruct (synced_elim _ _ _ _ _ _ _ _ _ _ Hsy) as (HI & HU & HB).
    pose proof Hv as (A & B & C & D & _).
    pose proof Hsl as (Lr & Lk & S0 & S2 & S3 & S4 & S5 & S6 & S7 & _).
    pose proof Hsr as (_ & RL & R2 & R3 & _).
    destruct v as [ins outs c ui vb]. simpl in A, B, C, D, HLb, Hkv, Hksy, HI, HU, HB.
    cbn [replace_at] in H. destruct (Nat.ltb_spec j (List.length body)) as [Hj|Hj]; [|discriminate].
    destruct p as [|r p].
    + (* the function child itself *)
      rewrite dispatch_spec in H. replace (Nat.ltb j (List.length body)) with true in H by (symmetry; now apply Nat.ltb_lt).
      fold (kid body j) in H. pose proof (Hkv j Hj) as Hkj.
      destruct (kid body j) as [l0 idf a0|] eqn:Ek; [|simpl in H; discriminate].
      destruct idf; simpl in H; [discriminate|]. simpl in Hkj. destruct Hkj as [Hki Hko].
      set (w0 := VN (v_ins (nth j vb dv)) (v_outs (nth j vb dv)) None [] []) in H.
      set (w := relink_inputs recvs ins j w0) in H.
      destruct (relink_inputs_shape recvs ins j w0) as [R1' R2']. fold w in R1', R2'. simpl in R1', R2'.
      pose proof (apply_pushes_exact (sb_orecv (nth j body dsb)) (all_out_pushes w) outs) as Hex.
      pose proof (apply_pushes_range (sb_orecv (nth j body dsb)) (all_out_pushes w) outs (List.length ols)) as Her.
      destruct (apply_pushes_link (sb_orecv (nth j body dsb)) (all_out_pushes w) outs (v_outs w)) as [Hlk1 Hlk2].
      { intros l1 l' o Hl Hl'. destruct (S3 j l1 j l' o Hj Hj Hl Hl'); auto. }
      { intros l1 o Hl. exact (eq_ind_r (fun n => o < n) (R3 j l1 o Hj Hl) B). }
      { unfold all_out_pushes. intros lx Hin. apply in_map_iff in Hin as (x & <- & Hx). simpl. apply in_seq in Hx. exact (proj2 Hx). }
      { intros l1 o Hl. rewrite R2'. apply HB; auto. }
      assert (Eself : app_pushes (all_out_pushes w) (v_outs w) = v_outs w) by apply app_pushes_self.
      rewrite Eself in Hlk1.
      destruct (apply_pushes (sb_orecv (nth j body dsb)) (all_out_pushes w) outs) as [o' q']. cbn [fst snd] in *.
      inversion H; subst v' q. cbn [v_outs v_ins].
      split; [|split; [exact Hex|split; [|reflexivity]]].
      * apply synced_intro; simpl; rewrite ?upd_nth_length; auto.
        -- intros i0 Hi0. pose proof (HI i0 Hi0) as HIi. pose proof (S0 i0 Hi0) as S0i.
           destruct (nth i0 recvs ROrphan) as [i'|j2 k2|] eqn:Er; auto.
           destruct (Nat.eq_dec j2 j) as [->|Hne]; [|now rewrite nth_upd_other by lia].
           rewrite nth_upd_same by lia.
           destruct S0i as (_ & _ & Hk2 & _). rewrite Ek in Hk2. simpl in Hk2.
           destruct (relink_inputs_nth recvs ins j w0 k2) as [RN _]. fold w in RN.
           apply (RN i0); auto; [lia|simpl; lia|].
           intros i' Hi' Hr'. apply (S2 i' i0 j k2); auto; lia.
        -- intros i0 o Hi0 Hk0 Ho. rewrite Hlk2; auto. intros l1 Hl. eapply S4; eauto.
        -- intros j' lo o Hj' Ho. destruct (Nat.eq_dec j' j) as [->|Hne].
           ++ rewrite nth_upd_same by lia. apply Hlk1; auto.
           ++ rewrite nth_upd_other by auto. rewrite Hlk2; auto.
              intros l1 Hl. destruct (S3 j l1 j' lo o Hj Hj' Hl Ho). congruence.
        -- intros j' Hj'. destruct (Nat.eq_dec j' j) as [->|Hne].
           ++ rewrite nth_upd_same by lia. rewrite Ek. exact I.
           ++ rewrite nth_upd_other by auto. auto.
      * intros lx Hin. rewrite B. apply Her; auto. intros l1 o Hl. eauto.
    + (* below a child *)
      set (p' := r :: p) in *. assert (Hp : match p' with [] => False | _ => True end) by exact I.
      destruct p' as [|r' p'']; [destruct Hp|].
      rewrite dispatch_spec in H. replace (Nat.ltb j (List.length body)) with true in H by (symmetry; now apply Nat.ltb_lt).
      fold (kid body j) in H.
      destruct (replace_at (kid body j) (nth j vb dv) (r' :: p'')) as [[vj' pp]|] eqn:Er; [|discriminate].
      destruct (IH j _ _ _ _ (Hks j Hj) (Hkr j Hj) (Hkv j Hj) (Hksy j Hj) Er) as (I1 & I2 & I3 & I4).
      pose proof (apply_pushes_exact (sb_orecv (nth j body dsb)) pp outs) as Hex.
      pose proof (apply_pushes_range (sb_orecv (nth j body dsb)) pp outs (List.length ols)) as Her.
      destruct (apply_pushes_link (sb_orecv (nth j body dsb)) pp outs (v_outs (nth j vb dv))) as [Hlk1 Hlk2].
      { intros l0 l' o Hl Hl'. destruct (S3 j l0 j l' o Hj Hj Hl Hl'); auto. }
      { intros l0 o Hl. exact (eq_ind_r (fun n => o < n) (R3 j l0 o Hj Hl) B). }
      { exact I3. }
      { intros l0 o Hl. apply HB; auto. }
      rewrite <- I2 in Hlk1.
      destruct (apply_pushes (sb_orecv (nth j body dsb)) pp outs) as [o' q']. cbn [fst snd] in *.
      inversion H; subst v' q. cbn [v_outs v_ins].
      split; [|split; [exact Hex|split; [|reflexivity]]].
      * apply synced_intro; simpl; rewrite ?upd_nth_length; auto.
        -- intros i0 Hi0. specialize (HI i0 Hi0). destruct (nth i0 recvs ROrphan) as [i'|j2 k2|]; auto.
           destruct (Nat.eq_dec j2 j) as [->|Hne]; [|now rewrite nth_upd_other by lia].
           rewrite nth_upd_same by lia. now rewrite I4.
        -- intros i0 o Hi0 Hk0 Ho. rewrite Hlk2; auto. intros l0 Hl. eapply S4; eauto.
        -- intros j' lo o Hj' Ho. destruct (Nat.eq_dec j' j) as [->|Hne].
           ++ rewrite nth_upd_same by lia. apply Hlk1; auto.
           ++ rewrite nth_upd_other by auto. rewrite Hlk2; auto.
              intros l0 Hl. destruct (S3 j l0 j' lo o Hj Hj' Hl Ho). congruence.
        -- intros j' Hj'. destruct (Nat.eq_dec j' j) as [->|Hne].
           ++ rewrite nth_upd_same by lia. exact I1.
           ++ rewrite nth_upd_other by auto. auto.
      * intros lx Hin. rewrite B. apply Her; auto. intros l0 o Hl. eauto.
Qed.

Lemma set_kw_synced s kw : slinks s -> forall v, vshape s v -> synced s v ->
  vshape s (set_kw s v kw) /\ synced s (set_kw s v kw).
Proof.
  intros Hsl. unfold set_kw. induction kw as [|[k x] r IH]; intros v Hv Hs; simpl; auto.
  apply IH; [now apply vshape_set_in|now apply synced_set_in].
Qed.

(* ALWAYS IN AGREEMENT, as long as no update is applied on the receiving side of a value link *)
Theorem sync_always d l s v0 ops v :
  build d l = Some (s, v0) -> Forall (free_op s) ops -> apply_ops s v0 ops = Some v -> synced s v.
Proof.
  intros Hb. destruct (build_ok d l s v0 Hb) as (Hw & Hc & _).
  pose proof (wired_slinks d s Hw) as Hsl. pose proof (wired_sranges d s Hw) as Hsr.
  pose proof (coh_vshape d s v0 Hw Hc) as Hv0. pose proof (coh_synced d s v0 Hw Hc) as Hs0.
  clear Hc Hb. revert v0 Hv0 Hs0. induction ops as [|o r IH]; intros v0 Hv0 Hs0 Hall H; simpl in H.
  - inversion H; subst; auto.
  - destruct (apply_op s v0 o) as [[v1 n]|] eqn:E1; [|discriminate]. inversion Hall; subst.
    assert (Hv1 : vshape s v1) by (eapply apply_op_vshape; eauto).
    assert (Hs1 : synced s v1).
    { destruct o as [p k x|p lo x| |p k|kw|p]; simpl in E1, H2;
        [| | | | |destruct (replace_at s v0 p) as [[v2 q2]|] eqn:Er; [|discriminate]; inversion E1; subst;
                  exact (proj1 (synced_replace_at s v0 p v1 q2 Hsl Hsr Hv0 Hs0 Er))].
      - inversion E1; subst. apply synced_set_in_at; auto.
      - inversion E1; subst. apply synced_set_out_at; auto.
      - destruct (run s v0) as [[[v2 c2] p2]|] eqn:Er; [|discriminate]. inversion E1; subst.
        exact (proj1 (run_synced s v0 v1 n p2 Hsl Hsr Hv0 Hs0 Er)).
      - destruct (refuses_at s p k); [inversion E1; subst; exact Hs0|discriminate].
      - destruct (run s (set_kw s v0 kw)) as [[[v2 c2] p2]|] eqn:Er; [|discriminate]. inversion E1; subst.
        destruct (set_kw_synced s kw Hsl v0 Hv0 Hs0) as [Hk1 Hk2].
        exact (proj1 (run_synced s (set_kw s v0 kw) v1 n p2 Hsl Hsr Hk1 Hk2 Er)). }
    apply (IH v1); auto.
Qed.

(* with no channel returned twice, EVERY output of every macro (any depth) is value-linked from the
   channel its definition returns there *)
Fixpoint out_links_complete (d : mdef) (s : snode) {struct d} : Prop :=
  match d with MDef ps body rets _ =>
    match s with
    | SFn _ _ _ => False
    | SMac _ _ _ _ kept uirecv sb _ _ =>
        (forall o, o < List.length rets ->
           match snd (nth o rets dret) with
           | AParam i => nth i kept false = true /\ nth i uirecv None = Some o
           | AOut j lo => nth lo (sb_orecv (nth j sb dsb)) None = Some o
           | AConst _ => False
           end) /\
        all2 (fun st e => match s_mac st with None => True | Some d' => out_links_complete d' (sb_node e) end) body sb
    end
  end.

Lemma wired_out_links d : forall s, wfd d = true -> rets_distinct d = true -> wired d s -> out_links_complete d s.
Proof.
  induction d as [ps body rets fl IH] using mdef_ind'. intros s Hwf Hrd Hw.
  destruct s as [|l ps' ols recvs kept uirecv sb manual order]; [simpl in Hw; tauto|].
  pose proof (wired_kids _ _ _ _ _ _ _ _ _ _ _ _ _ Hw) as [Hlen Hwk].
  pose proof (fun j => kid_nouts _ _ _ _ _ _ _ _ _ _ _ _ _ j Hw) as Hkn.
  destruct Hw as (-> & -> & HWL & _).
  destruct HWL as (Hlr & Hlk & Hlu & Hcfg & Hui & Hrk & Hrb & Hrb' & Hpass & Hbody).
  simpl in Hwf. apply andb_true_iff in Hwf as [_ Hwb].
  destruct (wf_body_spec _ _ _ _ _ Hwb) as [Hst Hrets]. simpl in Hst, Hrets.
  simpl in Hrd. apply andb_true_iff in Hrd as [Hrd Hrdn].
  cbn [out_links_complete]. split.
  - intros o Ho. pose proof (last_idx_nodup rets Hrd o 0 Ho) as Hlast. simpl in Hlast.
    rewrite forallb_forall in Hrets. specialize (Hrets (nth o rets dret) (nth_In _ _ Ho)).
    destruct (snd (nth o rets dret)) as [i|j lo|z]; simpl in Hrets; [| |discriminate].
    + apply Nat.ltb_lt in Hrets. split; [apply Hpass; auto; congruence|rewrite Hui; auto].
    + apply andb_true_iff in Hrets as [Hj Hl]. apply Nat.ltb_lt in Hj, Hl.
      unfold body_nouts in Hj. rewrite map_length in Hj.
      destruct (Hbody j Hj) as (_ & _ & _ & _ & Hor). rewrite <- (Hkn j Hj) in Hl. rewrite Hor; auto.
  - apply (all2_nth _ dstmt dsb). split; auto. intros j Hj. specialize (Hwk j Hj).
    destruct (s_mac (nth j body dstmt)) as [d'|] eqn:Em; auto.
    destruct (Hst j Hj) as [_ Hm]. rewrite Em in Hm. fold (kid sb j).
    apply (IH j d' Em); try tauto. eapply all_nested_nth; eauto.
Qed.

(* ================================================================================== *)
(* R. the statements of Props/C09.v that need a line of glue, and the witnesses           *)
Theorem interface_thm : forall d l s v, build d l = Some (s, v) ->
  iface_ok d s /\ s_label_of s = l /\ v_ins v = map p_default (d_params d) /\
  (forall o, nth o (v_outs v) None = None).
Proof.
  intros d l s v H. destruct (build_ok d l s v H) as (Hw & _ & Hl & Hi & Ho & _).
  split; [now apply wired_iface|auto].
Qed.

Theorem closed_thm : forall d l s v, wfd d = true -> build d l = Some (s, v) -> closed s.
Proof. intros d l s v Hwf H. destruct (build_ok d l s v H) as (Hw & _). now apply (wired_closed d). Qed.

Theorem distinct_io_thm : forall s v r p k x,
  (v_ins (set_in_at s v (r :: p) k x) = v_ins v /\ v_outs (set_in_at s v (r :: p) k x) = v_outs v) /\
  (vget (fst (set_out_at s v [] k x)) (r :: p) = vget v (r :: p) /\ v_ins (fst (set_out_at s v [] k x)) = v_ins v) /\
  v_ins (fst (set_out_at s v (r :: p) k x)) = v_ins v.
Proof.
  intros. split; [apply child_input_write_leaves_macro_io|].
  split; [apply macro_output_write_leaves_children|apply child_output_write_leaves_macro_inputs].
Qed.

Theorem sync_down_thm : forall d l s v0 ops v k x,
  build d l = Some (s, v0) -> apply_ops s v0 ops = Some v -> k < List.length (d_params d) ->
  get_in (set_in s v k x) [] k = x /\
  forall pk, In pk (down_chain s k) -> get_in (set_in s v k x) (fst pk) (snd pk) = x.
Proof.
  intros d l s v0 ops v k x Hb Hops Hk. destruct (build_ok d l s v0 Hb) as (Hw & Hc & _).
  apply sync_down.
  - now apply (wired_sranges d).
  - apply (apply_ops_vshape s ops v0 v); auto. now apply (coh_vshape d).
  - now rewrite (wired_nins d s Hw).
Qed.

Theorem sync_up_thm : forall d l s v0 ops v p lo x,
  build d l = Some (s, v0) -> apply_ops s v0 ops = Some v ->
  forall qo, In qo (fst (up_chain s p lo)) -> get_out (fst (set_out_at s v p lo x)) (fst qo) (snd qo) = x.
Proof.
  intros d l s v0 ops v p lo x Hb Hops. destruct (build_ok d l s v0 Hb) as (Hw & Hc & _).
  apply sync_up.
  - now apply (wired_sranges d).
  - apply (apply_ops_vshape s ops v0 v); auto. now apply (coh_vshape d).
Qed.

Theorem links_complete_thm : forall d l s v,
  wfd d = true -> rets_distinct d = true -> build d l = Some (s, v) -> out_links_complete d s.
Proof. intros d l s v Hwf Hrd H. destruct (build_ok d l s v H) as (Hw & _). now apply wired_out_links. Qed.

Open Scope string_scope.
(* witnesses *)
Definition dup_def : mdef :=
  MDef [mkParam "x" (Some 1%Z) None] [mkStmt "c" None [AParam 0]] [("a", AOut 0 0); ("b", AOut 0 0)] FAuto.
Definition one_def : mdef :=
  MDef [mkParam "x" (Some 1%Z) None] [mkStmt "c" None [AParam 0]] [("o", AOut 0 0)] FAuto.
Definition inner_def : mdef :=
  MDef [mkParam "q0" None (Some HInt); mkParam "q1" (Some 2%Z) None]
       [mkStmt "c0" None [AParam 0; AParam 1]; mkStmt "c1" None [AOut 0 0; AParam 0]]
       [("r", AOut 1 0); ("q", AOut 0 0)] (FChain [0; 1]).
Definition outer_def : mdef :=
  MDef [mkParam "p0" None None; mkParam "p1" (Some 5%Z) (Some HInt); mkParam "p2" (Some 7%Z) None;
        mkParam "p3" (Some 9%Z) None]
       [mkStmt "c0" None [AParam 0]; mkStmt "c1" None [AParam 1; AParam 1];
        mkStmt "c2" (Some inner_def) [AParam 1; AOut 0 0]; mkStmt "c3" None [AOut 2 1; AConst 4%Z]]
       [("o0", AOut 3 0); ("o1", AParam 2); ("o2", AOut 2 0)] FAuto.

Lemma hyps_hold_static : forall s v0, build outer_def "m" = Some (s, v0) ->
  closed s /\ iface_ok outer_def s /\ synced s v0.
Proof.
  intros s v0 H. split; [apply (closed_thm outer_def "m" s v0); auto|].
  split; [apply (interface_thm outer_def "m" s v0 H)|].
  apply (sync_always outer_def "m" s v0 [] v0); auto.
Qed.

(* a refused update changes nothing (and an accepted non-int is outside the model) *)
Theorem refused_update_unchanged s v p k v' n : apply_op s v (OSetBad p k) = Some (v', n) -> v' = v /\ refuses_at s p k = true.
Proof. simpl. destruct (refuses_at s p k); [intros H; inversion H; auto|discriminate]. Qed.
