(* MacroProofs.v -- proofs about Macro.v (C09).  Stdlib only, no axioms. *)
From PW Require Import Base Macro.
Open Scope nat_scope.

(* ================================================================================== *)
(* A. lists                                                                            *)
Lemma upd_nth_length {A} n (x : A) l : List.length (upd_nth n x l) = List.length l.
Proof. revert n; induction l as [|y r IH]; intros [|n]; simpl; auto. Qed.

Lemma nth_upd_same {A} n (x d : A) l : n < List.length l -> nth n (upd_nth n x l) d = x.
Proof. revert n; induction l as [|y r IH]; intros [|n] H; simpl in *; try lia; auto. apply IH; lia. Qed.

Lemma nth_upd_other {A} n m (x d : A) l : n <> m -> nth m (upd_nth n x l) d = nth m l d.
Proof.
  revert n m; induction l as [|y r IH]; intros [|n] [|m] H; simpl; auto; try congruence.
Qed.

Lemma nth_upd {A} n m (x d : A) l :
  nth m (upd_nth n x l) d = if Nat.eqb n m then (if Nat.ltb n (List.length l) then x else nth m l d) else nth m l d.
Proof.
  destruct (Nat.eqb_spec n m) as [->|Hne].
  - destruct (Nat.ltb_spec m (List.length l)).
    + now apply nth_upd_same.
    + rewrite !nth_overflow; auto. now rewrite upd_nth_length.
  - now apply nth_upd_other.
Qed.

Lemma upd_nth_overflow {A} n (x : A) l : List.length l <= n -> upd_nth n x l = l.
Proof. revert n; induction l as [|y r IH]; intros [|n] H; simpl in *; auto; try lia. f_equal; apply IH; lia. Qed.

Lemma upd_nth_same_val {A} n (d : A) l : upd_nth n (nth n l d) l = l.
Proof. revert n; induction l as [|y r IH]; intros [|n]; simpl; auto. f_equal; apply IH. Qed.

Lemma list_eq_nth {A} (d : A) l1 l2 :
  List.length l1 = List.length l2 -> (forall n, n < List.length l1 -> nth n l1 d = nth n l2 d) -> l1 = l2.
Proof.
  revert l2; induction l1 as [|x r IH]; intros [|y r2] HL H; simpl in *; try discriminate; auto.
  f_equal.
  - apply (H 0); lia.
  - apply IH; [lia|]. intros n Hn. apply (H (S n)); lia.
Qed.

Lemma val_eqb_eq a b : val_eqb a b = true <-> a = b.
Proof.
  destruct a, b; simpl; try (split; congruence).
  rewrite Z.eqb_eq. split; congruence.
Qed.

Lemma vals_eqb_eq a b : vals_eqb a b = true <-> a = b.
Proof.
  revert b; induction a as [|x a IH]; intros [|y b]; simpl; try (split; congruence).
  rewrite andb_true_iff, val_eqb_eq, IH. split; [intros [-> ->]; auto|intros H; inversion H; auto].
Qed.

Lemma cache_hit_iff c ins : cache_hit c ins = true <-> c = Some ins.
Proof.
  destruct c as [l|]; simpl; [|split; congruence].
  rewrite vals_eqb_eq. split; congruence.
Qed.

Lemma cache_hit_false c ins : cache_hit c ins = false <-> c <> Some ins.
Proof.
  rewrite <- cache_hit_iff. destruct (cache_hit c ins); split; congruence.
Qed.

(* ================================================================================== *)
(* B. unfolding the recursion through the children                                     *)
Lemma dispatch_nth {R} (f : snode -> R) body j :
  dispatch f (f (sb_node dsb)) body j = f (sb_node (nth j body dsb)).
Proof.
  revert j; induction body as [|e r IH]; intros [|j]; simpl; auto.
Qed.

Lemma dispatch_spec {R} (f : snode -> R) dflt body j :
  dispatch f dflt body j = if Nat.ltb j (List.length body) then f (sb_node (nth j body dsb)) else dflt.
Proof.
  revert j; induction body as [|e r IH]; intros [|j]; simpl; auto. rewrite IH. reflexivity.
Qed.

Definition kid (body : list (sbody snode)) (j : nat) : snode := sb_node (nth j body dsb).

Lemma set_in_mac l ps ols recvs kept uirecv body manual order v k x :
  set_in (SMac l ps ols recvs kept uirecv body manual order) v k x =
  set_mac_with (fun j vj k' => set_in (kid body j) vj k' x) recvs v k x.
Proof.
  simpl. unfold set_mac_with. destruct v as [ins outs c ui vb].
  destruct (nth_error recvs k) as [[i|j k'|]|]; auto.
  do 2 f_equal. unfold kid.
  exact (dispatch_nth (fun s' => set_in s' (nth j vb dv) k' x) body j).
Qed.

Lemma fetch_from_ext f g ui body conns k vj :
  (forall v k x, f v k x = g v k x) -> fetch_from f ui body conns k vj = fetch_from g ui body conns k vj.
Proof.
  intros H. revert k vj; induction conns as [|c r IH]; intros k vj; simpl; auto.
  destruct (first_data _); [rewrite H|]; apply IH.
Qed.

Lemma fold_opt_ext {A B} (f g : A -> B -> option A) l a :
  (forall a b, f a b = g a b) -> fold_opt f l a = fold_opt g l a.
Proof.
  intros H. revert a; induction l as [|b r IH]; intros a; simpl; auto.
  rewrite H. destruct (g a b); auto.
Qed.

Lemma run_mac_with_ext s1 s2 r1 r2 kept uirecv cinfo order v :
  (forall j vj k x, s1 j vj k x = s2 j vj k x) -> (forall j vj, r1 j vj = r2 j vj) ->
  run_mac_with s1 r1 kept uirecv cinfo order v = run_mac_with s2 r2 kept uirecv cinfo order v.
Proof.
  intros Hs Hr. unfold run_mac_with. destruct v as [ins outs c ui vb].
  destruct (cache_hit c ins); auto. destruct (all_data ins); auto.
  erewrite fold_opt_ext; [reflexivity|].
  intros st [i|j]; simpl; auto.
  destruct (nth j cinfo ([], [])) as [conns orecv].
  erewrite fetch_from_ext; [|intros; apply Hs]. rewrite Hr. reflexivity.
Qed.

Lemma run_mac l ps ols recvs kept uirecv body manual order v :
  run (SMac l ps ols recvs kept uirecv body manual order) v =
  run_mac_with (fun j vj k x => set_in (kid body j) vj k x) (fun j vj => run (kid body j) vj)
               kept uirecv (cinfo_of body) order v.
Proof.
  cbn [run]. apply run_mac_with_ext; auto.
  intros j vj. unfold kid. exact (dispatch_nth (fun s' => run s' vj) body j).
Qed.

Lemma set_in_at_nil s v k x : set_in_at s v [] k x = set_in s v k x.
Proof. destruct s; reflexivity. Qed.

Lemma set_in_at_body l ps ols recvs kept uirecv body manual order ins outs c ui vb j p k x :
  set_in_at (SMac l ps ols recvs kept uirecv body manual order) (VN ins outs c ui vb) (KBody j :: p) k x =
  VN ins outs c ui (upd_nth j (if Nat.ltb j (List.length body) then set_in_at (kid body j) (nth j vb dv) p k x
                              else nth j vb dv) vb).
Proof.
  cbn [set_in_at]. do 2 f_equal. unfold kid. apply dispatch_spec.
Qed.

Lemma set_out_at_body l ps ols recvs kept uirecv body manual order ins outs c ui vb j p lo x :
  set_out_at (SMac l ps ols recvs kept uirecv body manual order) (VN ins outs c ui vb) (KBody j :: p) lo x =
  (let '(vj', ps') := (if Nat.ltb j (List.length body) then set_out_at (kid body j) (nth j vb dv) p lo x
                       else (nth j vb dv, [])) in
   let '(outs', q) := apply_pushes (sb_orecv (nth j body dsb)) ps' outs in
   (VN ins outs' c ui (upd_nth j vj' vb), q)).
Proof.
  cbn [set_out_at]. unfold kid. rewrite dispatch_spec. reflexivity.
Qed.

(* ================================================================================== *)
(* C. induction principles, pointwise predicates                                        *)
Lemma snode_ind' (P : snode -> Prop) :
  (forall l i a, P (SFn l i a)) ->
  (forall l ps ols recvs kept uirecv body manual order,
      (forall j, P (kid body j)) -> P (SMac l ps ols recvs kept uirecv body manual order)) ->
  forall s, P s.
Proof.
  intros Hf Hm. fix IH 1. intros [l i a|l ps ols recvs kept uirecv body manual order]; [apply Hf|apply Hm].
  unfold kid. induction body as [|e r IHr]; intros j.
  - destruct j; simpl; apply Hf.
  - destruct j; simpl; [destruct e as [n c o]; simpl; apply IH|apply IHr].
Qed.

Definition dstmt : stmt mdef := mkStmt "" None [].

Lemma mdef_ind' (P : mdef -> Prop) :
  (forall ps body rets fl,
      (forall j d', s_mac (nth j body dstmt) = Some d' -> P d') -> P (MDef ps body rets fl)) ->
  forall d, P d.
Proof.
  intros H. fix IH 1. intros [ps body rets fl]. apply H.
  induction body as [|st r IHr]; intros j d'.
  - destruct j; simpl; discriminate.
  - destruct j; simpl; [|apply IHr].
    destruct st as [l [m|] a]; simpl; intros E; [|discriminate].
    exact (match E in _ = o return match o with Some d'' => P d'' | None => True end with eq_refl => IH m end).
Qed.

Definition all2 {A B} (P : A -> B -> Prop) : list A -> list B -> Prop :=
  fix go (l1 : list A) (l2 : list B) : Prop :=
    match l1, l2 with
    | [], [] => True
    | a :: r1, b :: r2 => P a b /\ go r1 r2
    | _, _ => False
    end.

Lemma all2_nth {A B} (P : A -> B -> Prop) da db l1 l2 :
  all2 P l1 l2 <-> List.length l1 = List.length l2 /\ forall j, j < List.length l1 -> P (nth j l1 da) (nth j l2 db).
Proof.
  revert l2; induction l1 as [|a r IH]; intros [|b r2]; simpl.
  - split; auto. intros _. split; auto. intros j Hj; lia.
  - split; [tauto|intros [E _]; discriminate].
  - split; [tauto|intros [E _]; discriminate].
  - rewrite IH. split.
    + intros [Hab [HL Hn]]. split; [lia|]. intros [|j] Hj; auto. apply Hn; lia.
    + intros [HL Hn]. split; [apply (Hn 0); lia|]. split; [lia|]. intros j Hj. apply (Hn (S j)); lia.
Qed.

Definition all3 {A B C} (P : A -> B -> C -> Prop) : list A -> list B -> list C -> Prop :=
  fix go (l1 : list A) (l2 : list B) (l3 : list C) : Prop :=
    match l1, l2, l3 with
    | [], [], [] => True
    | a :: r1, b :: r2, c :: r3 => P a b c /\ go r1 r2 r3
    | _, _, _ => False
    end.

Lemma all3_nth {A B C} (P : A -> B -> C -> Prop) da db dc l1 l2 l3 :
  all3 P l1 l2 l3 <-> List.length l1 = List.length l2 /\ List.length l1 = List.length l3 /\
                      forall j, j < List.length l1 -> P (nth j l1 da) (nth j l2 db) (nth j l3 dc).
Proof.
  revert l2 l3; induction l1 as [|a r IH]; intros [|b r2] [|c r3]; simpl;
    try (split; [tauto|intros (E1 & E2 & _); discriminate]).
  - split; auto. intros _. repeat split; auto. intros j Hj; lia.
  - rewrite IH. split.
    + intros [Hab (HL & HL' & Hn)]. repeat split; try lia. intros [|j] Hj; auto. apply Hn; lia.
    + intros (HL & HL' & Hn). split; [apply (Hn 0); lia|]. repeat split; try lia. intros j Hj. apply (Hn (S j)); lia.
Qed.

(* ---- what the setter touches --------------------------------------------------------- *)
Lemma set_fn_ins v k x : v_ins (set_fn v k x) = upd_nth k x (v_ins v).
Proof. destruct v; reflexivity. Qed.

Lemma set_in_ins s v k x : v_ins (set_in s v k x) = upd_nth k x (v_ins v).
Proof.
  destruct s as [l i a|l ps ols recvs kept uirecv body manual order].
  - apply set_fn_ins.
  - rewrite set_in_mac. unfold set_mac_with. destruct v as [ins outs c ui vb].
    destruct (nth_error recvs k) as [[i|j k'|]|]; reflexivity.
Qed.

Lemma set_in_outs s v k x : v_outs (set_in s v k x) = v_outs v.
Proof.
  destruct s as [l i a|l ps ols recvs kept uirecv body manual order].
  - destruct v; reflexivity.
  - rewrite set_in_mac. unfold set_mac_with. destruct v as [ins outs c ui vb].
    destruct (nth_error recvs k) as [[i|j k'|]|]; reflexivity.
Qed.

Lemma set_in_cache s v k x : v_cache (set_in s v k x) = v_cache v.
Proof.
  destruct s as [l i a|l ps ols recvs kept uirecv body manual order].
  - destruct v; reflexivity.
  - rewrite set_in_mac. unfold set_mac_with. destruct v as [ins outs c ui vb].
    destruct (nth_error recvs k) as [[i|j k'|]|]; reflexivity.
Qed.

(* ================================================================================== *)
(* D. the wiring a definition gets ([wired]) and the states in which a macro agrees
      with its definition ([coh])                                                      *)
Fixpoint last_idx (a : arg) (rets : list (string * arg)) (o : nat) : option nat :=
  match rets with
  | [] => None
  | (_, a') :: r => match last_idx a r (S o) with
                    | Some x => Some x
                    | None => if arg_eqb a a' then Some o else None
                    end
  end.

Definition conn_of (kept : list bool) (a : option arg) : list src :=
  match a with
  | Some (AParam i) => if nth i kept false then [SUI i] else []
  | Some (AOut j l) => [SBody j l]
  | _ => []
  end.

Definition sargs (body : list (stmt mdef)) (j : nat) : list arg := s_args (nth j body dstmt).

Definition wired_level (ps : list param) (body : list (stmt mdef)) (rets : list (string * arg)) (fl : flow)
    (recvs : list recv) (kept : list bool) (uirecv : list (option nat)) (sb : list (sbody snode))
    (manual : bool) (order : list kidref) : Prop :=
  let np := List.length ps in
  List.length recvs = np /\ List.length kept = np /\ List.length uirecv = np /\
  configure fl kept (List.length body) = Some (manual, order) /\
  (forall i, i < np -> nth i uirecv None = last_idx (AParam i) rets 0) /\
  (forall i, i < np -> nth i kept false = true -> nth i recvs ROrphan = RUI i) /\
  (forall i j k, i < np -> nth i kept false = false -> j < List.length body ->
                 nth_error (sargs body j) k = Some (AParam i) -> nth i recvs ROrphan = RBody j k) /\
  (forall i, i < np -> nth i kept false = false ->
             match nth i recvs ROrphan with
             | RBody j k => j < List.length body /\ nth_error (sargs body j) k = Some (AParam i)
             | ROrphan => True
             | RUI _ => False
             end) /\
  (forall i, i < np -> last_idx (AParam i) rets 0 <> None -> nth i kept false = true) /\
  (forall j, j < List.length body ->
     let e := nth j sb dsb in
     List.length (sargs body j) <= s_nins (sb_node e) /\
     List.length (sb_conns e) = s_nins (sb_node e) /\ List.length (sb_orecv e) = s_nouts (sb_node e) /\
     (forall k, k < s_nins (sb_node e) -> nth k (sb_conns e) [] = conn_of kept (nth_error (sargs body j) k)) /\
     (forall l, l < s_nouts (sb_node e) -> nth l (sb_orecv e) None = last_idx (AOut j l) rets 0)).

Fixpoint wired (d : mdef) (s : snode) {struct d} : Prop :=
  match d with MDef ps body rets fl =>
    match s with
    | SFn _ _ _ => False
    | SMac l ps' ols recvs kept uirecv sb manual order =>
        ps' = ps /\ ols = map fst rets /\
        wired_level ps body rets fl recvs kept uirecv sb manual order /\
        all2 (fun st e => match s_mac st with
                          | None => sb_node e = SFn (s_label st) false (List.length (s_args st))
                          | Some d' => wired d' (sb_node e) /\ s_label_of (sb_node e) = s_label st
                          end) body sb
    end
  end.

Definition fn_coh (idf : bool) (v : vnode) : Prop :=
  List.length (v_outs v) = 1 /\
  forall cc, v_cache v = Some cc ->
    all_data cc = true /\ v_outs v = [Some (if idf then hd 0%Z (vals cc) else mlin (vals cc))].

Definition coh_level (ps : list param) (body : list (stmt mdef)) (rets : list (string * arg))
    (recvs : list recv) (kept : list bool) (uirecv : list (option nat)) (sb : list (sbody snode))
    (ins outs : list val) (ui vb : list vnode) : Prop :=
  let np := List.length ps in
  List.length ins = np /\ List.length outs = List.length rets /\ List.length ui = np /\
  List.length vb = List.length body /\
  (forall i, i < np -> List.length (v_ins (nth i ui dv)) = 1 /\ fn_coh true (nth i ui dv)) /\
  (forall i, i < np -> nth i kept false = true -> v_ins (nth i ui dv) = [nth i ins None]) /\
  (forall i j k, i < np -> nth i kept false = false -> nth i recvs ROrphan = RBody j k ->
                 nth k (v_ins (nth j vb dv)) None = nth i ins None) /\
  (forall j k z, j < List.length body -> nth_error (sargs body j) k = Some (AConst z) ->
                 nth k (v_ins (nth j vb dv)) None = Some z) /\
  (forall j, j < List.length body -> List.length (v_ins (nth j vb dv)) = s_nins (kid sb j)) /\
  (forall i o, i < np -> nth i uirecv None = Some o -> nth o outs None = nth 0 (v_outs (nth i ui dv)) None) /\
  (forall j l o, j < List.length body -> nth l (sb_orecv (nth j sb dsb)) None = Some o ->
                 nth o outs None = nth l (v_outs (nth j vb dv)) None).

Fixpoint coh (d : mdef) (s : snode) (v : vnode) {struct d} : Prop :=
  match d with MDef ps body rets fl =>
    match s with
    | SFn _ _ _ => False
    | SMac l _ ols recvs kept uirecv sb _ _ =>
        coh_level ps body rets recvs kept uirecv sb (v_ins v) (v_outs v) (v_ui v) (v_body v) /\
        (forall cc, v_cache v = Some cc -> all_data cc = true /\ denote d cc = Some (v_outs v)) /\
        all3 (fun st e vj => match s_mac st with
                             | None => fn_coh false vj
                             | Some d' => coh d' (sb_node e) vj /\
                                          forall k, List.length (s_args st) <= k -> k < List.length (d_params d') ->
                                                    nth k (v_ins vj) None = p_default (nth k (d_params d') (mkParam "" None None))
                             end) body sb (v_body v)
    end
  end.

(* ================================================================================== *)
(* E. plain composition                                                                 *)
Definition dparam := mkParam "" None None.

Lemma fill_length given ps : List.length (fill given ps) = List.length ps.
Proof. revert given; induction ps as [|p r IH]; intros [|x g]; simpl; auto. Qed.

Lemma fill_nth given ps k : k < List.length ps ->
  nth k (fill given ps) None = if Nat.ltb k (List.length given) then nth k given None else p_default (nth k ps dparam).
Proof.
  revert given k; induction ps as [|p r IH]; intros given k Hk; simpl in *; [lia|].
  destruct given as [|x g]; destruct k as [|k]; simpl; auto.
  - rewrite IH by lia. destruct k; reflexivity.
  - rewrite IH by lia. reflexivity.
Qed.

Lemma all_data_nth l : all_data l = true <-> forall k, k < List.length l -> is_data (nth k l None) = true.
Proof.
  unfold all_data. rewrite forallb_forall. split.
  - intros H k Hk. apply H. now apply nth_In.
  - intros H x Hx. destruct (In_nth _ _ None Hx) as (k & Hk & <-). now apply H.
Qed.

Definition stmt_nouts (st : stmt mdef) : nat := match s_mac st with None => 1 | Some d' => d_nouts d' end.
Definition body_nouts (body : list (stmt mdef)) : list nat := map stmt_nouts body.

Lemma wf_body_spec wf np rets body acc :
  wf_body wf np rets body acc = true ->
  (forall j, j < List.length body ->
     forallb (ref_ok np (acc ++ firstn j (body_nouts body)) true) (sargs body j) = true /\
     match s_mac (nth j body dstmt) with
     | None => True
     | Some d' => wf d' = true /\ List.length (sargs body j) <= List.length (d_params d') /\
                  forallb (fun p => is_data (p_default p)) (skipn (List.length (sargs body j)) (d_params d')) = true
     end) /\
  forallb (fun la => ref_ok np (acc ++ body_nouts body) false (snd la)) rets = true.
Proof.
  revert acc; induction body as [|st r IH]; intros acc H; simpl in H.
  - split; [intros j Hj; simpl in Hj; lia|]. simpl. now rewrite app_nil_r.
  - apply andb_true_iff in H as [Ha H].
    assert (HR : wf_body wf np rets r (acc ++ [stmt_nouts st]) = true /\
                 match s_mac st with
                 | None => True
                 | Some d' => wf d' = true /\ List.length (s_args st) <= List.length (d_params d') /\
                              forallb (fun p => is_data (p_default p)) (skipn (List.length (s_args st)) (d_params d')) = true
                 end).
    { unfold stmt_nouts. destruct (s_mac st) as [d'|]; [|auto].
      apply andb_true_iff in H as [H H4]. apply andb_true_iff in H as [H H3]. apply andb_true_iff in H as [H1 H2].
      apply Nat.leb_le in H2. auto. }
    destruct HR as [HR Hst]. destruct (IH _ HR) as [IH1 IH2]. split.
    + intros [|j] Hj; unfold sargs; simpl.
      * rewrite app_nil_r. auto.
      * simpl in Hj. destruct (IH1 j ltac:(lia)) as [A B]. rewrite <- app_assoc in A. simpl in A. auto.
    + simpl. rewrite <- app_assoc in IH2. exact IH2.
Qed.

Definition refs_lt (n : nat) (a : arg) : Prop := match a with AOut j _ => j < n | _ => True end.

Lemma env_val_firstn args E n a : refs_lt n a -> env_val args (firstn n E) a = env_val args E a.
Proof.
  destruct a as [i|j l|z]; simpl; auto. intros H.
  destruct (Nat.ltb_spec j (List.length E)).
  - f_equal. rewrite <- (firstn_skipn n E) at 2. rewrite app_nth1; auto.
    rewrite firstn_length. lia.
  - rewrite !nth_overflow with (n := j); auto. rewrite firstn_length. lia.
Qed.

Lemma env_val_app args E E' a : refs_lt (List.length E) a -> env_val args (E ++ E') a = env_val args E a.
Proof.
  destruct a as [i|j l|z]; simpl; auto. intros H. now rewrite app_nth1.
Qed.

Lemma denote_body_app den args b env E :
  denote_body den args b env = Some E -> exists E', E = env ++ E' /\ List.length E' = List.length b.
Proof.
  revert env; induction b as [|st r IH]; intros env H; simpl in H.
  - inversion H. exists []. now rewrite app_nil_r.
  - destruct (s_mac st) as [d'|].
    + destruct (all_data _); [|discriminate]. destruct (den d' _) as [outs|]; [|discriminate].
      destruct (IH _ H) as (E' & -> & HL). exists (outs :: E'). rewrite <- app_assoc. simpl. auto.
    + destruct (all_data _); [|discriminate].
      destruct (IH _ H) as (E' & -> & HL). eexists (_ :: E'). rewrite <- app_assoc. simpl. auto.
Qed.

(* every statement's result, in terms of the FINAL environment *)
Lemma denote_body_spec den args body env E :
  denote_body den args body env = Some E ->
  (forall j a, j < List.length body -> In a (sargs body j) -> refs_lt (List.length env + j) a) ->
  forall j, j < List.length body ->
    let avs := map (env_val args E) (sargs body j) in
    match s_mac (nth j body dstmt) with
    | None => all_data avs = true /\ nth (List.length env + j) E [] = [Some (mlin (vals avs))]
    | Some d' => all_data (fill avs (d_params d')) = true /\
                 den d' (fill avs (d_params d')) = Some (nth (List.length env + j) E [])
    end.
Proof.
  revert env; induction body as [|st r IH]; intros env H Hr j Hj; simpl in Hj; [lia|].
  simpl in H.
  assert (Hst : forall E0, map (env_val args (env ++ E0)) (s_args st) = map (env_val args env) (s_args st)).
  { intros E0. apply map_ext_in. intros a Ha. apply env_val_app.
    specialize (Hr 0 a ltac:(simpl; lia) Ha). now rewrite Nat.add_0_r in Hr. }
  destruct j as [|j].
  - unfold sargs; simpl. rewrite Nat.add_0_r.
    destruct (s_mac st) as [d'|].
    + destruct (all_data (fill _ _)) eqn:Ead; [|discriminate].
      destruct (den d' _) as [outs|] eqn:Eden; [|discriminate].
      destruct (denote_body_app _ _ _ _ _ H) as (E' & -> & _).
      rewrite <- app_assoc. rewrite Hst. split; auto.
      rewrite Eden. f_equal. rewrite app_nth2 by lia. now rewrite Nat.sub_diag.
    + destruct (all_data (map _ _)) eqn:Ead; [|discriminate].
      destruct (denote_body_app _ _ _ _ _ H) as (E' & -> & _).
      rewrite <- app_assoc. rewrite Hst. split; auto.
      rewrite app_nth2 by lia. now rewrite Nat.sub_diag.
  - assert (H' : exists x, denote_body den args r (env ++ [x]) = Some E).
    { destruct (s_mac st) as [d'|].
      - destruct (all_data _); [|discriminate]. destruct (den d' _) as [outs|]; [|discriminate]. eauto.
      - destruct (all_data _); [|discriminate]. eauto. }
    destruct H' as [x H'].
    assert (IH' := IH _ H'). rewrite app_length in IH'. simpl in IH'.
    replace (List.length env + S j) with (List.length env + 1 + j) by lia.
    apply IH'; [|lia].
    intros j' a Hj' Ha. specialize (Hr (S j') a ltac:(simpl; lia) Ha).
    replace (List.length env + 1 + j') with (List.length env + S j') by lia. exact Hr.
Qed.

Definition env_ok (nouts : list nat) (env : list (list val)) : Prop :=
  List.length env = List.length nouts /\
  forall j, j < List.length env -> List.length (nth j env []) = nth j nouts 0 /\ all_data (nth j env []) = true.

Lemma env_val_data np nouts args env c a :
  List.length args = np -> all_data args = true -> env_ok nouts env -> ref_ok np nouts c a = true ->
  (a = AParam 0 \/ True) -> match a with AConst _ => True | _ => is_data (env_val args env a) = true end.
Proof.
  intros HL Had [HE Hn] Hr _. destruct a as [i|j l|z]; simpl in *; auto.
  - apply Nat.ltb_lt in Hr. apply all_data_nth; auto. lia.
  - apply andb_true_iff in Hr as [Hj Hl]. apply Nat.ltb_lt in Hj, Hl.
    destruct (Hn j ltac:(lia)) as [A B]. apply all_data_nth; auto. lia.
Qed.

Lemma env_vals_data np nouts args env l :
  List.length args = np -> all_data args = true -> env_ok nouts env ->
  forallb (ref_ok np nouts true) l = true -> all_data (map (env_val args env) l) = true.
Proof.
  intros HL Had He Hl. unfold all_data. rewrite forallb_forall. intros x Hx.
  apply in_map_iff in Hx as (a & <- & Ha). rewrite forallb_forall in Hl. specialize (Hl a Ha).
  pose proof (env_val_data np nouts args env true a HL Had He Hl (or_intror I)) as H.
  destruct a; auto.
Qed.

Lemma env_ok_snoc nouts env n outs :
  env_ok nouts env -> List.length outs = n -> all_data outs = true -> env_ok (nouts ++ [n]) (env ++ [outs]).
Proof.
  intros [HE Hn] HL Ha. split; [rewrite !app_length; simpl; lia|].
  intros j Hj. rewrite app_length in Hj. simpl in Hj.
  destruct (Nat.eq_dec j (List.length env)) as [->|Hne].
  - rewrite app_nth2 by lia. rewrite Nat.sub_diag. rewrite HE. rewrite app_nth2 by lia. rewrite Nat.sub_diag. simpl. auto.
  - rewrite !app_nth1 by lia. apply Hn. lia.
Qed.

Definition total (den : mdef -> list val -> option (list val)) (d' : mdef) : Prop :=
  forall args, List.length args = List.length (d_params d') -> all_data args = true ->
    exists outs, den d' args = Some outs /\ List.length outs = d_nouts d' /\ all_data outs = true.

Lemma fill_data avs ps :
  List.length avs <= List.length ps -> all_data avs = true ->
  forallb (fun p => is_data (p_default p)) (skipn (List.length avs) ps) = true ->
  all_data (fill avs ps) = true.
Proof.
  revert avs; induction ps as [|p r IH]; intros [|x g] HL Ha Hd; simpl in *; auto; try lia.
  - apply andb_true_iff in Hd as [Hp Hd]. rewrite Hp. simpl. apply (IH []); auto; simpl; lia.
  - apply andb_true_iff in Ha as [Hx Ha]. rewrite Hx. simpl. apply IH; auto. lia.
Qed.

Lemma denote_body_total den wf np rets args body acc env :
  (forall j d', j < List.length body -> s_mac (nth j body dstmt) = Some d' -> wf d' = true -> total den d') ->
  wf_body wf np rets body acc = true ->
  List.length args = np -> all_data args = true -> env_ok acc env ->
  exists E, denote_body den args body env = Some E /\ env_ok (acc ++ body_nouts body) E.
Proof.
  revert acc env; induction body as [|st r IH]; intros acc env Hden Hwf HL Had He; simpl.
  - exists env. split; auto. simpl. now rewrite app_nil_r.
  - simpl in Hwf. apply andb_true_iff in Hwf as [Ha Hwf].
    pose proof (env_vals_data _ _ _ _ _ HL Had He Ha) as Havs.
    assert (Hden' : forall j d', j < List.length r -> s_mac (nth j r dstmt) = Some d' -> wf d' = true -> total den d').
    { intros j d' Hj. apply (Hden (S j)). simpl; lia. }
    destruct (s_mac st) as [d'|] eqn:Em.
    + apply andb_true_iff in Hwf as [Hwf H4]. apply andb_true_iff in Hwf as [Hwf H3].
      apply andb_true_iff in Hwf as [H1 H2]. apply Nat.leb_le in H2.
      assert (Hf : all_data (fill (map (env_val args env) (s_args st)) (d_params d')) = true).
      { apply fill_data; rewrite ?map_length; auto. }
      rewrite Hf.
      destruct (Hden 0 d' ltac:(simpl; lia) Em H1 _ (fill_length _ _) Hf) as (outs & -> & HLo & Hao).
      destruct (IH (acc ++ [d_nouts d']) (env ++ [outs]) Hden' H4 HL Had (env_ok_snoc _ _ _ _ He HLo Hao)) as (E & HE & HEok).
      exists E. split; auto. unfold body_nouts; simpl. unfold stmt_nouts at 1. rewrite Em.
      now rewrite <- app_assoc in HEok.
    + rewrite Havs.
      destruct (IH (acc ++ [1]) (env ++ [[Some (mlin (vals (map (env_val args env) (s_args st))))]]) Hden' Hwf HL Had
                   (env_ok_snoc _ _ 1 [Some (mlin (vals (map (env_val args env) (s_args st))))] He eq_refl eq_refl)) as (E & HE & HEok).
      exists E. split; auto. unfold body_nouts; simpl. unfold stmt_nouts at 1. rewrite Em.
      now rewrite <- app_assoc in HEok.
Qed.

Lemma denote_total d : wfd d = true -> total denote d.
Proof.
  induction d as [ps body rets fl IH] using mdef_ind'. intros Hwf args HL Had. simpl in *.
  apply andb_true_iff in Hwf as [Hwf Hb]. 
  destruct (denote_body_total denote wfd (List.length ps) rets args body [] []) as (E & HE & HEok); auto.
  { intros j d' _ Em Hw. now apply (IH j d'). }
  { split; auto. simpl. intros j Hj; lia. }
  rewrite HE. eexists. split; [reflexivity|]. rewrite map_length. split; [reflexivity|].
  apply wf_body_spec in Hb as [_ Hr]. simpl in *.
  unfold all_data. rewrite forallb_forall. intros x Hx. apply in_map_iff in Hx as ([lab a] & <- & Ha).
  rewrite forallb_forall in Hr. specialize (Hr _ Ha). simpl in *.
  pose proof (env_val_data _ _ args E false a HL Had HEok Hr (or_intror I)) as H.
  destruct a; auto.
Qed.
