(* Flow.v -- a composite with HAND-WIRED execution signals, all children local (C02, part 2).

   [spec_*]  the plain queue interpretation of the signal connections: a FIFO of
             (emitting signal, receiving trigger) pairs; delivering a pair to an any-of
             trigger runs its owner, to an all-of trigger records the emitter and runs the
             owner when the round is complete; running a node = fetch inputs by connection
             priority, apply the function, store, append one pair per connection of each
             emitting signal (ran; plus true/false for an If node), in connection order.
   [exec_*]  the same loop as the CODE performs it (Composite._on_run /
             _run_while_children_or_signals_exist / Node.run inside a running parent): in
             addition every node keeps the inputs of its last successful run and, when it is
             triggered again with equal inputs, skips the call (cache hit) but still
             registers and emits.
   FlowProofs.v: both compute the same execution order, values, errors and queue. *)
From PW Require Import Base.

Inductive kind := KLin (k : Z) | KLt (bound : Z) | KIf.
Inductive osig := ORan | OTrue | OFalse.
Inductive isig := IRun | IAcc.

Record finput := { fi_init : option Z; fi_conns : list nat }.        (* connections newest first *)
Record fnode := { f_kind : kind; f_ins : list finput;
                  f_sig : list (osig * list (nat * isig)) }.          (* per output signal: its connections, in list order *)
Definition flow := list fnode.

Definition osig_eqb a b := match a, b with ORan, ORan | OTrue, OTrue | OFalse, OFalse => true | _, _ => false end.
Definition isig_eqb a b := match a, b with IRun, IRun | IAcc, IAcc => true | _, _ => false end.
Definition em_eqb (a b : nat * osig) := Nat.eqb (fst a) (fst b) && osig_eqb (snd a) (snd b).

Definition MODULUS : Z := 1000003.
Fixpoint lin_sum (i : Z) (args : list Z) : Z :=
  match args with [] => 0 | a :: r => (i * a + lin_sum (i + 1) r)%Z end.

Definition sem (k : kind) (args : list Z) : Z :=
  match k with
  | KLin c => ((c + lin_sum 1 args) mod MODULUS)%Z
  | KLt b => match args with a :: _ => if (a <? b)%Z then 1 else 0 | [] => 0 end%Z
  | KIf => match args with a :: _ => if (a =? 0)%Z then 0 else 1 | [] => 0 end%Z
  end.

Fixpoint set_nth {A} (l : list A) (n : nat) (x : A) : list A :=
  match l, n with
  | [], _ => []
  | _ :: r, O => x :: r
  | y :: r, S m => y :: set_nth r m x
  end.

Definition default_node : fnode := {| f_kind := KLin 0; f_ins := []; f_sig := [] |}.
Definition node (g : flow) (n : nat) : fnode := nth n g default_node.

Definition sig_conns (g : flow) (n : nat) (s : osig) : list (nat * isig) :=
  match assoc osig_eqb s (f_sig (node g n)) with Some l => l | None => [] end.

(* the connections of n's accumulate_and_run: every (emitter node, signal) listing (n, IAcc) *)
Definition acc_conns (g : flow) (n : nat) : list (nat * osig) :=
  flat_map (fun m => flat_map (fun sc : osig * list (nat * isig) =>
                                  if memb (fun a b => Nat.eqb (fst a) (fst b) && isig_eqb (snd a) (snd b))
                                          (n, IAcc) (snd sc) then [(m, fst sc)] else [])
                               (f_sig (node g m)))
           (seq 0 (List.length g)).

Record fstate := { outv : list (option Z);                 (* output value of every node     *)
                   inv : list (list (option Z));           (* own value of every input       *)
                   recv : list (list (nat * osig));        (* received set of every all-of trigger *)
                   queue : list ((nat * osig) * (nat * isig));
                   prov : list nat;                        (* provenance_by_execution        *)
                   errs : list (nat * isig) }.             (* receiving triggers whose run raised *)

Definition init_state (g : flow) : fstate :=
  {| outv := map (fun _ => None) g; inv := map (fun nd => map fi_init (f_ins nd)) g;
     recv := map (fun _ => []) g; queue := []; prov := []; errs := [] |}.

(* InputData.fetch: the first connection holding data, else the channel's own value *)
Fixpoint first_data (outs : list (option Z)) (conns : list nat) : option Z :=
  match conns with
  | [] => None
  | u :: r => match nth u outs None with Some v => Some v | None => first_data outs r end
  end.
Definition fetch1 (outs : list (option Z)) (own : option Z) (i : finput) : option Z :=
  match first_data outs (fi_conns i) with Some v => Some v | None => own end.
Fixpoint fetch_all (outs : list (option Z)) (owns : list (option Z)) (ins : list finput) : list (option Z) :=
  match ins, owns with
  | i :: ir, o :: or => fetch1 outs o i :: fetch_all outs or ir
  | i :: ir, [] => fetch1 outs None i :: fetch_all outs [] ir
  | [], _ => []
  end.

Fixpoint all_some (l : list (option Z)) : option (list Z) :=
  match l with
  | [] => Some []
  | Some v :: r => match all_some r with Some vs => Some (v :: vs) | None => None end
  | None :: _ => None
  end.

(* Node.emitting_channels / If.emitting_channels (no failures in this layer) *)
Definition emitting (g : flow) (outs : list (option Z)) (n : nat) : list osig :=
  ORan :: match f_kind (node g n) with
          | KIf => match nth n outs None with
                   | None => []
                   | Some v => if (v =? 0)%Z then [OFalse] else [OTrue]
                   end
          | _ => []
          end.

(* Composite.register_child_emitting *)
Definition emissions (g : flow) (outs : list (option Z)) (n : nat) : list ((nat * osig) * (nat * isig)) :=
  flat_map (fun s => map (fun r => ((n, s), r)) (sig_conns g n s)) (emitting g outs n).

(* ---- the plain queue interpretation --------------------------------------------------- *)
(* run node n; false = refused (ReadinessError: an input holds no data) *)
Definition spec_run_node (g : flow) (s : fstate) (n : nat) : fstate * bool :=
  let ivals := fetch_all (outv s) (nth n (inv s) []) (f_ins (node g n)) in
  let s1 := {| outv := outv s; inv := set_nth (inv s) n ivals; recv := recv s; queue := queue s;
               prov := prov s; errs := errs s |} in
  match all_some ivals with
  | None => (s1, false)
  | Some args =>
      let outs' := set_nth (outv s) n (Some (sem (f_kind (node g n)) args)) in
      ({| outv := outs'; inv := inv s1; recv := recv s; queue := queue s ++ emissions g outs' n;
          prov := prov s ++ [n]; errs := errs s |}, true)
  end.

Definition with_err (res : fstate * bool) (n : nat * isig) : fstate :=
  let '(s, ok) := res in
  if ok then s else {| outv := outv s; inv := inv s; recv := recv s; queue := queue s; prov := prov s;
                       errs := errs s ++ [n] |}.

Definition subset_em (a b : list (nat * osig)) : bool := forallb (fun x => memb em_eqb x b) a.

(* deliver the head pair (already popped) *)
Definition spec_deliver (g : flow) (s : fstate) (e : nat * osig) (r : nat * isig) : fstate :=
  let n := fst r in
  match snd r with
  | IRun => with_err (spec_run_node g s n) r
  | IAcc =>
      let got := nth n (recv s) [] in
      let got' := if memb em_eqb e got then got else e :: got in
      if subset_em (acc_conns g n) got' then
        with_err (spec_run_node g {| outv := outv s; inv := inv s; recv := set_nth (recv s) n []; queue := queue s;
                                     prov := prov s; errs := errs s |} n) r
      else {| outv := outv s; inv := inv s; recv := set_nth (recv s) n got'; queue := queue s;
              prov := prov s; errs := errs s |}
  end.

Fixpoint spec_loop (g : flow) (fuel : nat) (s : fstate) : option fstate :=
  match queue s with
  | [] => Some s
  | (e, r) :: q =>
      match fuel with
      | O => None
      | S fuel' => spec_loop g fuel' (spec_deliver g {| outv := outv s; inv := inv s; recv := recv s; queue := q;
                                                        prov := prov s; errs := errs s |} e r)
      end
  end.

(* starting nodes run one after the other; a refusal there propagates at once *)
Fixpoint spec_start (g : flow) (s : fstate) (starting : list nat) : fstate * bool :=
  match starting with
  | [] => (s, true)
  | n :: r => let '(s1, ok) := spec_run_node g s n in if ok then spec_start g s1 r else (s1, false)
  end.

Inductive outcome := Finished (s : fstate) | StartRefused (s : fstate) | OutOfFuel.

Definition spec_run (g : flow) (fuel : nat) (starting : list nat) : outcome :=
  let '(s1, ok) := spec_start g (init_state g) starting in
  if ok then match spec_loop g fuel s1 with Some s => Finished s | None => OutOfFuel end
  else StartRefused s1.

(* ---- the loop as the code performs it: with the input cache ----------------------------- *)
Record estate := { base : fstate;
                   cache : list (option (list (option Z)));   (* _cached_inputs per node *)
                   calls : list (nat * list Z) }.             (* function calls actually made *)

Fixpoint slots_eqb (a b : list (option Z)) : bool :=
  match a, b with
  | [], [] => true
  | Some x :: a', Some y :: b' => Z.eqb x y && slots_eqb a' b'
  | None :: a', None :: b' => slots_eqb a' b'
  | _, _ => false
  end.

Definition exec_run_node (g : flow) (e : estate) (n : nat) : estate * bool :=
  let s := base e in
  let ivals := fetch_all (outv s) (nth n (inv s) []) (f_ins (node g n)) in
  let s1 := {| outv := outv s; inv := set_nth (inv s) n ivals; recv := recv s; queue := queue s;
               prov := prov s; errs := errs s |} in
  let hit := match nth n (cache e) None with Some c => slots_eqb ivals c | None => false end in
  if hit then
    (* register start + finish, emit; outputs untouched, function not called *)
    ({| base := {| outv := outv s; inv := inv s1; recv := recv s; queue := queue s ++ emissions g (outv s) n;
                   prov := prov s ++ [n]; errs := errs s |};
        cache := cache e; calls := calls e |}, true)
  else
    match all_some ivals with
    | None => ({| base := s1; cache := cache e; calls := calls e |}, false)
    | Some args =>
        let outs' := set_nth (outv s) n (Some (sem (f_kind (node g n)) args)) in
        ({| base := {| outv := outs'; inv := inv s1; recv := recv s; queue := queue s ++ emissions g outs' n;
                       prov := prov s ++ [n]; errs := errs s |};
            cache := set_nth (cache e) n (Some ivals); calls := calls e ++ [(n, args)] |}, true)
    end.

Definition ewith_err (res : estate * bool) (n : nat * isig) : estate :=
  let '(e, ok) := res in
  if ok then e else
    {| base := {| outv := outv (base e); inv := inv (base e); recv := recv (base e); queue := queue (base e);
                  prov := prov (base e); errs := errs (base e) ++ [n] |}; cache := cache e; calls := calls e |}.

Definition set_base (e : estate) (s : fstate) : estate := {| base := s; cache := cache e; calls := calls e |}.

Definition exec_deliver (g : flow) (e : estate) (em : nat * osig) (r : nat * isig) : estate :=
  let s := base e in
  let n := fst r in
  match snd r with
  | IRun => ewith_err (exec_run_node g e n) r
  | IAcc =>
      let got := nth n (recv s) [] in
      let got' := if memb em_eqb em got then got else em :: got in
      if subset_em (acc_conns g n) got' then
        ewith_err (exec_run_node g (set_base e {| outv := outv s; inv := inv s; recv := set_nth (recv s) n [];
                                                  queue := queue s; prov := prov s; errs := errs s |}) n) r
      else set_base e {| outv := outv s; inv := inv s; recv := set_nth (recv s) n got'; queue := queue s;
                         prov := prov s; errs := errs s |}
  end.

Fixpoint exec_loop (g : flow) (fuel : nat) (e : estate) : option estate :=
  match queue (base e) with
  | [] => Some e
  | (em, r) :: q =>
      match fuel with
      | O => None
      | S fuel' =>
          let s := base e in
          exec_loop g fuel' (exec_deliver g (set_base e {| outv := outv s; inv := inv s; recv := recv s; queue := q;
                                                           prov := prov s; errs := errs s |}) em r)
      end
  end.

Fixpoint exec_start (g : flow) (e : estate) (starting : list nat) : estate * bool :=
  match starting with
  | [] => (e, true)
  | n :: r => let '(e1, ok) := exec_run_node g e n in if ok then exec_start g e1 r else (e1, false)
  end.

Inductive eoutcome := EFinished (e : estate) | EStartRefused (e : estate) | EOutOfFuel.

Definition exec_init (g : flow) : estate :=
  {| base := init_state g; cache := map (fun _ => None) g; calls := [] |}.

Definition exec_run (g : flow) (fuel : nat) (starting : list nat) : eoutcome :=
  let '(e1, ok) := exec_start g (exec_init g) starting in
  if ok then match exec_loop g fuel e1 with Some e => EFinished e | None => EOutOfFuel end
  else EStartRefused e1.

(* a second run() of the same composite object: provenance, queue and the received sets of the all-of
   triggers are reset (a run starts fresh rounds); values, own input values and caches persist *)
Definition exec_rerun (g : flow) (fuel : nat) (starting : list nat) (e0 : estate) : eoutcome :=
  let s := base e0 in
  let e := {| base := {| outv := outv s; inv := inv s; recv := map (fun _ => []) g; queue := []; prov := []; errs := [] |};
              cache := cache e0; calls := [] |} in
  let '(e1, ok) := exec_start g e starting in
  if ok then match exec_loop g fuel e1 with Some e => EFinished e | None => EOutOfFuel end
  else EStartRefused e1.

(* ---- observations ------------------------------------------------------------------------ *)
Fixpoint nodup_nat2 (l : list (nat * isig)) : list (nat * isig) :=
  match l with
  | [] => []
  | x :: r => if memb (fun a b => Nat.eqb (fst a) (fst b) && isig_eqb (snd a) (snd b)) x r
              then nodup_nat2 r else x :: nodup_nat2 r
  end.

Definition obs_slot (o : option Z) : obs := match o with None => OS "nd" | Some z => OZ z end.
Definition err_class (s : fstate) : Z := Z.of_nat (Nat.min 2 (List.length (nodup_nat2 (errs s)))).
Definition obs_fstate (tag : string) (s : fstate) : obs :=
  OL [OS tag; OL (map on (prov s)); OL (map obs_slot (outv s)); OZ (err_class s)].
Definition obs_calls (c : list (nat * list Z)) : obs := OL (map (fun p => OL [on (fst p); OL (map OZ (snd p))]) c).
Definition is_if (g : flow) (n : nat) : bool := match f_kind (node g n) with KIf => true | _ => false end.
Definition obs_user_calls (g : flow) (c : list (nat * list Z)) : obs :=
  obs_calls (filter (fun p => negb (is_if g (fst p))) c).
Definition obs_eoutcome (g : flow) (o : eoutcome) : obs :=
  match o with
  | EFinished e => OL [obs_fstate "finished" (base e); obs_user_calls g (calls e)]
  | EStartRefused e => OL [obs_fstate "start-refused" (base e); obs_user_calls g (calls e)]
  | EOutOfFuel => OS "out-of-fuel"
  end.

(* run once, then (optionally) run the same object again *)
Definition obs_flow (g : flow) (fuel : nat) (starting : list nat) (again : bool) : obs :=
  match exec_run g fuel starting with
  | EFinished e => if again then OL [obs_eoutcome g (EFinished e); obs_eoutcome g (exec_rerun g fuel starting e)]
                   else OL [obs_eoutcome g (EFinished e)]
  | o => OL [obs_eoutcome g o]
  end.

