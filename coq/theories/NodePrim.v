(* NodePrim.v -- primitives targeted by tools/py2gallina_node.py (Node.cache_hit, Node.data_input_locked).
     self.inputs.to_value_dict() == self._cached_inputs     py_dict_eq_opt now cached   (a dict never equals None)
     try: return E  except Exception: return False          E   (on the model's integer values == cannot raise)
     self.running / self.failed                             the two flags, as parameters *)
From PW Require Import Base CacheKeys.
Definition py_dict_eq_opt (now : dict) (cached : option dict) : bool :=
  match cached with Some c => dict_eqb now c | None => false end.
