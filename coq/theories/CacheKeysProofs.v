From PW Require Import Base CacheKeys.

Lemma slot_eqb_eq a b : slot_eqb a b = true <-> a = b.
Proof.
  destruct a as [x|], b as [y|]; cbn; split; intros H; try discriminate; try reflexivity.
  - apply Z.eqb_eq in H. subst. reflexivity.
  - inversion H. apply Z.eqb_refl.
Qed.

Lemma assoc_in_keys (k : string) (d : dict) v : assoc String.eqb k d = Some v -> In k (keys d).
Proof.
  induction d as [|[k' v'] r IH]; cbn; [discriminate|].
  destruct (String.eqb k k') eqn:E; intros H.
  - left. apply String.eqb_eq in E. symmetry. exact E.
  - right. apply IH. exact H.
Qed.

Lemma assoc_none_not_in (k : string) (d : dict) : assoc String.eqb k d = None <-> ~ In k (keys d).
Proof.
  induction d as [|[k' v'] r IH]; cbn; [tauto|].
  destruct (String.eqb k k') eqn:E.
  - apply String.eqb_eq in E. subst. split; [discriminate | intros H; exfalso; apply H; left; reflexivity].
  - apply String.eqb_neq in E. rewrite IH. split; [intros H [H1|H1]; [congruence | tauto] | tauto].
Qed.

Lemma assoc_self (d : dict) k v : NoDup (keys d) -> In (k, v) d -> assoc String.eqb k d = Some v.
Proof.
  induction d as [|[k' v'] r IH]; cbn; [tauto|].
  intros Hn [H|H].
  - inversion H; subst. rewrite String.eqb_refl. reflexivity.
  - inversion Hn as [|? ? Hk Hr]; subst. destruct (String.eqb k k') eqn:E.
    + apply String.eqb_eq in E. subst. exfalso. apply Hk. change (In (fst (k', v)) (map fst r)). apply in_map. exact H.
    + apply IH; assumption.
Qed.

(* every entry of [a] is found in [b] with an equal value *)
Definition sub (a b : dict) : Prop := forall k v, In (k, v) a -> assoc String.eqb k b = Some v.

Lemma forallb_sub a b :
  forallb (fun kv => match assoc String.eqb (fst kv) b with Some v => slot_eqb (snd kv) v | None => false end) a = true
  <-> sub a b.
Proof.
  unfold sub. rewrite forallb_forall. split.
  - intros H k v Hin. specialize (H (k, v) Hin). cbn in H.
    destruct (assoc String.eqb k b) as [v'|]; [|discriminate]. apply slot_eqb_eq in H. subst. reflexivity.
  - intros H [k v] Hin. cbn. rewrite (H k v Hin). apply slot_eqb_eq. reflexivity.
Qed.

(* pigeonhole on key lists *)
Lemma incl_nodup_length (a b : list string) : NoDup a -> incl a b -> List.length a <= List.length b.
Proof. intros Ha Hi. apply NoDup_incl_length; assumption. Qed.

Lemma keys_length (d : dict) : List.length (keys d) = List.length d.
Proof. unfold keys. apply map_length. Qed.

Lemma sub_keys_incl a b : sub a b -> incl (keys a) (keys b).
Proof.
  intros H k Hk. unfold keys in Hk. apply in_map_iff in Hk. destruct Hk as [[k' v] [E Hin]]. cbn in E. subst.
  apply (assoc_in_keys _ _ v). apply H. exact Hin.
Qed.

(* a hit means: the same key set ... *)
Theorem hit_same_keys a b : NoDup (keys a) -> NoDup (keys b) -> dict_eqb a b = true ->
  forall k, In k (keys a) <-> In k (keys b).
Proof.
  intros Ha Hb H. unfold dict_eqb in H. apply andb_true_iff in H. destruct H as [Hl Hs].
  apply Nat.eqb_eq in Hl. apply forallb_sub in Hs. pose proof (sub_keys_incl _ _ Hs) as Hi.
  intros k. split; [apply Hi|].
  assert (Hi' : incl (keys b) (keys a)).
  { apply NoDup_length_incl; [exact Ha | rewrite !keys_length; lia | exact Hi]. }
  apply Hi'.
Qed.

(* ... and equal values key by key *)
Theorem hit_same_values a b : NoDup (keys a) -> NoDup (keys b) -> dict_eqb a b = true ->
  forall k, assoc String.eqb k a = assoc String.eqb k b.
Proof.
  intros Ha Hb H k. pose proof (hit_same_keys a b Ha Hb H k) as Hk.
  unfold dict_eqb in H. apply andb_true_iff in H. destruct H as [_ Hs]. apply forallb_sub in Hs.
  destruct (assoc String.eqb k a) as [v|] eqn:Ea.
  - symmetry. apply Hs. clear - Ea. induction a as [|[k' v'] r IH]; cbn in *; [discriminate|].
    destruct (String.eqb k k') eqn:E; [apply String.eqb_eq in E; inversion Ea; subst; left; reflexivity | right; apply IH; exact Ea].
  - symmetry. apply assoc_none_not_in. apply assoc_none_not_in in Ea. tauto.
Qed.

(* conversely, extensionally equal dictionaries hit *)
Theorem same_dict_hits a b : NoDup (keys a) -> NoDup (keys b) ->
  (forall k, assoc String.eqb k a = assoc String.eqb k b) -> dict_eqb a b = true.
Proof.
  intros Ha Hb H. unfold dict_eqb. apply andb_true_iff. split.
  - apply Nat.eqb_eq. rewrite <- !keys_length. apply Nat.le_antisymm; apply NoDup_incl_length; try assumption.
    + intros k Hk. destruct (assoc String.eqb k b) eqn:E; [apply (assoc_in_keys _ _ _ E)|].
      rewrite <- H in E. apply assoc_none_not_in in E. tauto.
    + intros k Hk. destruct (assoc String.eqb k a) eqn:E; [apply (assoc_in_keys _ _ _ E)|].
      rewrite H in E. apply assoc_none_not_in in E. tauto.
  - apply forallb_sub. intros k v Hin. rewrite <- H. apply assoc_self; assumption.
Qed.

(* the clause a key-by-key comparison over the CURRENT labels forgets: a key that was dropped *)
Theorem dropped_key_misses now cached k : NoDup (keys now) -> NoDup (keys cached) ->
  In k (keys cached) -> ~ In k (keys now) -> dict_eqb now cached = false.
Proof.
  intros Ha Hb Hin Hnot. destruct (dict_eqb now cached) eqn:E; [|reflexivity].
  exfalso. apply Hnot. apply (hit_same_keys now cached Ha Hb E k). exact Hin.
Qed.

Theorem added_key_misses now cached k : NoDup (keys now) -> NoDup (keys cached) ->
  In k (keys now) -> ~ In k (keys cached) -> dict_eqb now cached = false.
Proof.
  intros Ha Hb Hin Hnot. destruct (dict_eqb now cached) eqn:E; [|reflexivity].
  exfalso. apply Hnot. apply (hit_same_keys now cached Ha Hb E k). exact Hin.
Qed.

Theorem no_hit_while_running_or_failed r f now cached : r || f = true -> cache_hit r f now cached = false.
Proof. intros H. unfold cache_hit. rewrite H. reflexivity. Qed.
