(* CacheProofs.v -- caching is transparent at node level: the cached machine and its twin
   with use_cache = false are observationally equal over every history. *)
From PW Require Import Base Cache.

Section Twin.
Variable fsem : Z -> list Z -> res.

(* histories are written over user-level operations; a run on an executor is observed
   when it has completed (its eventual result) *)
Inductive mop := MAssign (j : nat) (v : Z) | MRunLocal | MRunRemote | MClearFailed | MEditReset (c : Z)
               | MEditSilent (c : Z).

Definition mstep (uc : bool) (s : nstate) (m : mop) : nstate * outcome :=
  match m with
  | MAssign j v => step fsem uc s (Assign j v)
  | MRunLocal => step fsem uc s RunLocal
  | MRunRemote => let '(s1, o1) := step fsem uc s Submit in
                  let '(s2, o2) := step fsem uc s1 Complete in
                  (s2, match o1 with OFuture => o2 | _ => o1 end)
  | MClearFailed => step fsem uc s ClearFailed
  | MEditReset c => step fsem uc s (EditReset c)
  | MEditSilent c => step fsem uc s (EditSilent c)
  end.

Fixpoint mtrace (uc : bool) (s : nstate) (ms : list mop) : list (outcome * (list (option Z) * option Z * bool * bool)) :=
  match ms with
  | [] => []
  | m :: r => let '(s1, o) := mstep uc s m in (o, visible s1) :: mtrace uc s1 r
  end.

Definition silent_free (ms : list mop) : Prop := forall c, ~ In (MEditSilent c) ms.

(* the cache key, when present, is a complete input vector whose result is the current output *)
Definition CacheOK (s : nstate) : Prop :=
  forall c, cached s = Some c -> exists args v, all_some c = Some args /\ fsem (cfg s) args = RVal v /\ outp s = Some v.

Record Rel (sc su : nstate) : Prop := {
  r_ins : ins sc = ins su; r_out : outp sc = outp su; r_run : running sc = false; r_run' : running su = false;
  r_failed : failed sc = failed su; r_fl : flight sc = None; r_fl' : flight su = None; r_cfg : cfg sc = cfg su;
  r_ok : CacheOK sc }.

Lemma slots_eqb_eq a : forall b, slots_eqb a b = true -> a = b.
Proof.
  induction a as [|[x|] a IH]; intros [|[y|] b] H; cbn in H; try discriminate; auto.
  - apply andb_true_iff in H. destruct H as [H1 H2]. apply Z.eqb_eq in H1. subst. f_equal. auto.
  - f_equal. auto.
Qed.

Ltac rel_goal :=
  first [ reflexivity | assumption | congruence
        | (let c' := fresh "c'" in let Hc' := fresh "Hc'" in
           intros c' Hc'; cbn in Hc';
           first [ discriminate
                 | solve [ inversion Hc'; subst;
                           match goal with
                           | H : CacheOK ?s, E : cached ?s = Some ?c |- _ =>
                               let a := fresh "a" in let v := fresh "v" in
                               destruct (H c E) as [a [v [? [? ?]]]]; exists a, v; cbn; auto
                           end ]
                 | (inversion Hc'; subst; eexists; eexists; repeat split; eauto) ])
        | auto ].
Ltac close_twin := cbn [finish fst snd flight cfg]; split; [reflexivity | constructor; cbn; rel_goal].

Lemma run_local_twin sc su : Rel sc su ->
  snd (run fsem true sc false) = snd (run fsem false su false) /\
  Rel (fst (run fsem true sc false)) (fst (run fsem false su false)).
Proof.
  intros [Hi Ho Hr Hr' Hf Hfl Hfl' Hc Hok]. unfold run, cache_hit. cbn [andb].
  rewrite Hr, Hr'. cbn [orb]. rewrite <- Hf, <- Hi, <- Hc.
  destruct (failed sc) eqn:Ef; cbn [negb andb]; [close_twin|].
  destruct (cached sc) as [c|] eqn:Ec.
  - destruct (slots_eqb (ins sc) c) eqn:Eh.
    + (* hit: the twin recomputes the same value *)
      apply slots_eqb_eq in Eh. destruct (Hok c Ec) as [args [v [Ha [Hs Hv]]]].
      rewrite Eh, Ha, Hs. cbn [fst snd finish]. rewrite Hv. split; [reflexivity|].
      constructor; cbn; rel_goal.
    + destruct (all_some (ins sc)) as [args|] eqn:Ea; [|close_twin].
      destruct (fsem (cfg sc) args) as [v|t] eqn:Es; close_twin.
  - destruct (all_some (ins sc)) as [args|] eqn:Ea; [|close_twin].
    destruct (fsem (cfg sc) args) as [v|t] eqn:Es; close_twin.
Qed.

Lemma run_remote_twin sc su : Rel sc su ->
  snd (mstep true sc MRunRemote) = snd (mstep false su MRunRemote) /\
  Rel (fst (mstep true sc MRunRemote)) (fst (mstep false su MRunRemote)).
Proof.
  intros [Hi Ho Hr Hr' Hf Hfl Hfl' Hc Hok]. unfold mstep, step, run, cache_hit. cbn [andb].
  rewrite Hr, Hr'. cbn [orb]. rewrite <- Hf, <- Hi, <- Hc.
  destruct (failed sc) eqn:Ef; cbn [negb andb].
  { cbn. rewrite Hfl, Hfl'. cbn. close_twin. }
  destruct (cached sc) as [c|] eqn:Ec.
  - destruct (slots_eqb (ins sc) c) eqn:Eh.
    + apply slots_eqb_eq in Eh. destruct (Hok c Ec) as [args [v [Ha [Hs Hv]]]].
      rewrite Eh, Ha. cbn. rewrite Hfl. cbn. rewrite Hs. cbn.
      rewrite Hv. split; [reflexivity|]. constructor; cbn; rel_goal.
    + destruct (all_some (ins sc)) as [args|] eqn:Ea.
      * cbn. destruct (fsem (cfg sc) args) as [v|t] eqn:Es; cbn; close_twin.
      * cbn. rewrite Hfl, Hfl'. cbn. close_twin.
  - destruct (all_some (ins sc)) as [args|] eqn:Ea.
    + cbn. destruct (fsem (cfg sc) args) as [v|t] eqn:Es; cbn; close_twin.
    + cbn. rewrite Hfl, Hfl'. cbn. close_twin.
Qed.

Lemma mstep_twin sc su m : Rel sc su -> (forall c, m <> MEditSilent c) ->
  snd (mstep true sc m) = snd (mstep false su m) /\ visible (fst (mstep true sc m)) = visible (fst (mstep false su m)) /\
  Rel (fst (mstep true sc m)) (fst (mstep false su m)).
Proof.
  intros HR Hm.
  assert (G : snd (mstep true sc m) = snd (mstep false su m) /\ Rel (fst (mstep true sc m)) (fst (mstep false su m))).
  { destruct m as [j v| | | |c|c].
    - destruct HR as [Hi Ho Hr Hr' Hf Hfl Hfl' Hc Hok]. cbn. rewrite Hr, Hr'. cbn. split; [reflexivity|].
      constructor; cbn; rel_goal.
    - apply run_local_twin. exact HR.
    - apply run_remote_twin. exact HR.
    - destruct HR as [Hi Ho Hr Hr' Hf Hfl Hfl' Hc Hok]. cbn. split; [reflexivity|]. constructor; cbn; rel_goal.
    - destruct HR as [Hi Ho Hr Hr' Hf Hfl Hfl' Hc Hok]. cbn. rewrite Hr, Hr'. cbn. split; [reflexivity|].
      constructor; cbn; rel_goal.
    - exfalso. apply (Hm c). reflexivity. }
  destruct G as [G1 G2]. split; [exact G1|]. split; [|exact G2].
  destruct G2 as [Hi Ho Hr Hr' Hf _ _ _ _]. unfold visible. now rewrite Hi, Ho, Hr, Hr', Hf.
Qed.

Theorem twin_equal ms : silent_free ms -> forall sc su, Rel sc su -> mtrace true sc ms = mtrace false su ms.
Proof.
  induction ms as [|m r IH]; intros Hs sc su HR; [reflexivity|]. cbn [mtrace].
  assert (Hm : forall c, m <> MEditSilent c) by (intros c E; apply (Hs c); left; auto).
  destruct (mstep_twin sc su m HR Hm) as [Ho [Hv HR']].
  destruct (mstep true sc m) as [sc1 oc]. destruct (mstep false su m) as [su1 ou]. cbn [fst snd] in *.
  subst ou. rewrite Hv. f_equal. apply IH; auto. intros c Hin. apply (Hs c). right. exact Hin.
Qed.

Lemma init_rel n_in c : Rel (init n_in c) (init n_in c).
Proof. constructor; cbn; auto; try congruence. intros c' H. discriminate. Qed.

(* while a job is out, every attempt to change or re-run the node is refused and changes nothing *)
Fixpoint has_complete (o : op) : bool :=
  match o with Complete => true | WhileOut o' => has_complete o' | _ => false end.

Lemma in_flight_frozen uc s o : running s = true -> failed s = false -> has_complete o = false ->
  fst (step fsem uc s o) = s.
Proof.
  intros Hr Hf. induction o; cbn; intros Hc; try discriminate; try (rewrite Hr; reflexivity).
  - unfold run, cache_hit. rewrite Hr. cbn. rewrite andb_false_r. cbn. reflexivity.
  - unfold run, cache_hit. rewrite Hr. cbn. rewrite andb_false_r. cbn. reflexivity.
  - destruct s; cbn in *. subst. reflexivity.
  - rewrite Hr. auto.
Qed.
End Twin.

(* with a silent internal edit (rewiring / assigning an internal input of a composite) the
   statement is false: the cache key survives the edit (known finding S5) *)
Lemma twin_refuted_silent_edit :
  exists ms, mtrace chk true (init [Some 1%Z] 5) ms <> mtrace chk false (init [Some 1%Z] 5) ms.
Proof. exists [MRunLocal; MEditSilent 7; MRunLocal]. vm_compute. discriminate. Qed.
