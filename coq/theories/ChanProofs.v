(* ChanProofs.v -- proofs about the connection store model Chan.v (property C12). *)
From PW Require Import Base Chan.

(* ---- lists ------------------------------------------------------------------------- *)
Lemma memn_true x l : memn x l = true -> In x l.
Proof. apply memn_In. Qed.
Lemma memn_false x l : memn x l = false -> ~ In x l.
Proof. intros H HI. apply memn_In in HI. congruence. Qed.
Lemma memn_false_of x l : ~ In x l -> memn x l = false.
Proof. intros H. destruct (memn x l) eqn:E; auto. apply memn_In in E. contradiction. Qed.

Lemma remove1_notin x l : ~ In x l -> remove1 Nat.eqb x l = l.
Proof.
  induction l as [|y r IH]; simpl; auto. intros H.
  destruct (Nat.eqb x y) eqn:E.
  - apply Nat.eqb_eq in E. subst. exfalso. apply H. now left.
  - f_equal. apply IH. intros HI. apply H. now right.
Qed.

Lemma remove1_incl x l y : In y (remove1 Nat.eqb x l) -> In y l.
Proof.
  induction l as [|z r IH]; simpl; auto.
  destruct (Nat.eqb x z); simpl; intros H; auto. destruct H; auto.
Qed.

Lemma remove1_In_nodup x l y : NoDup l -> (In y (remove1 Nat.eqb x l) <-> In y l /\ y <> x).
Proof.
  induction l as [|z r IH]; simpl; intros ND; [tauto|].
  inversion ND as [|? ? Hz ND']; subst.
  destruct (Nat.eqb x z) eqn:E.
  - apply Nat.eqb_eq in E. subst z. split.
    + intros H. split; auto. intros ->. contradiction.
    + intros [[H|H] Hn]; auto. congruence.
  - apply Nat.eqb_neq in E. simpl. rewrite (IH ND'). split.
    + intros [H|[H Hn]]; [subst; split; auto|split; auto].
    + intros [[H|H] Hn]; auto.
Qed.

Lemma remove1_nodup x l : NoDup l -> NoDup (remove1 Nat.eqb x l).
Proof.
  induction l as [|z r IH]; simpl; intros ND; auto.
  inversion ND as [|? ? Hz ND']; subst.
  destruct (Nat.eqb x z); auto. constructor; auto.
  intros H. apply remove1_incl in H. contradiction.
Qed.

Lemma remove1_length_in x l : In x l -> S (List.length (remove1 Nat.eqb x l)) = List.length l.
Proof.
  induction l as [|z r IH]; simpl; [tauto|]. intros H.
  destruct (Nat.eqb x z) eqn:E; auto. simpl. f_equal. apply IH.
  destruct H; auto. subst. rewrite Nat.eqb_refl in E. discriminate.
Qed.

(* ---- the store --------------------------------------------------------------------- *)
Lemma setc_length s c l : List.length (setc s c l) = List.length s.
Proof. revert c; induction s as [|x r IH]; intros [|c]; simpl; auto. Qed.

Lemma conns_setc_eq s c l : c < List.length s -> conns (setc s c l) c = l.
Proof.
  unfold conns. revert c; induction s as [|x r IH]; intros [|c]; simpl; intros H; try lia; auto.
  apply IH. lia.
Qed.

Lemma conns_setc_neq s c d l : d <> c -> conns (setc s c l) d = conns s d.
Proof.
  unfold conns. revert c d; induction s as [|x r IH]; intros [|c] [|d]; simpl; intros H; auto; try congruence.
Qed.

Lemma conns_out s c : List.length s <= c -> conns s c = [].
Proof. intros H. unfold conns. now apply nth_overflow. Qed.

Lemma conns_in_lt s a b : In b (conns s a) -> a < List.length s.
Proof.
  intros H. destruct (lt_dec a (List.length s)); auto.
  rewrite conns_out in H by lia. contradiction.
Qed.

(* ---- conjugacy, validity ------------------------------------------------------------ *)
Lemma flavor_eqb_sym a b : flavor_eqb a b = flavor_eqb b a.
Proof. destruct a, b; reflexivity. Qed.
Lemma dir_eqb_sym a b : dir_eqb a b = dir_eqb b a.
Proof. destruct a, b; reflexivity. Qed.

Lemma conjb_sym W a b : conjb W a b = conjb W b a.
Proof.
  unfold conjb. destruct (cget W a), (cget W b); auto.
  now rewrite flavor_eqb_sym, dir_eqb_sym.
Qed.

Lemma conjb_irrefl W a : conjb W a a = false.
Proof.
  unfold conjb. destruct (cget W a) as [x|]; auto.
  destruct (c_flavor x), (c_dir x); reflexivity.
Qed.

Lemma conjb_lt W a b : conjb W a b = true -> a < List.length W /\ b < List.length W.
Proof.
  unfold conjb, cget. destruct (nth_error W a) eqn:Ea; [|discriminate].
  destruct (nth_error W b) eqn:Eb; [|discriminate]. intros _.
  split; apply nth_error_Some; congruence.
Qed.

Lemma validb_sym W a b : conjb W a b = true -> validb W b a = validb W a b.
Proof.
  unfold conjb, validb. destruct (cget W a) as [x|]; [|discriminate].
  destruct (cget W b) as [y|]; [|discriminate].
  destruct (c_flavor x), (c_flavor y), (c_dir x), (c_dir y); simpl; try discriminate; intros _; auto;
    destruct (c_hint x), (c_hint y); auto.
Qed.

(* what the property calls a legal pair: an input with an output of the same kind *)
Definition conjugate (W : world) (a b : nat) : Prop :=
  exists x y, cget W a = Some x /\ cget W b = Some y /\
              c_flavor x = c_flavor y /\ c_dir x <> c_dir y.

Lemma conjb_spec W a b : conjb W a b = true <-> conjugate W a b.
Proof.
  unfold conjb, conjugate. split.
  - destruct (cget W a) as [x|]; [|discriminate]. destruct (cget W b) as [y|]; [|discriminate].
    intros H. exists x, y. repeat split; auto.
    + destruct (c_flavor x), (c_flavor y); simpl in H; auto; discriminate.
    + destruct (c_flavor x), (c_flavor y), (c_dir x), (c_dir y); simpl in H; congruence.
  - intros (x & y & -> & -> & Hf & Hd). rewrite Hf.
    destruct (c_flavor y), (c_dir x), (c_dir y); simpl; auto; congruence.
Qed.

(* ---- the invariant ------------------------------------------------------------------ *)
Record Inv (W : world) (s : cstore) : Prop := mkInv {
  inv_len : List.length s = List.length W;
  inv_sym : forall a b, In b (conns s a) -> In a (conns s b);
  inv_conj : forall a b, In b (conns s a) -> conjb W a b = true;
  inv_nodup : forall a, NoDup (conns s a);
  inv_typed : forall a b, In b (conns s a) -> validb W a b = true
}.

Lemma Inv_init W : Inv W (map (fun _ => []) W).
Proof.
  assert (E : forall a, conns (map (fun _ : cstat => @nil nat) W) a = []).
  { intros a. unfold conns. revert a. induction W as [|x r IH]; intros [|a]; simpl; auto. }
  constructor; try (intros a b H; rewrite E in H; contradiction).
  - apply map_length.
  - intros a. rewrite E. constructor.
Qed.

Section Prims.
Variable W : world.

(* an accepted new connection: the edge set grows by exactly {a,b} *)
Lemma connect_new_conns s a b d :
  a <> b -> a < List.length s -> b < List.length s ->
  conns (setc (setc s a (b :: conns s a)) b (a :: conns (setc s a (b :: conns s a)) b)) d =
  if Nat.eqb d a then b :: conns s a else if Nat.eqb d b then a :: conns s b else conns s d.
Proof.
  intros Hab Ha Hb.
  destruct (Nat.eqb d a) eqn:Eda.
  - apply Nat.eqb_eq in Eda. subst d. rewrite conns_setc_neq by auto. now rewrite conns_setc_eq.
  - apply Nat.eqb_neq in Eda. destruct (Nat.eqb d b) eqn:Edb.
    + apply Nat.eqb_eq in Edb. subst d. rewrite conns_setc_eq by (rewrite setc_length; auto).
      now rewrite conns_setc_neq by auto.
    + apply Nat.eqb_neq in Edb. now rewrite !conns_setc_neq by auto.
Qed.

Lemma connect1_Inv s a b : Inv W s -> Inv W (fst (connect1 W s a b)).
Proof.
  intros I. unfold connect1.
  destruct (memn b (conns s a)) eqn:Em; [exact I|].
  destruct (conjb W a b) eqn:Ec; [|exact I].
  destruct (validb W a b) eqn:Ev; [|exact I].
  simpl. apply memn_false in Em.
  assert (Hab : a <> b) by (intros ->; rewrite conjb_irrefl in Ec; discriminate).
  destruct (conjb_lt _ _ _ Ec) as [Ha Hb]. rewrite <- (inv_len _ _ I) in Ha, Hb.
  assert (Hba : ~ In a (conns s b)) by (intros H; apply Em; now apply (inv_sym _ _ I)).
  set (s' := setc _ b _).
  assert (C : forall d, conns s' d =
            if Nat.eqb d a then b :: conns s a else if Nat.eqb d b then a :: conns s b else conns s d)
    by (intros d; apply connect_new_conns; auto).
  assert (E : forall x y, In y (conns s' x) <-> In y (conns s x) \/ (x = a /\ y = b) \/ (x = b /\ y = a)).
  { intros x y. rewrite C. destruct (Nat.eqb x a) eqn:Exa.
    - apply Nat.eqb_eq in Exa. subst x. simpl. split.
      + intros [H|H]; auto.
      + intros [H|[[_ H]|[H _]]]; auto. congruence.
    - apply Nat.eqb_neq in Exa. destruct (Nat.eqb x b) eqn:Exb.
      + apply Nat.eqb_eq in Exb. subst x. simpl. split.
        * intros [H|H]; auto.
        * intros [H|[[H _]|[_ H]]]; auto. congruence.
      + apply Nat.eqb_neq in Exb. split; auto. intros [H|[[H _]|[H _]]]; auto; congruence. }
  constructor.
  - unfold s'. rewrite !setc_length. apply (inv_len _ _ I).
  - intros x y H. apply E in H. apply E. destruct H as [H|[[-> ->]|[-> ->]]]; auto.
    left. now apply (inv_sym _ _ I).
  - intros x y H. apply E in H. destruct H as [H|[[-> ->]|[-> ->]]]; auto.
    + now apply (inv_conj _ _ I).
    + now rewrite conjb_sym.
  - intros x. rewrite C. destruct (Nat.eqb x a); [|destruct (Nat.eqb x b)].
    + constructor; auto. apply (inv_nodup _ _ I).
    + constructor; auto. apply (inv_nodup _ _ I).
    + apply (inv_nodup _ _ I).
  - intros x y H. apply E in H. destruct H as [H|[[-> ->]|[-> ->]]]; auto.
    + now apply (inv_typed _ _ I).
    + now rewrite validb_sym.
Qed.

Lemma connect1_err s a b s' e : connect1 W s a b = (s', Err e) -> s' = s.
Proof.
  unfold connect1. destruct (memn b (conns s a)); [inversion 1|].
  destruct (conjb W a b); [|now inversion 1].
  destruct (validb W a b); now inversion 1.
Qed.

(* one disconnect under the invariant: both sides lose exactly the other *)
Lemma disc1_unconnected s a b : ~ In b (conns s a) -> disc1 s a b = s.
Proof. intros H. unfold disc1. simpl. now rewrite memn_false_of. Qed.

Lemma disc1_connected s a b : Inv W s -> In b (conns s a) ->
  disc1 s a b = setc (setc s a (remove1 Nat.eqb b (conns s a))) b (remove1 Nat.eqb a (conns s b)).
Proof.
  intros I Hab.
  assert (Hba : In a (conns s b)) by now apply (inv_sym _ _ I).
  assert (Hne : a <> b).
  { intros ->. pose proof (inv_conj _ _ I _ _ Hab) as H. rewrite conjb_irrefl in H. discriminate. }
  pose proof (conns_in_lt _ _ _ Hab) as Ha. pose proof (conns_in_lt _ _ _ Hba) as Hb.
  unfold disc1.
  pose proof (remove1_length_in _ _ Hab) as La. pose proof (remove1_length_in _ _ Hba) as Lb.
  replace (List.length (conns s a) + List.length (conns s b))
    with (S (S (List.length (remove1 Nat.eqb b (conns s a)) + List.length (remove1 Nat.eqb a (conns s b)))))
    by lia.
  cbn [disc_rec].
  rewrite (proj2 (memn_In b (conns s a)) Hab).
  set (s1 := setc s a _).
  assert (E1 : conns s1 b = conns s b) by (unfold s1; apply conns_setc_neq; auto).
  rewrite E1. rewrite (proj2 (memn_In a (conns s b)) Hba).
  set (s2 := setc s1 b _).
  assert (E2 : conns s2 a = remove1 Nat.eqb b (conns s a)).
  { unfold s2. rewrite conns_setc_neq by auto. unfold s1. now apply conns_setc_eq. }
  rewrite E2. rewrite memn_false_of; auto.
  intros H. apply (remove1_In_nodup b (conns s a) b (inv_nodup _ _ I a)) in H. tauto.
Qed.

Lemma disc1_conns s a b d : Inv W s ->
  conns (disc1 s a b) d =
  if Nat.eqb d a then remove1 Nat.eqb b (conns s a)
  else if Nat.eqb d b then remove1 Nat.eqb a (conns s b) else conns s d.
Proof.
  intros I. destruct (in_dec Nat.eq_dec b (conns s a)) as [Hab|Hab].
  - assert (Hba : In a (conns s b)) by now apply (inv_sym _ _ I).
    assert (Hne : a <> b).
    { intros ->. pose proof (inv_conj _ _ I _ _ Hab) as H. rewrite conjb_irrefl in H. discriminate. }
    pose proof (conns_in_lt _ _ _ Hab) as Ha. pose proof (conns_in_lt _ _ _ Hba) as Hb.
    rewrite disc1_connected by auto.
    destruct (Nat.eqb d a) eqn:Eda.
    + apply Nat.eqb_eq in Eda. subst d. rewrite conns_setc_neq by auto. now apply conns_setc_eq.
    + apply Nat.eqb_neq in Eda. destruct (Nat.eqb d b) eqn:Edb.
      * apply Nat.eqb_eq in Edb. subst d. apply conns_setc_eq. now rewrite setc_length.
      * apply Nat.eqb_neq in Edb. now rewrite !conns_setc_neq by auto.
  - rewrite disc1_unconnected by auto.
    assert (Hba : ~ In a (conns s b)) by (intros H; apply Hab; now apply (inv_sym _ _ I)).
    destruct (Nat.eqb d a) eqn:Eda.
    + apply Nat.eqb_eq in Eda. subst d. now rewrite remove1_notin.
    + destruct (Nat.eqb d b) eqn:Edb; auto.
      apply Nat.eqb_eq in Edb. subst d. now rewrite remove1_notin.
Qed.

Lemma disc1_Inv s a b : Inv W s -> Inv W (disc1 s a b).
Proof.
  intros I.
  destruct (in_dec Nat.eq_dec b (conns s a)) as [Hab|Hab]; [|now rewrite disc1_unconnected].
  assert (Hne : a <> b).
  { intros ->. pose proof (inv_conj _ _ I _ _ Hab) as H. rewrite conjb_irrefl in H. discriminate. }
  assert (E : forall x y, In y (conns (disc1 s a b) x) <->
                          In y (conns s x) /\ ~ (x = a /\ y = b) /\ ~ (x = b /\ y = a)).
  { intros x y. rewrite disc1_conns by auto.
    destruct (Nat.eqb x a) eqn:Exa.
    - apply Nat.eqb_eq in Exa. subst x. rewrite remove1_In_nodup by apply (inv_nodup _ _ I).
      split; [intros [H Hn]; repeat split; auto; intros [? ?]; congruence|].
      intros (H & Hn & _). split; auto.
    - apply Nat.eqb_neq in Exa. destruct (Nat.eqb x b) eqn:Exb.
      + apply Nat.eqb_eq in Exb. subst x. rewrite remove1_In_nodup by apply (inv_nodup _ _ I).
        split; [intros [H Hn]; repeat split; auto; intros [? ?]; congruence|].
        intros (H & _ & Hn). split; auto.
      + apply Nat.eqb_neq in Exb. split; [intros H; repeat split; auto; intros [? ?]; congruence|tauto]. }
  assert (Sub : forall x y, In y (conns (disc1 s a b) x) -> In y (conns s x)) by (intros x y H; now apply E in H).
  constructor.
  - rewrite disc1_connected by auto. rewrite !setc_length. apply (inv_len _ _ I).
  - intros x y H. apply E in H. destruct H as (H & N1 & N2). apply E. repeat split.
    + now apply (inv_sym _ _ I).
    + intros [-> ->]. now apply N2.
    + intros [-> ->]. now apply N1.
  - intros x y H. apply Sub in H. now apply (inv_conj _ _ I).
  - intros x. rewrite disc1_conns by auto.
    destruct (Nat.eqb x a); [|destruct (Nat.eqb x b)]; try apply remove1_nodup; apply (inv_nodup _ _ I).
  - intros x y H. apply Sub in H. now apply (inv_typed _ _ I).
Qed.

Lemma disc1_sub s a b x y : Inv W s -> In y (conns (disc1 s a b) x) -> In y (conns s x).
Proof.
  intros I. rewrite disc1_conns by auto.
  destruct (Nat.eqb x a) eqn:Ea; [apply Nat.eqb_eq in Ea; subst; apply remove1_incl|].
  destruct (Nat.eqb x b) eqn:Eb; [apply Nat.eqb_eq in Eb; subst; apply remove1_incl|auto].
Qed.

End Prims.

(* ---- whatever the two primitives preserve, every operation preserves ------------------- *)
Section Pres.
Variable W : world.
Variable P : cstore -> Prop.
Hypothesis Pc : forall s a b, P s -> P (fst (connect1 W s a b)).
Hypothesis Pd : forall s a b, P s -> P (disc1 s a b).

Lemma connect_P s a bs : P s -> P (fst (connect W s a bs)).
Proof.
  revert s; induction bs as [|b r IH]; intros s H; simpl; auto.
  pose proof (Pc s a b H) as H1. destruct (connect1 W s a b) as [s' [|e]]; simpl in *; auto.
Qed.

Lemma disconnect_P s a bs : P s -> P (fst (disconnect s a bs)).
Proof.
  revert s; induction bs as [|b r IH]; intros s H; simpl; auto.
  destruct (memn b (conns s a)); auto.
  pose proof (IH _ (Pd s a b H)) as H1. destruct (disconnect (disc1 s a b) a r); simpl in *; auto.
Qed.

Lemma disconnect_all_P s a : P s -> P (fst (disconnect_all s a)).
Proof. apply disconnect_P. Qed.

Lemma copy_go_P a ts new s : P s -> P (fst (copy_go W a ts new s)).
Proof.
  revert new s; induction ts as [|t r IH]; intros new s H; simpl; auto.
  pose proof (Pc s a t H) as H1. destruct (connect1 W s a t) as [s' [|e]]; simpl in *; auto.
  now apply disconnect_P.
Qed.

Lemma copy_conns_P s a o : P s -> P (fst (copy_conns W s a o)).
Proof. apply copy_go_P. Qed.

Lemma disconnect_all_list_P s cs : P s -> P (fst (disconnect_all_list s cs)).
Proof.
  revert s; induction cs as [|c r IH]; intros s H; simpl; auto.
  pose proof (disconnect_all_P s c H) as H1. destruct (disconnect_all s c) as [s1 p1]. simpl in H1.
  pose proof (IH _ H1) as H2. destruct (disconnect_all_list s1 r); simpl in *; auto.
Qed.

Lemma node_disconnect_P s n : P s -> P (fst (node_disconnect W s n)).
Proof. apply disconnect_all_list_P. Qed.

Lemma disconnect_run_P s n : P s -> P (fst (disconnect_run W s n)).
Proof. apply disconnect_all_list_P. Qed.

Lemma undo_pairs_P ps s : P s -> P (undo_pairs s ps).
Proof.
  unfold undo_pairs. revert s; induction ps as [|p r IH]; intros s H; cbn [fold_left]; auto.
  apply IH. exact (disconnect_P s (fst p) [snd p] H).
Qed.

Lemma cc_targets_P fh my ts s new : P s -> P (fst (fst (cc_targets W fh my ts s new))).
Proof.
  revert s new; induction ts as [|t r IH]; intros s new H; simpl; auto.
  destruct my as [c|].
  - pose proof (Pc s c t H) as H1. destruct (connect1 W s c t) as [s' [|e]]; simpl in *; auto.
    destruct fh; simpl; auto. now apply undo_pairs_P.
  - destruct fh; simpl; auto. now apply undo_pairs_P.
Qed.

Lemma cc_channels_P fh n chs s new : P s -> P (fst (fst (cc_channels W fh n chs s new))).
Proof.
  revert s new; induction chs as [|ch r IH]; intros s new H; simpl; auto.
  pose proof (cc_targets_P fh (my_chan W n ch) (conns s ch) s new H) as H1.
  destruct (cc_targets W fh (my_chan W n ch) (conns s ch) s new) as [[s1 new1] raised]. simpl in H1.
  destruct raised; simpl; auto.
Qed.

Lemma copy_io_P n m cfh vfh vfail s : P s -> P (fst (copy_io W n m cfh vfh vfail s)).
Proof.
  intros H. unfold copy_io, copy_connections_io.
  pose proof (cc_channels_P cfh n (all_chans W m) s [] H) as H1.
  destruct (cc_channels W cfh n (all_chans W m) s []) as [[s1 new] raised]. simpl in H1.
  destruct raised; simpl; auto. destruct (vfh && vfail); simpl; auto. now apply undo_pairs_P.
Qed.

Lemma disc_phase_P s nodes : P s -> P (fst (disc_phase W s nodes)).
Proof.
  revert s; induction nodes as [|v r IH]; intros s H; simpl; auto.
  pose proof (disconnect_run_P s v H) as H1. destruct (disconnect_run W s v) as [s1 p1]. simpl in H1.
  pose proof (disconnect_all_list_P s1 (opt_list (find_chan W v Signal DOut L_RAN)) H1) as H2.
  destruct (disconnect_all_list s1 _) as [s2 p2]. simpl in H2.
  pose proof (IH _ H2) as H3. destruct (disc_phase W s2 r); simpl in *; auto.
Qed.

Lemma restore_P ps s : P s -> P (restore W s ps).
Proof.
  unfold restore. revert s; induction ps as [|p r IH]; intros s H; simpl; auto.
Qed.

Lemma wire_one_P s v order : P s -> P (wire_one W s v order).
Proof.
  intros H. unfold wire_one. destruct (find_chan W v Signal DIn L_ACC); auto. now apply connect_P.
Qed.

Lemma wire_all_P nodes orders s : P s -> P (wire_all W s nodes orders).
Proof.
  revert orders s; induction nodes as [|v r IH]; intros orders s H; simpl; auto.
  apply IH. now apply wire_one_P.
Qed.

Lemma wire_dag_P st nodes orders : P (cn st) -> P (fst (wire_dag W st nodes orders)).
Proof.
  intros H. unfold wire_dag.
  pose proof (disc_phase_P (cn st) nodes H) as H1. destruct (disc_phase W (cn st) nodes) as [s1 pairs]. simpl in H1.
  destruct (digraph_check W st s1 nodes); [cbn [fst]; now apply restore_P|].
  match goal with |- context [kahn ?a ?b ?c ?d ?e ?f] => destruct (kahn a b c d e f) end; cbn [fst];
    [now apply wire_all_P|now apply restore_P].
Qed.

Lemma chain_P ord s : P s -> P (chain W s ord).
Proof.
  revert s; induction ord as [|a r IH]; intros s H; simpl; auto.
  destruct r as [|b r']; auto.
  destruct (find_chan W b Signal DIn L_RUN), (find_chan W a Signal DOut L_RAN); auto.
Qed.

Lemma disconnect_run_list_P nodes s : P s -> P (disconnect_run_list W s nodes).
Proof.
  revert s; induction nodes as [|v r IH]; intros s H; simpl; auto.
  apply IH. now apply disconnect_run_P.
Qed.

Lemma pull_P st n order : P (cn st) -> P (fst (pull W st n order)).
Proof.
  intros H. unfold pull. destruct (cyclic_up W (cn st) n); [cbn [fst]; auto|].
  pose proof (disc_phase_P (cn st) (arrange order (data_tree W (cn st) n)) H) as H1.
  destruct (disc_phase W (cn st) _) as [s1 pairs]. simpl in H1.
  destruct (digraph_check W st s1 _); [cbn [fst]; now apply restore_P|].
  match goal with |- context [kahn ?a ?b ?c ?d ?e ?f] => destruct (kahn a b c d e f) as [ord|] end; cbn [fst];
    [|now apply restore_P].
  apply restore_P, disconnect_run_list_P.
  destruct (Nat.eqb (hd n ord) n); [now apply chain_P|]. apply disconnect_run_P. now apply chain_P.
Qed.

Lemma assign_P s c v : P s -> P (fst (assign W s c v)).
Proof. intros H. unfold assign. destruct (src_channel W v); simpl; auto. Qed.

Lemma set_inputs_go_P n kw s : P s -> P (fst (set_inputs_go W s n kw)).
Proof.
  revert s; induction kw as [|[k v] r IH]; intros s H; simpl; auto.
  destruct (find_chan W n Data DIn k); simpl; auto.
  pose proof (assign_P s n0 v H) as H1. destruct (assign W s n0 v) as [s' [|e]]; simpl in *; auto.
Qed.

Lemma set_inputs_P n kw s : P s -> P (fst (set_inputs W s n kw)).
Proof. intros H. unfold set_inputs. destruct (forallb _ kw); simpl; auto. now apply set_inputs_go_P. Qed.

Lemma rshift_P s l r : P s -> P (fst (rshift W s l r)).
Proof.
  intros H. unfold rshift.
  destruct (match l with SNode n => _ | SChan c => _ end); simpl; auto.
  destruct r as [c|m].
  - destruct (is_kind W c Signal DIn); simpl; auto.
  - destruct (find_chan W m Signal DIn L_RUN); simpl; auto.
Qed.

Lemma lshift_go_P acc ss s : P s -> P (fst (lshift_go W s acc ss)).
Proof.
  revert s; induction ss as [|x r IH]; intros s H; simpl; auto.
  destruct (match x with SNode m => _ | SChan c => _ end) as [oc|]; simpl; auto.
  pose proof (Pc s oc acc H) as H1. destruct (connect1 W s oc acc) as [s' [|e]]; simpl in *; auto.
Qed.

Lemma lshift_P s t ss : P s -> P (fst (lshift W s t ss)).
Proof.
  intros H. unfold lshift. destruct (match t with SNode n => _ | SChan c => _ end); simpl; auto.
  now apply lshift_go_P.
Qed.

Lemma replace_child_P st w n m : P (cn st) -> P (cn (fst (replace_child W st w n m))).
Proof.
  intros H. unfold replace_child.
  destruct (negb (optnat_eqb (parent st n) (Some w))); simpl; auto.
  destruct (negb (optnat_eqb (parent st m) None)); simpl; auto.
  destruct (connected W (cn st) m); simpl; auto.
  pose proof (copy_io_P m n true false false (cn st) H) as H1.
  destruct (copy_io W m n true false false (cn st)) as [s1 [|e]]; simpl in *; auto.
  now apply node_disconnect_P.
Qed.

Lemma wf_wire_P st w orders : P (cn st) -> P (cn (fst (wf_wire W st w orders))).
Proof.
  intros H. unfold wf_wire. destruct (children st w) eqn:E; simpl; auto. now apply wire_dag_P.
Qed.

Lemma step_P st o : P (cn st) -> P (cn (fst (step W st o))).
Proof.
  intros H. destruct o; simpl.
  - now apply connect_P.
  - now apply disconnect_P.
  - now apply disconnect_all_P.
  - now apply copy_conns_P.
  - now apply assign_P.
  - now apply set_inputs_P.
  - pose proof (set_inputs_P n kw (cn st) H) as H1.
    destruct (set_inputs W (cn st) n kw) as [s' [|e]]; simpl in *; auto.
    now apply (pull_P (with_cn st s') n tree).
  - now apply rshift_P.
  - now apply lshift_P.
  - now apply disconnect_all_list_P.
  - now apply node_disconnect_P.
  - now apply copy_io_P.
  - destruct (optnat_eqb (parent st n) (Some w)); simpl; auto. now apply node_disconnect_P.
  - destruct (parent st n) as [w'|]; simpl; auto. destruct (Nat.eqb w' w); simpl; auto.
  - now apply replace_child_P.
  - now apply wf_wire_P.
  - now apply wf_wire_P.
  - now apply disconnect_run_list_P.
  - now apply pull_P.
  - unfold remove_by_label. destruct (find _ (children st w)); simpl; auto. now apply node_disconnect_P.
  - unfold set_parent. destruct (optnat_eqb (parent st n) p); auto.
    destruct (parent st n) as [w'|]; destruct p as [w|]; simpl; auto; now apply node_disconnect_P.
Qed.

Lemma exec_P ops st : P (cn st) -> P (cn (exec W st ops)).
Proof.
  unfold exec. revert st; induction ops as [|o r IH]; intros st H; simpl; auto.
  apply IH. now apply step_P.
Qed.

End Pres.

(* ---- C12, part 1: the invariant holds in every reachable state ------------------------- *)
Theorem exec_Inv W st ops : Inv W (cn st) -> Inv W (cn (exec W st ops)).
Proof.
  apply exec_P.
  - intros s a b. apply connect1_Inv.
  - intros s a b. apply disc1_Inv.
Qed.

Theorem step_Inv W st o : Inv W (cn st) -> Inv W (cn (fst (step W st o))).
Proof.
  apply step_P.
  - intros s a b. apply connect1_Inv.
  - intros s a b. apply disc1_Inv.
Qed.

Theorem reachable_Inv W par kids lab ops : Inv W (cn (exec W (init_state W par kids lab) ops)).
Proof. apply exec_Inv. simpl. apply Inv_init. Qed.

(* ---- C12, part 2: refusals and disconnections of unconnected channels change nothing ----- *)
Lemma with_cn_id st : with_cn st (cn st) = st.
Proof. now destruct st. Qed.

Lemma lift_err st r s' e : r = (s', Err e) -> s' = cn st -> lift st r = (st, Err e).
Proof. intros -> ->. unfold lift. simpl. now rewrite with_cn_id. Qed.

(* Channel.connect(others...): the outcome is that of the accepted prefix *)
Lemma connect_prefix W s a pre b post s1 e :
  connect W s a pre = (s1, Ok) -> snd (connect1 W s1 a b) = Err e ->
  connect W s a (pre ++ b :: post) = (s1, Err e).
Proof.
  revert s; induction pre as [|p r IH]; intros s H1 H2; simpl in *.
  - inversion H1; subst. destruct (connect1 W s1 a b) as [s' [|e']] eqn:E; simpl in H2; [discriminate|].
    inversion H2; subst. now rewrite (connect1_err _ _ _ _ _ _ E).
  - destruct (connect1 W s a p) as [s' [|e']]; [|discriminate]. now apply IH.
Qed.

Definition single_connect (o : op) : Prop :=
  match o with
  | OConnect _ [_] | OAssign _ _ | ORshift _ _ | OLshift _ [_] | OSetInputs _ [_] => True
  | _ => False
  end.

Lemma assign_err W s c v s' e : assign W s c v = (s', Err e) -> s' = s.
Proof.
  unfold assign. destruct (src_channel W v); [apply connect1_err|now inversion 1].
Qed.

Theorem refused_noop W st o st' e :
  single_connect o -> step W st o = (st', Err e) -> st' = st.
Proof.
  intros S H. destruct o; simpl in S; try contradiction.
  - (* connect *) destruct bs as [|b [|? ?]]; try contradiction. simpl in H. unfold lift in H. simpl in H.
    destruct (connect1 W (cn st) a b) as [s' [|e']] eqn:E; simpl in H; [discriminate|].
    apply connect1_err in E. subst s'. rewrite with_cn_id in H. now inversion H.
  - (* assign *) simpl in H. unfold lift in H.
    destruct (assign W (cn st) c v) as [s' [|e']] eqn:E; simpl in H; [discriminate|].
    apply assign_err in E. subst s'. rewrite with_cn_id in H. now inversion H.
  - (* set_inputs *) destruct kw as [|[k v] [|? ?]]; try contradiction. simpl in H. unfold lift, set_inputs in H.
    destruct (forallb _ _); simpl in H; [|rewrite with_cn_id in H; now inversion H].
    destruct (find_chan W n Data DIn k); simpl in H; [|rewrite with_cn_id in H; now inversion H].
    destruct (assign W (cn st) n0 v) as [s' [|e']] eqn:E; simpl in H; [discriminate|].
    apply assign_err in E. subst s'. rewrite with_cn_id in H. now inversion H.
  - (* >> *) simpl in H. unfold lift, rshift in H.
    destruct (match l with SNode n => _ | SChan c => _ end); simpl in H;
      [|rewrite with_cn_id in H; now inversion H].
    destruct r as [c|m].
    + destruct (is_kind W c Signal DIn); simpl in H; [|rewrite with_cn_id in H; now inversion H].
      destruct (connect1 W (cn st) c n) as [s' [|e']] eqn:E; simpl in H; [discriminate|].
      apply connect1_err in E. subst s'. rewrite with_cn_id in H. now inversion H.
    + destruct (find_chan W m Signal DIn L_RUN); simpl in H; [|rewrite with_cn_id in H; now inversion H].
      destruct (connect1 W (cn st) n0 n) as [s' [|e']] eqn:E; simpl in H; [discriminate|].
      apply connect1_err in E. subst s'. rewrite with_cn_id in H. now inversion H.
  - (* << *) destruct ss as [|x [|? ?]]; try contradiction. simpl in H. unfold lift, lshift in H.
    destruct (match t with SNode n => _ | SChan c => _ end); simpl in H;
      [|rewrite with_cn_id in H; now inversion H].
    destruct (match x with SNode m => _ | SChan c => _ end); simpl in H;
      [|rewrite with_cn_id in H; now inversion H].
    destruct (connect1 W (cn st) n0 n) as [s' [|e']] eqn:E; simpl in H; [discriminate|].
    apply connect1_err in E. subst s'. rewrite with_cn_id in H. now inversion H.
Qed.

(* n(x=b): the call-keyword form.  The pull that follows an accepted connection can only
   raise CircularDataFlowError / ValueError / KeyError, so any other exception is the refusal. *)
Lemma dg_nodes_exn W s nodes todo e : dg_nodes W s nodes todo = Some e -> e = KeyErr \/ e = CircErr.
Proof.
  induction todo as [|v r IH]; simpl; [discriminate|].
  destruct (existsb _ (ups W s v)); [inversion 1; auto|].
  destruct (memn v (ups W s v)); [inversion 1; auto|auto].
Qed.

Lemma pull_exn W st n order s' e : pull W st n order = (s', Err e) -> e = KeyErr \/ e = CircErr \/ e = ValueErr.
Proof.
  unfold pull. destruct (cyclic_up W (cn st) n); [inversion 1; auto|].
  destruct (disc_phase W (cn st) _) as [s1 pairs].
  destruct (digraph_check W st s1 _) as [e'|] eqn:E.
  - inversion 1; subst. unfold digraph_check in E.
    destruct (same_parents st _); [|inversion E; auto].
    apply dg_nodes_exn in E. tauto.
  - match goal with |- context [kahn ?a ?b ?c ?d ?e ?f] => destruct (kahn a b c d e f) end;
      inversion 1; auto.
Qed.

Theorem refused_call_noop W st n k v tree st' e :
  step W st (OCall n [(k, v)] tree) = (st', Err e) ->
  e = TypeErr \/ e = ConnErr \/ e = AmbigErr \/ e = AttrErr -> st' = st.
Proof.
  intros H He. cbn [step] in H.
  destruct (set_inputs W (cn st) n [(k, v)]) as [s1 [|e1]] eqn:E.
  - unfold lift in H. destruct (pull W (with_cn st s1) n tree) as [s2 [|e2]] eqn:Ep; simpl in H; [discriminate|].
    inversion H; subst. apply pull_exn in Ep.
    destruct Ep as [Ee | [Ee | Ee]]; rewrite Ee in He; destruct He as [Hq | [Hq | [Hq | Hq]]]; discriminate.
  - inversion H; subst. clear H.
    unfold set_inputs in E. destruct (forallb _ _); [|inversion E; subst; apply with_cn_id].
    simpl in E. destruct (find_chan W n Data DIn k); [|inversion E; subst; apply with_cn_id].
    destruct (assign W (cn st) n0 v) as [s' [|e']] eqn:Ea; [discriminate|].
    inversion E; subst. apply assign_err in Ea. subst. apply with_cn_id.
Qed.

Lemma disconnect_unconnected s a bs : (forall b, In b bs -> ~ In b (conns s a)) -> disconnect s a bs = (s, []).
Proof.
  induction bs as [|b r IH]; intros H; simpl; auto.
  rewrite memn_false_of by (apply H; now left). apply IH. intros x Hx. apply H. now right.
Qed.

Lemma disconnect_all_list_unconnected s cs : (forall c, In c cs -> conns s c = []) -> disconnect_all_list s cs = (s, []).
Proof.
  induction cs as [|c r IH]; intros H; simpl; auto.
  unfold disconnect_all. rewrite (H c) by now left. simpl. rewrite IH; auto. intros x Hx. apply H. now right.
Qed.

Theorem disconnect_unconnected_noop W st o :
  match o with
  | ODisconnect a bs => forall b, In b bs -> ~ In b (conns (cn st) a)
  | ODisconnectAll a => conns (cn st) a = []
  | OPanelDisconnect n p => forall c, In c (panel_list W n p) -> conns (cn st) c = []
  | ONodeDisconnect n => forall c, In c (all_chans W n) -> conns (cn st) c = []
  | _ => False
  end -> step W st o = (st, Ok).
Proof.
  destruct o; try contradiction; intros H; simpl.
  - rewrite disconnect_unconnected by auto. simpl. now rewrite with_cn_id.
  - unfold disconnect_all. rewrite H. simpl. now rewrite with_cn_id.
  - rewrite disconnect_all_list_unconnected by auto. simpl. now rewrite with_cn_id.
  - unfold node_disconnect. rewrite disconnect_all_list_unconnected by auto. simpl. now rewrite with_cn_id.
Qed.

(* ---- C12, part 3: a disconnected / removed node is referenced by nobody ------------------ *)
Section Unref.
Variable W : world.

Lemma disconnect_Inv s a bs : Inv W s -> Inv W (fst (disconnect s a bs)).
Proof.
  apply (disconnect_P (Inv W)). intros s0 a0 b0. apply disc1_Inv.
Qed.

Lemma disconnect_sub s a bs x y : Inv W s -> In y (conns (fst (disconnect s a bs)) x) -> In y (conns s x).
Proof.
  revert s; induction bs as [|b r IH]; intros s I; simpl; auto.
  destruct (memn b (conns s a)); [|now apply IH].
  pose proof (IH (disc1 s a b) (disc1_Inv W _ _ _ I)) as H1.
  destruct (disconnect (disc1 s a b) a r) as [s' ps]. simpl in *. intros H.
  apply (disc1_sub W s a b); auto.
Qed.

Lemma disconnect_empties s a bs : Inv W s -> (forall x, In x (conns s a) -> In x bs) ->
  conns (fst (disconnect s a bs)) a = [].
Proof.
  revert s; induction bs as [|b r IH]; intros s I H; simpl.
  - destruct (conns s a) as [|x l]; auto. exfalso. apply (H x). now left.
  - destruct (memn b (conns s a)) eqn:Em.
    + pose proof (IH (disc1 s a b) (disc1_Inv W _ _ _ I)) as H1.
      destruct (disconnect (disc1 s a b) a r) as [s' ps]. simpl in *. apply H1.
      intros x Hx. rewrite (disc1_conns W) in Hx by auto. rewrite Nat.eqb_refl in Hx.
      apply (remove1_In_nodup b (conns s a) x (inv_nodup _ _ I a)) in Hx. destruct Hx as [Hx Hn].
      destruct (H x Hx); auto. congruence.
    + apply IH; auto. intros x Hx. destruct (H x Hx); auto. subst.
      apply memn_false in Em. contradiction.
Qed.

Lemma disconnect_all_list_Inv s cs : Inv W s -> Inv W (fst (disconnect_all_list s cs)).
Proof.
  apply (disconnect_all_list_P (Inv W)). intros s0 a0 b0. apply disc1_Inv.
Qed.

Lemma disconnect_all_list_sub s cs x y : Inv W s ->
  In y (conns (fst (disconnect_all_list s cs)) x) -> In y (conns s x).
Proof.
  revert s; induction cs as [|c r IH]; intros s I; simpl; auto.
  pose proof (disconnect_Inv s c (conns s c) I) as I1.
  pose proof (disconnect_sub s c (conns s c) x y I) as S1.
  unfold disconnect_all. destruct (disconnect s c (conns s c)) as [s1 p1]. simpl in *.
  pose proof (IH s1 I1) as H2. destruct (disconnect_all_list s1 r) as [s2 p2]. simpl in *. auto.
Qed.

Lemma disconnect_all_list_empties s cs c : Inv W s -> In c cs ->
  conns (fst (disconnect_all_list s cs)) c = [].
Proof.
  revert s; induction cs as [|d r IH]; intros s I Hc; simpl; [contradiction|].
  pose proof (disconnect_Inv s d (conns s d) I) as I1.
  pose proof (disconnect_empties s d (conns s d) I (fun x H => H)) as E1.
  unfold disconnect_all. destruct (disconnect s d (conns s d)) as [s1 p1]. simpl in *.
  pose proof (disconnect_all_list_sub s1 r c) as S2.
  pose proof (IH s1 I1) as H2.
  destruct (disconnect_all_list s1 r) as [s2 p2]. simpl in *.
  destruct Hc as [->|Hc]; auto.
  destruct (conns s2 c) as [|y l] eqn:E; auto. exfalso.
  assert (In y (conns s1 c)) by (apply S2; auto; now left). rewrite E1 in H. contradiction.
Qed.

Definition owned_by (c n : nat) : Prop := exists x, cget W c = Some x /\ c_owner x = n.

Lemma all_chans_complete c n : owned_by c n -> In c (all_chans W n).
Proof.
  intros (x & Hx & Ho). unfold all_chans, panel_chans. rewrite !in_app_iff, !filter_In.
  assert (Hi : In c (ids W)).
  { unfold ids. apply in_seq. split; [lia|]. simpl. apply nth_error_Some. unfold cget in Hx. congruence. }
  unfold in_panel. rewrite Hx, Ho, Nat.eqb_refl.
  destruct (c_flavor x), (c_dir x); simpl; auto.
Qed.

Theorem node_disconnect_unreferenced s n : Inv W s ->
  let s' := fst (node_disconnect W s n) in
  (forall c, owned_by c n -> conns s' c = []) /\
  (forall c x, In x (conns s' c) -> ~ owned_by x n).
Proof.
  intros I s'.
  assert (A : forall c, owned_by c n -> conns s' c = []).
  { intros c Hc. apply disconnect_all_list_empties; auto. now apply all_chans_complete. }
  split; auto. intros c x Hx Ho.
  assert (I' : Inv W s') by now apply disconnect_all_list_Inv.
  apply (inv_sym _ _ I') in Hx. rewrite (A x Ho) in Hx. contradiction.
Qed.

End Unref.

(* after a successful remove_child / disconnect / replace_child, on any reachable state *)
Definition unreferenced (W : world) (s : cstore) (n : nat) : Prop :=
  (forall c, owned_by W c n -> conns s c = []) /\
  (forall c x, In x (conns s c) -> ~ owned_by W x n).

Theorem removed_unreferenced W st o st' n :
  Inv W (cn st) ->
  match o with
  | ORemove _ m | ONodeDisconnect m | OReplace _ m _ => m = n
  | _ => False
  end ->
  step W st o = (st', Ok) -> unreferenced W (cn st') n.
Proof.
  intros I Ho H. destruct o; try contradiction; subst; simpl in H.
  - inversion H; subst. simpl. now apply node_disconnect_unreferenced.
  - destruct (optnat_eqb (parent st n) (Some w)); [|discriminate]. inversion H; subst. simpl.
    now apply node_disconnect_unreferenced.
  - unfold replace_child in H.
    destruct (negb (optnat_eqb (parent st n) (Some w))); [discriminate|].
    destruct (negb (optnat_eqb (parent st m) None)); [discriminate|].
    destruct (connected W (cn st) m); [discriminate|].
    pose proof (copy_io_P W (Inv W) (fun s a b => connect1_Inv W s a b) (fun s a b => disc1_Inv W s a b)
                          m n true false false (cn st) I) as I1.
    destruct (copy_io W m n true false false (cn st)) as [s1 [|e]]; [|discriminate].
    inversion H; subst. simpl in *. now apply node_disconnect_unreferenced.
Qed.


(* ---- by ANY route: a node that is no longer a child of the composite it was in is
   referenced by nobody (remove_child by node or label, parent = None, parent = another
   composite, replace_child; no other op changes a parent) -------------------------------- *)
Lemma nth_set_nth_neq {A} (l : list A) n k v d : k <> n -> nth k (set_nth l n v) d = nth k l d.
Proof.
  revert n k; induction l as [|x r IH]; intros [|n] [|k] H; simpl; auto; congruence.
Qed.

Definition left_composite (st st' : state) (n : nat) : Prop :=
  exists w, parent st n = Some w /\ parent st' n <> Some w.

Lemma remove_child_left W st w m n : Inv W (cn st) ->
  left_composite st (remove_child W st w m) n -> n = m /\ unreferenced W (cn (remove_child W st w m)) n.
Proof.
  intros I (w0 & H0 & H1). unfold parent in *. simpl in H1.
  destruct (Nat.eq_dec n m) as [->|Hn]; [|rewrite nth_set_nth_neq in H1 by auto; congruence].
  split; auto. simpl. now apply node_disconnect_unreferenced.
Qed.

Lemma left_same_par st st' n : par st' = par st -> ~ left_composite st st' n.
Proof. intros E (w & H0 & H1). unfold parent in *. rewrite E in H1. congruence. Qed.

Theorem left_unreferenced W st o st' r n :
  Inv W (cn st) -> step W st o = (st', r) -> left_composite st st' n -> unreferenced W (cn st') n.
Proof.
  intros I H L.
  assert (Same : par st' = par st -> unreferenced W (cn st') n)
    by (intros E; exfalso; now apply (left_same_par st st' n E)).
  destruct o; simpl in H; try (unfold lift in H); try (inversion H; subst; now apply Same).
  - (* call *) destruct (set_inputs W (cn st) n0 kw) as [s1 [|e]]; [unfold lift in H|];
      inversion H; subst; now apply Same.
  - (* remove *) destruct (optnat_eqb (parent st n0) (Some w)); inversion H; subst; [|now apply Same].
    now apply (remove_child_left W st w n0 n I).
  - (* add *) destruct (parent st n0) as [w'|] eqn:Ep.
    + destruct (Nat.eqb w' w); inversion H; subst; now apply Same.
    + inversion H; subst. exfalso. destruct L as (w0 & H0 & H1). unfold parent in *. simpl in H1.
      destruct (Nat.eq_dec n n0) as [->|Hn]; [congruence|].
      rewrite nth_set_nth_neq in H1 by auto. congruence.
  - (* replace *) unfold replace_child in H.
    destruct (negb (optnat_eqb (parent st n0) (Some w))); [inversion H; subst; now apply Same|].
    destruct (negb (optnat_eqb (parent st m) None)) eqn:Em; [inversion H; subst; now apply Same|].
    destruct (connected W (cn st) m); [inversion H; subst; now apply Same|].
    pose proof (copy_io_P W (Inv W) (fun s a b => connect1_Inv W s a b) (fun s a b => disc1_Inv W s a b)
                          m n0 true false false (cn st) I) as I1.
    destruct (copy_io W m n0 true false false (cn st)) as [s1 [|e]]; inversion H; subst; [|now apply Same].
    simpl in I1. clear H.
    destruct L as (w0 & H0 & H1). unfold parent in *. simpl in H1.
    destruct (Nat.eq_dec n m) as [->|Hm].
    { apply Bool.negb_false_iff in Em. destruct (nth m (par st) None); simpl in Em; congruence. }
    rewrite nth_set_nth_neq in H1 by auto.
    destruct (Nat.eq_dec n n0) as [->|Hn]; [|rewrite nth_set_nth_neq in H1 by auto; congruence].
    simpl. now apply node_disconnect_unreferenced.
  - (* wire *) unfold wf_wire in H. destruct (children st w); [|unfold lift in H]; inversion H; subst; now apply Same.
  - (* run *) unfold wf_wire in H. destruct (children st w); [|unfold lift in H]; inversion H; subst; now apply Same.
  - (* remove by label *) unfold remove_by_label in H.
    destruct (find _ (children st w)) as [k|]; inversion H; subst; [|now apply Same].
    now apply (remove_child_left W st w k n I).
  - (* parent assignment *) inversion H; subst. clear H. unfold set_parent in *.
    destruct (optnat_eqb (parent st n0) p); [now apply Same|].
    destruct (parent st n0) as [w'|] eqn:Ep; destruct p as [w|].
    + (* hand-over: the node passes through the orphaned, disconnected state *)
      destruct L as (w0 & H0 & H1). unfold parent in *. simpl in H1.
      destruct (Nat.eq_dec n n0) as [->|Hn]; [|rewrite !nth_set_nth_neq in H1 by auto; congruence].
      simpl. now apply node_disconnect_unreferenced.
    + now apply (remove_child_left W st w' n0 n I).
    + exfalso. destruct L as (w0 & H0 & H1). unfold parent in *. simpl in H1.
      destruct (Nat.eq_dec n n0) as [->|Hn]; [congruence|].
      rewrite nth_set_nth_neq in H1 by auto. congruence.
    + now apply Same.
Qed.

(* ---- extra: a failed copy_connections leaves no connection that was not there before ------ *)
Lemma disconnect_removes W s a bs x : Inv W s -> In x bs -> ~ In x (conns (fst (disconnect s a bs)) a).
Proof.
  revert s; induction bs as [|b r IH]; intros s I Hx; simpl; [contradiction|].
  destruct (memn b (conns s a)) eqn:Em.
  - pose proof (IH (disc1 s a b) (disc1_Inv W _ _ _ I)) as H1.
    pose proof (disconnect_sub W (disc1 s a b) a r a x (disc1_Inv W _ _ _ I)) as S1.
    destruct (disconnect (disc1 s a b) a r) as [s' ps]. simpl in *.
    destruct Hx as [->|Hx]; auto.
    intros H. apply S1 in H. rewrite (disc1_conns W) in H by auto. rewrite Nat.eqb_refl in H.
    apply (remove1_In_nodup x (conns s a) x (inv_nodup _ _ I a)) in H. tauto.
  - destruct Hx as [->|Hx]; auto.
    intros H. apply (disconnect_sub W) in H; auto. apply memn_false in Em. contradiction.
Qed.

Lemma connect1_ok_conns W s a t s1 : Inv W s -> connect1 W s a t = (s1, Ok) ->
  forall c x, In x (conns s1 c) -> In x (conns s c) \/ (c = a /\ x = t) \/ (c = t /\ x = a).
Proof.
  intros I. unfold connect1.
  destruct (memn t (conns s a)) eqn:Em; [inversion 1; subst; auto|].
  destruct (conjb W a t) eqn:Ec; [|discriminate].
  destruct (validb W a t) eqn:Ev; [|discriminate].
  inversion 1; subst. clear H.
  assert (Hat : a <> t) by (intros ->; rewrite conjb_irrefl in Ec; discriminate).
  destruct (conjb_lt _ _ _ Ec) as [Ha Ht]. rewrite <- (inv_len _ _ I) in Ha, Ht.
  intros c x. rewrite connect_new_conns by auto.
  destruct (Nat.eqb c a) eqn:Eca.
  - apply Nat.eqb_eq in Eca. subst c. intros [<-|Hx]; auto.
  - destruct (Nat.eqb c t) eqn:Ect; auto.
    apply Nat.eqb_eq in Ect. subst c. intros [<-|Hx]; auto.
Qed.

Theorem failed_copy_adds_nothing W s a o s' e :
  Inv W s -> copy_conns W s a o = (s', Err e) ->
  forall c x, In x (conns s' c) -> In x (conns s c).
Proof.
  unfold copy_conns. generalize (conns s o) as ts. intros ts I.
  assert (G : forall ts new s0, Inv W s0 ->
            (forall c x, In x (conns s0 c) -> In x (conns s c) \/ (c = a /\ In x new) \/ (x = a /\ In c new)) ->
            copy_go W a ts new s0 = (s', Err e) ->
            forall c x, In x (conns s' c) -> In x (conns s c)).
  { clear ts. induction ts as [|t r IH]; intros new s0 I0 Hs H; simpl in H; [discriminate|].
    destruct (connect1 W s0 a t) as [s1 [|e1]] eqn:E.
    - assert (I1 : Inv W s1) by (pose proof (connect1_Inv W s0 a t I0) as X; now rewrite E in X).
      apply (IH (new ++ [t]) s1 I1); auto.
      intros c x Hx. destruct (connect1_ok_conns W s0 a t s1 I0 E c x Hx) as [H0|[[-> ->]|[-> ->]]].
      + destruct (Hs c x H0) as [?|[[? ?]|[? ?]]]; auto; right; [left|right]; split; auto;
          apply in_or_app; auto.
      + right. left. split; auto. apply in_or_app. right. now left.
      + right. right. split; auto. apply in_or_app. right. now left.
    - apply connect1_err in E. subst s1. inversion H; subst. clear H.
      intros c x Hx.
      assert (I' : Inv W (fst (disconnect s0 a new))) by now apply disconnect_Inv.
      assert (Hin : In x (conns s0 c)) by (apply (disconnect_sub W s0 a new c x I0); auto).
      destruct (Hs c x Hin) as [?|[[-> Hn]|[-> Hn]]]; auto; exfalso.
      + now apply (disconnect_removes W s0 a new x I0 Hn).
      + apply (inv_sym _ _ I') in Hx. now apply (disconnect_removes W s0 a new c I0 Hn). }
  intros H. apply (G ts [] s I); auto.
Qed.

(* ... and so does a failed copy_io / replace_child (their undo logs as written) *)
Section CopyIO.
Variable W : world.

Lemma undo_pairs_Inv ps s : Inv W s -> Inv W (undo_pairs s ps).
Proof. apply (undo_pairs_P (Inv W)). intros s0 a0 b0. apply disc1_Inv. Qed.

Lemma undo_pairs_sub ps s x y : Inv W s -> In y (conns (undo_pairs s ps) x) -> In y (conns s x).
Proof.
  unfold undo_pairs. revert s; induction ps as [|p r IH]; intros s I; cbn [fold_left]; auto.
  intros H. apply IH in H; [|now apply disconnect_Inv]. now apply (disconnect_sub W) in H.
Qed.

Lemma undo_pairs_removes ps s a b : Inv W s -> In (a, b) ps -> ~ In b (conns (undo_pairs s ps) a).
Proof.
  unfold undo_pairs. revert s; induction ps as [|p r IH]; intros s I Hp; cbn [fold_left]; [contradiction|].
  assert (I1 : Inv W (fst (disconnect s (fst p) [snd p]))) by now apply disconnect_Inv.
  destruct Hp as [->|Hp]; [|now apply IH].
  intros H. apply (undo_pairs_sub r _ a b I1) in H. cbn [fst snd] in H.
  apply (disconnect_removes W s a [b] b I); auto. now left.
Qed.

(* what the log [new] promises about a store reached from [s] *)
Definition logged (s s0 : cstore) (new : list (nat * nat)) : Prop :=
  forall c x, In x (conns s0 c) -> In x (conns s c) \/ In (c, x) new \/ In (x, c) new.

Lemma logged_more s s0 new more : logged s s0 new -> logged s s0 (new ++ more).
Proof.
  intros H c x Hx. destruct (H c x Hx) as [?|[?|?]]; auto; right; [left|right]; apply in_or_app; auto.
Qed.

Lemma undo_logged s s0 new : Inv W s0 -> logged s s0 new ->
  forall c x, In x (conns (undo_pairs s0 new) c) -> In x (conns s c).
Proof.
  intros I0 L c x Hx.
  assert (I' : Inv W (undo_pairs s0 new)) by now apply undo_pairs_Inv.
  pose proof (undo_pairs_sub new s0 c x I0 Hx) as H0.
  destruct (L c x H0) as [?|[Hn|Hn]]; auto; exfalso.
  - now apply (undo_pairs_removes new s0 c x I0 Hn).
  - apply (inv_sym _ _ I') in Hx. now apply (undo_pairs_removes new s0 x c I0 Hn).
Qed.

Lemma cc_targets_logged s fh my ts s0 new s1 new1 raised :
  Inv W s0 -> logged s s0 new -> cc_targets W fh my ts s0 new = (s1, new1, raised) ->
  if raised then forall c x, In x (conns s1 c) -> In x (conns s c)
  else Inv W s1 /\ logged s s1 new1.
Proof.
  revert s0 new; induction ts as [|t r IH]; intros s0 new I0 L H; simpl in H.
  - inversion H; subst. auto.
  - destruct my as [c0|].
    + destruct (connect1 W s0 c0 t) as [s' [|e]] eqn:E.
      * assert (I1 : Inv W s') by (pose proof (connect1_Inv W s0 c0 t I0) as X; now rewrite E in X).
        apply (IH s' (new ++ [(c0, t)])); auto.
        intros c x Hx. destruct (connect1_ok_conns W s0 c0 t s' I0 E c x Hx) as [H0|[[-> ->]|[-> ->]]].
        -- exact (logged_more s s0 new _ L c x H0).
        -- right. left. apply in_or_app. right. now left.
        -- right. right. apply in_or_app. right. now left.
      * apply connect1_err in E. subst s'. destruct fh.
        -- inversion H; subst. now apply undo_logged.
        -- now apply (IH s0 new).
    + destruct fh.
      * inversion H; subst. now apply undo_logged.
      * now apply (IH s0 new).
Qed.

Lemma cc_channels_logged s fh n chs s0 new s1 new1 raised :
  Inv W s0 -> logged s s0 new -> cc_channels W fh n chs s0 new = (s1, new1, raised) ->
  if raised then forall c x, In x (conns s1 c) -> In x (conns s c)
  else Inv W s1 /\ logged s s1 new1.
Proof.
  revert s0 new; induction chs as [|ch r IH]; intros s0 new I0 L H; simpl in H.
  - inversion H; subst. auto.
  - destruct (cc_targets W fh (my_chan W n ch) (conns s0 ch) s0 new) as [[s2 new2] raised2] eqn:E.
    pose proof (cc_targets_logged s fh _ _ s0 new s2 new2 raised2 I0 L E) as X.
    destruct raised2.
    + inversion H; subst. exact X.
    + destruct X as [I2 L2]. now apply (IH s2 new2).
Qed.

Theorem failed_copy_io_adds_nothing n m cfh vfh vfail s s' e :
  Inv W s -> copy_io W n m cfh vfh vfail s = (s', Err e) ->
  forall c x, In x (conns s' c) -> In x (conns s c).
Proof.
  intros I. unfold copy_io, copy_connections_io.
  destruct (cc_channels W cfh n (all_chans W m) s []) as [[s1 new] raised] eqn:E.
  assert (L : logged s s []) by (intros c x Hx; now left).
  pose proof (cc_channels_logged s cfh n _ s [] s1 new raised I L E) as X.
  destruct raised.
  - inversion 1; subst. exact X.
  - destruct X as [I1 L1]. destruct (vfh && vfail); [|discriminate].
    inversion 1; subst. now apply undo_logged.
Qed.

End CopyIO.

(* at the level of the ops: a failed copy_connections / copy_io / replace_child adds nothing *)
Theorem failed_copy_op_adds_nothing W st o st' e :
  Inv W (cn st) ->
  match o with OCopyConns _ _ | OCopyIO _ _ _ _ _ | OReplace _ _ _ => True | _ => False end ->
  step W st o = (st', Err e) ->
  forall c x, In x (conns (cn st') c) -> In x (conns (cn st) c).
Proof.
  intros I Ho H. destruct o; try contradiction; simpl in H.
  - unfold lift in H. destruct (copy_conns W (cn st) a o) as [s1 r] eqn:E. simpl in H.
    inversion H; subst. simpl. now apply (failed_copy_adds_nothing W (cn st) a o s1 e).
  - unfold lift in H. destruct (copy_io W n m cfh vfh vfail (cn st)) as [s1 r] eqn:E. simpl in H.
    inversion H; subst. simpl. now apply (failed_copy_io_adds_nothing W n m cfh vfh vfail (cn st) s1 e).
  - unfold replace_child in H.
    destruct (negb (optnat_eqb (parent st n) (Some w))); [inversion H; subst; auto|].
    destruct (negb (optnat_eqb (parent st m) None)); [inversion H; subst; auto|].
    destruct (connected W (cn st) m); [inversion H; subst; auto|].
    destruct (copy_io W m n true false false (cn st)) as [s1 [|e1]] eqn:E; [discriminate|].
    inversion H; subst. simpl. now apply (failed_copy_io_adds_nothing W m n true false false (cn st) s1 e).
Qed.

(* ---- the statements of Props/C12.v ------------------------------------------------------ *)
Definition good (W : world) (s : cstore) : Prop :=
  (forall a b, In b (conns s a) <-> In a (conns s b)) /\
  (forall a b, In b (conns s a) -> conjugate W a b) /\
  (forall a, NoDup (conns s a)) /\
  (forall a b, In b (conns s a) -> validb W a b = true).

Lemma Inv_good W s : Inv W s -> good W s.
Proof.
  intros I. repeat split.
  - apply (inv_sym _ _ I).
  - apply (inv_sym _ _ I).
  - intros a b H. apply conjb_spec. now apply (inv_conj _ _ I).
  - apply (inv_nodup _ _ I).
  - apply (inv_typed _ _ I).
Qed.

Lemma reachable_good W par kids lab ops : good W (cn (exec W (init_state W par kids lab) ops)).
Proof. apply Inv_good, reachable_Inv. Qed.

Lemma exec_app W st ops1 ops2 : exec W st (ops1 ++ ops2) = exec W (exec W st ops1) ops2.
Proof. unfold exec. apply fold_left_app. Qed.

Lemma reachable_removed_unreferenced W par kids lab ops o st' n :
  match o with
  | ORemove _ m | ONodeDisconnect m | OReplace _ m _ => m = n
  | _ => False
  end ->
  step W (exec W (init_state W par kids lab) ops) o = (st', Ok) -> unreferenced W (cn st') n.
Proof. apply removed_unreferenced, reachable_Inv. Qed.

Lemma reachable_left_unreferenced W par kids lab ops o st' r n :
  let st := exec W (init_state W par kids lab) ops in
  step W st o = (st', r) -> left_composite st st' n -> unreferenced W (cn st') n.
Proof. intros st. apply left_unreferenced, reachable_Inv. Qed.

Lemma reachable_failed_copy W par kids lab ops o st' e :
  let st := exec W (init_state W par kids lab) ops in
  match o with OCopyConns _ _ | OCopyIO _ _ _ _ _ | OReplace _ _ _ => True | _ => False end ->
  step W st o = (st', Err e) ->
  forall c x, In x (conns (cn st') c) -> In x (conns (cn st) c).
Proof. intros st. apply failed_copy_op_adds_nothing, reachable_Inv. Qed.
