(* EditProofs.v -- proofs about the graph-editing model Edit.v (property C14). *)
From PW Require Import Base Edit.

(* ---- lists ------------------------------------------------------------------------------- *)
Lemma memn_true x l : memn x l = true -> In x l.
Proof. apply memn_In. Qed.
Lemma memn_false x l : memn x l = false -> ~ In x l.
Proof. intros H HI. apply memn_In in HI. congruence. Qed.
Lemma memn_false_of x l : ~ In x l -> memn x l = false.
Proof. intros H. destruct (memn x l) eqn:E; auto. apply memn_In in E. contradiction. Qed.
Lemma memn_true_of x l : In x l -> memn x l = true.
Proof. apply memn_In. Qed.

Lemma remove1_notin x l : ~ In x l -> remove1 Nat.eqb x l = l.
Proof.
  induction l as [|y r IH]; simpl; auto. intros H.
  destruct (Nat.eqb x y) eqn:E.
  - apply Nat.eqb_eq in E. subst. exfalso. apply H. now left.
  - f_equal. apply IH. intros HI. apply H. now right.
Qed.

Lemma remove1_mid x X Y : ~ In x X -> remove1 Nat.eqb x (X ++ x :: Y) = X ++ Y.
Proof.
  induction X as [|y r IH]; simpl; intros H.
  - now rewrite Nat.eqb_refl.
  - destruct (Nat.eqb x y) eqn:E.
    + apply Nat.eqb_eq in E. subst. exfalso. apply H. now left.
    + f_equal. apply IH. intros HI. apply H. now right.
Qed.

Lemma remove1_incl x l y : In y (remove1 Nat.eqb x l) -> In y l.
Proof.
  induction l as [|z r IH]; simpl; auto.
  destruct (Nat.eqb x z); simpl; intros H; auto. destruct H; auto.
Qed.

Lemma remove1_single x : remove1 Nat.eqb x [x] = [].
Proof. simpl. now rewrite Nat.eqb_refl. Qed.

Lemma NoDup_snoc {A} (l : list A) x : NoDup l -> ~ In x l -> NoDup (l ++ [x]).
Proof.
  induction l as [|y r IH]; simpl; intros ND H.
  - constructor; auto.
  - inversion ND; subst. constructor.
    + intros Hin. apply in_app_or in Hin. destruct Hin as [Hin|[Hin|[]]]; [contradiction|].
      subst. apply H. now left.
    + apply IH; auto.
Qed.

Lemma NoDup_app_intro {A} (l1 l2 : list A) :
  NoDup l1 -> (forall x, In x l1 -> ~ In x l2) -> NoDup l2 -> NoDup (l1 ++ l2).
Proof.
  induction l1 as [|y r IH]; simpl; intros N1 D N2; auto.
  inversion N1; subst. constructor.
  - intros Hin. apply in_app_or in Hin. destruct Hin as [Hin|Hin]; [contradiction|].
    apply (D y); auto.
  - apply IH; auto.
Qed.

(* ---- stores, ticks ------------------------------------------------------------------------- *)
Lemma upd_eq {A} (f : nat -> A) k v : upd f k v k = v.
Proof. unfold upd. now rewrite Nat.eqb_refl. Qed.
Lemma upd_neq {A} (f : nat -> A) k v c : c <> k -> upd f k v c = f c.
Proof. unfold upd. intros H. apply Nat.eqb_neq in H. now rewrite H. Qed.

Lemma tick_zero : tick 0 = (0, false).
Proof. reflexivity. Qed.
Lemma tick_cases k : (exists k', tick k = (k', false)) \/ tick k = (0, true).
Proof. destruct k as [|[|k]]; simpl; eauto. Qed.

(* two stores agree everywhere *)
Definition same {A} (f g : nat -> A) : Prop := forall c, f c = g c.
Lemma same_refl {A} (f : nat -> A) : same f f.
Proof. intros c; reflexivity. Qed.
Lemma same_sym {A} (f g : nat -> A) : same f g -> same g f.
Proof. intros H c; symmetry; apply H. Qed.
Lemma same_trans {A} (f g h : nat -> A) : same f g -> same g h -> same f h.
Proof. intros H1 H2 c; rewrite H1; apply H2. Qed.

(* well-formed connection stores (invariants of every reachable graph: property C12) *)
Definition Sym (s : cstore) : Prop := forall a b, In b (s a) -> In a (s b).
Definition NoDupS (s : cstore) : Prop := forall a, NoDup (s a).
Definition Irrefl (s : cstore) : Prop := forall a, ~ In a (s a).

(* ---- a run of raw links and its undo ------------------------------------------------------- *)
Definition links (s : cstore) (ps : list (nat * nat)) : cstore :=
  fold_left (fun s p => link_raw s (fst p) (snd p)) ps s.

Definition partners (ps : list (nat * nat)) (c : nat) : list nat :=
  flat_map (fun p => if Nat.eqb c (fst p) then [snd p] else if Nat.eqb c (snd p) then [fst p] else []) ps.

Lemma partners_app ps qs c : partners (ps ++ qs) c = partners ps c ++ partners qs c.
Proof. unfold partners. now rewrite flat_map_app. Qed.

Lemma partners_cons a b r c :
  partners ((a, b) :: r) c = (if Nat.eqb c a then [b] else if Nat.eqb c b then [a] else []) ++ partners r c.
Proof. reflexivity. Qed.

Lemma partners_In ps c x : In x (partners ps c) <-> In (c, x) ps \/ In (x, c) ps.
Proof.
  induction ps as [|[a b] r IH]; simpl; [tauto|].
  rewrite in_app_iff, IH. clear IH.
  destruct (Nat.eqb c a) eqn:E1.
  - apply Nat.eqb_eq in E1. subst a. simpl. split.
    + intros [[H|[]]|[H|H]]; subst; auto.
    + intros [[H|H]|[H|H]]; auto.
      * inversion H; subst; auto.
      * inversion H; subst. auto.
  - apply Nat.eqb_neq in E1. destruct (Nat.eqb c b) eqn:E2.
    + apply Nat.eqb_eq in E2. subst b. simpl. split.
      * intros [[H|[]]|[H|H]]; subst; auto.
      * intros [[H|H]|[H|H]]; auto.
        -- inversion H; subst. congruence.
        -- inversion H; subst; auto.
    + apply Nat.eqb_neq in E2. simpl. split.
      * intros [[]|[H|H]]; auto.
      * intros [[H|H]|[H|H]]; auto; inversion H; subst; congruence.
Qed.

Lemma link_raw_at s a b c : a <> b ->
  link_raw s a b c = if Nat.eqb c a then b :: s a else if Nat.eqb c b then a :: s b else s c.
Proof.
  intros Hab. unfold link_raw.
  destruct (Nat.eqb c a) eqn:E1.
  - apply Nat.eqb_eq in E1. subst c. rewrite upd_neq by auto. apply upd_eq.
  - apply Nat.eqb_neq in E1. destruct (Nat.eqb c b) eqn:E2.
    + apply Nat.eqb_eq in E2. subst c. rewrite upd_eq. now rewrite upd_neq by auto.
    + apply Nat.eqb_neq in E2. now rewrite !upd_neq by auto.
Qed.

(* a pair list none of whose pairs is reflexive *)
Definition irrefl_pairs (ps : list (nat * nat)) : Prop := forall a b, In (a, b) ps -> a <> b.

Lemma links_at ps : forall s c, irrefl_pairs ps -> links s ps c = rev (partners ps c) ++ s c.
Proof.
  induction ps as [|[a b] r IH]; intros s c Hir; [reflexivity|].
  assert (Hab : a <> b) by (apply Hir; now left).
  assert (Hr : irrefl_pairs r) by (intros x y H; apply Hir; now right).
  change (links s ((a, b) :: r)) with (links (link_raw s a b) r).
  rewrite IH by exact Hr. rewrite link_raw_at by exact Hab.
  change (partners ((a, b) :: r) c) with
    ((if Nat.eqb c a then [b] else if Nat.eqb c b then [a] else []) ++ partners r c).
  rewrite rev_app_distr.
  destruct (Nat.eqb c a) eqn:E1.
  - apply Nat.eqb_eq in E1. subst c. simpl. now rewrite <- app_assoc.
  - destruct (Nat.eqb c b) eqn:E2.
    + apply Nat.eqb_eq in E2. subst c. simpl. now rewrite <- app_assoc.
    + simpl. now rewrite app_nil_r.
Qed.

(* disc1 when both sides list each other exactly once, in the shape the undo meets them *)
Lemma disc1_mid u a b Xa Ya Xb Yb : a <> b ->
  u a = Xa ++ b :: Ya -> ~ In b Xa -> ~ In b Ya ->
  u b = Xb ++ a :: Yb -> ~ In a Xb ->
  forall c, disc1 u a b c = if Nat.eqb c a then Xa ++ Ya else if Nat.eqb c b then Xb ++ Yb else u c.
Proof.
  intros Hab Ea Hxa Hya Eb Hxb c. unfold disc1.
  assert (Hlen : exists f, S (List.length (u a) + List.length (u b)) = S (S (S f))).
  { rewrite Ea, Eb, !app_length. simpl. eexists. rewrite !Nat.add_succ_r. simpl. reflexivity. }
  destruct Hlen as [f ->].
  cbn [disc_rec].
  assert (M1 : memn b (u a) = true).
  { apply memn_true_of. rewrite Ea. apply in_or_app. right. now left. }
  rewrite M1.
  set (u1 := upd u a (remove1 Nat.eqb b (u a))).
  assert (U1b : u1 b = u b) by (unfold u1; apply upd_neq; auto).
  assert (M2 : memn a (u1 b) = true).
  { apply memn_true_of. rewrite U1b, Eb. apply in_or_app. right. now left. }
  rewrite M2.
  set (u2 := upd u1 b (remove1 Nat.eqb a (u1 b))).
  assert (U2a : u2 a = Xa ++ Ya).
  { unfold u2. rewrite upd_neq by auto. unfold u1. rewrite upd_eq, Ea. now apply remove1_mid. }
  assert (M3 : memn b (u2 a) = false).
  { apply memn_false_of. rewrite U2a. intros H. apply in_app_or in H. tauto. }
  rewrite M3.
  destruct (Nat.eqb c a) eqn:E1.
  - apply Nat.eqb_eq in E1. subst c. exact U2a.
  - apply Nat.eqb_neq in E1. destruct (Nat.eqb c b) eqn:E2.
    + apply Nat.eqb_eq in E2. subst c. unfold u2. rewrite upd_eq, U1b, Eb. now apply remove1_mid.
    + apply Nat.eqb_neq in E2. unfold u2, u1. now rewrite !upd_neq by auto.
Qed.

(* the pairs an edit may safely log for its undo: pairwise different (also up to orientation),
   none reflexive, none connected before *)
Definition Good (s0 : cstore) (ps : list (nat * nat)) : Prop :=
  NoDup ps /\
  forall a b, In (a, b) ps -> a <> b /\ ~ In (b, a) ps /\ ~ In b (s0 a) /\ ~ In a (s0 b).

Lemma Good_nil s0 : Good s0 [].
Proof. split; [constructor|]. intros a b []. Qed.

Lemma Good_tail s0 p ps : Good s0 (p :: ps) -> Good s0 ps.
Proof.
  intros [ND H]. inversion ND; subst. split; auto.
  intros a b Hin. destruct (H a b (or_intror Hin)) as (G1 & G2 & G3 & G4).
  repeat split; auto. intros Hx. apply G2. now right.
Qed.

Lemma Good_irrefl s0 ps : Good s0 ps -> irrefl_pairs ps.
Proof. intros [_ H] a b Hin. now destruct (H a b Hin). Qed.

Lemma Good_snoc s0 ps a b :
  Good s0 ps -> a <> b -> ~ In (a, b) ps -> ~ In (b, a) ps -> ~ In b (s0 a) -> ~ In a (s0 b) ->
  Good s0 (ps ++ [(a, b)]).
Proof.
  intros [ND H] Hab H1 H2 H3 H4. split.
  - apply NoDup_snoc; auto.
  - intros x y Hin. apply in_app_or in Hin. destruct Hin as [Hin|[Hin|[]]].
    + destruct (H x y Hin) as (G1 & G2 & G3 & G4). repeat split; auto.
      intros Hx. apply in_app_or in Hx. destruct Hx as [Hx|[Hx|[]]]; auto.
      inversion Hx; subst. auto.
    + inversion Hin; subst. repeat split; auto.
      intros Hx. apply in_app_or in Hx. destruct Hx as [Hx|[Hx|[]]]; auto.
      inversion Hx; subst. congruence.
Qed.

(* the shape of a store in which the pairs [ps] were linked on top of [s0] *)
Definition linked (s0 : cstore) (ps : list (nat * nat)) (u : cstore) : Prop :=
  forall c, u c = rev (partners ps c) ++ s0 c.

Lemma linked_nil s0 : linked s0 [] s0.
Proof. intros c. reflexivity. Qed.

Lemma linked_links s0 ps : irrefl_pairs ps -> linked s0 ps (links s0 ps).
Proof. intros H c. now apply links_at. Qed.

Lemma linked_snoc s0 ps u a b : a <> b -> linked s0 ps u -> linked s0 (ps ++ [(a, b)]) (link_raw u a b).
Proof.
  intros Hab L c. rewrite link_raw_at by exact Hab. rewrite partners_app, rev_app_distr.
  rewrite !L. simpl.
  destruct (Nat.eqb c a) eqn:E1.
  - apply Nat.eqb_eq in E1. subst c. reflexivity.
  - destruct (Nat.eqb c b) eqn:E2.
    + apply Nat.eqb_eq in E2. subst c. reflexivity.
    + reflexivity.
Qed.

(* `for this, that in new_connections: this.disconnect(that)` gives back the store the pairs
   were linked onto -- provided the log is Good *)
Lemma undo_pairs_restores s0 ps : Good s0 ps -> forall u, linked s0 ps u -> same (undo_pairs u ps) s0.
Proof.
  induction ps as [|[a b] r IH]; intros G u L.
  - intros c. simpl. rewrite L. reflexivity.
  - destruct G as [ND H]. destruct (H a b (or_introl eq_refl)) as (Hab & Hba & Hb & Ha).
    inversion ND as [|? ? Hnin ND']; subst.
    assert (G' : Good s0 r) by (apply (Good_tail s0 (a, b)); split; auto).
    assert (Pa : ~ In b (partners r a)).
    { intros Hx. apply partners_In in Hx. destruct Hx as [Hx|Hx]; auto. apply Hba. now right. }
    assert (Pb : ~ In a (partners r b)).
    { intros Hx. apply partners_In in Hx. destruct Hx as [Hx|Hx]; auto. apply Hba. now right. }
    assert (Ea : u a = rev (partners r a) ++ b :: s0 a).
    { rewrite L, partners_cons, Nat.eqb_refl, rev_app_distr. simpl.
      rewrite <- app_assoc. reflexivity. }
    assert (Eb : u b = rev (partners r b) ++ a :: s0 b).
    { assert (E : Nat.eqb b a = false) by (apply Nat.eqb_neq; auto).
      rewrite L, partners_cons, E, Nat.eqb_refl, rev_app_distr. simpl. rewrite <- app_assoc. reflexivity. }
    change (undo_pairs u ((a, b) :: r)) with (undo_pairs (fst (disconnect u a [b])) r).
    assert (M : memn b (u a) = true).
    { apply memn_true_of. rewrite Ea. apply in_or_app. right. now left. }
    simpl disconnect. rewrite M. simpl fst.
    apply IH; auto.
    intros c.
    rewrite (disc1_mid u a b (rev (partners r a)) (s0 a) (rev (partners r b)) (s0 b)); auto.
    + destruct (Nat.eqb c a) eqn:E1.
      * apply Nat.eqb_eq in E1. now subst c.
      * destruct (Nat.eqb c b) eqn:E2.
        -- apply Nat.eqb_eq in E2. now subst c.
        -- rewrite L, partners_cons, E1, E2. reflexivity.
    + rewrite <- in_rev. exact Pa.
    + rewrite <- in_rev. exact Pb.
Qed.

(* one guarded connection on top of a Good log *)
Lemma connect1_step W s0 ps u k a b u' k' r :
  Good s0 ps -> linked s0 ps u ->
  ~ In b (s0 a) -> ~ In a (s0 b) -> ~ In (a, b) ps -> ~ In (b, a) ps ->
  connect1 W u k a b = (u', k', r) ->
  (r = Ok /\ Good s0 (ps ++ [(a, b)]) /\ linked s0 (ps ++ [(a, b)]) u') \/
  ((exists e, r = Err e) /\ u' = u).
Proof.
  intros G L Hb Ha Hab Hba. unfold connect1.
  destruct (tick k) as [k1 boom]. destruct boom.
  - intros E. inversion E; subst. right. split; eauto.
  - assert (M : memn b (u a) = false).
    { apply memn_false_of. rewrite L. intros Hx. apply in_app_or in Hx. destruct Hx as [Hx|Hx]; auto.
      rewrite <- in_rev in Hx. apply partners_In in Hx. tauto. }
    rewrite M. destruct (conjb W a b) eqn:Cj.
    + destruct (validb W a b).
      * intros E. inversion E; subst. left.
        assert (Hne : a <> b).
        { intros ->. unfold conjb in Cj. destruct (cget W b) as [x|]; [|discriminate].
          destruct (c_panel x); discriminate. }
        split; [reflexivity|]. split.
        -- apply Good_snoc; auto.
        -- apply linked_snoc; auto.
      * intros E. inversion E; subst. right. split; eauto.
    + intros E. inversion E; subst. right. split; eauto.
Qed.

(* ---- Channel.copy_connections ----------------------------------------------------------------- *)
Lemma disconnect_is_undo u a new : fst (disconnect u a new) = undo_pairs u (map (fun t => (a, t)) new).
Proof.
  revert u. induction new as [|t r IH]; intros u; [reflexivity|].
  simpl. destruct (memn t (u a)) eqn:M.
  - destruct (disconnect (disc1 u a t) a r) as [s' ps] eqn:E. simpl.
    change s' with (fst (s', ps)). rewrite <- E. apply IH.
  - apply IH.
Qed.

Lemma copy_go_atomic W s0 a : Sym s0 ->
  forall ts new u k u' k' e,
    Good s0 (map (fun t => (a, t)) new) -> linked s0 (map (fun t => (a, t)) new) u ->
    NoDup ts -> (forall t, In t ts -> ~ In t new /\ ~ In t (s0 a)) ->
    copy_go W a ts new u k = (u', k', Err e) -> same u' s0.
Proof.
  intros HS. induction ts as [|t r IH]; intros new u k u' k' e G L ND Hts E.
  - discriminate.
  - simpl in E. destruct (connect1 W u k a t) as [[u1 k1] r1] eqn:C.
    inversion ND as [|? ? Hnin ND']; subst.
    destruct (Hts t (or_introl eq_refl)) as [Hn Hs].
    assert (Ha : ~ In a (s0 t)) by (intros Hx; apply Hs; now apply HS).
    assert (P1 : ~ In (a, t) (map (fun t => (a, t)) new)).
    { intros Hx. apply in_map_iff in Hx. destruct Hx as (x & Hx & Hin). inversion Hx; subst. auto. }
    assert (P2 : ~ In (t, a) (map (fun t => (a, t)) new)).
    { intros Hx. apply in_map_iff in Hx. destruct Hx as (x & Hx & Hin). inversion Hx; subst.
      destruct G as [_ G]. assert (Hi : In (t, t) (map (fun t0 => (t, t0)) new)).
      { apply in_map_iff. eauto. }
      destruct (G t t Hi) as [Hne _]. congruence. }
    destruct (connect1_step W s0 _ u k a t u1 k1 r1 G L Hs Ha P1 P2 C) as [(-> & G1 & L1)|((e1 & ->) & ->)].
    + rewrite <- map_last in G1, L1. apply (IH (new ++ [t]) u1 k1 u' k' e); auto.
      intros x Hx. destruct (Hts x (or_intror Hx)) as [Hxn Hxs]. split; auto.
      intros Hy. apply in_app_or in Hy. destruct Hy as [Hy|[Hy|[]]]; auto. subst. contradiction.
    + inversion E; subst. rewrite disconnect_is_undo. apply undo_pairs_restores; auto.
Qed.

(* A1: a failed Channel.copy_connections leaves every connection list as it was, when the two
   channels share no connection (for every failure index of the fault oracle) *)
Theorem copy_conns_atomic W s k a o s' k' e :
  Sym s -> NoDupS s -> (forall t, In t (s o) -> ~ In t (s a)) ->
  copy_conns W s k a o = (s', k', Err e) -> same s' s.
Proof.
  intros HS HN Hd E. unfold copy_conns in E.
  assert (G : Good s (map (fun t => (a, t)) [])) by apply Good_nil.
  assert (L : linked s (map (fun t => (a, t)) []) s) by apply linked_nil.
  assert (Hts : forall t, In t (s o) -> ~ In t [] /\ ~ In t (s a)) by (intros t Ht; split; auto).
  exact (copy_go_atomic W s a HS (s o) [] s k s' k' e G L (HN o) Hts E).
Qed.

(* ---- panels ------------------------------------------------------------------------------------ *)
Definition cpanel (W : world) (c : nat) : option panel :=
  match cget W c with Some x => Some (c_panel x) | None => None end.

Lemma in_panel_chans W n p c : In c (panel_chans W n p) -> owner_of W c = n /\ cpanel W c = Some p.
Proof.
  unfold panel_chans. rewrite filter_In. intros [_ H]. unfold in_panel in H.
  unfold owner_of, cpanel. destruct (cget W c) as [x|]; [|discriminate].
  apply andb_true_iff in H. destruct H as [H1 H2]. apply Nat.eqb_eq in H1.
  split; auto. destruct (c_panel x), p; simpl in H2; try discriminate; reflexivity.
Qed.

Lemma in_all_chans W n c : In c (all_chans W n) -> owner_of W c = n.
Proof.
  unfold all_chans. rewrite !in_app_iff. intros [H|[H|[H|H]]]; now apply in_panel_chans in H.
Qed.

Lemma panel_in_all W n p c : In c (panel_chans W n p) -> In c (all_chans W n).
Proof. unfold all_chans. rewrite !in_app_iff. destruct p; auto. Qed.

Lemma find_chan_spec W n p l c : find_chan W n p l = Some c -> In c (panel_chans W n p) /\ clabel W c = l.
Proof.
  unfold find_chan. intros H. apply find_some in H. destruct H as [H1 H2].
  split; auto. unfold has_label in H2. now apply Nat.eqb_eq in H2.
Qed.

Lemma my_chan_spec W n ch c : my_chan W n ch = Some c ->
  owner_of W c = n /\ cpanel W c = cpanel W ch /\ clabel W c = clabel W ch.
Proof.
  unfold my_chan. destruct (cget W ch) as [x|] eqn:E; [|discriminate]. intros H.
  apply find_chan_spec in H. destruct H as [H1 H2]. apply in_panel_chans in H1. destruct H1 as [H1 H3].
  repeat split; auto.
  - unfold cpanel at 2. now rewrite E.
  - unfold clabel at 2. now rewrite E.
Qed.

(* the channels of a node are told apart by (panel, label) *)
Definition uniq_labels (W : world) (n : nat) : Prop :=
  forall c1 c2, In c1 (all_chans W n) -> In c2 (all_chans W n) ->
                cpanel W c1 = cpanel W c2 -> clabel W c1 = clabel W c2 -> c1 = c2.

Lemma my_chan_inj W dst src c1 c2 c : uniq_labels W src ->
  In c1 (all_chans W src) -> In c2 (all_chans W src) ->
  my_chan W dst c1 = Some c -> my_chan W dst c2 = Some c -> c1 = c2.
Proof.
  intros U H1 H2 M1 M2. apply my_chan_spec in M1. apply my_chan_spec in M2.
  destruct M1 as (_ & P1 & L1). destruct M2 as (_ & P2 & L2). apply U; auto; congruence.
Qed.

(* ---- HasIO._copy_connections -------------------------------------------------------------------- *)
Section CopyConnections.
Variable W : world.
Variables dst src : nat.
Variable s0 : cstore.
Hypothesis Hne : dst <> src.
Hypothesis HS : Sym s0.
Hypothesis HN : NoDupS s0.
Hypothesis HU : uniq_labels W src.

(* what the other object is connected to are third parties the receiving channel does not know yet *)
Definition third_party : Prop :=
  forall ch, In ch (all_chans W src) -> forall t, In t (s0 ch) ->
    owner_of W t <> src /\ owner_of W t <> dst /\ (forall c, my_chan W dst ch = Some c -> ~ In t (s0 c)).
Hypothesis HT : third_party.

Definition Own (new : list (nat * nat)) : Prop :=
  forall a b, In (a, b) new -> owner_of W a = dst /\ owner_of W b <> dst /\ owner_of W b <> src.

Lemma own_src_untouched new u ch : Own new -> linked s0 new u -> owner_of W ch = src -> u ch = s0 ch.
Proof.
  intros O L Hch. rewrite L. assert (E : partners new ch = []).
  { destruct (partners new ch) as [|x r] eqn:E; auto.
    assert (Hin : In x (partners new ch)) by (rewrite E; now left).
    apply partners_In in Hin. destruct Hin as [Hin|Hin]; destruct (O _ _ Hin) as (O1 & O2 & O3); congruence. }
  rewrite E. reflexivity.
Qed.

(* the plan of one channel of the other object *)
Definition plan1 (ch : nat) : list (nat * nat) :=
  match my_chan W dst ch with Some c => map (fun t => (c, t)) (s0 ch) | None => [] end.

Lemma cc_targets_some c : owner_of W c = dst ->
  forall ts new u k u' k' new' raised,
    Good s0 new -> linked s0 new u -> Own new -> NoDup ts ->
    (forall t, In t ts -> owner_of W t <> src /\ owner_of W t <> dst /\ ~ In t (s0 c) /\ ~ In (c, t) new) ->
    cc_targets W true (Some c) ts u k new = (u', k', new', raised) ->
    if raised then same u' s0
    else Good s0 new' /\ linked s0 new' u' /\ Own new' /\ new' = new ++ map (fun t => (c, t)) ts.
Proof.
  intros Hc. induction ts as [|t r IH]; intros new u k u' k' new' raised G L O ND Hts E.
  - simpl in E. inversion E; subst. rewrite app_nil_r. auto.
  - simpl in E. inversion ND as [|? ? Hnin ND']; subst.
    destruct (Hts t (or_introl eq_refl)) as (T1 & T2 & T3 & T4).
    assert (Hc_t : ~ In c (s0 t)) by (intros Hx; apply T3; now apply HS).
    assert (P2 : ~ In (t, c) new).
    { intros Hx. destruct (O _ _ Hx) as (O1 & _). congruence. }
    destruct (connect1 W u k c t) as [[u1 k1] r1] eqn:C.
    destruct (connect1_step W s0 new u k c t u1 k1 r1 G L T3 Hc_t T4 P2 C) as [(-> & G1 & L1)|((e1 & ->) & ->)].
    + assert (O1 : Own (new ++ [(c, t)])).
      { intros a b Hin. apply in_app_or in Hin. destruct Hin as [Hin|[Hin|[]]]; auto.
        inversion Hin; subst. auto. }
      specialize (IH (new ++ [(c, t)]) u1 k1 u' k' new' raised G1 L1 O1 ND').
      assert (Hts' : forall x, In x r -> owner_of W x <> src /\ owner_of W x <> dst /\ ~ In x (s0 c) /\
                                         ~ In (c, x) (new ++ [(c, t)])).
      { intros x Hx. destruct (Hts x (or_intror Hx)) as (X1 & X2 & X3 & X4). repeat split; auto.
        intros Hy. apply in_app_or in Hy. destruct Hy as [Hy|[Hy|[]]]; auto. inversion Hy; subst. contradiction. }
      specialize (IH Hts' E). destruct raised; auto.
      destruct IH as (I1 & I2 & I3 & I4). split; [exact I1|split; [exact I2|split; [exact I3|]]].
      rewrite I4, <- app_assoc. reflexivity.
    + inversion E; subst. now apply undo_pairs_restores.
Qed.

Lemma cc_targets_none ts new u k u' k' new' raised :
  Good s0 new -> linked s0 new u ->
  cc_targets W true None ts u k new = (u', k', new', raised) ->
  if raised then same u' s0 else ts = [] /\ u' = u /\ new' = new.
Proof.
  intros G L E. destruct ts as [|t r]; simpl in E; inversion E; subst; auto.
  now apply undo_pairs_restores.
Qed.

Lemma cc_channels_inv :
  forall chs done new u k u' k' new' raised,
    Good s0 new -> linked s0 new u -> Own new ->
    (forall a b, In (a, b) new -> exists ch, In ch done /\ my_chan W dst ch = Some a) ->
    NoDup chs -> (forall ch, In ch chs -> In ch (all_chans W src) /\ ~ In ch done) ->
    (forall ch, In ch done -> In ch (all_chans W src)) ->
    cc_channels W true dst chs u k new = (u', k', new', raised) ->
    if raised then same u' s0
    else Good s0 new' /\ linked s0 new' u' /\ Own new' /\ new' = new ++ flat_map plan1 chs /\
         (forall ch, In ch chs -> s0 ch <> [] -> my_chan W dst ch <> None).
Proof.
  induction chs as [|ch r IH]; intros done new u k u' k' new' raised G L O Org ND Hchs Hdone E.
  - simpl in E. inversion E; subst. rewrite app_nil_r.
    split; [exact G|split; [exact L|split; [exact O|split; [reflexivity|intros ch0 []]]]].
  - simpl in E. inversion ND as [|? ? Hnin ND']; subst.
    destruct (Hchs ch (or_introl eq_refl)) as [Hsrc Hnd].
    assert (Hown : owner_of W ch = src) by now apply in_all_chans.
    assert (Hlist : u ch = s0 ch) by (eapply own_src_untouched; eauto).
    rewrite Hlist in E.
    destruct (cc_targets W true (my_chan W dst ch) (s0 ch) u k new) as [[[u1 k1] new1] raised1] eqn:C.
    destruct (my_chan W dst ch) as [c|] eqn:M.
    + assert (Hc : owner_of W c = dst) by (apply my_chan_spec in M; tauto).
      assert (Hts : forall t, In t (s0 ch) -> owner_of W t <> src /\ owner_of W t <> dst /\ ~ In t (s0 c) /\
                                             ~ In (c, t) new).
      { intros t Ht. destruct (HT ch Hsrc t Ht) as (T1 & T2 & T3). repeat split; auto.
        intros Hx. destruct (Org _ _ Hx) as (ch' & Hd & M'). 
        assert (ch' = ch) by (eapply my_chan_inj; eauto). subst. contradiction. }
      pose proof (cc_targets_some c Hc (s0 ch) new u k u1 k1 new1 raised1 G L O (HN ch) Hts C) as R.
      destruct raised1.
      * inversion E; subst. exact R.
      * destruct R as (G1 & L1 & O1 & N1).
        assert (Org1 : forall a b, In (a, b) new1 -> exists ch', In ch' (ch :: done) /\ my_chan W dst ch' = Some a).
        { intros a b Hin. rewrite N1 in Hin. apply in_app_or in Hin. destruct Hin as [Hin|Hin].
          - destruct (Org _ _ Hin) as (ch' & Hd & M'). exists ch'. split; auto. now right.
          - apply in_map_iff in Hin. destruct Hin as (t & Ht & _). inversion Ht; subst. exists ch. split; auto. now left. }
        assert (Hchs' : forall x, In x r -> In x (all_chans W src) /\ ~ In x (ch :: done)).
        { intros x Hx. destruct (Hchs x (or_intror Hx)) as [X1 X2]. split; auto.
          intros [->|Hy]; auto. }
        assert (Hdone' : forall x, In x (ch :: done) -> In x (all_chans W src)).
        { intros x [->|Hx]; auto. }
        specialize (IH (ch :: done) new1 u1 k1 u' k' new' raised G1 L1 O1 Org1 ND' Hchs' Hdone' E).
        destruct raised; auto. destruct IH as (I1 & I2 & I3 & I4 & I5).
        split; [exact I1|split; [exact I2|split; [exact I3|split]]].
        -- rewrite I4, N1, <- app_assoc. cbn [flat_map].
           replace (plan1 ch) with (map (fun t => (c, t)) (s0 ch)) by (unfold plan1; now rewrite M).
           reflexivity.
        -- intros x [->|Hx] Hx0; [rewrite M; discriminate|auto].
    + pose proof (cc_targets_none (s0 ch) new u k u1 k1 new1 raised1 G L C) as R.
      destruct raised1.
      * inversion E; subst. exact R.
      * destruct R as (R1 & -> & ->).
        assert (Org1 : forall a b, In (a, b) new -> exists ch', In ch' (ch :: done) /\ my_chan W dst ch' = Some a).
        { intros a b Hin. destruct (Org _ _ Hin) as (ch' & Hd & M'). exists ch'. split; auto. now right. }
        assert (Hchs' : forall x, In x r -> In x (all_chans W src) /\ ~ In x (ch :: done)).
        { intros x Hx. destruct (Hchs x (or_intror Hx)) as [X1 X2]. split; auto.
          intros [->|Hy]; auto. }
        assert (Hdone' : forall x, In x (ch :: done) -> In x (all_chans W src)).
        { intros x [->|Hx]; auto. }
        specialize (IH (ch :: done) new u k1 u' k' new' raised G L O Org1 ND' Hchs' Hdone' E).
        destruct raised; auto. destruct IH as (I1 & I2 & I3 & I4 & I5).
        split; [exact I1|split; [exact I2|split; [exact I3|split]]].
        -- rewrite I4. cbn [flat_map].
           replace (plan1 ch) with (@nil (nat * nat)) by (unfold plan1; now rewrite M).
           reflexivity.
        -- intros x [->|Hx] Hx0; [congruence|auto].
Qed.

Lemma all_chans_nodup n : NoDup (all_chans W n).
Proof.
  unfold all_chans.
  assert (F : forall p, NoDup (panel_chans W n p)).
  { intros p. unfold panel_chans. apply NoDup_filter. apply seq_NoDup. }
  assert (D : forall p q c, p <> q -> In c (panel_chans W n p) -> ~ In c (panel_chans W n q)).
  { intros p q c Hpq H1 H2. apply in_panel_chans in H1. apply in_panel_chans in H2.
    destruct H1 as [_ H1]. destruct H2 as [_ H2]. congruence. }
  repeat (apply NoDup_app_intro; [apply F| |]); try apply F.
  all: intros c H1 H2; rewrite ?in_app_iff in H2;
    repeat (destruct H2 as [H2|H2]); (eapply D; [|exact H1|exact H2]; discriminate).
Qed.

(* the plan of the whole copy: every connection of the other object, channel by channel *)
Definition plan : list (nat * nat) := flat_map plan1 (all_chans W src).

Lemma copy_connections_io_spec k u' k' new' raised :
  copy_connections_io W true dst src s0 k = (u', k', new', raised) ->
  if raised then same u' s0
  else Good s0 new' /\ linked s0 new' u' /\ Own new' /\ new' = plan /\
       (forall ch, In ch (all_chans W src) -> s0 ch <> [] -> my_chan W dst ch <> None).
Proof.
  intros E. unfold copy_connections_io in E.
  apply (cc_channels_inv (all_chans W src) [] [] s0 k u' k' new' raised); auto.
  - apply Good_nil.
  - apply linked_nil.
  - intros a b [].
  - intros a b [].
  - apply all_chans_nodup.
  - intros ch [].
Qed.

End CopyConnections.

(* ---- values ------------------------------------------------------------------------------------- *)
Lemma set_value_err W fuel r v k c x v' k' e :
  set_value W fuel r v k c x = (v', k', Err e) -> v' = v.
Proof.
  revert v k c v' k' e. induction fuel as [|f IH]; intros v k c v' k' e E; simpl in E.
  - now inversion E.
  - destruct (tick k) as [k1 boom]. destruct boom; [now inversion E|].
    destruct (type_ok W c x); [|now inversion E].
    destruct (r c) as [d|].
    + destruct (set_value W f r v k1 d x) as [[v1 k2] r1] eqn:R. destruct r1.
      * inversion E.
      * inversion E; subst. eapply IH; eauto.
    + inversion E.
Qed.

(* a channel without value receiver: the setter stores the value, or raises and stores nothing *)
Lemma set_value_plain W fuel r v k c x v' k' rs :
  r c = None -> set_value W (S fuel) r v k c x = (v', k', rs) ->
  (rs = Ok /\ v' = upd v c x) \/ ((exists e, rs = Err e) /\ v' = v).
Proof.
  intros Hr E. simpl in E. destruct (tick k) as [k1 boom]. destruct boom.
  - inversion E; subst. right. eauto.
  - destruct (type_ok W c x).
    + rewrite Hr in E. inversion E; subst. left. auto.
    + inversion E; subst. right. eauto.
Qed.

(* the undo of _copy_panel on receiver-free channels: every logged channel gets its logged value *)
Lemma undo_vals_restores W r v0 : forall old v k v' k',
  (forall c x, In (c, x) old -> r c = None /\ x = v0 c) ->
  (forall c, ~ In c (map fst old) -> v c = v0 c) ->
  undo_vals W r v k old = (v', k', Ok) -> same v' v0.
Proof.
  induction old as [|[c x] rest IH]; intros v k v' k' Hold Hv E.
  - simpl in E. inversion E; subst. intros c. apply Hv. intros [].
  - cbn [undo_vals] in E. destruct (set_value W (vfuel W) r v k c x) as [[v1 k1] r1] eqn:S1.
    destruct r1; [|discriminate].
    destruct (Hold c x (or_introl eq_refl)) as [Hr Hx].
    destruct (set_value_plain W _ r v k c x v1 k1 Ok Hr S1) as [[_ ->]|[[e He] _]]; [|discriminate].
    apply (IH _ _ _ _ (fun c' x' H => Hold c' x' (or_intror H))) in E; auto.
    intros c' Hc'. destruct (Nat.eq_dec c' c) as [->|Hne].
    + rewrite upd_eq. exact Hx.
    + rewrite upd_neq by exact Hne. apply Hv. simpl. intros [H|H]; auto.
Qed.

Lemma after_undo_ok wrapped u v k e : after_undo wrapped u = (v, k, Err e) ->
  (e = wrapped /\ exists k0, u = (v, k0, Ok) /\ k = k0) \/ u = (v, k, Err e).
Proof.
  destruct u as [[v1 k1] [|e1]]; simpl; intros E; inversion E; subst; eauto.
Qed.

Section CopyPanel.
Variable W : world.
Variables dst : nat.
Variable p : panel.
Variable r : rstore.
Variable v0 : vstore.
(* the receiving channels forward their value to nobody *)
Hypothesis Hrecv : forall c, owner_of W c = dst -> r c = None.

Lemma cp_go_atomic : forall chs (seen : list nat) old v k v' k',
  (forall c x, In (c, x) old -> owner_of W c = dst /\ x = v0 c /\ In (clabel W c) seen) ->
  (forall c, ~ In c (map fst old) -> v c = v0 c) ->
  NoDup (map (clabel W) chs) -> (forall ch, In ch chs -> ~ In (clabel W ch) seen) ->
  cp_go W true dst p chs r v k old = (v', k', Err ValueCopyErr) -> same v' v0.
Proof.
  induction chs as [|ch rest IH]; intros seen old v k v' k' Hold Hv ND Hseen E.
  - discriminate.
  - cbn [cp_go] in E. inversion ND as [|? ? Hnin ND']; subst.
    assert (Hseen' : forall x, In x rest -> ~ In (clabel W x) (clabel W ch :: seen)).
    { intros x Hx [Hy|Hy].
      - apply Hnin. rewrite Hy. now apply in_map.
      - apply (Hseen x); auto. now right. }
    assert (Hold' : forall c x, In (c, x) old -> owner_of W c = dst /\ x = v0 c /\ In (clabel W c) (clabel W ch :: seen)).
    { intros c x Hin. destruct (Hold c x Hin) as (A1 & A2 & A3). repeat split; auto. now right. }
    assert (Undo : forall v1 k1 v2 k2, (forall c, ~ In c (map fst old) -> v1 c = v0 c) ->
                    after_undo ValueCopyErr (undo_vals W r v1 k1 old) = (v2, k2, Err ValueCopyErr) -> same v2 v0).
    { intros v1 k1 v2 k2 Hv1 A. apply after_undo_ok in A. destruct A as [[_ (k0 & A & _)]|A].
      - eapply undo_vals_restores; eauto. intros c x Hin. destruct (Hold c x Hin) as (A1 & A2 & _). auto.
      - destruct (undo_vals W r v1 k1 old) as [[vv kk] rr] eqn:U. inversion A; subst.
        (* the undo itself raised ValueCopyErr: impossible, set_value never raises it *)
        exfalso. clear - U.
        revert v1 k1 U. induction old as [|[c x] rest' IH']; intros v1 k1 U; cbn [undo_vals] in U; [discriminate|].
        destruct (set_value W (vfuel W) r v1 k1 c x) as [[v3 k3] r3] eqn:S3. destruct r3.
        + eapply IH'; eauto.
        + inversion U; subst. clear - S3. unfold vfuel in S3. revert v1 k1 c S3.
          generalize (S (List.length W)). intros fuel. induction fuel as [|f IHf]; intros v1 k1 c S3; simpl in S3.
          * discriminate.
          * destruct (tick k1) as [kk bb]. destruct bb; [discriminate|].
            destruct (type_ok W c x); [|discriminate].
            destruct (r c) as [d|]; [|discriminate].
            destruct (set_value W f r v1 kk d x) as [[v4 k4] r4] eqn:S4. destruct r4; [discriminate|].
            inversion S3; subst. eapply IHf; eauto. }
    destruct (v ch) as [x|] eqn:Vch.
    + destruct (find_chan W dst p (clabel W ch)) as [my|] eqn:F.
      * apply find_chan_spec in F. destruct F as [F1 F2]. apply in_panel_chans in F1. destruct F1 as [F1 _].
        destruct (set_value W (vfuel W) r v k my (Some x)) as [[v1 k1] r1] eqn:S1.
        assert (Hmy : ~ In my (map fst old)).
        { intros Hin. apply in_map_iff in Hin. destruct Hin as ([c y] & Hc & Hin). simpl in Hc. subst c.
          destruct (Hold my y Hin) as (_ & _ & A3). rewrite F2 in A3. apply (Hseen ch); auto. now left. }
        destruct (set_value_plain W _ r v k my (Some x) v1 k1 r1 (Hrecv my F1) S1) as [[-> ->]|[[e1 ->] ->]].
        -- apply (IH (clabel W ch :: seen) (old ++ [(my, v my)]) (upd v my (Some x)) k1 v' k'); auto.
           ++ intros c y Hin. apply in_app_or in Hin. destruct Hin as [Hin|[Hin|[]]]; auto.
              inversion Hin; subst. repeat split; auto. rewrite F2. now left.
           ++ intros c Hc. rewrite map_app in Hc. simpl in Hc.
              destruct (Nat.eq_dec c my) as [->|Hne].
              ** exfalso. apply Hc. apply in_or_app. right. now left.
              ** rewrite upd_neq by exact Hne. apply Hv. intros Hx. apply Hc. apply in_or_app. now left.
        -- eapply Undo; eauto.
      * eapply Undo; eauto.
    + apply (IH (clabel W ch :: seen) old v k v' k'); auto.
Qed.

End CopyPanel.

(* without fail_hard nothing is ever raised by _copy_panel *)
Lemma cp_go_soft W dst p r : forall chs v k old v' k' rs,
  cp_go W false dst p chs r v k old = (v', k', rs) -> rs = Ok.
Proof.
  induction chs as [|ch rest IH]; intros v k old v' k' rs E; cbn [cp_go] in E.
  - now inversion E.
  - destruct (v ch) as [x|]; [|eauto].
    destruct (find_chan W dst p (clabel W ch)) as [my|]; [|eauto].
    destruct (set_value W (vfuel W) r v k my (Some x)) as [[v1 k1] [|e1]]; eauto.
Qed.

Lemma NoDup_map_inj {A B} (f : A -> B) (l : list A) :
  NoDup l -> (forall x y, In x l -> In y l -> f x = f y -> x = y) -> NoDup (map f l).
Proof.
  induction l as [|a r IH]; simpl; intros ND Hinj; [constructor|].
  inversion ND; subst. constructor.
  - intros Hin. apply in_map_iff in Hin. destruct Hin as (y & Hy & Hin).
    assert (y = a) by (apply Hinj; auto). subst. contradiction.
  - apply IH; auto.
Qed.

Lemma panel_chans_nodup W n p : NoDup (panel_chans W n p).
Proof. unfold panel_chans. apply NoDup_filter. apply seq_NoDup. Qed.

Lemma panel_labels_nodup W n p : uniq_labels W n -> NoDup (map (clabel W) (panel_chans W n p)).
Proof.
  intros U. apply NoDup_map_inj; [apply panel_chans_nodup|].
  intros x y Hx Hy E. apply U; try (eapply panel_in_all; eassumption); auto.
  apply in_panel_chans in Hx. apply in_panel_chans in Hy. destruct Hx as [_ Hx]. destruct Hy as [_ Hy]. congruence.
Qed.

(* ---- graphs -------------------------------------------------------------------------------------- *)
(* the same graph: children, labels, parents, ordered connections, values, value links, starting
   nodes (the fault counters are no part of the graph) *)
Definition same_graph (st st' : state) : Prop :=
  same (cn st) (cn st') /\ same (vl st) (vl st') /\ same (rc st) (rc st') /\
  same (par st) (par st') /\ same (lab st) (lab st') /\ kids st = kids st' /\ start st = start st'.

Lemma same_graph_refl st : same_graph st st.
Proof. repeat split; apply same_refl. Qed.

Lemma same_graph_trans a b c : same_graph a b -> same_graph b c -> same_graph a c.
Proof.
  intros (A1 & A2 & A3 & A4 & A5 & A6 & A7) (B1 & B2 & B3 & B4 & B5 & B6 & B7).
  repeat split; try congruence; eapply same_trans; eauto.
Qed.

(* ---- HasIO.copy_io --------------------------------------------------------------------------------- *)
Section CopyIO.
Variable W : world.
Variable st : state.
Variables dst src : nat.
Hypothesis Hne : dst <> src.
Hypothesis HS : Sym (cn st).
Hypothesis HN : NoDupS (cn st).
Hypothesis HU : uniq_labels W src.
Hypothesis HT : third_party W dst src (cn st).

(* whatever makes copy_io raise, every connection list is as before *)
Lemma copy_io_conns_restored vfh st' e ph :
  copy_io W st dst src true vfh = (st', CErr e ph) ->
  same (cn st') (cn st) /\ rc st' = rc st /\ par st' = par st /\ lab st' = lab st /\
  kids st' = kids st /\ start st' = start st.
Proof.
  unfold copy_io. destruct (copy_connections_io W true dst src (cn st) (fc st)) as [[[s1 k1] new] raised] eqn:C.
  pose proof (copy_connections_io_spec W dst src (cn st) Hne HS HN HU HT (fc st) s1 k1 new raised C) as R.
  destruct raised.
  - intros E. inversion E; subst. simpl. repeat split; auto.
  - destruct R as (G & L & _).
    simpl. destruct (copy_values W vfh dst src (rc st) (vl st) (fv st)) as [[[v2 k2] [|e2]] second] eqn:V.
    + discriminate.
    + intros E. inversion E; subst. simpl. repeat split; auto.
      now apply undo_pairs_restores.
Qed.

(* A2: a failed copy_io leaves the graph as it was, for a failure raised while connections are
   copied or by the inputs panel of the value copy *)
Lemma copy_io_atomic vfh st' e ph :
  (forall c, owner_of W c = dst -> rc st c = None) ->
  copy_io W st dst src true vfh = (st', CErr e ph) ->
  ph = CConn \/ (ph = CValIn /\ e = ValueCopyErr) ->
  same_graph st st'.
Proof.
  intros Hrecv E Hph.
  destruct (copy_io_conns_restored vfh st' e ph E) as (A1 & A2 & A3 & A4 & A5 & A6).
  unfold same_graph. rewrite A2, A3, A4, A5, A6.
  split; [now apply same_sym|]. split; [|repeat split; apply same_refl].
  revert E. unfold copy_io.
  destruct (copy_connections_io W true dst src (cn st) (fc st)) as [[[s1 k1] new] raised] eqn:C.
  destruct raised.
  - intros E. inversion E; subst. simpl. apply same_refl.
  - simpl. unfold copy_values.
    destruct (copy_panel W vfh dst src PIn (rc st) (vl st) (fv st)) as [[v1 kv1] [|e1]] eqn:P1.
    + destruct (copy_panel W vfh dst src POut (rc st) v1 kv1) as [[v2 kv2] [|e2]] eqn:P2.
      * discriminate.
      * intros E. inversion E; subst. destruct Hph as [Hph|[Hph _]]; discriminate.
    + intros E. inversion E; subst. simpl. destruct Hph as [Hph|[_ Hph]]; [discriminate|]. subst e.
      apply same_sym. unfold copy_panel in P1. destruct vfh.
      * apply (cp_go_atomic W dst PIn (rc st) (vl st) Hrecv (panel_chans W src PIn) [] [] (vl st) (fv st) v1 kv1); auto.
        -- intros c x [].
        -- now apply panel_labels_nodup.
      * apply cp_go_soft in P1. discriminate.
Qed.

End CopyIO.

(* ---- frames: what the sub-steps do not touch ----------------------------------------------------- *)
Lemma copy_io_frame W st dst src cfh vfh st' r :
  copy_io W st dst src cfh vfh = (st', r) ->
  rc st' = rc st /\ par st' = par st /\ lab st' = lab st /\ kids st' = kids st /\ start st' = start st /\
  fl st' = fl st.
Proof.
  unfold copy_io. destruct (copy_connections_io W cfh dst src (cn st) (fc st)) as [[[s1 k1] new] raised].
  destruct raised.
  - intros E. inversion E; subst. simpl. auto 10.
  - simpl. destruct (copy_values W vfh dst src (rc st) (vl st) (fv st)) as [[[v2 k2] [|e2]] second];
      intros E; inversion E; subst; simpl; auto 10.
Qed.

Lemma reforge_frame W : forall lks st st' r,
  reforge W st lks = (st', r) ->
  cn st' = cn st /\ par st' = par st /\ lab st' = lab st /\ kids st' = kids st /\ start st' = start st.
Proof.
  induction lks as [|[a b] rest IH]; intros st st' r E; simpl in E.
  - inversion E; subst. auto.
  - destruct (set_receiver W (rc st) (vl st) (fv st) (fl st) a b) as [[[[r1 v1] kv1] kl1] rs].
    destruct rs.
    + apply IH in E. simpl in E. exact E.
    + inversion E; subst. simpl. auto.
Qed.

(* copy_io with values_fail_hard=False only ever fails while copying connections *)
Lemma copy_io_soft_phase W st dst src cfh st' e ph :
  copy_io W st dst src cfh false = (st', CErr e ph) -> ph = CConn /\ vl st' = vl st.
Proof.
  unfold copy_io. destruct (copy_connections_io W cfh dst src (cn st) (fc st)) as [[[s1 k1] new] raised].
  destruct raised.
  - intros E. inversion E; subst. simpl. auto.
  - simpl. unfold copy_values.
    destruct (copy_panel W false dst src PIn (rc st) (vl st) (fv st)) as [[v1 kv1] r1] eqn:P1.
    unfold copy_panel in P1. pose proof (cp_go_soft _ _ _ _ _ _ _ _ _ _ _ P1) as ->.
    destruct (copy_panel W false dst src POut (rc st) v1 kv1) as [[v2 kv2] r2] eqn:P2.
    unfold copy_panel in P2. pose proof (cp_go_soft _ _ _ _ _ _ _ _ _ _ _ P2) as ->.
    discriminate.
Qed.

(* ---- Composite.replace_child ----------------------------------------------------------------------- *)
Definition InRange (W : world) (s : cstore) : Prop := forall a b, In b (s a) -> b < List.length W.
(* the node is not connected to itself *)
Definition no_self (W : world) (s : cstore) (n : nat) : Prop :=
  forall ch, In ch (all_chans W n) -> forall t, In t (s ch) -> owner_of W t <> n.

Lemma in_range_all_chans W n c : c < List.length W -> owner_of W c = n -> In c (all_chans W n).
Proof.
  intros Hlt Ho. unfold owner_of in Ho. unfold all_chans, panel_chans. rewrite !in_app_iff, !filter_In.
  assert (Hi : In c (ids W)) by (unfold ids; apply in_seq; lia).
  unfold in_panel. destruct (cget W c) as [x|] eqn:E.
  - subst n. rewrite Nat.eqb_refl. simpl. destruct (c_panel x); simpl; auto 10.
  - unfold cget in E. apply nth_error_None in E. lia.
Qed.

Lemma connected_false W s n : connected W s n = false -> forall c, In c (all_chans W n) -> s c = [].
Proof.
  unfold connected. intros H c Hc. destruct (s c) as [|x r] eqn:E; auto.
  exfalso. assert (X : existsb (fun c => match s c with [] => false | _ => true end) (all_chans W n) = true).
  { apply existsb_exists. exists c. split; auto. now rewrite E. }
  congruence.
Qed.

Lemma third_party_unconnected W s old new :
  Sym s -> InRange W s -> no_self W s old -> connected W s new = false ->
  third_party W new old s.
Proof.
  intros HS HR Hself Hc ch Hch t Ht. split; [|split].
  - now apply (Hself ch).
  - intros Ho. assert (Hin : In t (all_chans W new)) by (apply in_range_all_chans; auto; eapply HR; eauto).
    pose proof (connected_false W s new Hc t Hin) as E. apply HS in Ht. rewrite E in Ht. contradiction.
  - intros c M. apply my_chan_spec in M. destruct M as (M1 & M2 & M3).
    destruct (s c) as [|x r] eqn:E; auto.
    assert (Hx : In x (s c)) by (rewrite E; now left).
    assert (Hin : In c (all_chans W new)).
    { apply in_range_all_chans; auto. apply HS in Hx. eapply HR; eauto. }
    rewrite (connected_false W s new Hc c Hin) in E. discriminate.
Qed.

Lemma optnat_eqb_true a b : optnat_eqb a b = true -> a = b.
Proof.
  destruct a, b; simpl; intros H; try discriminate; auto. apply Nat.eqb_eq in H. now subst.
Qed.

Section Replace.
Variable W : world.
Variable st : state.
Variables comp old new : nat.
Hypothesis HS : Sym (cn st).
Hypothesis HN : NoDupS (cn st).
Hypothesis HR : InRange W (cn st).
Hypothesis HU : uniq_labels W old.
Hypothesis Hself : no_self W (cn st) old.

(* A3: replace_child is all-or-nothing for every failure up to and including copy_io *)
Lemma replace_core_atomic st' e ph :
  replace_core W st comp old new = (st', RErr e ph) -> ph = PhCheck \/ ph = PhCopy -> same_graph st st'.
Proof.
  unfold replace_core.
  destruct (optnat_eqb (par st old) (Some comp)) eqn:P1; simpl; [|intros E; inversion E; subst; intros; apply same_graph_refl].
  destruct (optnat_eqb (par st new) None) eqn:P2; simpl; [|intros E; inversion E; subst; intros; apply same_graph_refl].
  destruct (connected W (cn st) new) eqn:Cn; [intros E; inversion E; subst; intros; apply same_graph_refl|].
  apply optnat_eqb_true in P1. apply optnat_eqb_true in P2.
  assert (Hne : new <> old) by (intros ->; congruence).
  destruct (copy_io W st new old true false) as [st1 [|e1 ph1]] eqn:C.
  - destruct (inbound W st1 comp old new) as [inb|]; [|intros E; inversion E; subst; intros [H|H]; discriminate].
    destruct (outbound W st1 comp old new) as [outb|]; [|intros E; inversion E; subst; intros [H|H]; discriminate].
    destruct (reforge W _ (inb ++ outb)) as [st6 [|e6]]; intros E; inversion E; subst; intros [H|H]; discriminate.
  - intros E _. inversion E; subst.
    pose proof (third_party_unconnected W (cn st) old new HS HR Hself Cn) as HT.
    destruct (copy_io_soft_phase W st new old true st' e ph1 C) as [-> Hv].
    destruct (copy_io_conns_restored W st new old Hne HS HN HU HT false st' e CConn C) as (A1 & A2 & A3 & A4 & A5 & A6).
    unfold same_graph. rewrite A2, A3, A4, A5, A6, Hv.
    split; [now apply same_sym|repeat split; apply same_refl].
Qed.

(* the node being replaced takes no part in the macro's value links *)
Definition unlinked : Prop :=
  (forall i r, In i (panel_chans W comp PIn) -> rc st i = Some r -> ~ In r (panel_chans W old PIn)) /\
  (forall o m, In o (panel_chans W old POut) -> rc st o = Some m -> ~ In m (panel_chans W comp POut)).

Lemma filter_none {A} (f : A -> bool) l : (forall x, In x l -> f x = false) -> filter f l = [].
Proof.
  induction l as [|a r IH]; simpl; intros H; auto.
  rewrite (H a (or_introl eq_refl)). apply IH. intros x Hx. apply H. now right.
Qed.

(* ... then EVERY failure of replace_child (for every fault index) leaves the graph as it was *)
Lemma replace_core_unlinked_atomic st' e ph :
  unlinked -> replace_core W st comp old new = (st', RErr e ph) -> same_graph st st'.
Proof.
  intros [U1 U2] E. apply (replace_core_atomic st' e ph E).
  revert E. unfold replace_core.
  destruct (negb (optnat_eqb (par st old) (Some comp))); [intros E; inversion E; auto|].
  destruct (negb (optnat_eqb (par st new) None)); [intros E; inversion E; auto|].
  destruct (connected W (cn st) new); [intros E; inversion E; auto|].
  destruct (copy_io W st new old true false) as [st1 [|e1 ph1]] eqn:C; [|intros E; inversion E; auto].
  destruct (copy_io_frame W st new old true false st1 COk C) as (F1 & _).
  unfold inbound, outbound. rewrite F1.
  rewrite (filter_none _ (panel_chans W comp PIn)).
  2:{ intros i Hi. destruct (rc st i) as [r|] eqn:R; auto. apply memn_false_of. eapply U1; eauto. }
  rewrite (filter_none _ (panel_chans W old POut)).
  2:{ intros o Ho. destruct (rc st o) as [m|] eqn:R; auto. apply memn_false_of. eapply U2; eauto. }
  simpl. intros E. inversion E.
Qed.

End Replace.

(* ---- what a successful replacement inherits ------------------------------------------------------- *)
Section Inherit.
Variable W : world.
Variable st : state.
Variables comp old new : nat.

(* B1: label, parent, place among the children, starting-node status *)
Lemma replace_core_place st' :
  replace_core W st comp old new = (st', ROk) ->
  old <> new /\
  lab st' new = lab st old /\ lab st' old = lab st new /\
  par st' new = Some comp /\ par st' old = None /\
  kids st' = filter (fun k => negb (Nat.eqb k old)) (kids st) ++ [new] /\
  start st' = remove1 Nat.eqb old (start st) ++ (if memn old (start st) then [new] else []) /\
  (forall n, n <> old -> n <> new -> lab st' n = lab st n /\ par st' n = par st n).
Proof.
  unfold replace_core.
  destruct (optnat_eqb (par st old) (Some comp)) eqn:P1; simpl; [|discriminate].
  destruct (optnat_eqb (par st new) None) eqn:P2; simpl; [|discriminate].
  destruct (connected W (cn st) new) eqn:Cn; [discriminate|].
  apply optnat_eqb_true in P1. apply optnat_eqb_true in P2.
  assert (Hne : old <> new) by (intros ->; congruence).
  destruct (copy_io W st new old true false) as [st1 [|e1 ph1]] eqn:C; [|discriminate].
  destruct (copy_io_frame W st new old true false st1 COk C) as (F1 & F2 & F3 & F4 & F5 & F6).
  destruct (inbound W st1 comp old new) as [inb|]; [|discriminate].
  destruct (outbound W st1 comp old new) as [outb|]; [|discriminate].
  match goal with |- context [reforge W ?s (inb ++ outb)] => set (st5 := s) end.
  destruct (reforge W st5 (inb ++ outb)) as [st6 [|e6]] eqn:R; [|discriminate].
  intros E. inversion E; subst st6. clear E.
  destruct (reforge_frame W _ _ _ _ R) as (G1 & G2 & G3 & G4 & G5).
  rewrite G2, G3, G4, G5. unfold st5. rewrite F5.
  split; [exact Hne|].
  destruct (memn old (start st)); simpl; rewrite ?F2, ?F3, ?F4, ?F5.
  all: repeat split.
  all: try (rewrite upd_neq by auto; rewrite upd_eq; reflexivity).
  all: try (rewrite upd_eq; reflexivity).
  all: try (rewrite upd_neq by auto; rewrite upd_eq; reflexivity).
  all: try (rewrite app_nil_r; reflexivity).
  all: try (intros; rewrite !upd_neq by auto; reflexivity).
Qed.

(* re-forging a list of links with pairwise different senders installs every one of them *)
Lemma reforge_installs : forall lks s s',
  reforge W s lks = (s', Ok) -> NoDup (map fst lks) ->
  (forall a b, In (a, b) lks -> rc s' a = Some b) /\
  (forall c, ~ In c (map fst lks) -> rc s' c = rc s c).
Proof.
  induction lks as [|[a b] rest IH]; intros s s' E ND.
  - simpl in E. inversion E; subst. split; [intros a b []|auto].
  - simpl in E. inversion ND as [|? ? Hnin ND']; subst.
    destruct (set_receiver W (rc s) (vl s) (fv s) (fl s) a b) as [[[[r1 v1] kv1] kl1] rs] eqn:SR.
    destruct rs; [|discriminate].
    assert (Hr1 : r1 = upd (rc s) a (Some b)).
    { unfold set_receiver in SR. destruct (tick (fl s)) as [kl' boom]. destruct boom; [discriminate|].
      destruct (negb (same_class W a b)); [discriminate|].
      destruct (Nat.eqb a b); [discriminate|]. destruct (link_hint_bad W a b); [discriminate|].
      destruct (set_value W (vfuel W) (rc s) (vl s) (fv s) b (vl s a)) as [[v2 kv2] [|e2]]; inversion SR; auto. }
    destruct (IH _ _ E ND') as [I1 I2]. simpl in I2. split.
    + intros x y [Hxy|Hin]; auto. inversion Hxy; subst. rewrite I2 by exact Hnin. apply upd_eq.
    + intros c Hc. simpl in Hc.
      assert (X : ~ In c (map fst rest)) by (intros H; apply Hc; now right).
      rewrite (I2 c X). subst r1. apply upd_neq. intros ->. apply Hc. now left.
Qed.

Lemma opt_map_In {A B} (f : A -> option B) l ys :
  opt_map f l = Some ys -> forall x, In x l -> exists y, f x = Some y /\ In y ys.
Proof.
  revert ys. induction l as [|a r IH]; intros ys E x Hx; [destruct Hx|].
  simpl in E. destruct (f a) as [y|] eqn:Fa; [|discriminate].
  destruct (opt_map f r) as [ys'|]; [|discriminate]. inversion E; subst.
  destruct Hx as [->|Hx].
  - exists y. split; auto. now left.
  - destruct (IH ys' eq_refl x Hx) as (y' & Hy & Hin). exists y'. split; auto. now right.
Qed.

Lemma opt_map_fst {A B} (f : A -> option (A * B)) l ys :
  opt_map f l = Some ys -> (forall x p, f x = Some p -> fst p = x) -> map fst ys = l.
Proof.
  revert ys. induction l as [|a r IH]; intros ys E H; simpl in E.
  - inversion E. reflexivity.
  - destruct (f a) as [y|] eqn:Fa; [|discriminate].
    destruct (opt_map f r) as [ys'|] eqn:R; [|discriminate]. inversion E; subst. simpl.
    rewrite (H a y Fa). f_equal. now apply IH.
Qed.

Lemma opt_map_In_rev {A B} (f : A -> option B) l ys :
  opt_map f l = Some ys -> forall y, In y ys -> exists x, In x l /\ f x = Some y.
Proof.
  revert ys. induction l as [|a r IH]; intros ys E y Hy; simpl in E.
  - inversion E; subst. destruct Hy.
  - destruct (f a) as [y0|] eqn:Fa; [|discriminate].
    destruct (opt_map f r) as [ys'|]; [|discriminate]. inversion E; subst.
    destruct Hy as [->|Hy].
    + exists a. split; auto. now left.
    + destruct (IH ys' eq_refl y Hy) as (x & Hx & Fx). exists x. split; auto. now right.
Qed.

Lemma opt_map_nodup {A B C} (f : A -> option B) (g : B -> C) l ys :
  opt_map f l = Some ys -> NoDup l ->
  (forall x1 x2 y1 y2, In x1 l -> In x2 l -> f x1 = Some y1 -> f x2 = Some y2 -> g y1 = g y2 -> x1 = x2) ->
  NoDup (map g ys).
Proof.
  revert ys. induction l as [|a r IH]; intros ys E ND Hinj; simpl in E.
  - inversion E. constructor.
  - destruct (f a) as [y0|] eqn:Fa; [|discriminate].
    destruct (opt_map f r) as [ys'|] eqn:R; [|discriminate]. inversion E; subst.
    inversion ND as [|? ? Hnin ND']; subst. simpl. constructor.
    + intros Hin. apply in_map_iff in Hin. destruct Hin as (y & Hg & Hy).
      destruct (opt_map_In_rev f r ys' R y Hy) as (x & Hx & Fx).
      assert (a = x). { apply (Hinj a x y0 y); auto. now left. now right. }
      subst. contradiction.
    + apply (IH ys' eq_refl ND'). intros x1 x2 y1 y2 H1 H2. apply Hinj; now right.
Qed.

Hypothesis HU : uniq_labels W old.

(* B2: the macro's value links go to / come from the replacement, channel for channel *)
Lemma replace_core_links st' :
  replace_core W st comp old new = (st', ROk) ->
  (forall i r, In i (panel_chans W comp PIn) -> rc st i = Some r -> In r (panel_chans W old PIn) ->
     exists x, find_chan W new PIn (clabel W r) = Some x /\ rc st' i = Some x) /\
  (forall o m, In o (panel_chans W old POut) -> rc st o = Some m -> In m (panel_chans W comp POut) ->
     exists x, find_chan W new POut (clabel W o) = Some x /\ rc st' x = Some m).
Proof.
  unfold replace_core.
  destruct (optnat_eqb (par st old) (Some comp)) eqn:P1; simpl; [|discriminate].
  destruct (optnat_eqb (par st new) None) eqn:P2; simpl; [|discriminate].
  destruct (connected W (cn st) new) eqn:Cn; [discriminate|].
  destruct (copy_io W st new old true false) as [st1 [|e1 ph1]] eqn:C; [|discriminate].
  destruct (copy_io_frame W st new old true false st1 COk C) as (F1 & _).
  destruct (inbound W st1 comp old new) as [inb|] eqn:IB; [|discriminate].
  destruct (outbound W st1 comp old new) as [outb|] eqn:OB; [|discriminate].
  match goal with |- context [reforge W ?s (inb ++ outb)] => set (st5 := s) end.
  destruct (reforge W st5 (inb ++ outb)) as [st6 [|e6]] eqn:R; [|discriminate].
  intros E. inversion E; subst st6. clear E.
  unfold inbound in IB. unfold outbound in OB. rewrite F1 in IB, OB.
  set (fi := fun i => match rc st i with
                      | Some r => match find_chan W new PIn (clabel W r) with Some x => Some (i, x) | None => None end
                      | None => None end) in IB.
  set (li := filter (fun i => match rc st i with Some r => memn r (panel_chans W old PIn) | None => false end)
                    (panel_chans W comp PIn)) in IB.
  set (fo := fun o => match rc st o, find_chan W new POut (clabel W o) with
                      | Some m, Some x => Some (x, m) | _, _ => None end) in OB.
  set (lo := filter (fun o => match rc st o with Some m => memn m (panel_chans W comp POut) | None => false end)
                    (panel_chans W old POut)) in OB.
  assert (NDi : NoDup (map fst inb)).
  { apply (opt_map_nodup fi fst li inb IB).
    - unfold li. apply NoDup_filter, panel_chans_nodup.
    - intros x1 x2 y1 y2 _ _ H1 H2 Hg. unfold fi in H1, H2.
      destruct (rc st x1) as [r1|]; [|discriminate]. destruct (find_chan W new PIn (clabel W r1)); [|discriminate].
      destruct (rc st x2) as [r2|]; [|discriminate]. destruct (find_chan W new PIn (clabel W r2)); [|discriminate].
      inversion H1; inversion H2; subst. exact Hg. }
  assert (NDo : NoDup (map fst outb)).
  { apply (opt_map_nodup fo fst lo outb OB).
    - unfold lo. apply NoDup_filter, panel_chans_nodup.
    - intros x1 x2 y1 y2 L1 L2 H1 H2 Hg. unfold fo in H1, H2.
      destruct (rc st x1) as [m1|]; [|discriminate].
      destruct (find_chan W new POut (clabel W x1)) as [z1|] eqn:Z1; [|discriminate].
      destruct (rc st x2) as [m2|]; [|discriminate].
      destruct (find_chan W new POut (clabel W x2)) as [z2|] eqn:Z2; [|discriminate].
      inversion H1; inversion H2; subst. simpl in Hg. subst z2.
      apply find_chan_spec in Z1. apply find_chan_spec in Z2. destruct Z1 as [_ Z1]. destruct Z2 as [_ Z2].
      unfold lo in L1, L2. apply filter_In in L1. apply filter_In in L2. destruct L1 as [L1 _]. destruct L2 as [L2 _].
      apply HU; try (eapply panel_in_all; eassumption).
      + apply in_panel_chans in L1. apply in_panel_chans in L2. destruct L1 as [_ L1]. destruct L2 as [_ L2]. congruence.
      + congruence. }
  assert (ND : NoDup (map fst (inb ++ outb))).
  { rewrite map_app. apply NoDup_app_intro; auto.
    intros a Ha Hb. apply in_map_iff in Ha. destruct Ha as ([a1 b1] & <- & Ha). simpl in Hb.
    apply in_map_iff in Hb. destruct Hb as ([a2 b2] & Hab & Hb). simpl in Hab. subst a2.
    destruct (opt_map_In_rev fi li inb IB _ Ha) as (i & Hi & Fi).
    destruct (opt_map_In_rev fo lo outb OB _ Hb) as (o & Ho & Fo).
    unfold fi in Fi. destruct (rc st i) as [r|]; [|discriminate].
    destruct (find_chan W new PIn (clabel W r)); [|discriminate]. inversion Fi; subst.
    unfold fo in Fo. destruct (rc st o) as [m|]; [|discriminate].
    destruct (find_chan W new POut (clabel W o)) as [z|] eqn:Z; [|discriminate]. inversion Fo; subst.
    apply find_chan_spec in Z. destruct Z as [Z _]. apply in_panel_chans in Z. destruct Z as [_ Z].
    unfold li in Hi. apply filter_In in Hi. destruct Hi as [Hi _]. apply in_panel_chans in Hi. destruct Hi as [_ Hi].
    congruence. }
  destruct (reforge_installs _ _ _ R ND) as [Inst _].
  split.
  - intros i r Hi Hr Hin.
    assert (Li : In i li).
    { unfold li. apply filter_In. split; auto. rewrite Hr. now apply memn_true_of. }
    destruct (opt_map_In fi li inb IB i Li) as (y & Fy & Hy).
    unfold fi in Fy. rewrite Hr in Fy. destruct (find_chan W new PIn (clabel W r)) as [x|]; [|discriminate].
    inversion Fy; subst. exists x. split; auto. apply Inst. apply in_or_app. now left.
  - intros o m Ho Hr Hin.
    assert (Lo : In o lo).
    { unfold lo. apply filter_In. split; auto. rewrite Hr. now apply memn_true_of. }
    destruct (opt_map_In fo lo outb OB o Lo) as (y & Fy & Hy).
    unfold fo in Fy. rewrite Hr in Fy. destruct (find_chan W new POut (clabel W o)) as [x|]; [|discriminate].
    inversion Fy; subst. exists x. split; auto. apply Inst. apply in_or_app. now right.
Qed.

End Inherit.

(* ---- Workflow.replace_child without IO maps ------------------------------------------------------ *)
Lemma flat_map_nil {A B} (f : A -> list B) l : (forall x, f x = []) -> flat_map f l = [].
Proof. intros H. induction l as [|a r IH]; simpl; auto. now rewrite H, IH. Qed.

Lemma with_cn_id st : with_cn st (cn st) (fc st) = st.
Proof. destruct st; reflexivity. Qed.

(* the rebuild moves nothing when every exposed key names one channel *)
Lemma rebuild_go_noop W pan : NoDup (map fst pan) ->
  forall todo s k, (forall e, In e todo -> In e pan) -> rebuild_go W pan todo s k = (s, k, Ok).
Proof.
  intros ND. induction todo as [|[key oc] rest IH]; intros s k Hin; [reflexivity|].
  cbn [rebuild_go].
  assert (IHr : rebuild_go W pan rest s k = (s, k, Ok)) by (apply IH; intros e He; apply Hin; now right).
  destruct (s oc) as [|x r]; [exact IHr|].
  assert (F : find (fun e => Nat.eqb (fst e) key) pan = Some (key, oc)).
  { assert (Hp : In (key, oc) pan) by (apply Hin; now left). clear - ND Hp.
    induction pan as [|[k1 c1] p IHp]; [destruct Hp|]. simpl in ND. inversion ND as [|? ? Hnin ND']; subst.
    simpl. destruct (Nat.eqb k1 key) eqn:E.
    - apply Nat.eqb_eq in E. subst k1. destruct Hp as [Hp|Hp]; [now inversion Hp|].
      exfalso. apply Hnin. apply in_map_iff. exists (key, oc). auto.
    - destruct Hp as [Hp|Hp]; [inversion Hp; subst; rewrite Nat.eqb_refl in E; discriminate|]. now apply IHp. }
  rewrite F, Nat.eqb_refl. exact IHr.
Qed.

Definition unique_keys (W : world) (st : state) (wm : list wentry) : Prop :=
  NoDup (map fst (exposed W st wm true)) /\ NoDup (map fst (exposed W st wm false)).

Lemma rebuild_noop W st wm : unique_keys W st wm -> rebuild W st wm = (st, Ok).
Proof.
  intros [N1 N2]. unfold rebuild.
  rewrite (rebuild_go_noop W _ N1) by auto. rewrite (rebuild_go_noop W _ N2) by auto.
  now rewrite with_cn_id.
Qed.

Lemma exposed_no_map W st inp : exposed W st [] inp = [].
Proof. unfold exposed. apply flat_map_nil. intros n. apply flat_map_nil. intros ch. reflexivity. Qed.

Lemma unique_keys_no_map W st : unique_keys W st [].
Proof. unfold unique_keys. rewrite !exposed_no_map. split; constructor. Qed.

(* Workflow.replace_child IS Composite.replace_child: whatever the latter raises the former raises at the
   same graph, and a successful replacement is left as it is by the IO rebuild *)
Lemma replace_wf_err W st wm comp old new st1 e ph :
  replace_core W st comp old new = (st1, RErr e ph) -> replace_wf W st wm comp old new = (st1, RErr e ph).
Proof. intros E. unfold replace_wf. now rewrite E. Qed.

Lemma replace_wf_ok W st wm comp old new st1 :
  replace_core W st comp old new = (st1, ROk) -> unique_keys W st1 wm ->
  replace_wf W st wm comp old new = (st1, ROk).
Proof. intros E U. unfold replace_wf. rewrite E, (rebuild_noop W st1 wm U). reflexivity. Qed.

Lemma replace_wf_err_inv W st wm comp old new st' e ph :
  replace_wf W st wm comp old new = (st', RErr e ph) -> ph <> PhRebuild ->
  replace_core W st comp old new = (st', RErr e ph).
Proof.
  unfold replace_wf. destruct (replace_core W st comp old new) as [st1 [|e1 ph1]]; auto.
  destruct (rebuild W st1 wm) as [st2 [|e2]]; [discriminate|].
  intros E H. inversion E; subst. congruence.
Qed.

(* ---- flow derivation: restore on error ----------------------------------------------------------- *)
Definition chans_of_pairs (ps : list (nat * nat)) : list nat := flat_map (fun p => [fst p; snd p]) ps.

(* the store with the channels of the logged pairs emptied *)
Definition emptied (ps : list (nat * nat)) (s0 : cstore) : cstore :=
  fun x => if memn x (chans_of_pairs ps) then [] else s0 x.

(* a log of single connections: each side lists exactly the other *)
Definition single_pairs (s0 : cstore) (ps : list (nat * nat)) : Prop :=
  NoDup (chans_of_pairs ps) /\ forall c t, In (c, t) ps -> s0 c = [t] /\ s0 t = [c].

Lemma restore_singles W s0 : forall ps u k u' k',
  single_pairs s0 ps -> (forall x, u x = emptied ps s0 x) ->
  restore W u k ps = (u', k', Ok) -> same u' s0.
Proof.
  induction ps as [|[c t] rest IH]; intros u k u' k' [ND H] Hu E.
  - simpl in E. inversion E; subst. intros x. rewrite Hu. reflexivity.
  - simpl in E. destruct (connect1 W u k c t) as [[u1 k1] r1] eqn:C. destruct r1; [|discriminate].
    destruct (H c t (or_introl eq_refl)) as [Hc Ht].
    simpl in ND. inversion ND as [|? ? Hc_nin ND1]; subst. inversion ND1 as [|? ? Ht_nin ND2]; subst.
    assert (Hct : c <> t) by (intros ->; apply Hc_nin; now left).
    assert (Uc : u c = []).
    { rewrite Hu. unfold emptied. rewrite (memn_true_of c); [reflexivity|simpl; auto]. }
    assert (Ut : u t = []).
    { rewrite Hu. unfold emptied. rewrite (memn_true_of t); [reflexivity|simpl; auto]. }
    unfold connect1 in C. destruct (tick k) as [k2 boom]. destruct boom; [discriminate|].
    rewrite Uc in C. simpl in C.
    destruct (conjb W c t); [|discriminate]. destruct (validb W c t); [|discriminate].
    inversion C; subst u1 k1. clear C.
    apply (IH (link_raw u c t) k2 u' k'); auto.
    + split; auto. intros x y Hin. apply H. now right.
    + intros x. rewrite link_raw_at by exact Hct. unfold emptied.
      destruct (Nat.eqb x c) eqn:E1.
      * apply Nat.eqb_eq in E1. subst x. rewrite Uc.
        rewrite (memn_false_of c (chans_of_pairs rest)).
        -- now rewrite Hc.
        -- intros Hx. apply Hc_nin. now right.
      * destruct (Nat.eqb x t) eqn:E2.
        -- apply Nat.eqb_eq in E2. subst x. rewrite Ut.
           rewrite (memn_false_of t (chans_of_pairs rest)); [now rewrite Ht|exact Ht_nin].
        -- rewrite Hu. unfold emptied.
           change (chans_of_pairs ((c, t) :: rest)) with (c :: t :: chans_of_pairs rest).
           unfold memn. cbn [memb]. rewrite E1, E2. reflexivity.
Qed.

(* every connection of the listed channels is a single connection on both sides *)
Definition singles (s0 : cstore) (L : list nat) : Prop :=
  forall c t, In c L -> In t (s0 c) -> s0 c = [t] /\ s0 t = [c] /\ c <> t.

Lemma disc1_single u c t : c <> t -> u c = [t] -> u t = [c] ->
  forall x, disc1 u c t x = if Nat.eqb x c then [] else if Nat.eqb x t then [] else u x.
Proof.
  intros Hct Uc Ut x.
  rewrite (disc1_mid u c t [] [] [] []); auto.
Qed.

Lemma dal_singles s0 : forall L ps u u' qs,
  singles s0 L -> single_pairs s0 ps -> (forall x, u x = emptied ps s0 x) ->
  disconnect_all_list u L = (u', qs) ->
  single_pairs s0 (ps ++ qs) /\ (forall x, u' x = emptied (ps ++ qs) s0 x).
Proof.
  induction L as [|c r IH]; intros ps u u' qs HS SP Hu E.
  - simpl in E. inversion E; subst. rewrite app_nil_r. auto.
  - simpl in E. destruct (disconnect_all u c) as [u1 p1] eqn:D1.
    destruct (disconnect_all_list u1 r) as [u2 p2] eqn:D2. inversion E; subst u' qs. clear E.
    assert (HSr : singles s0 r) by (intros a b Ha Hb; apply HS; auto; now right).
    unfold disconnect_all in D1.
    destruct (u c) as [|t rest] eqn:Uc.
    + simpl in D1. inversion D1; subst u1 p1. simpl. eapply IH; eauto.
    + (* u c is not empty: c has not been emptied, so u c = s0 c = [t] *)
      assert (Hc : memn c (chans_of_pairs ps) = false).
      { destruct (memn c (chans_of_pairs ps)) eqn:M; auto. rewrite Hu in Uc. unfold emptied in Uc.
        rewrite M in Uc. discriminate. }
      assert (Sc : s0 c = t :: rest) by (rewrite Hu in Uc; unfold emptied in Uc; now rewrite Hc in Uc).
      destruct (HS c t (or_introl eq_refl)) as (S1 & S2 & Hct); [rewrite Sc; now left|].
      rewrite Sc in S1. inversion S1; subst rest.
      assert (Ht : memn t (chans_of_pairs ps) = false).
      { destruct (memn t (chans_of_pairs ps)) eqn:M; auto. exfalso.
        apply memn_true in M. unfold chans_of_pairs in M. apply in_flat_map in M.
        destruct M as ([a b] & Hin & Hx). destruct SP as [_ SP]. destruct (SP a b Hin) as [Sa Sb].
        assert (X : In c (chans_of_pairs ps)).
        { unfold chans_of_pairs. apply in_flat_map. exists (a, b). split; auto.
          simpl in Hx. destruct Hx as [Hx|[Hx|[]]].
          - rewrite Hx in Sa. assert (b = c) by congruence. simpl. auto.
          - rewrite Hx in Sb. assert (a = c) by congruence. simpl. auto. }
        apply memn_true_of in X. congruence. }
      assert (Ut : u t = [c]) by (rewrite Hu; unfold emptied; now rewrite Ht).
      cbn [disconnect] in D1. rewrite Uc in D1. rewrite (memn_true_of t [t]) in D1 by (now left).
      inversion D1; subst u1 p1. clear D1.
      assert (SP' : single_pairs s0 (ps ++ [(c, t)])).
      { destruct SP as [ND SP]. split.
        - unfold chans_of_pairs. rewrite flat_map_app. simpl. apply NoDup_app_intro; auto.
          + intros x Hx [Hy|[Hy|[]]]; subst; apply memn_true_of in Hx; unfold chans_of_pairs in *; congruence.
          + constructor; [intros [Hx|[]]; congruence|constructor; [intros []|constructor]].
        - intros a b Hin. apply in_app_or in Hin. destruct Hin as [Hin|[Hin|[]]]; auto.
          inversion Hin; subst. rewrite Sc. auto. }
      assert (Hu' : forall x, disc1 u c t x = emptied (ps ++ [(c, t)]) s0 x).
      { intros x. rewrite (disc1_single u c t Hct Uc Ut). unfold emptied, chans_of_pairs.
        rewrite flat_map_app. simpl.
        destruct (Nat.eqb x c) eqn:E1.
        - apply Nat.eqb_eq in E1. subst x.
          rewrite (memn_true_of c); auto. apply in_or_app. right. now left.
        - destruct (Nat.eqb x t) eqn:E2.
          + apply Nat.eqb_eq in E2. subst x.
            rewrite (memn_true_of t); auto. apply in_or_app. right. right. now left.
          + rewrite Hu. unfold emptied, chans_of_pairs.
            destruct (memn x (flat_map (fun p => [fst p; snd p]) ps)) eqn:M.
            * rewrite (memn_true_of x); auto. apply in_or_app. left. now apply memn_true.
            * rewrite (memn_false_of x); auto. intros Hx. apply in_app_or in Hx.
              destruct Hx as [Hx|[Hx|[Hx|[]]]].
              -- apply memn_true_of in Hx. congruence.
              -- subst. rewrite Nat.eqb_refl in E1. discriminate.
              -- subst. rewrite Nat.eqb_refl in E2. discriminate. }
      destruct (IH (ps ++ [(c, t)]) (disc1 u c t) u2 p2 HSr SP' Hu' D2) as [I1 I2].
      rewrite <- app_assoc in I1, I2. simpl in I1, I2. auto.
Qed.

Lemma dal_app s l1 l2 :
  disconnect_all_list s (l1 ++ l2) =
  let '(s1, p1) := disconnect_all_list s l1 in let '(s2, p2) := disconnect_all_list s1 l2 in (s2, p1 ++ p2).
Proof.
  revert s. induction l1 as [|c r IH]; intros s; simpl.
  - destruct (disconnect_all_list s l2). reflexivity.
  - destruct (disconnect_all s c) as [s1 p1]. rewrite IH.
    destruct (disconnect_all_list s1 r) as [s2 p2]. destruct (disconnect_all_list s2 l2) as [s3 p3].
    now rewrite app_assoc.
Qed.

(* the channels the flow derivation breaks: run, accumulate_and_run and ran of every node *)
Definition flow_chans (W : world) (nodes : list nat) : list nat :=
  flat_map (fun v => run_chans W v ++ opt_list (find_chan W v PSOut L_RAN)) nodes.

Lemma disc_phase_flat W : forall nodes s, disc_phase W s nodes = disconnect_all_list s (flow_chans W nodes).
Proof.
  induction nodes as [|v r IH]; intros s; simpl; [reflexivity|].
  unfold flow_chans in *. simpl. rewrite !dal_app.
  destruct (disconnect_all_list s (run_chans W v)) as [s1 p1].
  destruct (disconnect_all_list s1 (opt_list (find_chan W v PSOut L_RAN))) as [s2 p2].
  rewrite IH. destruct (disconnect_all_list s2 _) as [s3 p3]. now rewrite app_assoc.
Qed.

Lemma connect_none_made W : forall bs s k a s' k' r,
  connect W s k a bs = (s', k', r, 0) -> s' = s.
Proof.
  induction bs as [|b rest IH]; intros s k a s' k' r E; simpl in E.
  - now inversion E.
  - destruct (connect1 W s k a b) as [[s1 k1] [|e1]] eqn:C.
    + destruct (connect W s1 k1 a rest) as [[[s2 k2] r2] n]. inversion E.
    + inversion E; subst. unfold connect1 in C. destruct (tick k) as [k2 boom]. destruct boom; [now inversion C|].
      destruct (memn b (s a)); [discriminate|]. destruct (conjb W a b); [|now inversion C].
      destruct (validb W a b); [discriminate|now inversion C].
Qed.

Lemma wire_all_made_ge W : forall nodes s k orders m s' k' r m',
  wire_all W s k nodes orders m = (s', k', r, m') -> m <= m'.
Proof.
  induction nodes as [|v rest IH]; intros s k orders m s' k' r m' E; simpl in E.
  - inversion E. lia.
  - destruct (find_chan W v PSIn L_ACC) as [acc|]; [|eapply IH; eauto].
    match type of E with context [connect W s k acc ?rs] => destruct (connect W s k acc rs) as [[[s1 k1] r1] n] end.
    destruct r1.
    + apply IH in E. lia.
    + inversion E. lia.
Qed.

Lemma wire_all_none_made W : forall nodes s k orders m s' k' e m',
  wire_all W s k nodes orders m = (s', k', Err e, m') -> m' = m -> s' = s.
Proof.
  induction nodes as [|v r IH]; intros s k orders m s' k' e m' E Hm; simpl in E.
  - discriminate.
  - destruct (find_chan W v PSIn L_ACC) as [acc|]; [|eapply IH; eauto].
    match type of E with context [connect W s k acc ?rs] => destruct (connect W s k acc rs) as [[[s1 k1] r1] n] eqn:C end.
    destruct r1.
    + pose proof (wire_all_made_ge W _ _ _ _ _ _ _ _ _ E) as Hge.
      assert (n = 0) by lia. subst n. apply connect_none_made in C. subst s1.
      eapply IH; eauto. lia.
    + inversion E; subst. assert (n = 0) by lia. subst n. now apply connect_none_made in C.
Qed.

(* A4: a refused flow derivation (cyclic data, foreign upstream, or a failure of the very first new
   connection) restores every broken run/ran connection -- in a graph whose run/ran wiring is made of single
   connections *)
Lemma wire_atomic W st orders st' e ph :
  singles (cn st) (flow_chans W (kids st)) ->
  wire W st orders = (st', WErr e ph) -> ph = WGraph \/ ph = WWire 0 -> same_graph st st'.
Proof.
  intros HSg. unfold wire. destruct (kids st) as [|v r] eqn:K; [discriminate|].
  rewrite <- K in *. destruct (disc_phase W (cn st) (kids st)) as [s1 pairs] eqn:D.
  rewrite disc_phase_flat in D.
  assert (SP0 : single_pairs (cn st) []) by (split; [constructor|intros c t []]).
  destruct (dal_singles (cn st) _ [] (cn st) s1 pairs HSg SP0 (fun x => eq_refl) D) as [SP Hs1].
  simpl in SP, Hs1.
  assert (Fin : forall s k e0 ph0, (forall x, s x = emptied pairs (cn st) x) ->
            (match restore W s k pairs with
             | (s2, k2, Ok) => (with_cn st s2 k2, WErr e0 ph0)
             | (s2, k2, Err e2) => (with_cn st s2 k2, WErr e2 WRestore)
             end) = (st', WErr e ph) -> ph <> WRestore -> same_graph st st').
  { intros s k e0 ph0 Hs E Hph. destruct (restore W s k pairs) as [[s2 k2] [|e2]] eqn:R.
    - inversion E; subst. unfold same_graph. simpl. split; [|repeat split; apply same_refl].
      apply same_sym. eapply restore_singles; eauto.
    - inversion E; subst. congruence. }
  destruct (digraph_check W st s1 (kids st)) as [e1|].
  - intros E Hph. eapply Fin; eauto. destruct Hph as [->| ->]; discriminate.
  - destruct (acyclic W (S (List.length (kids st))) s1 (kids st) []).
    + destruct (wire_all W s1 (fc st) (kids st) orders 0) as [[[s2 k2] [|e2]] made] eqn:WA.
      * discriminate.
      * intros E Hph.
        assert (Hph' : ph <> WRestore) by (destruct Hph as [->| ->]; discriminate).
        assert (made = 0 -> s2 = s1) by (intros ->; eapply wire_all_none_made; eauto).
        destruct (restore W s2 k2 pairs) as [[s3 k3] [|e3]] eqn:R.
        -- inversion E; subst. destruct Hph as [Hph|Hph]; [discriminate|]. inversion Hph; subst.
           rewrite (H eq_refl) in R.
           unfold same_graph. simpl. split; [|repeat split; apply same_refl].
           apply same_sym. eapply restore_singles; eauto.
        -- inversion E; subst. congruence.
    + intros E Hph. eapply Fin; eauto. destruct Hph as [->| ->]; discriminate.
Qed.

(* the flow derivation of a pull (Node.run_data_tree), refused because of cyclic data or because the data tree
   is not a set of siblings: every broken run / ran connection is restored and no label, child, value or link is
   touched -- in a graph whose run / ran wiring (of the data tree) is made of single connections *)
Lemma pull_derive_atomic W st target order st' e ph :
  singles (cn st) (flow_chans W (arrange order (data_tree W (cn st) target))) ->
  pull_derive W st target order = (st', WErr e ph) -> ph = WGraph -> same_graph st st'.
Proof.
  intros HSg. unfold pull_derive.
  destruct (cyclic_up W (cn st) target); [intros E _; inversion E; subst; apply same_graph_refl|].
  set (tree := arrange order (data_tree W (cn st) target)) in *.
  destruct (disc_phase W (cn st) tree) as [s1 pairs] eqn:D. rewrite disc_phase_flat in D.
  assert (SP0 : single_pairs (cn st) []) by (split; [constructor|intros c t []]).
  destruct (dal_singles (cn st) _ [] (cn st) s1 pairs HSg SP0 (fun x => eq_refl) D) as [SP Hs1].
  simpl in SP, Hs1.
  destruct (same_parents st tree); [discriminate|].
  destruct (restore W s1 (fc st) pairs) as [[s2 k2] [|e2]] eqn:R.
  - intros E _. inversion E; subst. unfold same_graph. simpl. split; [|repeat split; apply same_refl].
    apply same_sym. eapply restore_singles; eauto.
  - intros E Hph. inversion E; subst. discriminate.
Qed.

(* ---- what a successful copy transfers, and in which order ------------------------------------------ *)
Section Transfers.
Variable W : world.
Variable st : state.
Variables dst src : nat.
Hypothesis Hne : dst <> src.
Hypothesis HS : Sym (cn st).
Hypothesis HN : NoDupS (cn st).
Hypothesis HU : uniq_labels W src.
Hypothesis HT : third_party W dst src (cn st).

(* every connection list after a successful copy_io: the copied partners, NEWEST FIRST IN REVERSED ORDER,
   in front of what the channel had before; and every connected channel of [src] had a counterpart *)
Lemma copy_io_transfers vfh st' :
  copy_io W st dst src true vfh = (st', COk) ->
  linked (cn st) (plan W dst src (cn st)) (cn st') /\
  (forall ch, In ch (all_chans W src) -> cn st ch <> [] -> my_chan W dst ch <> None) /\
  Good (cn st) (plan W dst src (cn st)) /\ Own W dst src (plan W dst src (cn st)).
Proof.
  unfold copy_io. destruct (copy_connections_io W true dst src (cn st) (fc st)) as [[[s1 k1] new] raised] eqn:C.
  pose proof (copy_connections_io_spec W dst src (cn st) Hne HS HN HU HT (fc st) s1 k1 new raised C) as R.
  destruct raised; [discriminate|]. destruct R as (G & L & O & -> & Hmy).
  simpl. destruct (copy_values W vfh dst src (rc st) (vl st) (fv st)) as [[[v2 k2] [|e2]] second]; [|discriminate].
  intros E. inversion E; subst. simpl. auto.
Qed.

Lemma partners_map_pair c ts x : ~ In x ts -> partners (map (fun t => (c, t)) ts) x = if Nat.eqb x c then ts else [].
Proof.
  intros Hx. induction ts as [|t r IH].
  - simpl. now destruct (Nat.eqb x c).
  - cbn [map]. rewrite partners_cons. rewrite IH by (intros H; apply Hx; now right).
    destruct (Nat.eqb x c) eqn:E1; simpl; auto.
    destruct (Nat.eqb x t) eqn:E2; auto. apply Nat.eqb_eq in E2. subst. exfalso. apply Hx. now left.
Qed.

(* the partners the plan gives to a channel [x] of the receiving node: the list of its namesake *)
Lemma partners_plan_dst ch x :
  In ch (all_chans W src) -> my_chan W dst ch = Some x ->
  partners (plan W dst src (cn st)) x = cn st ch.
Proof.
  intros Hch M. unfold plan.
  assert (Hx : owner_of W x = dst) by (apply my_chan_spec in M; tauto).
  assert (Gen : forall L, NoDup L -> (forall c, In c L -> In c (all_chans W src)) ->
            partners (flat_map (plan1 W dst (cn st)) L) x = if memn ch L then cn st ch else []).
  { induction L as [|c r IH]; intros ND HL; [reflexivity|].
    apply NoDup_cons_iff in ND. destruct ND as [Hnin ND']. simpl. rewrite partners_app, IH; auto.
    2:{ intros c' Hc'. apply HL. now right. }
    assert (Hc : In c (all_chans W src)) by (apply HL; now left).
    unfold plan1 at 1. destruct (my_chan W dst c) as [y|] eqn:My.
    - rewrite partners_map_pair.
      2:{ intros Hin. destruct (HT c Hc x Hin) as (_ & T2 & _). congruence. }
      destruct (Nat.eqb ch c) eqn:E1.
      + apply Nat.eqb_eq in E1. subst c. rewrite M in My. inversion My; subst y. rewrite Nat.eqb_refl.
        rewrite (memn_false_of ch r) by exact Hnin.
        rewrite (memn_true_of ch (ch :: r)) by (now left). now rewrite app_nil_r.
      + destruct (Nat.eqb x y) eqn:E2.
        * apply Nat.eqb_eq in E2. subst y. apply Nat.eqb_neq in E1. exfalso. apply E1.
          eapply my_chan_inj; eauto.
        * unfold memn. cbn [memb]. rewrite E1. reflexivity.
    - destruct (Nat.eqb ch c) eqn:E1.
      + apply Nat.eqb_eq in E1. subst c. congruence.
      + unfold memn. cbn [memb]. rewrite E1. reflexivity. }
  rewrite Gen; auto using all_chans_nodup.
  now rewrite (memn_true_of ch).
Qed.

(* in particular a channel of an unconnected receiver ends up with the REVERSED list of its namesake *)
Lemma copy_io_reverses vfh st' ch x :
  copy_io W st dst src true vfh = (st', COk) ->
  In ch (all_chans W src) -> my_chan W dst ch = Some x -> cn st x = [] ->
  cn st' x = rev (cn st ch).
Proof.
  intros E Hch M Hx. destruct (copy_io_transfers vfh st' E) as [L _].
  rewrite L, (partners_plan_dst ch x Hch M), Hx. apply app_nil_r.
Qed.

End Transfers.

(* ---- disconnecting a node ------------------------------------------------------------------------ *)
Definition WF (u : cstore) : Prop := Sym u /\ NoDupS u /\ Irrefl u.

Lemma in_split_nodup (b : nat) l : In b l -> NoDup l -> exists X Y, l = X ++ b :: Y /\ ~ In b X /\ ~ In b Y.
Proof.
  intros Hin ND. destruct (in_split _ _ Hin) as (X & Y & ->). exists X, Y. split; auto.
  apply NoDup_remove_2 in ND. split; intros H; apply ND; apply in_or_app; auto.
Qed.

Lemma filter_all_true {A} (f : A -> bool) l : (forall x, In x l -> f x = true) -> filter f l = l.
Proof.
  induction l as [|a r IH]; simpl; intros H; auto.
  rewrite (H a (or_introl eq_refl)). f_equal. apply IH. intros x Hx. apply H. now right.
Qed.

Lemma remove1_filter b l : NoDup l -> remove1 Nat.eqb b l = filter (fun p => negb (Nat.eqb p b)) l.
Proof.
  induction l as [|y r IH]; simpl; intros ND; auto. inversion ND as [|? ? Hnin ND']; subst.
  rewrite (Nat.eqb_sym y b). destruct (Nat.eqb b y) eqn:E; simpl.
  - apply Nat.eqb_eq in E. subst y. symmetry. apply filter_all_true.
    intros x Hx. apply negb_true_iff. apply Nat.eqb_neq. intros ->. contradiction.
  - f_equal. now apply IH.
Qed.

Lemma filter_In_neq b l x : In x (filter (fun p => negb (Nat.eqb p b)) l) <-> In x l /\ x <> b.
Proof.
  rewrite filter_In. split; intros [H1 H2]; split; auto.
  - apply negb_true_iff in H2. now apply Nat.eqb_neq in H2.
  - apply negb_true_iff. now apply Nat.eqb_neq.
Qed.

Definition minus (b : nat) (l : list nat) : list nat := filter (fun p => negb (Nat.eqb p b)) l.

Lemma filter_true {A} (f : A -> bool) l : (forall x, In x l -> f x = true) -> filter f l = l.
Proof.
  induction l as [|a r IH]; simpl; intros H; auto.
  rewrite (H a (or_introl eq_refl)). f_equal. apply IH. intros x Hx. apply H. now right.
Qed.

Lemma filter_minus_mem b r l :
  filter (fun p => negb (memn p r)) (minus b l) = filter (fun p => negb (memn p (b :: r))) l.
Proof.
  unfold minus. induction l as [|y l' IH]; simpl; auto.
  unfold memn at 2. cbn [memb]. destruct (Nat.eqb y b) eqn:E; simpl.
  - exact IH.
  - fold (memn y r). destruct (memn y r); simpl; [exact IH|]. f_equal. exact IH.
Qed.

Lemma disc1_wf u a b : WF u -> In b (u a) ->
  (forall x, disc1 u a b x = if Nat.eqb x a then minus b (u a) else if Nat.eqb x b then minus a (u b) else u x) /\
  WF (disc1 u a b).
Proof.
  intros (HS & HN & HI) Hb.
  assert (Ha : In a (u b)) by now apply HS.
  assert (Hab : a <> b) by (intros ->; now apply (HI b)).
  destruct (in_split_nodup b (u a) Hb (HN a)) as (Xa & Ya & Ea & Xa1 & Ya1).
  destruct (in_split_nodup a (u b) Ha (HN b)) as (Xb & Yb & Eb & Xb1 & Yb1).
  assert (F : forall x, disc1 u a b x = if Nat.eqb x a then minus b (u a) else if Nat.eqb x b then minus a (u b) else u x).
  { intros x. rewrite (disc1_mid u a b Xa Ya Xb Yb Hab Ea Xa1 Ya1 Eb Xb1).
    unfold minus. rewrite <- !remove1_filter by auto. rewrite Ea, Eb, !remove1_mid by auto. reflexivity. }
  split; [exact F|].
  assert (Fin : forall x y, In y (disc1 u a b x) <-> In y (u x) /\ ~ (x = a /\ y = b) /\ ~ (x = b /\ y = a)).
  { intros x y. rewrite F. destruct (Nat.eqb x a) eqn:E1.
    - apply Nat.eqb_eq in E1. subst x. unfold minus. rewrite filter_In_neq. split.
      + intros [H1 H2]. repeat split; auto; intros [H3 H4]; congruence.
      + intros (H1 & H2 & H3). split; auto.
    - apply Nat.eqb_neq in E1. destruct (Nat.eqb x b) eqn:E2.
      + apply Nat.eqb_eq in E2. subst x. unfold minus. rewrite filter_In_neq. split.
        * intros [H1 H2]. repeat split; auto; intros [H3 H4]; congruence.
        * intros (H1 & H2 & H3). split; auto.
      + apply Nat.eqb_neq in E2. split; [intros H; repeat split; auto; intros [H3 H4]; congruence|tauto]. }
  split; [|split].
  - intros x y Hy. apply Fin in Hy. destruct Hy as (H1 & H2 & H3). apply Fin. repeat split; auto; tauto.
  - intros x. rewrite F. destruct (Nat.eqb x a); [apply NoDup_filter, HN|].
    destruct (Nat.eqb x b); [apply NoDup_filter, HN|apply HN].
  - intros x Hx. apply Fin in Hx. destruct Hx as [Hx _]. now apply (HI x).
Qed.

Lemma disconnect_wf a : forall bs u, WF u -> NoDup bs -> (forall b, In b bs -> In b (u a)) ->
  (forall x, fst (disconnect u a bs) x =
             if Nat.eqb x a then filter (fun p => negb (memn p bs)) (u a)
             else if memn x bs then minus a (u x) else u x) /\
  WF (fst (disconnect u a bs)).
Proof.
  induction bs as [|b r IH]; intros u HW ND Hbs.
  - simpl. split; auto. intros x. destruct (Nat.eqb x a) eqn:E; auto. apply Nat.eqb_eq in E. subst.
    symmetry. apply filter_true. auto.
  - inversion ND as [|? ? Hnin ND']; subst.
    assert (Hb : In b (u a)) by (apply Hbs; now left).
    destruct (disc1_wf u a b HW Hb) as [F1 W1].
    assert (Hab : a <> b) by (intros ->; destruct HW as (_ & _ & HI); now apply (HI b)).
    simpl. rewrite (memn_true_of b (u a) Hb).
    destruct (disconnect (disc1 u a b) a r) as [s' ps] eqn:D. simpl.
    assert (Hr : forall b', In b' r -> In b' (disc1 u a b a)).
    { intros b' Hb'. rewrite F1, Nat.eqb_refl. apply filter_In_neq. split.
      - apply Hbs. now right.
      - intros ->. contradiction. }
    destruct (IH (disc1 u a b) W1 ND' Hr) as [F2 W2]. rewrite D in F2, W2. simpl in F2, W2.
    split; auto. intros x. rewrite F2, !F1, Nat.eqb_refl.
    destruct (Nat.eqb x a) eqn:E1.
    + apply filter_minus_mem.
    + destruct (Nat.eqb x b) eqn:E2.
      * apply Nat.eqb_eq in E2. subst x. rewrite (memn_false_of b r Hnin).
        unfold memn at 1. cbn [memb]. rewrite Nat.eqb_refl. reflexivity.
      * unfold memn at 2. cbn [memb]. rewrite E2. reflexivity.
Qed.

Lemma disconnect_all_wf u a : WF u ->
  (forall x, fst (disconnect_all u a) x = if Nat.eqb x a then [] else minus a (u x)) /\
  WF (fst (disconnect_all u a)).
Proof.
  intros HW. destruct HW as (HS & HN & HI).
  destruct (disconnect_wf a (u a) u (conj HS (conj HN HI)) (HN a) (fun b H => H)) as [F W1].
  split; auto. intros x. unfold disconnect_all. rewrite F.
  destruct (Nat.eqb x a) eqn:E1.
  - apply Nat.eqb_eq in E1. subst x.
    destruct (filter (fun p => negb (memn p (u a))) (u a)) as [|y r] eqn:Fl; auto.
    assert (Hy : In y (filter (fun p => negb (memn p (u a))) (u a))) by (rewrite Fl; now left).
    apply filter_In in Hy. destruct Hy as [H1 H2]. apply memn_true_of in H1. rewrite H1 in H2. discriminate.
  - destruct (memn x (u a)) eqn:M; auto.
    symmetry. unfold minus. apply filter_all_true. intros y Hy. apply negb_true_iff. apply Nat.eqb_neq.
    intros ->. apply HS in Hy. apply memn_true_of in Hy. congruence.
Qed.

Lemma dal_wf : forall L u, WF u ->
  (forall x, fst (disconnect_all_list u L) x =
             if memn x L then [] else filter (fun p => negb (memn p L)) (u x)) /\
  WF (fst (disconnect_all_list u L)).
Proof.
  induction L as [|c r IH]; intros u HW.
  - simpl. split; auto. intros x. symmetry. apply filter_all_true. auto.
  - simpl. destruct (disconnect_all u c) as [u1 p1] eqn:D1.
    destruct (disconnect_all_wf u c HW) as [F1 W1]. rewrite D1 in F1, W1. simpl in F1, W1.
    destruct (disconnect_all_list u1 r) as [u2 p2] eqn:D2.
    destruct (IH u1 W1) as [F2 W2]. rewrite D2 in F2, W2. simpl in F2, W2. simpl.
    split; auto. intros x. rewrite F2, F1.
    unfold memn at 3. cbn [memb]. fold (memn x r).
    destruct (Nat.eqb x c) eqn:E1; simpl.
    + destruct (memn x r); reflexivity.
    + destruct (memn x r); [reflexivity|]. apply filter_minus_mem.
Qed.

(* a store in which a Good log was linked on top of a well-formed store is well-formed *)
Lemma Good_partners_nodup s0 ps c : Good s0 ps -> NoDup (partners ps c).
Proof.
  induction ps as [|[a b] r IH]; intros G; [constructor|].
  pose proof (Good_tail _ _ _ G) as G'. destruct G as [ND H].
  inversion ND as [|? ? Hnin ND']; subst.
  destruct (H a b (or_introl eq_refl)) as (Hab & Hba & _).
  rewrite partners_cons.
  destruct (Nat.eqb c a) eqn:E1.
  - apply Nat.eqb_eq in E1. subst c. simpl. constructor; auto.
    intros Hx. apply partners_In in Hx. destruct Hx as [Hx|Hx]; auto. apply Hba. now right.
  - destruct (Nat.eqb c b) eqn:E2; simpl; auto.
    apply Nat.eqb_eq in E2. subst c. constructor; auto.
    intros Hx. apply partners_In in Hx. destruct Hx as [Hx|Hx]; auto. apply Hba. now right.
Qed.

Lemma linked_wf s0 ps u : WF s0 -> Good s0 ps -> linked s0 ps u -> WF u.
Proof.
  intros (HS & HN & HI) G L. pose proof G as [_ GH]. split; [|split].
  - intros a b Hb. rewrite L in Hb. rewrite L. apply in_app_or in Hb. apply in_or_app.
    destruct Hb as [Hb|Hb]; [left|right; now apply HS].
    rewrite <- in_rev in *. apply partners_In in Hb. apply partners_In. tauto.
  - intros a. rewrite L. apply NoDup_app_intro; auto.
    + apply NoDup_rev. eapply Good_partners_nodup; eauto.
    + intros x Hx. rewrite <- in_rev in Hx. apply partners_In in Hx.
      destruct Hx as [Hx|Hx]; destruct (GH _ _ Hx) as (_ & _ & G3 & G4); auto.
  - intros a Ha. rewrite L in Ha. apply in_app_or in Ha. destruct Ha as [Ha|Ha]; [|now apply (HI a)].
    rewrite <- in_rev in Ha. apply partners_In in Ha.
    destruct Ha as [Ha|Ha]; destruct (GH _ _ Ha) as (G1 & _); congruence.
Qed.

(* ---- the connections of a successful replacement ------------------------------------------------------ *)
Section InheritConns.
Variable W : world.
Variable st : state.
Variables comp old new : nat.
Hypothesis HW : WF (cn st).
Hypothesis HR : InRange W (cn st).
Hypothesis HU : uniq_labels W old.
Hypothesis Hself : no_self W (cn st) old.

Lemma replace_core_cn st' :
  replace_core W st comp old new = (st', ROk) ->
  exists st1, copy_io W st new old true false = (st1, COk) /\ new <> old /\ connected W (cn st) new = false /\
              cn st' = fst (node_disconnect W (cn st1) old).
Proof.
  unfold replace_core.
  destruct (optnat_eqb (par st old) (Some comp)) eqn:P1; simpl; [|discriminate].
  destruct (optnat_eqb (par st new) None) eqn:P2; simpl; [|discriminate].
  destruct (connected W (cn st) new) eqn:Cn; [discriminate|].
  apply optnat_eqb_true in P1. apply optnat_eqb_true in P2.
  assert (Hne : new <> old) by (intros ->; congruence).
  destruct (copy_io W st new old true false) as [st1 [|e1 ph1]] eqn:C; [|discriminate].
  destruct (inbound W st1 comp old new) as [inb|]; [|discriminate].
  destruct (outbound W st1 comp old new) as [outb|]; [|discriminate].
  match goal with |- context [reforge W ?s (inb ++ outb)] => set (st5 := s) end.
  destruct (reforge W st5 (inb ++ outb)) as [st6 [|e6]] eqn:R; [|discriminate].
  intros E. inversion E; subst st6. clear E.
  destruct (reforge_frame W _ _ _ _ R) as (G1 & _).
  exists st1. repeat split; auto. rewrite G1. unfold st5.
  destruct (memn old (start st1)); reflexivity.
Qed.

(* B3: every connection the old node had.  After a successful replace_child
   - the old node is connected to nothing;
   - every other channel lists first the channels of the replacement that took over its connections to the
     old node (newest first), then what it listed before without the old node's channels;
   - hence each channel of the replacement lists exactly the partners of its namesake on the old node, in
     REVERSED order. *)
Lemma replace_core_connections st' :
  replace_core W st comp old new = (st', ROk) ->
  (forall c, In c (all_chans W old) -> cn st' c = []) /\
  (forall t, ~ In t (all_chans W old) ->
     cn st' t = rev (partners (plan W new old (cn st)) t) ++
                filter (fun p => negb (memn p (all_chans W old))) (cn st t)) /\
  (forall ch x, In ch (all_chans W old) -> my_chan W new ch = Some x -> cn st' x = rev (cn st ch)) /\
  (forall ch, In ch (all_chans W old) -> cn st ch <> [] -> my_chan W new ch <> None).
Proof.
  intros E. destruct (replace_core_cn st' E) as (st1 & C & Hne & Cn & Ecn).
  destruct HW as (HS & HN & HI).
  pose proof (third_party_unconnected W (cn st) old new HS HR Hself Cn) as HT.
  destruct (copy_io_transfers W st new old Hne HS HN HU HT false st1 C) as (L & Hmy & G & O).
  pose proof (linked_wf _ _ _ (conj HS (conj HN HI)) G L) as W1.
  destruct (dal_wf (all_chans W old) (cn st1) W1) as [F _].
  assert (P2 : forall t, ~ In t (all_chans W old) ->
     cn st' t = rev (partners (plan W new old (cn st)) t) ++
                filter (fun p => negb (memn p (all_chans W old))) (cn st t)).
  { intros t Ht. rewrite Ecn. unfold node_disconnect. rewrite F, (memn_false_of t _ Ht), L, filter_app.
    f_equal. apply filter_all_true. intros p Hp. apply negb_true_iff. apply memn_false_of.
    intros Hin. apply in_all_chans in Hin. rewrite <- in_rev in Hp. apply partners_In in Hp.
    destruct Hp as [Hp|Hp]; destruct (O _ _ Hp) as (O1 & O2 & O3); congruence. }
  split; [|split; [exact P2|split; [|exact Hmy]]].
  - intros c Hc. rewrite Ecn. unfold node_disconnect. rewrite F. now rewrite (memn_true_of c _ Hc).
  - intros ch x Hch M.
    assert (Hx : In x (all_chans W new)).
    { unfold my_chan in M. destruct (cget W ch) as [y|]; [|discriminate].
      apply find_chan_spec in M. destruct M as [M _]. eapply panel_in_all; eauto. }
    assert (Hxo : ~ In x (all_chans W old)).
    { intros H. apply in_all_chans in H. apply in_all_chans in Hx. congruence. }
    rewrite (P2 x Hxo), (partners_plan_dst W st new old HU HT ch x Hch M).
    rewrite (connected_false W (cn st) new Cn x Hx). apply app_nil_r.
Qed.

End InheritConns.
(* ==== witnesses: where the code as written breaks the property ==================================== *)
(* the channels of a function node: inputs, outputs, run, accumulate_and_run, ran, failed *)
Definition fnode (n : nat) (ins outs : list (nat * option htag)) : world :=
  map (fun lh => mkc n (fst lh) PIn (snd lh) true) ins ++
  map (fun lh => mkc n (fst lh) POut (snd lh) true) outs ++
  [mkc n L_RUN PSIn None true; mkc n L_ACC PSIn None true; mkc n L_RAN PSOut None true; mkc n 8 PSOut None true].
(* label indices: x=0 z=1 w=2 y=3 v=4 p=9 q=10 r=11 s=12 bx=13 *)
Definition K_base n := fnode n [(0, Some HInt); (1, None)] [(3, Some HInt)].        (* (x: int, z) -> y: int *)
Definition K_extra n := fnode n [(0, Some HInt); (1, None); (2, Some HInt)] [(3, Some HInt); (4, Some HInt)].
Definition K_noz n := fnode n [(0, Some HInt)] [(3, Some HInt)].                    (* no input z *)
Definition K_xstr n := fnode n [(0, Some HStr); (1, None)] [(3, Some HInt)].        (* x: str *)
Definition K_ystr n := fnode n [(0, Some HInt); (1, None)] [(3, Some HStr)].        (* y: str *)
Definition K_bare n := fnode n [(0, None); (1, None)] [(3, None)].                  (* nothing hinted *)
(* macro IO: MA(p: int, q) -> r: int ; MD(p) -> r: int | str *)
Definition M_A : world := [mkc 0 9 PIn (Some HInt) true; mkc 0 10 PIn None true; mkc 0 11 POut (Some HInt) true].
Definition M_D : world := [mkc 0 9 PIn None true; mkc 0 11 POut (Some HIntStr) true].

(* executable well-formedness of a connection store over the channels of [W] *)
Definition wf_b (W : world) (s : cstore) : bool :=
  forallb (fun a => nodupb Nat.eqb (s a) &&
                    forallb (fun b => memn a (s b) && negb (Nat.eqb a b) && Nat.ltb b (List.length W)) (s a))
          (ids W).

(* 1. copy_connections / _copy_connections: the undo also drops a connection that existed before.
      n2.x <- [n1.y, n4.y], n3.x <- [n1.y]; n3.x cannot take n4.y (str) *)
Definition w_shared : world := K_base 1 ++ K_bare 2 ++ K_base 3 ++ K_ystr 4.
Definition s_shared : state := init_state [(7, 23); (7, 2); (14, 2)] [] [] [] [] [] [] 0 0 0.

Lemma copy_conns_refuted :
  wf_b w_shared (cn s_shared) = true /\
  snd (copy_conns w_shared (cn s_shared) 0 14 7) = Err ConnErr /\
  fst (fst (copy_conns w_shared (cn s_shared) 0 14 7)) 14 <> cn s_shared 14.
Proof. vm_compute. repeat split; try reflexivity. discriminate. Qed.

Lemma copy_io_shared_refuted :
  let r := copy_io w_shared s_shared 3 2 true false in
  wf_b w_shared (cn s_shared) = true /\ snd r = CErr ConnCopyErr CConn /\ ~ same_graph s_shared (fst r).
Proof.
  split; [vm_compute; reflexivity|]. split; [vm_compute; reflexivity|].
  intros (H & _). specialize (H 14). vm_compute in H. discriminate.
Qed.

(* 2. _copy_values keeps one undo log per panel: a failure in the outputs panel leaves the inputs copied.
      dst (y: str) <- src with x = 5 and y = 9 *)
Definition w_two_logs : world := K_ystr 1 ++ K_base 2.
Definition s_two_logs : state := init_state [] [(0, VI 1); (7, VI 5); (9, VI 9)] [] [] [] [] [] 0 0 0.
Lemma copy_io_two_logs_refuted :
  let r := copy_io w_two_logs s_two_logs 1 2 true true in
  snd r = CErr ValueCopyErr CValOut /\ ~ same_graph s_two_logs (fst r).
Proof.
  split; [vm_compute; reflexivity|].
  intros (_ & H & _). specialize (H 0). vm_compute in H. discriminate.
Qed.

(* 3. the undo of _copy_panel assigns through the value setter: a value receiver of the receiving channel
      is overwritten with that channel's old value.  Macro MD, child n1.y -> macro r (holding 9, n1.y 3) *)
Definition w_recv_undo : world := M_D ++ K_base 1 ++ K_extra 2.
Definition s_recv_undo : state :=
  init_state [] [(4, VI 3); (1, VI 9); (12, VI 5); (13, VI 6)] [(0, 2); (4, 1)] [(1, 0)] [] [1] [] 0 0 0.
Lemma copy_io_receiver_refuted :
  let r := copy_io w_recv_undo s_recv_undo 1 2 true true in
  snd r = CErr ValueCopyErr CValOut /\ ~ same_graph s_recv_undo (fst r).
Proof.
  split; [vm_compute; reflexivity|].
  intros (_ & H & _). specialize (H 1). vm_compute in H. discriminate.
Qed.

(* 4. replace_child: a value-linked channel (q -> n1.z) is missing on the replacement: AttributeError after
      the connections (n2.x <- n1.y) were copied.  Macro MA(p, q) -> r, children n1, n2 *)
Definition w_missing : world := M_A ++ K_base 1 ++ K_base 2 ++ K_noz 3.
Definition s_links : state :=
  init_state [(10, 5)] [] [(0, 3); (1, 4); (12, 2)] [(1, 0); (2, 0)] [] [1; 2] [1] 0 0 0.
Lemma replace_missing_link_refuted :
  let r := replace_core w_missing s_links 0 1 3 in
  wf_b w_missing (cn s_links) = true /\ snd r = RErr AttrErr PhLookup /\ ~ same_graph s_links (fst r).
Proof.
  split; [vm_compute; reflexivity|]. split; [vm_compute; reflexivity|].
  intros (H & _). specialize (H 10). vm_compute in H. discriminate.
Qed.

(* 5. replace_child: the link p (int) -> x (str) is refused after the swap; nothing is rolled back *)
Definition w_reforge : world := M_A ++ K_base 1 ++ K_base 2 ++ K_xstr 3.
Lemma replace_reforge_refuted :
  let r := replace_core w_reforge s_links 0 1 3 in
  snd r = RErr ValueErr PhForge /\ ~ same_graph s_links (fst r).
Proof.
  split; [vm_compute; reflexivity|].
  intros (_ & _ & _ & _ & _ & H & _). vm_compute in H. discriminate.
Qed.

(* ... and so is ANY failure of a link transfer, on a fully compatible replacement (fault oracle: the
   second value-link assignment raises) *)
Definition w_compat : world := M_A ++ K_base 1 ++ K_base 2 ++ K_base 3.
Definition s_links_fault : state :=
  init_state [(10, 5)] [] [(0, 3); (1, 4); (12, 2)] [(1, 0); (2, 0)] [] [1; 2] [1] 0 0 2.
Lemma replace_reforge_fault_refuted :
  let r := replace_core w_compat s_links_fault 0 1 3 in
  snd r = RErr Injected PhForge /\ ~ same_graph s_links_fault (fst r).
Proof.
  split; [vm_compute; reflexivity|].
  intros (_ & _ & _ & _ & _ & H & _). vm_compute in H. discriminate.
Qed.

(* 6. priority is not inherited: n3.x <- [n2.y, n1.y]; replacing n1 by n4 gives [n4.y, n2.y] *)
Definition w_four : world := K_base 1 ++ K_base 2 ++ K_base 3 ++ K_base 4.
Definition s_priority : state :=
  init_state [(14, 2); (14, 9)] [] [] [(1, 0); (2, 0); (3, 0)] [] [1; 2; 3] [] 0 0 0.
Lemma replace_priority_refuted :
  let r := replace_core w_four s_priority 0 1 4 in
  wf_b w_four (cn s_priority) = true /\ snd r = ROk /\
  cn s_priority 14 = [9; 2] /\ my_chan w_four 4 2 = Some 23 /\ cn (fst r) 14 = [23; 9].
Proof. vm_compute. repeat split; reflexivity. Qed.

(* 7. flow derivation: the restoring loop re-connects, i.e. prepends: n1.ran -> [n3.run, n2.run] comes back
      as [n2.run, n3.run] after the cyclic data n1 <-> n2 was refused *)
Definition w_three : world := K_base 1 ++ K_base 2 ++ K_base 3.
Definition s_wire_cycle : state :=
  init_state [(10, 5); (17, 5); (0, 9); (7, 2)] [] [] [(1, 0); (2, 0); (3, 0)] [] [1; 2; 3] [1] 0 0 0.
Lemma wire_reorder_refuted :
  let r := wire w_three s_wire_cycle [[2]; [1]; []] in
  wf_b w_three (cn s_wire_cycle) = true /\ snd r = WErr CircErr WGraph /\ ~ same_graph s_wire_cycle (fst r).
Proof.
  split; [vm_compute; reflexivity|]. split; [vm_compute; reflexivity|].
  intros (H & _). specialize (H 5). vm_compute in H. discriminate.
Qed.

(* 8. flow derivation: a connection that fails while the new wiring is made leaves the connections made
      before it (fault oracle: the second new connection raises) *)
Definition s_wire_fault : state :=
  init_state [(7, 2); (14, 9)] [] [] [(1, 0); (2, 0); (3, 0)] [] [1; 2; 3] [] 2 0 0.
Lemma wire_fault_refuted :
  let r := wire w_three s_wire_fault [[]; [1]; [2]] in
  snd r = WErr Injected (WWire 1) /\ ~ same_graph s_wire_fault (fst r).
Proof.
  split; [vm_compute; reflexivity|].
  intros (H & _). specialize (H 5). vm_compute in H. discriminate.
Qed.

(* 9. Workflow.replace_child with an IO map exposing the connected n2.x (as "bx", or as "x"): since a33e34e the
      rebuild finds the channel under its key, sees it is the same channel and moves nothing *)
Definition s_wf_map : state :=
  init_state [(7, 2)] [] [] [(1, 0); (2, 0); (3, 0)] [] [1; 2; 3] [] 0 0 0.
Lemma wf_map_instance :
  (let r := replace_wf w_four s_wf_map [(2, 0, true, 13)] 0 3 4 in
   snd r = ROk /\ cn (fst r) 7 = [2] /\ kids (fst r) = [1; 2; 4]) /\
  (let r := replace_wf w_four s_wf_map [(2, 0, true, 0)] 0 3 4 in
   snd r = ROk /\ cn (fst r) 7 = [2] /\ kids (fst r) = [1; 2; 4]).
Proof. vm_compute. repeat split; reflexivity. Qed.

(* non-vacuity of the partial theorems: instances that meet their guards and do fail *)
Definition w_neighbour : world := K_base 1 ++ K_base 2 ++ K_xstr 3.
Definition s_neighbour : state := init_state [(7, 2); (8, 2)] [] [] [(1, 0); (2, 0)] [] [1; 2] [] 0 0 0.
Lemma replace_atomic_instance :
  let r := replace_core w_neighbour s_neighbour 0 2 3 in
  wf_b w_neighbour (cn s_neighbour) = true /\ snd r = RErr ConnCopyErr PhCopy /\
  cn (fst r) 2 = cn s_neighbour 2 /\ cn (fst r) 2 = [8; 7].
Proof. vm_compute. repeat split; reflexivity. Qed.
