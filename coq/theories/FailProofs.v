(* FailProofs.v -- C06 (local execution): a raising child is contained, reported, and never
   announces completion. *)
From PW Require Import Base Fail.

Section FailProofs.
Variable g : flow.

Lemma sem_if_never_raises args : sem KIf args <> RRaise.
Proof. destruct args; cbn; discriminate. Qed.

Lemma emissions_src outs b n e r : In (e, r) (emissions g outs b n) -> fst e = n /\ In (snd e) (emitting g outs b n).
Proof.
  unfold emissions. intros H. apply in_flat_map in H. destruct H as [s [Hs H]].
  apply in_map_iff in H. destruct H as [r' [E _]]. inversion E; subst. cbn. auto.
Qed.

Lemma emitting_ok_not_failed outs n s : In s (emitting g outs false n) -> s <> OFailed.
Proof.
  unfold emitting. intros [<-|H]; [discriminate|].
  destruct (f_kind (node g n)); [destruct H|].
  destruct (nth n outs None) as [v|]; [|destruct H]. destruct (v =? 0)%Z; destruct H as [<-|[]]; discriminate.
Qed.

Lemma emitting_failed_chk outs n k s : f_kind (node g n) = KChk k -> In s (emitting g outs true n) -> s = OFailed.
Proof. unfold emitting. intros _. intros [<-|[]]. reflexivity. Qed.

Opaque emissions.

(* what one run of one child does *)
Record Inv (s : fstate) : Prop := {
  (* a completion-type signal (ran / true / false) of n was only ever sent after n's function returned;
     a `failed` signal only after it raised *)
  inv_sent : forall e r, In (e, r) (sent s) ->
     (snd e = OFailed -> In (LRaise (fst e)) (log s)) /\ (snd e <> OFailed -> In (LOk (fst e)) (log s));
  inv_queue : forall x, In x (queue s) -> In x (sent s);
  inv_failed : forall n, nth n (failedv s) false = true -> In (LRaise n) (log s);
}.

Lemma in_snoc {A} (x y : A) l : In x (l ++ [y]) <-> In x l \/ x = y.
Proof. rewrite in_app_iff. cbn. intuition. Qed.

Lemma nth_set_nth_bool (l : list bool) n m : nth m (set_nth l n true) false = true -> m = n \/ nth m l false = true.
Proof.
  revert n m; induction l as [|y r IH]; intros [|n] [|m] H; cbn in *; auto; try discriminate.
  destruct (IH n m H); auto.
Qed.

Theorem run_node_contained s n s' x : Inv s -> run_node g s n = (s', x) ->
  Inv s' /\
  match x with
  | Raised => (* failed, not (re)run, outputs untouched, logged, and nothing but `failed` announced *)
      nth n (failedv s) false = false /\ failedv s' = set_nth (failedv s) n true /\ outv s' = outv s /\
      log s' = log s ++ [LRaise n] /\
      (forall e r, In (e, r) (sent s') -> ~ In (e, r) (sent s) -> e = (n, OFailed))
  | Refused => outv s' = outv s /\ failedv s' = failedv s /\ sent s' = sent s /\ log s' = log s ++ [LRefuse n]
  | Ran => failedv s' = failedv s /\ log s' = log s ++ [LOk n] /\ nth n (failedv s) false = false
  end.
Proof.
  intros [Hs Hq Hf]. unfold run_node.
  destruct (nth n (failedv s) false) eqn:Efl.
  { intros H; inversion H; subst. split; [|cbn; auto].
    constructor; cbn; intros; [destruct (Hs _ _ H0) as [A B]; split; intros; apply in_snoc; left; auto
                             | auto | apply in_snoc; left; auto]. }
  destruct (all_some _) as [args|] eqn:Ea.
  2:{ intros H; inversion H; subst. split; [|cbn; auto].
      constructor; cbn; intros; [destruct (Hs _ _ H0) as [A B]; split; intros; apply in_snoc; left; auto
                               | auto | apply in_snoc; left; auto]. }
  destruct (sem (f_kind (node g n)) args) as [v|] eqn:Es; intros H; inversion H; subst; clear H.
  - split; [|cbn; auto]. constructor; cbn.
    + intros e r Hin. apply in_app_or in Hin. destruct Hin as [Hin|Hin].
      * destruct (Hs _ _ Hin) as [A B]. split; intros; apply in_snoc; left; auto.
      * apply emissions_src in Hin. destruct Hin as [<- Hin]. apply emitting_ok_not_failed in Hin.
        split; [intros; contradiction|]. intros _. apply in_snoc. right. reflexivity.
    + intros x Hx. apply in_app_or in Hx. apply in_or_app. destruct Hx; auto.
    + intros m Hm. apply in_snoc. left. auto.
  - destruct (f_kind (node g n)) as [k|] eqn:Ek; [|exfalso; eapply sem_if_never_raises; eauto].
    split.
    + constructor; cbn.
      * intros e r Hin. apply in_app_or in Hin. destruct Hin as [Hin|Hin].
        -- destruct (Hs _ _ Hin) as [A B]. split; intros; apply in_snoc; left; auto.
        -- apply emissions_src in Hin. destruct Hin as [<- Hin]. apply (emitting_failed_chk _ _ k) in Hin; [|exact Ek].
           split; [intros _; apply in_snoc; right; reflexivity | intros C; contradiction].
      * intros x Hx. apply in_app_or in Hx. apply in_or_app. destruct Hx; auto.
      * intros m Hm. apply nth_set_nth_bool in Hm. apply in_snoc. destruct Hm as [->|Hm]; [right; reflexivity|left; auto].
    + cbn. repeat split; auto. intros e r Hin Hnot. apply in_app_or in Hin. destruct Hin as [Hin|Hin]; [contradiction|].
      apply emissions_src in Hin. destruct Hin as [E Hin]. apply (emitting_failed_chk _ _ k) in Hin; [|exact Ek].
      destruct e; cbn in *; subst; reflexivity.
Qed.

(* errors are never lost: whenever a delivered trigger's run raised or refused, the parent's error
   dictionary is non-empty *)
Definition Reported (s : fstate) : Prop :=
  (exists n, In (LRaise n) (log s) \/ In (LRefuse n) (log s)) -> errs s <> [].

Lemma note_err_inv s n r : Inv s -> Reported s ->
  Inv (note_err (run_node g s n) r) /\ Reported (note_err (run_node g s n) r).
Proof.
  intros HI HR. destruct (run_node g s n) as [s1 x] eqn:E.
  destruct (run_node_contained _ _ _ _ HI E) as [HI1 Hx]. unfold note_err.
  destruct x.
  - split; [exact HI1|]. destruct Hx as [_ [Hl _]]. intros [m Hm]. 
    assert (errs s1 = errs s) as ->.
    { unfold run_node in E. destruct (nth n (failedv s) false); [inversion E|].
      destruct (all_some _); [|inversion E]. destruct (sem _ _); inversion E; reflexivity. }
    apply HR. exists m. rewrite Hl in Hm. destruct Hm as [Hm|Hm]; apply in_snoc in Hm; destruct Hm as [Hm|Hm]; auto; discriminate.
  - split; [destruct HI1 as [A B C]; constructor; cbn; auto|]. intros _. cbn. destruct (errs s1); discriminate.
  - split; [destruct HI1 as [A B C]; constructor; cbn; auto|]. intros _. cbn. destruct (errs s1); discriminate.
Qed.

Lemma deliver_inv s e r : Inv s -> Reported s -> Inv (deliver g s e r) /\ Reported (deliver g s e r).
Proof.
  intros HI HR. unfold deliver. destruct (snd r).
  - apply note_err_inv; assumption.
  - destruct (subset_em _ _).
    + apply note_err_inv; [destruct HI as [A B C]; constructor; cbn; auto | exact HR].
    + split; [destruct HI as [A B C]; constructor; cbn; auto | exact HR].
Qed.

Lemma loop_inv fuel : forall s s', Inv s -> Reported s -> loop g fuel s = Some s' -> Inv s' /\ Reported s' /\ queue s' = [].
Proof.
  induction fuel as [|fuel IH]; intros s s' HI HR; cbn [loop].
  - destruct (queue s) as [|[e r] q] eqn:Eq; [|discriminate]. intros H; inversion H; subst. auto.
  - destruct (queue s) as [|[e r] q] eqn:Eq; [intros H; inversion H; subst; auto|].
    intros H. 
    match type of H with loop g fuel (deliver g ?s0 e r) = _ =>
      assert (HI0 : Inv s0) by (destruct HI as [A B C]; constructor; cbn; auto; intros x Hx; apply B; rewrite Eq; right; exact Hx);
      assert (HR0 : Reported s0) by exact HR;
      destruct (deliver_inv s0 e r HI0 HR0) as [HI1 HR1] end.
    eapply IH; eauto.
Qed.

Lemma start_inv starting : forall s s' o, Inv s -> start g s starting = (s', o) ->
  Inv s' /\
  match o with
  | None => (* every starting node ran to completion: nothing raised or refused in this phase *)
      forall n, (In (LRaise n) (log s') \/ In (LRefuse n) (log s')) -> (In (LRaise n) (log s) \/ In (LRefuse n) (log s))
  | Some (n, Raised) => In (LRaise n) (log s')
  | Some (n, Refused) => In (LRefuse n) (log s')
  | Some (n, Ran) => False
  end.
Proof.
  induction starting as [|a r IH]; intros s s' o HI; cbn [start].
  - intros H; inversion H; subst. split; [exact HI|auto].
  - destruct (run_node g s a) as [s1 x] eqn:E. destruct (run_node_contained _ _ _ _ HI E) as [HI1 Hx].
    destruct x.
    + intros H. destruct (IH _ _ _ HI1 H) as [A B]. split; [exact A|].
      destruct o as [[n [| |]]|]; auto.
      intros n Hn. destruct Hx as [_ [Hl _]]. specialize (B n Hn). rewrite Hl in B.
      destruct B as [B|B]; apply in_snoc in B; destruct B as [B|B]; auto; discriminate.
    + intros H; inversion H; subst. split; [exact HI1|]. destruct Hx as [_ [Hf [_ [Hl _]]]].
      rewrite Hl. apply in_snoc. right. reflexivity.
    + intros H; inversion H; subst. split; [exact HI1|]. destruct Hx as [_ [_ [_ Hl]]]. rewrite Hl. apply in_snoc. right. reflexivity.
Qed.

Lemma nodup_rc_nil l : nodup_rc l = [] -> l = [].
Proof.
  induction l as [|x r IH]; cbn; [reflexivity|]. destruct (memb rc_eqb x r) eqn:E; [|discriminate].
  intros H. specialize (IH H). subst. discriminate.
Qed.

Lemma verdict_ok_iff (e : list (nat * isig)) :
  match List.length (nodup_rc e) with O => VOk | 1 => VFailedChild true | _ => VFailedChild false end = VOk <-> e = [].
Proof.
  split.
  - destruct (nodup_rc e) as [|a [|b l]] eqn:E; cbn; try discriminate. intros _. apply nodup_rc_nil. exact E.
  - intros ->. reflexivity.
Qed.

Lemma init_inv : Inv (init_state g).
Proof. constructor; cbn; try tauto. intros n H. exfalso. revert n H. induction g as [|x r IH]; intros [|n] H; cbn in H; try discriminate. eauto. Qed.

(* the run as a whole *)
Theorem run_reported fuel starting s v : run g fuel starting = (Some s, v) ->
  Inv s /\
  (* reported: if any child raised or refused, the caller does not get a normal return *)
  ((exists n, In (LRaise n) (log s) \/ In (LRefuse n) (log s)) -> v <> VOk) /\
  (* and a normal return means nothing raised *)
  (v = VOk -> forall n, nth n (failedv s) false = false).
Proof.
  unfold run. destruct (start g (init_state g) starting) as [s1 o] eqn:Es.
  destruct (start_inv starting _ _ _ init_inv Es) as [HI1 Ho].
  destruct o as [[n x]|].
  - destruct x; [contradiction| |]; intros H; inversion H; subst; (split; [exact HI1|]); split; try discriminate; intros; discriminate.
  - destruct (loop g fuel s1) as [s2|] eqn:El; [|discriminate]. intros H; inversion H; subst; clear H.
    assert (HR1 : Reported s1).
    { intros [n Hn]. exfalso. destruct (Ho n Hn) as [H|H]; cbn in H; exact H. }
    destruct (loop_inv fuel _ _ HI1 HR1 El) as [HI2 [HR2 _]]. split; [exact HI2|]. split.
    + intros Hex Hv. apply verdict_ok_iff in Hv. exact (HR2 Hex Hv).
    + intros Hv n. apply verdict_ok_iff in Hv. destruct (nth n (failedv s) false) eqn:Ef; [|reflexivity]. exfalso.
      pose proof (inv_failed _ HI2 n Ef) as Hr. apply HR2; [exists n; left; exact Hr | exact Hv].
Qed.
End FailProofs.
