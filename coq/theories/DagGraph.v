(* DagGraph.v -- concrete graphs meet the hypotheses of the abstract C01 theorems. *)
From PW Require Import Base Dag DagProofs.

Lemma nodup_nat_In x l : In x (nodup_nat l) <-> In x l.
Proof.
  induction l as [|y r IH]; cbn; [tauto|].
  destruct (memn y r) eqn:E.
  - rewrite IH. split; [auto|]. intros [->|H]; [apply memn_In; exact E|exact H].
  - cbn. rewrite IH. tauto.
Qed.

Lemma nodup_nat_NoDup l : NoDup (nodup_nat l).
Proof.
  induction l as [|y r IH]; cbn; [constructor|].
  destruct (memn y r) eqn:E; [exact IH|]. constructor; [|exact IH].
  rewrite nodup_nat_In. intros H. apply memn_In in H. congruence.
Qed.

Lemma g_ups_lt g : wf_graph g = true -> forall n u, In u (g_ups g n) -> u < n.
Proof.
  intros H n u Hu. destruct (Nat.lt_ge_cases n (List.length g)) as [Hn|Hn].
  - unfold wf_graph in H. rewrite forallb_forall in H. specialize (H n ltac:(apply in_seq; lia)).
    rewrite forallb_forall in H. apply Nat.ltb_lt. apply H. exact Hu.
  - unfold g_ups, g_node in Hu. rewrite nth_overflow in Hu by assumption. destruct Hu.
Qed.

Lemma g_ups_nodup g n : NoDup (g_ups g n).
Proof. apply nodup_nat_NoDup. Qed.

Lemma g_sem_local g n e e' : (forall u, In u (g_ups g n) -> e u = e' u) -> g_sem g n e = g_sem g n e'.
Proof.
  intros H. unfold g_sem.
  assert (E : map (in_val e) (n_ins (g_node g n)) = map (in_val e') (n_ins (g_node g n))).
  { apply map_ext_in. intros i Hi.
    destruct i as [z|[|u l]]; cbn; try reflexivity. apply H.
    unfold g_ups. apply nodup_nat_In. apply in_flat_map. exists (IConn (u :: l)). split; [exact Hi|left; reflexivity]. }
  rewrite E. reflexivity.
Qed.
