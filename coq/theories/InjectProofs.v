(* InjectProofs.v -- lemmas about the injection model (Inject.v) for property C18. *)
From PW Require Import Base Inject.

(* ---- the finite tables ------------------------------------------------------------------ *)
Lemma all_entries_complete : forall e, In e all_entries.
Proof. destruct e; simpl; tauto. Qed.

Lemma all_cls_complete : forall c, In c all_cls.
Proof. destruct c; simpl; tauto. Qed.

Lemma table_all_ok : forallb table_row_ok all_entries = true.
Proof. vm_compute. reflexivity. Qed.

Lemma table_row : forall e, table_row_ok e = true.
Proof. intros e. exact (proj1 (forallb_forall _ _) table_all_ok e (all_entries_complete e)). Qed.

Lemma pyfun_eqb_eq a b : pyfun_eqb a b = true -> a = b.
Proof. destruct a, b; vm_compute; intros H; try reflexivity; discriminate H. Qed.

Lemma order_eqb_eq a b : order_eqb a b = true -> a = b.
Proof. destruct a, b; simpl; intros H; try reflexivity; discriminate H. Qed.

(* every entry point, on a channel and on a single-output node, creates the node class whose
   function applies the written operator to (receiver, operand) in the written order *)
Lemma table_spec : forall e,
  cls_fun (entry_cls e) = Some (spec e) /\
  cls_arity (entry_cls e) = S (entry_arity e) /\
  node_delegate e = Some e.
Proof.
  intros e. pose proof (table_row e) as H. unfold table_row_ok in H.
  destruct (cls_fun (entry_cls e)) as [[f o]|] eqn:Ef; [|discriminate H].
  unfold node_delegate in *.
  repeat (apply andb_true_iff in H; destruct H as [H ?]).
  apply pyfun_eqb_eq in H. apply order_eqb_eq in H2. apply Nat.eqb_eq in H1.
  split; [|split; [exact H1|reflexivity]].
  destruct (spec e) as [f' o']; simpl in *. subst. reflexivity.
Qed.

(* ---- strings --------------------------------------------------------------------------------- *)
Lemma append_assoc (a b c : string) : ((a ++ b) ++ c = a ++ (b ++ c))%string.
Proof. induction a as [|x a IH]; simpl; [reflexivity|rewrite IH; reflexivity]. Qed.

Lemma append_nil_r (a : string) : (a ++ "" = a)%string.
Proof. induction a as [|x a IH]; simpl; [reflexivity|rewrite IH; reflexivity]. Qed.

Lemma append_inv_head (a b c : string) : (a ++ b = a ++ c)%string -> b = c.
Proof. induction a as [|x a IH]; simpl; intros H; [exact H|]. injection H as H. exact (IH H). Qed.

(* which class name starts a string of the form  <Class>_<rest> *)
Fixpoint strip_cls (cs : list cls) (s : string) : option cls :=
  match cs with
  | [] => None
  | c :: r => if prefixb (cname c ++ "_") s then Some c else strip_cls r s
  end.

Lemma strip_cls_ok : forall c h, strip_cls all_cls (cname c ++ "_" ++ h) = Some c.
Proof. intros c h. destruct c; reflexivity. Qed.

Lemma cls_label_inj : forall c1 c2 h1 h2,
  (cname c1 ++ "_" ++ h1 = cname c2 ++ "_" ++ h2)%string -> c1 = c2 /\ h1 = h2.
Proof.
  intros c1 c2 h1 h2 H.
  assert (E : c1 = c2).
  { pose proof (strip_cls_ok c1 h1) as A. rewrite H, strip_cls_ok in A. congruence. }
  subst c2. split; [reflexivity|].
  apply append_inv_head in H. simpl in H. injection H as H. exact H.
Qed.

Lemma cname_inj : forall c1 c2, cname c1 = cname c2 -> c1 = c2.
Proof.
  intros c1 c2 H.
  destruct (cls_label_inj c1 c2 "" "") as [E _]; [rewrite H; reflexivity | exact E].
Qed.

(* ---- lists ------------------------------------------------------------------------------------ *)
Lemma nth_error_app_new {A} (l : list A) x : nth_error (l ++ [x]) (List.length l) = Some x.
Proof. rewrite nth_error_app2, Nat.sub_diag; [reflexivity|lia]. Qed.

Lemma nth_error_app_old {A} (l : list A) x i : i < List.length l -> nth_error (l ++ [x]) i = nth_error l i.
Proof. intros H. apply nth_error_app1. exact H. Qed.

Section Proofs.
  Variable val : Type.
  Variable pyop : pyfun -> list val -> val + string.
  Variable py_repr : val -> string.
  Variable none_val : val.
  Variable hash : string -> string.

  Notation state := (state val).
  Notation request := (request val).
  Notation operand := (operand val).
  Notation nrec := (nrec val).
  Notation inject := (inject val pyop py_repr none_val hash).
  Notation run_own := (run_own val pyop none_val).
  Notation pull := (pull val pyop none_val).
  Notation ensure := (ensure val pyop none_val).
  Notation inj_label := (inj_label val py_repr hash).
  Notation nominal := (nominal val py_repr).
  Notation pieces := (pieces val py_repr).
  Notation other_label := (other_label val py_repr).
  Notation scoped := (scoped val).
  Notation find_label := (find_label val).
  Notation input_values := (input_values val none_val).
  Notation node_apply := (node_apply val pyop).
  Notation slice_fun := (slice_fun val pyop).
  Notation chan_value := (chan_value val).
  Notation set_node := (set_node val).

  (* ---- set_nth / set_node ------------------------------------------------------------------- *)
  Lemma set_nth_length {A} (l : list A) i x : List.length (set_nth l i x) = List.length l.
  Proof. revert i; induction l as [|y l IH]; intros [|i]; simpl; auto. Qed.

  Lemma set_nth_same {A} (l : list A) i x : i < List.length l -> nth_error (set_nth l i x) i = Some x.
  Proof.
    revert i; induction l as [|y l IH]; intros [|i] H; simpl in *; try lia; [reflexivity|].
    apply IH. lia.
  Qed.

  Lemma set_nth_other {A} (l : list A) i j x : i <> j -> nth_error (set_nth l i x) j = nth_error l j.
  Proof.
    revert i j; induction l as [|y l IH]; intros [|i] [|j] H; simpl; try reflexivity; try congruence.
    apply IH. congruence.
  Qed.

  Lemma set_nth_map {A B} (f : A -> B) (l : list A) i x y :
    nth_error l i = Some y -> f x = f y -> map f (set_nth l i x) = map f l.
  Proof.
    revert i; induction l as [|z l IH]; intros [|i] H E; simpl in *; try discriminate.
    - injection H as ->. rewrite E. reflexivity.
    - rewrite (IH i H E). reflexivity.
  Qed.

  (* ---- the skeleton: what labels and lookups depend on -------------------------------------------- *)
  Definition nskel (r : nrec) : string * cls * list operand := (n_label val r, n_cls val r, n_in val r).
  Definition uskel (u : urec val) : string * list string := (u_label val u, map fst (u_chans val u)).

  Definition same_skel (a b : state) : Prop :=
    s_parent val a = s_parent val b /\
    map uskel (s_users val a) = map uskel (s_users val b) /\
    map nskel (s_nodes val a) = map nskel (s_nodes val b).

  Lemma same_skel_refl a : same_skel a a.
  Proof. repeat split. Qed.

  Lemma same_skel_trans a b c : same_skel a b -> same_skel b c -> same_skel a c.
  Proof. intros (A1 & A2 & A3) (B1 & B2 & B3). repeat split; congruence. Qed.

  Lemma same_skel_sym a b : same_skel a b -> same_skel b a.
  Proof. intros (A1 & A2 & A3). repeat split; congruence. Qed.

  Lemma map_nth_error_eq {A B} (f : A -> B) l1 l2 i :
    map f l1 = map f l2 -> option_map f (nth_error l1 i) = option_map f (nth_error l2 i).
  Proof. intros H. rewrite <- !nth_error_map, H. reflexivity. Qed.

  Lemma same_skel_length a b : same_skel a b -> List.length (s_nodes val a) = List.length (s_nodes val b).
  Proof. intros (_ & _ & H). rewrite <- (map_length nskel), H, map_length. reflexivity. Qed.

  Lemma same_skel_scoped a b c : same_skel a b -> scoped a c = scoped b c.
  Proof.
    intros (_ & HU & HN). destruct c as [u j|n]; simpl.
    - pose proof (map_nth_error_eq uskel _ _ u HU) as E.
      destruct (nth_error (s_users val a) u) as [ra|], (nth_error (s_users val b) u) as [rb|];
        simpl in E; try discriminate E; [|reflexivity].
      injection E as E1 E2.
      pose proof (map_nth_error_eq fst _ _ j E2) as E3.
      destruct (nth_error (u_chans val ra) j) as [[la va]|], (nth_error (u_chans val rb) j) as [[lb vb]|];
        simpl in E3; try discriminate E3; [|reflexivity].
      injection E3 as ->. rewrite E1. reflexivity.
    - pose proof (map_nth_error_eq nskel _ _ n HN) as E.
      destruct (nth_error (s_nodes val a) n) as [ra|], (nth_error (s_nodes val b) n) as [rb|];
        simpl in E; try discriminate E; [|reflexivity].
      unfold nskel in E. inversion E as [[E1 E2 E3]]. reflexivity.
  Qed.

  Lemma same_skel_other_label a b o : same_skel a b -> other_label a o = other_label b o.
  Proof. intros H. destruct o; simpl; [apply same_skel_scoped; exact H|reflexivity]. Qed.

  Lemma same_skel_pieces a b q : same_skel a b -> pieces a q = pieces b q.
  Proof.
    intros H. unfold Inject.pieces. rewrite (same_skel_scoped a b _ H). do 2 f_equal.
    apply map_ext. intros o. apply same_skel_other_label. exact H.
  Qed.

  Lemma same_skel_nominal a b q : same_skel a b -> nominal a q = nominal b q.
  Proof.
    intros H. unfold Inject.nominal. rewrite (same_skel_scoped a b _ H).
    rewrite (map_ext _ _ (fun o => same_skel_other_label a b o H)). reflexivity.
  Qed.

  Lemma same_skel_label a b q : same_skel a b -> inj_label a q = inj_label b q.
  Proof. intros H. unfold Inject.inj_label. rewrite (same_skel_nominal a b q H). reflexivity. Qed.

  Lemma find_label_skel l (n1 n2 : list nrec) i :
    map nskel n1 = map nskel n2 -> find_label l n1 i = find_label l n2 i.
  Proof.
    revert n2 i; induction n1 as [|r n1 IH]; intros [|r2 n2] i H; simpl in *; try discriminate; [reflexivity|].
    assert (Hh : nskel r = nskel r2) by congruence.
    assert (Ht : map nskel n1 = map nskel n2) by congruence.
    unfold nskel in Hh. inversion Hh as [[E1 E2 E3]]. 
    rewrite <- ?E1. destruct (String.eqb l (n_label val r)); [reflexivity|apply IH; exact Ht].
  Qed.

  (* nominal = the pieces glued with "_" *)
  Lemma nominal_join st q : nominal st q = join "_" (pieces st q).
  Proof.
    unfold Inject.nominal, Inject.pieces. destruct (q_others val q) as [|o os]; simpl.
    - rewrite append_nil_r. reflexivity.
    - reflexivity.
  Qed.

  (* ---- find_label ------------------------------------------------------------------------------ *)
  Lemma find_label_some l ns i n :
    find_label l ns i = Some n ->
    i <= n /\ exists r, nth_error ns (n - i) = Some r /\ n_label val r = l.
  Proof.
    revert i; induction ns as [|r ns IH]; intros i H; simpl in H; [discriminate|].
    destruct (String.eqb l (n_label val r)) eqn:E.
    - injection H as <-. split; [lia|]. exists r. rewrite Nat.sub_diag. simpl.
      apply String.eqb_eq in E. auto.
    - destruct (IH _ H) as (Hle & r' & Hn & Hl). split; [lia|]. exists r'. split; [|exact Hl].
      replace (n - i) with (S (n - S i)) by lia. exact Hn.
  Qed.

  Lemma find_label_lt l ns i n : find_label l ns i = Some n -> n < i + List.length ns.
  Proof.
    revert i; induction ns as [|r ns IH]; intros i H; simpl in *; [discriminate|].
    destruct (String.eqb l (n_label val r)); [injection H as <-; lia|]. apply IH in H. lia.
  Qed.

  Lemma find_label_app_some l ns x i n :
    find_label l ns i = Some n -> find_label l (ns ++ [x]) i = Some n.
  Proof.
    revert i; induction ns as [|r ns IH]; intros i H; simpl in *; [discriminate|].
    destruct (String.eqb l (n_label val r)); [exact H|apply IH; exact H].
  Qed.

  Lemma find_label_app_none l ns x i :
    find_label l ns i = None -> n_label val x = l ->
    find_label l (ns ++ [x]) i = Some (i + List.length ns).
  Proof.
    revert i; induction ns as [|r ns IH]; intros i H E; simpl in *.
    - rewrite E, String.eqb_refl. f_equal. lia.
    - destruct (String.eqb l (n_label val r)); [discriminate|]. rewrite (IH _ H E). f_equal. lia.
  Qed.

  (* ---- requests that only mention existing channels ------------------------------------------------ *)
  Definition chan_ok (st : state) (c : chan) : Prop :=
    match c with CU _ _ => True | CN n => n < List.length (s_nodes val st) end.
  Definition operand_ok (st : state) (o : operand) : Prop :=
    match o with OC c => chan_ok st c | OR _ => True end.
  Definition q_ok (st : state) (q : request) : Prop :=
    chan_ok st (q_self val q) /\ Forall (operand_ok st) (q_others val q).

  (* b has the nodes of a (same skeleton) and possibly more *)
  Definition extends (a b : state) : Prop :=
    s_parent val a = s_parent val b /\
    map uskel (s_users val a) = map uskel (s_users val b) /\
    exists extra, map nskel (s_nodes val b) = map nskel (s_nodes val a) ++ extra.

  Lemma same_skel_extends a b : same_skel a b -> extends a b.
  Proof. intros (A & B & C). repeat split; auto. exists []. rewrite app_nil_r. congruence. Qed.

  Lemma extends_refl a : extends a a.
  Proof. apply same_skel_extends, same_skel_refl. Qed.

  Lemma extends_trans a b c : extends a b -> extends b c -> extends a c.
  Proof.
    intros (A1 & A2 & x & A3) (B1 & B2 & y & B3). repeat split; try congruence.
    exists (x ++ y). rewrite B3, A3, app_assoc. reflexivity.
  Qed.

  Lemma extends_length a b : extends a b -> List.length (s_nodes val a) <= List.length (s_nodes val b).
  Proof.
    intros (_ & _ & x & H). rewrite <- (map_length nskel (s_nodes val b)), H, app_length, map_length. lia.
  Qed.

  Lemma extends_chan_ok a b c : extends a b -> chan_ok a c -> chan_ok b c.
  Proof. intros H. destruct c; simpl; auto. pose proof (extends_length a b H). lia. Qed.

  Lemma extends_q_ok a b q : extends a b -> q_ok a q -> q_ok b q.
  Proof.
    intros H (A & B). split; [eapply extends_chan_ok; eauto|].
    eapply Forall_impl; [|exact B]. intros [c|v]; simpl; auto. apply extends_chan_ok; exact H.
  Qed.

  Lemma extends_scoped a b c : extends a b -> chan_ok a c -> scoped a c = scoped b c.
  Proof.
    intros (HP & HU & x & HN) Hc. destruct c as [u j|n].
    - apply (same_skel_scoped (mkS val (s_parent val a) (s_users val a) [] None)
                              (mkS val (s_parent val a) (s_users val b) [] None) (CU u j)).
      repeat split; simpl; auto.
    - simpl in *.
      assert (E : option_map nskel (nth_error (s_nodes val a) n) = option_map nskel (nth_error (s_nodes val b) n)).
      { rewrite <- !nth_error_map, HN, nth_error_app1; [reflexivity|rewrite map_length; exact Hc]. }
      destruct (nth_error (s_nodes val a) n) as [ra|] eqn:Ea.
      + destruct (nth_error (s_nodes val b) n) as [rb|]; simpl in E; [|discriminate].
        unfold nskel in E. inversion E as [[E1 E2 E3]]. reflexivity.
      + apply nth_error_None in Ea. lia.
  Qed.

  Lemma extends_label a b q : extends a b -> q_ok a q -> inj_label a q = inj_label b q.
  Proof.
    intros H (A & B). unfold Inject.inj_label, Inject.nominal.
    rewrite (extends_scoped a b _ H A).
    assert (E : map (other_label a) (q_others val q) = map (other_label b) (q_others val q)).
    { apply map_ext_in. intros o Ho. rewrite Forall_forall in B. specialize (B o Ho).
      destruct o; simpl; [apply extends_scoped; assumption|reflexivity]. }
    rewrite E. reflexivity.
  Qed.

  Lemma extends_pieces a b q : extends a b -> q_ok a q -> pieces a q = pieces b q.
  Proof.
    intros H (A & B). unfold Inject.pieces. rewrite (extends_scoped a b _ H A). do 2 f_equal.
    apply map_ext_in. intros o Ho. rewrite Forall_forall in B. specialize (B o Ho).
    destruct o; simpl; [apply extends_scoped; assumption|reflexivity].
  Qed.

  (* ---- run_own ------------------------------------------------------------------------------------ *)
  Lemma set_node_skel st n r r' :
    nth_error (s_nodes val st) n = Some r -> nskel r' = nskel r -> same_skel st (set_node st n r').
  Proof.
    intros H E. repeat split; simpl. symmetry. apply (set_nth_map nskel _ n r' r H E).
  Qed.

  Lemma run_own_skel st n st' res : run_own st n = (st', res) -> same_skel st st'.
  Proof.
    unfold Inject.run_own. intros H.
    destruct (nth_error (s_nodes val st) n) as [r|] eqn:E; [|injection H as <- _; apply same_skel_refl].
    destruct (n_failed val r); [injection H as <- _; apply same_skel_refl|].
    destruct (input_values st (n_cls val r) (n_in val r)) as [vals|]; [|injection H as <- _; apply same_skel_refl].
    destruct (node_apply (n_cls val r) vals); injection H as <- _;
      apply (set_node_skel st n r); auto.
  Qed.

  (* what a run of node n computes: the node function on the current values of its inputs *)
  Lemma run_own_spec st n r vals :
    nth_error (s_nodes val st) n = Some r -> n_failed val r = false ->
    input_values st (n_cls val r) (n_in val r) = Some vals ->
    match node_apply (n_cls val r) vals with
    | inl v => exists st', run_own st n = (st', RVal v) /\ chan_value st' (CN n) = Some v
    | inr x => exists st', run_own st n = (st', RRaise x) /\
                           option_map (n_failed val) (nth_error (s_nodes val st') n) = Some true
    end.
  Proof.
    intros Hn Hf Hv. unfold Inject.run_own. rewrite Hn, Hf, Hv.
    assert (L : n < List.length (s_nodes val st)) by (apply nth_error_Some; congruence).
    destruct (node_apply (n_cls val r) vals) as [v|x]; eexists; (split; [reflexivity|]); simpl;
      rewrite set_nth_same by exact L; reflexivity.
  Qed.

  Lemma run_own_val_inv st n st' v :
    run_own st n = (st', RVal v) ->
    exists r vals, nth_error (s_nodes val st) n = Some r /\ n_failed val r = false /\
      input_values st (n_cls val r) (n_in val r) = Some vals /\
      node_apply (n_cls val r) vals = inl v /\ chan_value st' (CN n) = Some v.
  Proof.
    unfold Inject.run_own. intros H.
    destruct (nth_error (s_nodes val st) n) as [r|] eqn:E; [|discriminate].
    destruct (n_failed val r) eqn:F; [discriminate|].
    destruct (input_values st (n_cls val r) (n_in val r)) as [vals|] eqn:V; [|discriminate].
    destruct (node_apply (n_cls val r) vals) as [w|x] eqn:A; [|discriminate].
    injection H as <- <-. exists r, vals. repeat split; auto. simpl.
    rewrite set_nth_same; [reflexivity|apply nth_error_Some; congruence].
  Qed.

  Lemma run_own_raise_inv st n st' x :
    run_own st n = (st', RRaise x) ->
    exists r vals, nth_error (s_nodes val st) n = Some r /\ n_failed val r = false /\
      input_values st (n_cls val r) (n_in val r) = Some vals /\
      node_apply (n_cls val r) vals = inr x.
  Proof.
    unfold Inject.run_own. intros H.
    destruct (nth_error (s_nodes val st) n) as [r|] eqn:E; [|discriminate].
    destruct (n_failed val r) eqn:F; [discriminate|].
    destruct (input_values st (n_cls val r) (n_in val r)) as [vals|] eqn:V; [|discriminate].
    destruct (node_apply (n_cls val r) vals) as [w|y] eqn:A; [discriminate|].
    injection H as <- <-. exists r, vals. repeat split; auto.
  Qed.

  (* ---- inject ---------------------------------------------------------------------------------------- *)
  Definition new_node (st : state) (q : request) : nrec :=
    mkN val (inj_label st q) (q_cls val q)
        ((if q_inject_self val q then [OC (q_self val q)] else []) ++ q_others val q) None false.

  Definition grown (st : state) (q : request) : state :=
    mkS val (s_parent val st) (s_users val st) (s_nodes val st ++ [new_node st q]) None.

  Lemma grown_extends st q : extends st (grown st q).
  Proof. repeat split; simpl. exists [nskel (new_node st q)]. rewrite map_app. reflexivity. Qed.

  Lemma inject_found st q n :
    s_parent val st = true -> find_label (inj_label st q) (s_nodes val st) 0 = Some n ->
    inject st q = (st, n, Done).
  Proof. intros P F. unfold Inject.inject. rewrite P, F. reflexivity. Qed.

  (* a lookup miss (or no parent): a new node, of the requested class, wired self-then-operands,
     under the computed label, then run at once *)
  Lemma inject_fresh st q :
    (s_parent val st = false \/ find_label (inj_label st q) (s_nodes val st) 0 = None) ->
    exists st' o, inject st q = (st', List.length (s_nodes val st), o) /\
      same_skel (grown st q) st' /\
      (o = Done \/ exists x, o = Raised x /\ run_own (grown st q) (List.length (s_nodes val st)) = (st', RRaise x)).
  Proof.
    intros H. unfold Inject.inject.
    assert (E : (if s_parent val st then find_label (inj_label st q) (s_nodes val st) 0 else None) = None).
    { destruct H as [->| ->]; [reflexivity|destruct (s_parent val st); reflexivity]. }
    rewrite E. fold (new_node st q). fold (grown st q).
    destruct (holds_data val (grown st q) _) eqn:Hd.
    - destruct (run_own (grown st q) (List.length (s_nodes val st))) as [st2 res] eqn:R.
      pose proof (run_own_skel _ _ _ _ R) as Sk.
      destruct res; eexists; eexists; (split; [reflexivity|]); (split; [exact Sk|]); auto.
      right. eexists. split; reflexivity.
    - eexists; eexists. split; [reflexivity|]. split; [apply same_skel_refl|auto].
  Qed.

  Lemma inject_cases st q st' n o :
    inject st q = (st', n, o) ->
    (s_parent val st = true /\ find_label (inj_label st q) (s_nodes val st) 0 = Some n /\ st' = st /\ o = Done)
    \/ ((s_parent val st = false \/ find_label (inj_label st q) (s_nodes val st) 0 = None)
        /\ n = List.length (s_nodes val st) /\ same_skel (grown st q) st').
  Proof.
    intros H.
    destruct (s_parent val st) eqn:P.
    - destruct (find_label (inj_label st q) (s_nodes val st) 0) as [m|] eqn:F.
      + left. rewrite (inject_found st q m P F) in H. injection H as <- <- <-. auto.
      + right. destruct (inject_fresh st q (or_intror F)) as (st2 & o2 & E & Sk & _).
        rewrite E in H. injection H as <- <- <-. auto.
    - right. destruct (inject_fresh st q (or_introl P)) as (st2 & o2 & E & Sk & _).
      rewrite E in H. injection H as <- <- <-. auto.
  Qed.

  Lemma inject_extends st q st' n o : inject st q = (st', n, o) -> extends st st'.
  Proof.
    intros H. destruct (inject_cases _ _ _ _ _ H) as [(_ & _ & -> & _)|(_ & _ & Sk)].
    - apply extends_refl.
    - eapply extends_trans; [apply grown_extends|apply same_skel_extends; exact Sk].
  Qed.

  Lemma inject_parent st q st' n o : inject st q = (st', n, o) -> s_parent val st' = s_parent val st.
  Proof. intros H. destruct (inject_extends _ _ _ _ _ H) as (P & _). congruence. Qed.

  Lemma inject_keeps_find st q st' n o l m :
    inject st q = (st', n, o) ->
    find_label l (s_nodes val st) 0 = Some m -> find_label l (s_nodes val st') 0 = Some m.
  Proof.
    intros H F. destruct (inject_cases _ _ _ _ _ H) as [(_ & _ & -> & _)|(_ & _ & (_ & _ & Sk))]; [exact F|].
    rewrite <- (find_label_skel l _ _ 0 Sk). simpl. apply find_label_app_some. exact F.
  Qed.

  (* with a parent, the node handed back is the parent's child registered under the label *)
  Lemma inject_result_label st q st' n o :
    s_parent val st = true -> inject st q = (st', n, o) ->
    find_label (inj_label st q) (s_nodes val st') 0 = Some n.
  Proof.
    intros P H. destruct (inject_cases _ _ _ _ _ H) as [(_ & F & -> & _)|([P'|F] & -> & (_ & _ & Sk))].
    - exact F.
    - congruence.
    - rewrite <- (find_label_skel _ _ _ 0 Sk). simpl.
      rewrite (find_label_app_none _ _ (new_node st q) 0 F eq_refl). reflexivity.
  Qed.

  (* the record of a freshly created node *)
  Lemma inject_fresh_record st q st' n o :
    inject st q = (st', n, o) ->
    (s_parent val st = false \/ find_label (inj_label st q) (s_nodes val st) 0 = None) ->
    n = List.length (s_nodes val st) /\
    option_map nskel (nth_error (s_nodes val st') n) = Some (nskel (new_node st q)).
  Proof.
    intros H C. destruct (inject_fresh st q C) as (st2 & o2 & E & (_ & _ & Sk) & _).
    rewrite E in H. injection H as <- <- <-. split; [reflexivity|].
    rewrite <- nth_error_map, <- Sk, nth_error_map. simpl. rewrite nth_error_app_new. reflexivity.
  Qed.

  (* ---- pull keeps the skeleton ------------------------------------------------------------------------- *)
  Lemma mark_ran_skel st u : same_skel st (mark_ran val st u).
  Proof.
    unfold mark_ran. destruct (nth_error (s_users val st) u) as [r|] eqn:E; [|apply same_skel_refl].
    repeat split; simpl. symmetry. apply (set_nth_map uskel _ u _ r E). reflexivity.
  Qed.

  Lemma fold_skel (f : state -> chan -> state * bool) cs :
    (forall st c st' b, f st c = (st', b) -> same_skel st st') ->
    forall st b0 st' b,
      fold_left (fun (acc : state * bool) c' => if snd acc then f (fst acc) c' else acc) cs (st, b0) = (st', b) ->
      same_skel st st'.
  Proof.
    intros Hf. induction cs as [|c cs IH]; intros st b0 st' b H; simpl in H.
    - injection H as <- _. apply same_skel_refl.
    - destruct b0; simpl in H.
      + destruct (f st c) as [st1 b1] eqn:E. apply Hf in E.
        eapply same_skel_trans; [exact E|]. eapply IH. exact H.
      + eapply IH. exact H.
  Qed.

  Lemma ensure_skel fuel : forall st c st' b, ensure fuel st c = (st', b) -> same_skel st st'.
  Proof.
    induction fuel as [|f IH]; intros st c st' b H; simpl in H.
    - injection H as <- _. apply same_skel_refl.
    - destruct c as [u j|m].
      + injection H as <- _. apply mark_ran_skel.
      + destruct (nth_error (s_nodes val st) m) as [r|]; [|injection H as <- _; apply same_skel_refl].
        destruct (fold_left _ _ _) as [st1 ok] eqn:F.
        apply (fold_skel (ensure f) _ IH) in F.
        destruct ok.
        * destruct (run_own st1 m) as [st2 res] eqn:R. apply run_own_skel in R.
          assert (st' = st2) by (destruct res; injection H as <- _; reflexivity). subst.
          eapply same_skel_trans; eauto.
        * injection H as <- _. exact F.
  Qed.

  Lemma pull_upstream_skel st n r st1 ok :
    pull_upstream val pyop none_val st n r = (st1, ok) -> same_skel st st1.
  Proof.
    unfold pull_upstream. intros H.
    destruct (wf_cache_hit val st _); [injection H as <- _; repeat split|].
    destruct (fold_left _ _ _) as [st2 ok2] eqn:F.
    apply (fold_skel _ _ (ensure_skel _)) in F.
    injection H as <- _.
    destruct (s_parent val st); [|exact F].
    destruct F as (A & B & C). repeat split; simpl; assumption.
  Qed.

  Lemma pull_skel st n st' p : pull st n = (st', p) -> same_skel st st'.
  Proof.
    unfold Inject.pull. intros H.
    destruct (nth_error (s_nodes val st) n) as [r|]; [|injection H as <- _; apply same_skel_refl].
    destruct (pull_upstream val pyop none_val st n r) as [st1 ok] eqn:F.
    apply pull_upstream_skel in F.
    destruct ok.
    - destruct (run_own st1 n) as [st2 res] eqn:R. apply run_own_skel in R.
      assert (st' = st2) by (destruct res; injection H as <- _; reflexivity). subst.
      eapply same_skel_trans; eauto.
    - injection H as <- _. exact F.
  Qed.

  (* the last thing a successful pull does is run the node itself *)
  Lemma pull_val_inv st n st' v :
    pull st n = (st', PVal v) ->
    exists st1, same_skel st st1 /\ run_own st1 n = (st', RVal v).
  Proof.
    unfold Inject.pull. intros H.
    destruct (nth_error (s_nodes val st) n) as [r|]; [|discriminate].
    destruct (pull_upstream val pyop none_val st n r) as [st1 ok] eqn:F.
    apply pull_upstream_skel in F.
    destruct ok; [|discriminate].
    destruct (run_own st1 n) as [st2 res] eqn:R.
    destruct res; try discriminate; [|destruct (n_failed val r); discriminate].
    injection H as <- <-. exists st1. auto.
  Qed.

  (* ---- histories ------------------------------------------------------------------------------------------ *)
  (* every sequence of injections (each returning some node, possibly after raising), interleaved
     with arbitrary steps that keep the skeleton (runs, pulls, anything that only moves data) *)
  Inductive hist (st0 : state) : list (request * nat) -> state -> Prop :=
  | h_nil : hist st0 [] st0
  | h_inj qs st q st' n o :
      hist st0 qs st -> q_ok st q -> inject st q = (st', n, o) -> hist st0 (qs ++ [(q, n)]) st'
  | h_skel qs st st' :
      hist st0 qs st -> same_skel st st' -> hist st0 qs st'.

  Lemma hist_parent st0 qs st : hist st0 qs st -> s_parent val st = s_parent val st0.
  Proof.
    induction 1 as [|qs st q st' n o _ IH _ Hi|qs st st' _ IH (P & _)]; [reflexivity| |congruence].
    rewrite (inject_parent _ _ _ _ _ Hi). exact IH.
  Qed.

  Lemma hist_invariant st0 qs st :
    hist st0 qs st -> s_parent val st0 = true ->
    forall q n, In (q, n) qs ->
      q_ok st q /\ find_label (inj_label st q) (s_nodes val st) 0 = Some n.
  Proof.
    induction 1 as [|qs st q st' n o Hh IH Hok Hi|qs st st' Hh IH Sk]; intros P q' n' Hin.
    - destruct Hin.
    - pose proof (inject_extends _ _ _ _ _ Hi) as Ex.
      assert (Pst : s_parent val st = true) by (rewrite (hist_parent _ _ _ Hh); exact P).
      apply in_app_or in Hin. destruct Hin as [Hin|[E|[]]].
      + destruct (IH P _ _ Hin) as (Ok & F). split; [eapply extends_q_ok; eauto|].
        rewrite <- (extends_label st st' q' Ex Ok). eapply inject_keeps_find; eauto.
      + injection E as <- <-. split; [eapply extends_q_ok; eauto|].
        rewrite <- (extends_label st st' q Ex Hok). eapply inject_result_label; eauto.
    - destruct (IH P _ _ Hin) as (Ok & F).
      split; [eapply extends_q_ok; [apply same_skel_extends; exact Sk|exact Ok]|].
      rewrite <- (same_skel_label st st' q' Sk).
      destruct Sk as (_ & _ & Sk). rewrite <- (find_label_skel _ _ _ 0 Sk). exact F.
  Qed.

  (* C18_reuse *)
  Lemma reuse st0 qs st q n :
    hist st0 qs st -> s_parent val st0 = true -> In (q, n) qs ->
    inject st q = (st, n, Done).
  Proof.
    intros H P Hin. destruct (hist_invariant _ _ _ H P _ _ Hin) as (_ & F).
    apply inject_found; [rewrite (hist_parent _ _ _ H); exact P|exact F].
  Qed.

  (* without a parent nothing is ever found: every writing makes a new node *)
  Lemma no_parent_fresh st q :
    s_parent val st = false ->
    exists st' o, inject st q = (st', List.length (s_nodes val st), o) /\
                  List.length (s_nodes val st') = S (List.length (s_nodes val st)).
  Proof.
    intros P. destruct (inject_fresh st q (or_introl P)) as (st' & o & E & Sk & _).
    exists st', o. split; [exact E|].
    rewrite <- (same_skel_length _ _ Sk). simpl. rewrite app_length. simpl. lia.
  Qed.

  (* ---- distinct expressions, distinct nodes (under the guards) ----------------------------------------------- *)
  Hypothesis hash_inj : forall a b, hash a = hash b -> a = b.

  Lemma label_inj st q1 q2 :
    inj_label st q1 = inj_label st q2 -> q_cls val q1 = q_cls val q2 /\ nominal st q1 = nominal st q2.
  Proof.
    unfold Inject.inj_label, label_of. intros H. apply append_inv_head in H.
    apply cls_label_inj in H. destruct H as (A & B). split; [exact A|apply hash_inj; exact B].
  Qed.

  Definition q_chans (q : request) : list chan :=
    q_self val q :: flat_map (fun o => match o with OC c => [c] | OR _ => [] end) (q_others val q).
  Definition q_raws (q : request) : list val :=
    flat_map (fun o => match o with OC _ => [] | OR v => [v] end) (q_others val q).

  (* repr of the raw operands is injective (CPython, on the operand pool) *)
  Hypothesis repr_inj : forall v1 v2, py_repr v1 = py_repr v2 -> v1 = v2.

  Lemma others_inj st (l1 l2 : list operand) :
    (forall v c, (In (OR v) l1 /\ In (OC c) l2) \/ (In (OR v) l2 /\ In (OC c) l1) -> py_repr v <> scoped st c) ->
    (forall c1 c2, In (OC c1) l1 -> In (OC c2) l2 -> scoped st c1 = scoped st c2 -> c1 = c2) ->
    map (other_label st) l1 = map (other_label st) l2 -> l1 = l2.
  Proof.
    revert l2; induction l1 as [|a l1 IH]; intros [|b l2] G2 G3 H; simpl in H; try discriminate; [reflexivity|].
    injection H as Hab Hr. f_equal.
    - destruct a as [c1|v1], b as [c2|v2]; simpl in Hab.
      + f_equal. apply G3; simpl; auto.
      + exfalso. apply (G2 v2 c1); [right; simpl; auto|congruence].
      + exfalso. apply (G2 v1 c2); [left; simpl; auto|exact Hab].
      + f_equal. apply repr_inj; exact Hab.
    - apply IH; auto.
      + intros v c [[A B]|[A B]]; apply G2; simpl; auto.
      + intros; apply G3; simpl; auto.
  Qed.

  (* the guards, over the requests R written in one parent, rendered in state st (label hygiene):
       raw_vs_chan  no raw operand's repr is a channel's scoped label
       scoped_inj   channels have distinct scoped labels
       frame_inj    gluing the pieces with "_" is unambiguous *)
  Definition raw_vs_chan st (R : list request) : Prop :=
    forall q1 q2 v c, In q1 R -> In q2 R -> In v (q_raws q1) -> In c (q_chans q2) -> py_repr v <> scoped st c.
  Definition scoped_inj st (R : list request) : Prop :=
    forall q1 q2 c1 c2, In q1 R -> In q2 R -> In c1 (q_chans q1) -> In c2 (q_chans q2) ->
      scoped st c1 = scoped st c2 -> c1 = c2.
  Definition frame_inj st (R : list request) : Prop :=
    forall q1 q2, In q1 R -> In q2 R ->
      join "_" (pieces st q1) = join "_" (pieces st q2) -> pieces st q1 = pieces st q2.
  (* which classes are wired with the receiver in front (all but Slice) *)
  Definition flags_ok (R : list request) : Prop :=
    forall q, In q R -> q_inject_self val q = negb (cls_eqb (q_cls val q) CSlice).

  Lemma in_raws q v : In (OR v) (q_others val q) -> In v (q_raws q).
  Proof. intros H. unfold q_raws. apply in_flat_map. exists (OR v). simpl. auto. Qed.
  Lemma in_chans q c : In (OC c) (q_others val q) -> In c (q_chans q).
  Proof. intros H. unfold q_chans. right. apply in_flat_map. exists (OC c). simpl. auto. Qed.

  Lemma request_eq (q1 q2 : request) :
    q_cls val q1 = q_cls val q2 -> q_self val q1 = q_self val q2 -> q_others val q1 = q_others val q2 ->
    q_inject_self val q1 = q_inject_self val q2 -> q1 = q2.
  Proof. destruct q1, q2; simpl; intros; subst; reflexivity. Qed.

  Lemma label_eq_request_eq st R q1 q2 :
    In q1 R -> In q2 R -> flags_ok R ->
    raw_vs_chan st R -> scoped_inj st R -> frame_inj st R ->
    inj_label st q1 = inj_label st q2 -> q1 = q2.
  Proof.
    intros I1 I2 Fl G2 G3 G4 H.
    destruct (label_inj st q1 q2 H) as (Hc & Hn).
    rewrite !nominal_join in Hn. apply (G4 q1 q2 I1 I2) in Hn.
    unfold Inject.pieces in Hn. injection Hn as Hs _ Ho.
    assert (Es : q_self val q1 = q_self val q2).
    { apply (G3 q1 q2); auto; left; reflexivity. }
    assert (Eo : q_others val q1 = q_others val q2).
    { apply (others_inj st); auto.
      - intros v c [[A B]|[A B]].
        + apply (G2 q1 q2); auto using in_raws, in_chans.
        + apply (G2 q2 q1); auto using in_raws, in_chans.
      - intros c1 c2 A B. apply (G3 q1 q2); auto using in_chans. }
    apply request_eq; auto. rewrite (Fl q1 I1), (Fl q2 I2), Hc. reflexivity.
  Qed.

  (* C18_distinct_partial *)
  Lemma distinct st0 qs st q1 q2 n :
    hist st0 qs st -> s_parent val st0 = true ->
    In (q1, n) qs -> In (q2, n) qs ->
    flags_ok (map fst qs) ->
    raw_vs_chan st (map fst qs) -> scoped_inj st (map fst qs) ->
    frame_inj st (map fst qs) ->
    q1 = q2.
  Proof.
    intros H P I1 I2 Fl G2 G3 G4.
    destruct (hist_invariant _ _ _ H P _ _ I1) as (_ & F1).
    destruct (hist_invariant _ _ _ H P _ _ I2) as (_ & F2).
    destruct (find_label_some _ _ _ _ F1) as (_ & r1 & N1 & L1).
    destruct (find_label_some _ _ _ _ F2) as (_ & r2 & N2 & L2).
    rewrite N1 in N2. injection N2 as <-.
    apply (label_eq_request_eq st (map fst qs)); auto.
    - apply (in_map fst) in I1. exact I1.
    - apply (in_map fst) in I2. exact I2.
    - congruence.
  Qed.

  (* two requests on ONE receiver with ONE class and at most one operand need no framing guard:
     the receiver's text is a common prefix *)
  Lemma same_receiver_label_inj st c self o1 o2 :
    inj_label st (mkQ c self [o1] true) = inj_label st (mkQ c self [o2] true) ->
    other_label st o1 = other_label st o2.
  Proof.
    intros H. apply label_inj in H. destruct H as (_ & H). unfold Inject.nominal in H. simpl in H.
    apply append_inv_head in H. apply (append_inv_head "_") in H. apply append_inv_head in H.
    apply (append_inv_head "_") in H. exact H.
  Qed.

  (* S17 repaired: on one receiver, one class, two raw operands get one label only if they are equal *)
  Lemma one_raw_operand_inj st c self v1 v2 :
    inj_label st (mkQ c self [OR v1] true) = inj_label st (mkQ c self [OR v2] true) -> v1 = v2.
  Proof. intros H. apply same_receiver_label_inj in H. simpl in H. apply repr_inj. exact H. Qed.

  (* ---- who created a node, and what it computes ---------------------------------------------------------------- *)
  Definition q_inputs (q : request) : list operand :=
    (if q_inject_self val q then [OC (q_self val q)] else []) ++ q_others val q.

  Lemma hist_created st0 qs st :
    hist st0 qs st ->
    forall n, List.length (s_nodes val st0) <= n < List.length (s_nodes val st) ->
      exists q, In (q, n) qs /\ q_ok st q /\
        option_map nskel (nth_error (s_nodes val st) n) = Some (inj_label st q, q_cls val q, q_inputs q).
  Proof.
    induction 1 as [|qs st q st' m o Hh IH Hok Hi|qs st st' Hh IH Sk]; intros n Hn.
    - lia.
    - pose proof (inject_extends _ _ _ _ _ Hi) as Ex.
      destruct (inject_cases _ _ _ _ _ Hi) as [(_ & _ & -> & _)|(C & -> & Sk)].
      + destruct (IH n Hn) as (q' & I & Ok & R). exists q'. split; [apply in_or_app; auto|auto].
      + assert (L : List.length (s_nodes val st') = S (List.length (s_nodes val st))).
        { rewrite <- (same_skel_length _ _ Sk). simpl. rewrite app_length. simpl. lia. }
        destruct Sk as (_ & _ & Sk).
        destruct (Nat.eq_dec n (List.length (s_nodes val st))) as [->|Ne].
        * exists q. split; [apply in_or_app; right; left; reflexivity|].
          split; [eapply extends_q_ok; eauto|].
          rewrite <- nth_error_map, <- Sk, nth_error_map. simpl. rewrite nth_error_app_new. simpl.
          unfold nskel, new_node, q_inputs. simpl. rewrite (extends_label st st' q Ex Hok). reflexivity.
        * destruct (IH n ltac:(lia)) as (q' & I & Ok & R). exists q'.
          split; [apply in_or_app; auto|]. split; [eapply extends_q_ok; eauto|].
          rewrite <- nth_error_map, <- Sk, nth_error_map. simpl.
          rewrite nth_error_app_old by lia. rewrite R, (extends_label st st' q' Ex Ok). reflexivity.
    - rewrite <- (same_skel_length _ _ Sk) in Hn. destruct (IH n Hn) as (q' & I & Ok & R).
      exists q'. split; [exact I|]. split; [eapply extends_q_ok; [apply same_skel_extends|]; eauto|].
      rewrite <- (same_skel_label st st' q' Sk). destruct Sk as (_ & _ & Sk).
      rewrite <- nth_error_map, <- Sk, nth_error_map. exact R.
  Qed.

  (* under the guards the node handed back for a written operation is wired to exactly the written
     receiver and operands, in that order, and has the class of the entry point *)
  Lemma wiring_partial st0 qs st q n :
    hist st0 qs st -> s_parent val st0 = true -> s_nodes val st0 = [] ->
    In (q, n) qs ->
    flags_ok (map fst qs) ->
    raw_vs_chan st (map fst qs) -> scoped_inj st (map fst qs) ->
    frame_inj st (map fst qs) ->
    exists r, nth_error (s_nodes val st) n = Some r /\ n_cls val r = q_cls val q /\ n_in val r = q_inputs q.
  Proof.
    intros H P E0 I Fl G2 G3 G4.
    destruct (hist_invariant _ _ _ H P _ _ I) as (_ & F).
    pose proof (find_label_lt _ _ _ _ F) as Lt.
    destruct (hist_created _ _ _ H n) as (q' & I' & _ & R); [rewrite E0; simpl; lia|].
    assert (q = q') by (eapply distinct; eauto). subst q'.
    destruct (nth_error (s_nodes val st) n) as [r|]; [|discriminate R].
    exists r. simpl in R. unfold nskel in R. inversion R as [[A B C]]. auto.
  Qed.

  (* the node function of the class an entry point injects IS the written python operation *)
  Lemma node_apply_entry e vals :
    node_apply (entry_cls e) vals = pyop (fst (spec e)) (arrange (snd (spec e)) vals).
  Proof.
    unfold Inject.node_apply. destruct (table_spec e) as (H & _). rewrite H.
    destruct (spec e); reflexivity.
  Qed.

  (* C18_value: running a node that an entry point created gives the python operator applied to the
     current values of (receiver, operand), and the operator's exception if it raises *)
  Lemma value_spec st n r e vals :
    nth_error (s_nodes val st) n = Some r -> n_failed val r = false -> n_cls val r = entry_cls e ->
    input_values st (n_cls val r) (n_in val r) = Some vals ->
    match pyop (fst (spec e)) (arrange (snd (spec e)) vals) with
    | inl v => exists st', run_own st n = (st', RVal v) /\ chan_value st' (CN n) = Some v
    | inr x => exists st', run_own st n = (st', RRaise x) /\
                           option_map (n_failed val) (nth_error (s_nodes val st') n) = Some true
    end.
  Proof.
    intros Hn Hf Hc Hv. pose proof (run_own_spec st n r vals Hn Hf Hv) as H.
    rewrite Hc, node_apply_entry in H. exact H.
  Qed.

  (* ... and pull ends with exactly such a run *)
  Lemma pull_value_spec st n st' v :
    pull st n = (st', PVal v) ->
    exists st1 r vals, same_skel st st1 /\ nth_error (s_nodes val st1) n = Some r /\
      input_values st1 (n_cls val r) (n_in val r) = Some vals /\
      node_apply (n_cls val r) vals = inl v /\ chan_value st' (CN n) = Some v.
  Proof.
    intros H. destruct (pull_val_inv _ _ _ _ H) as (st1 & Sk & R).
    destruct (run_own_val_inv _ _ _ _ R) as (r & vals & A & _ & B & C & D).
    exists st1, r, vals. auto.
  Qed.

  (* ---- the Slice node: python's slice(start, stop, step) ------------------------------------------------------- *)
  Lemma slice_fun_spec start stop step :
    slice_fun [start; stop; step] = pyop PSliceCtor [start; stop; step].
  Proof. reflexivity. Qed.

  (* a node is run at creation only when every connected operand already holds data *)
  Lemma inject_waits st q st' n o :
    inject st q = (st', n, o) ->
    (s_parent val st = false \/ find_label (inj_label st q) (s_nodes val st) 0 = None) ->
    holds_data val (grown st q) (q_inputs q) = false ->
    st' = grown st q /\ o = Done.
  Proof.
    intros H C Hd. unfold Inject.inject in H.
    assert (E : (if s_parent val st then find_label (inj_label st q) (s_nodes val st) 0 else None) = None).
    { destruct C as [->| ->]; [reflexivity|destruct (s_parent val st); reflexivity]. }
    rewrite E in H. fold (new_node st q) in H. fold (grown st q) in H.
    unfold q_inputs in Hd. rewrite Hd in H. injection H as <- _ <-. auto.
  Qed.
End Proofs.


(* ---- witnesses on the concrete instance (values = tagged text, hash = identity) --------------------------------
   Users: x=1, y=2, l=[1,2,3,4], i=1 (not yet run), z=(p=3,q=0) (not yet run), and four UserInput nodes
   with identifier labels chosen so that "_" framing is ambiguous: a=1, d=10, c__user_input_Add_d=100,
   a__user_input_Add_c=1000. *)
Definition w_reprs : list (string * string) :=
  [("int:1", "1"); ("str:'1'", "'1'"); ("int:4", "4"); ("NoneType:None", "None")].
Definition w_rows : list pyrow :=
  [("add", ["int:1"; "int:1"], false, "int:2");
   ("add", ["int:1"; "str:'1'"], true, "TypeError");
   ("add", ["int:1"; "int:2"], false, "int:3");
   ("add", ["int:1"; "int:100"], false, "int:101");
   ("add", ["int:1000"; "int:10"], false, "int:1010");
   ("mul", ["int:2"; "int:4"], false, "int:8");
   ("neg", ["int:3"], false, "int:-3"); ("neg", ["int:0"], false, "int:0");
   ("pos", ["int:-3"], false, "int:-3");
   ("slice", ["int:1"; "int:4"; "NoneType:None"], false, "slice:slice(1, 4, None)");
   ("getitem", ["list:[1, 2, 3, 4]"; "slice:slice(1, 4, None)"], false, "list:[2, 3, 4]")].
Definition w_users : list (urec tval) :=
  [mkU "x" [("user_input", "int:1")] true; mkU "y" [("user_input", "int:2")] true;
   mkU "l" [("user_input", "list:[1, 2, 3, 4]")] true; mkU "i" [("user_input", "int:1")] false;
   mkU "z" [("p", "int:3"); ("q", "int:0")] false;
   mkU "a" [("user_input", "int:1")] true; mkU "d" [("user_input", "int:10")] true;
   mkU "c__user_input_Add_d" [("user_input", "int:100")] true;
   mkU "a__user_input_Add_c" [("user_input", "int:1000")] true].
Definition w_st0 : state tval := mkS tval true w_users [] None.
Definition w_pyop := tbl_pyop w_rows.
Definition w_repr := tbl_str w_reprs.
Definition w_inject := inject tval w_pyop w_repr "NoneType:None" (fun s => s).
Definition w_pull := pull tval w_pyop "NoneType:None".
Definition w_x : chan := CU 0 0.
Definition w_y : chan := CU 1 0.
Definition w_l : chan := CU 2 0.
Definition w_i : chan := CU 3 0.

Notation w_hist := (hist tval w_pyop w_repr "NoneType:None" (fun s => s)).

Ltac qok := split; [simpl; auto; try lia | repeat constructor; simpl; auto; try lia].

Lemma w_hist2 st0 q1 n1 o1 st1 q2 n2 o2 st2 :
  q_ok tval st0 q1 -> w_inject st0 q1 = (st1, n1, o1) ->
  q_ok tval st1 q2 -> w_inject st1 q2 = (st2, n2, o2) ->
  w_hist st0 [(q1, n1); (q2, n2)] st2.
Proof.
  intros A B C D. change [(q1, n1); (q2, n2)] with (([] ++ [(q1, n1)]) ++ [(q2, n2)]).
  eapply h_inj; [eapply h_inj; [apply h_nil|exact A|exact B]|exact C|exact D].
Qed.

(* "_" both separates the pieces and occurs inside labels: with nodes a, d, c__user_input_Add_d and
   a__user_input_Add_c (all identifiers, all distinct), a + c__user_input_Add_d and a__user_input_Add_c + d
   get ONE node, and the mix-up changes the value: python says 1000 + 10 = 1010, the shared node 101. *)
Lemma w_refuted_framing : exists qs st q1 q2 n,
  w_hist w_st0 qs st /\ In (q1, n) qs /\ In (q2, n) qs /\ q1 <> q2 /\
  w_pyop PAdd ["int:1000"; "int:10"] = inl "int:1010" /\
  snd (w_pull st n) = PVal "int:101".
Proof.
  pose (q1 := @mkQ tval CAdd (CU 5 0) [OC (CU 7 0)] true). pose (q2 := @mkQ tval CAdd (CU 8 0) [OC (CU 6 0)] true).
  exists [(q1, 0); (q2, 0)], (fst (fst (w_inject w_st0 q1))), q1, q2, 0.
  split.
  { eapply w_hist2 with (o1 := Done) (o2 := Done); [qok|vm_compute; reflexivity|qok|vm_compute; reflexivity]. }
  repeat split; try (simpl; tauto); try (vm_compute; reflexivity).
  intros H. discriminate H.
Qed.

(* regressions of the repaired defects, as facts of the model:
   - x + 1 and x + '1' now get two nodes (and x + '1' raises python's TypeError when written);
   - l[i:4] written while i holds no data does NOT run (no default None stands in for i); once pulled
     it is python's l[1:4] = [2,3,4]. *)
Lemma w_regressions :
  (exists st1 st2, w_inject w_st0 (@mkQ tval CAdd w_x [OR "int:1"] true) = (st1, 0, Done) /\
                   w_inject st1 (@mkQ tval CAdd w_x [OR "str:'1'"] true) = (st2, 1, Raised "TypeError")) /\
  (exists st1 st2 st3,
     w_inject w_st0 (@mkQ tval CSlice w_l [OC w_i; OR "int:4"; OR "NoneType:None"] false) = (st1, 0, Done) /\
     w_inject st1 (@mkQ tval CGetItem w_l [OC (CN 0)] true) = (st2, 1, Done) /\
     chan_value tval st2 (CN 0) = None /\ chan_value tval st2 (CN 1) = None /\
     w_pull st2 1 = (st3, PVal "list:[2, 3, 4]")).
Proof. split; do 2 eexists; try eexists; vm_compute; repeat split; reflexivity. Qed.

(* regression of the repaired composite-cache defect (C05): a pull leaves the parent's input cache empty, so a
   second pull in the same Workflow re-executes upstream; +(-z.p), written before z had run, pulls to -3 *)
Lemma w_pull_cache : exists st1 a o1 st2 b o2 st3 c o3 st4 v st5,
  w_inject w_st0 (@mkQ tval CNegative (CU 4 0) [] true) = (st1, a, o1) /\
  w_inject st1 (@mkQ tval CPositive (CN a) [] true) = (st2, b, o2) /\
  w_inject st2 (@mkQ tval CNegative (CU 4 1) [] true) = (st3, c, o3) /\
  w_pull st3 c = (st4, PVal v) /\ s_wfcache tval st4 = None /\ w_pull st4 b = (st5, PVal "int:-3").
Proof. do 12 eexists. vm_compute. repeat split; reflexivity. Qed.

(* non-vacuity: with repr = the (injective) tagged text itself, a history with a raw operand, a channel
   operand, a nested expression and a repetition meets every hypothesis of the guarded theorems *)
Definition e_inject := inject tval w_pyop (fun s => s) "NoneType:None" (fun s => s).
Notation e_hist := (hist tval w_pyop (fun s : string => s) "NoneType:None" (fun s => s)).

Lemma w_hyps_hold :
  let q1 := @mkQ tval CAdd w_x [OR "int:1"] true in
  let q2 := @mkQ tval CAdd w_x [OC w_y] true in
  let q3 := @mkQ tval CMultiply (CN 0) [OR "int:4"] true in
  exists st, let qs := [(q1, 0); (q2, 1); (q3, 2); (q1, 0)] in
    e_hist w_st0 qs st /\ s_parent tval w_st0 = true /\ s_nodes tval w_st0 = [] /\
    (forall a b : string, (fun s : string => s) a = (fun s => s) b -> a = b) /\
    flags_ok tval (map fst qs) /\
    raw_vs_chan tval (fun s => s) st (map fst qs) /\
    scoped_inj tval st (map fst qs) /\ frame_inj tval (fun s => s) st (map fst qs) /\
    List.length (s_nodes tval st) = 3 /\ chan_value tval st (CN 2) = Some "int:8".
Proof.
  intros q1 q2 q3.
  pose (s1 := fst (fst (e_inject w_st0 q1))). pose (s2 := fst (fst (e_inject s1 q2))).
  pose (s3 := fst (fst (e_inject s2 q3))).
  exists s3. cbv zeta.
  split.
  { change [(q1, 0); (q2, 1); (q3, 2); (q1, 0)] with (((([] ++ [(q1, 0)]) ++ [(q2, 1)]) ++ [(q3, 2)]) ++ [(q1, 0)]).
    eapply h_inj with (o := Done); [eapply h_inj with (o := Done);
      [eapply h_inj with (o := Done); [eapply h_inj with (o := Done); [apply h_nil| |]| |]| |]| |];
      try (vm_compute; reflexivity); try (qok; fail).
    all: split; [simpl; vm_compute; auto; try lia | repeat constructor; simpl; auto; try lia]. }
  split; [reflexivity|]. split; [reflexivity|]. split; [auto|].
  assert (Hin : forall q, In q (map fst [(q1, 0); (q2, 1); (q3, 2); (q1, 0)]) -> q = q1 \/ q = q2 \/ q = q3).
  { simpl. intuition. }
  split; [intros q Hq; destruct (Hin q Hq) as [->|[->| ->]]; reflexivity|].
  split.
  { intros a b v c Ha Hb H1 H2.
    destruct (Hin a Ha) as [->|[->| ->]], (Hin b Hb) as [->|[->| ->]]; simpl in H1, H2;
      intuition; subst; vm_compute; discriminate. }
  split.
  { intros a b c1 c2 Ha Hb H1 H2.
    destruct (Hin a Ha) as [->|[->| ->]], (Hin b Hb) as [->|[->| ->]]; simpl in H1, H2;
      intuition; subst; try reflexivity; vm_compute; discriminate. }
  split; [|split; vm_compute; reflexivity].
  intros a b Ha Hb.
  destruct (Hin a Ha) as [->|[->| ->]], (Hin b Hb) as [->|[->| ->]]; vm_compute;
    intros H; try reflexivity; discriminate H.
Qed.
