"""bin/check Cxx [--tier quick|thorough] [--replay file]

Decision procedure shared by all properties (DESIGN.md section 6):
  1. build the Coq development, compile Props/Cxx.v afresh, read `Print Assumptions`
  2. corpus + generated scenarios -> run on the real library (/repo) -> observations
  3. property oracle on every implementation observation
  4. the same scenarios evaluated by the Coq model (vm_compute), diffed
  5. verdict (+ known findings), evidence file
"""
from __future__ import annotations

import argparse
import importlib
import json
import os
import random
import sys
import time
import traceback

from harness import lib


class Ctx:
    def __init__(self, prop, tier, seed):
        self.prop, self.tier, self.seed = prop, tier, seed
        self.rng = random.Random(f"{prop}-{seed}")
        self.quick = tier == "quick"
        self.notes: list[str] = []

    def n(self, quick, thorough):
        return quick if self.quick else thorough


class CaseTimeout(BaseException):
    """a single case ran into the per-case wall-clock limit (a changed library may loop forever)"""


def _on_alarm(signum, frame):
    raise CaseTimeout()


CASE_LIMIT_S = int(os.environ.get("VERIF_CASE_LIMIT", "120"))


def safe_impl(mod, case):
    import signal
    old = signal.signal(signal.SIGALRM, _on_alarm)
    signal.alarm(CASE_LIMIT_S)          # property modules may arm a shorter alarm of their own inside run_impl
    try:
        return mod.run_impl(case)
    except CaseTimeout:
        return ["HARNESS-EXC", "CaseTimeout", f"case did not finish within {CASE_LIMIT_S} s", ""]
    except BaseException as e:   # the driver itself must never take the check down
        if isinstance(e, (KeyboardInterrupt, SystemExit)):
            raise
        return ["HARNESS-EXC", type(e).__name__, str(e)[:300], traceback.format_exc()[-600:]]
    finally:
        signal.alarm(0)
        signal.signal(signal.SIGALRM, old)


def safe_oracle(mod, c, obs):
    """an observation the oracle cannot read (the implementation returned objects of an unexpected shape) is a finding
    about that case, never a crash of the check"""
    try:
        return mod.oracle(c, obs)
    except Exception as e:      # noqa: BLE001
        return f"unreadable: the oracle cannot read the observation ({type(e).__name__}: {str(e)[:120]})"


def safe_known(mod, c, o, v):
    try:
        return mod.known(c, o, v) if hasattr(mod, "known") else None
    except Exception:       # noqa: BLE001 -- an unreadable observation is attributed to nothing
        return None


def evaluate(mod, cases):
    """run implementation + oracle on every case"""
    out = []
    for c in cases:
        obs = safe_impl(mod, c)
        if isinstance(obs, list) and obs and obs[0] == "HARNESS-EXC":
            verdict = f"driver exception {obs[1]}: {obs[2]}"
            enc = ["HARNESS-EXC", obs[1]]
        else:
            verdict = safe_oracle(mod, c, obs)
            enc = obs
        out.append((c, enc, verdict, obs))
    return out


def shrink(mod, case, still_fails):
    cands = getattr(mod, "shrink_candidates", None)
    if cands is None:
        return case
    budget = 200
    deadline = time.time() + 90          # shrinking is best effort: bounded in wall time too
    improved = True
    while improved and budget > 0 and time.time() < deadline:
        improved = False
        for c2 in cands(case):
            budget -= 1
            if budget <= 0 or time.time() > deadline:
                break
            try:
                if still_fails(c2):
                    case, improved = c2, True
                    break
            except Exception:
                pass
    return case


def main(argv=None):
    ap = argparse.ArgumentParser()
    ap.add_argument("prop")
    ap.add_argument("--tier", default=os.environ.get("VERIF_TIER", "quick"), choices=["quick", "thorough"])
    ap.add_argument("--replay")
    a = ap.parse_args(argv)
    prop = a.prop.upper()
    seed = int(os.environ.get("VERIF_SEED", "0") or 0)
    t0 = time.time()
    mod = importlib.import_module(f"harness.props.{prop.lower()}")
    ctx = Ctx(prop, a.tier, seed)

    if a.replay:
        payload = json.load(open(a.replay))
        case = payload.get("case")
        if case is None:
            print(json.dumps(payload, indent=1))
            print("replay names a proof/correspondence obligation, no concrete input")
            return 1
        obs = safe_impl(mod, case)
        v = safe_oracle(mod, case, obs)
        print("case:", json.dumps(case))
        print("impl observation:", json.dumps(obs, default=str)[:2000])
        print("oracle:", v or "holds")
        return 1 if v else 0

    violations: list[str] = []     # VIOLATION lines
    known_lines: list[str] = []
    gate_problems: list[dict] = []

    # ---- 1. proofs ---------------------------------------------------------------
    prep_ok, prep_msg = True, ""
    if hasattr(mod, "prepare"):
        prep_ok, prep_msg = mod.prepare(ctx)
        if not prep_ok:
            gate_problems.append({"gate": "translator", "detail": prep_msg[-1500:]})
    build_ok, build_log = lib.coq_build(prop=prop)
    pg = lib.proof_gate(prop)
    if not pg["ok"]:
        gate_problems.append({"gate": "proof", "theorem_file": pg["file"], "detail": pg["error"],
                              "where": pg.get("where")})

    # ---- 2/3. implementation + oracle --------------------------------------------
    corpus = mod.corpus(ctx) if hasattr(mod, "corpus") else []
    cases = corpus + mod.generate(ctx)
    results = evaluate(mod, cases)

    # ---- 4. correspondence --------------------------------------------------------
    mism, errs = [], []
    model_ok = True
    view = getattr(mod, 'model_view', lambda c, o: o)
    modelled, pairs = [], []
    for i, (c, enc, v, o) in enumerate(results):
        # an observation of an unexpected shape (the implementation returned objects the scenario's rendering does
        # not know) is a finding about that case, never a crash of the check
        try:
            t = mod.model_term(c)
            if t is None:
                continue
            pr = (t, lib.cobs(view(c, o)))
        except Exception as e:      # noqa: BLE001
            if v is None:
                results[i] = (c, enc, f"unrenderable: the observation cannot be rendered for the model ({type(e).__name__}: {str(e)[:120]})", o)
            continue
        modelled.append(i)
        pairs.append(pr)
    if modelled:
        bad, errs = lib.model_mismatches(f"{prop}_{os.getpid()}", mod.IMPORTS, pairs, prelude=getattr(mod, "PRELUDE", ""),
                                         shard=getattr(mod, "SHARD", 300), jobs=getattr(mod, "JOBS", 8))
        mism = [modelled[k] for k in bad]
        if errs:
            model_ok = False
            gate_problems.append({"gate": "model-evaluation", "detail": errs[0][-1500:]})

    if os.environ.get("VERIF_DEBUG") and mism:
        dbg = []
        for i in mism[:12]:
            c, enc, v, o = results[i]
            dbg.append({"case": c, "impl": enc, "model": lib.model_eval(prop, mod.IMPORTS, mod.model_term(c),
                                                                       prelude=getattr(mod, "PRELUDE", ""))})
        (lib.BUILD / f"mism_{prop}.json").write_text(json.dumps(dbg, indent=1, default=str))

    # ---- 5. verdict ---------------------------------------------------------------
    entries = lib.known_findings(prop)
    known_active = {e["id"]: e for e in entries if e.get("status") == "known"}
    attributed: dict[str, int] = {}
    unexplained = []
    for i, (c, enc, v, o) in enumerate(results):
        if v is None:
            continue
        harness_exc = isinstance(o, list) and bool(o) and o[0] == "HARNESS-EXC"
        fid = safe_known(mod, c, o, v) if not harness_exc else None
        if fid is not None and fid in known_active and i not in mism:
            attributed[fid] = attributed.get(fid, 0) + 1
        else:
            unexplained.append(i)

    def public(c):
        return {k: v for k, v in c.items() if not str(k).startswith("_")} if isinstance(c, dict) else c

    def report(case, obs, why, extra=None):
        payload = {"property": prop, "case": public(case), "impl_observation": obs, "why": why}
        if extra:
            payload.update(extra)
        path = lib.write_replay(prop, payload)
        violations.append(f"VIOLATION property={prop} replay={path}")

    if unexplained:
        seen = set()
        for i in unexplained[:5]:
            c, enc, v, o = results[i]
            sig = v.split(":")[0]
            if sig in seen:
                continue
            seen.add(sig)

            def still(c2, sig=sig):
                o2 = safe_impl(mod, c2)
                v2 = safe_oracle(mod, c2, o2)
                if v2 is None or v2.split(":")[0] != sig:
                    return False
                f2 = safe_known(mod, c2, o2, v2)
                return not (f2 is not None and f2 in known_active)
            c_min = shrink(mod, c, still)
            o_min = safe_impl(mod, c_min)
            report(c_min, o_min, safe_oracle(mod, c_min, o_min) or v, {"original_case": c})
    elif mism or gate_problems:
        # proof or correspondence no longer checks, the oracle holds on everything explored:
        # search harder on the implementation side before giving the weaker verdict
        found = None
        extra_cases = mod.search(ctx, results, mism) if hasattr(mod, "search") else []
        if not extra_cases:
            for k in range(1, 4):       # default search: three more quick-sized rounds with other seeds
                extra_cases += mod.generate(Ctx(prop, "quick", seed + 7919 * k))
        for c in extra_cases:
            o = safe_impl(mod, c)
            v = None if (isinstance(o, list) and o and o[0] == "HARNESS-EXC") else safe_oracle(mod, c, o)
            if v is not None:
                fid = safe_known(mod, c, o, v)
                if fid is not None and fid in known_active:
                    continue
                found = (c, o, v)
                break
        if found:
            c, o, v = found
            sig = v.split(":")[0]
            c_min = shrink(mod, c, lambda c2: (safe_oracle(mod, c2, safe_impl(mod, c2)) or "").split(":")[0] == sig)
            o_min = safe_impl(mod, c_min)
            report(c_min, o_min, safe_oracle(mod, c_min, o_min) or v, {"gates": gate_problems})
        else:
            detail = {"property": prop, "case": None, "gates": gate_problems,
                      "why": "a proof obligation or the model/implementation correspondence no longer checks; "
                             "no failing input was found by the search"}
            if mism:
                i = mism[0]
                c, enc, v, o = results[i]
                detail["correspondence"] = {
                    "disagreeing_cases": len(mism), "first_case": c, "impl_observation": enc,
                    "model_observation": lib.model_eval(prop, mod.IMPORTS, mod.model_term(c),
                                                        prelude=getattr(mod, "PRELUDE", ""))}
            path = lib.write_replay(prop, detail)
            violations.append(f"VIOLATION property={prop} replay={path} no-failing-input-found")

    # known findings: replay each recorded witness
    for fid, e in known_active.items():
        w = e.get("witness")
        still = None
        if w is not None:
            o = safe_impl(mod, w)
            still = safe_oracle(mod, w, o)
        if still or attributed.get(fid):
            known_lines.append(f"KNOWN-FINDING: property={prop} {fid}: {e['what']}")
        else:
            ctx.notes.append(f"known finding {fid} no longer reproduces (stale entry)")
    # fixed entries suppress nothing; their witnesses are part of the corpus via mod.corpus

    # ---- 6. evidence --------------------------------------------------------------
    nontrivial_keys = set()
    for c, enc, v, o in results:
        try:
            try:
                nt = mod.nontrivial(c, o)
            except Exception:       # noqa: BLE001
                nt = False
            if nt:
                nontrivial_keys.add(json.dumps(mod.key(c) if hasattr(mod, "key") else c, sort_keys=True, default=str))
        except Exception:
            pass
    try:
        dist = mod.distribution(results) if hasattr(mod, "distribution") else {}
    except Exception as e:          # noqa: BLE001
        dist = {"distribution_unavailable": f"{type(e).__name__}: {str(e)[:100]}"}
    samples = [{"case": public(c), "impl": enc} for c, enc, v, o in results[len(corpus):len(corpus) + 3]]
    coverage = {
        "obligations": max(pg["obligations"], 1), "discharged": pg["discharged"],
        "checker_cmd": f"coqc -Q coq/theories PW coq/theories/Props/{prop}.v  (after make -C coq; Print Assumptions parsed)",
        "trusted_base": lib.TRUSTED_BASE + list(getattr(mod, "TRUSTED", [])),
        "theorems": pg["theorems"], "print_assumptions": pg["assumptions"],
        **({"generated_tie": {k: v for k, v in pg["generated_tie"].items() if k != "generated_text"}} if pg.get("generated_tie") else {}),
        "evaluations": len(results), "distinct_nontrivial": len(nontrivial_keys),
        "rule": mod.RULE, "samples": samples,
        "traces_validated_against_impl": len(modelled), "model_impl_disagreements": len(mism),
        "oracle_failures": sum(1 for r in results if r[2] is not None),
        "attributed_to_known_findings": attributed, "corpus_cases": len(corpus),
        "distribution": dist, "gate_problems": gate_problems, "notes": ctx.notes,
        "exhaustive": bool(getattr(mod, "EXHAUSTIVE", {}).get(a.tier, False)),
    }
    if coverage["discharged"] < 1:   # schema: a proof-level claim needs >=1 discharged; fall back to the generic keys
        coverage["obligations_total"] = coverage.pop("obligations")
        coverage["discharged_count"] = coverage.pop("discharged")
    lib.write_evidence(prop, a.tier, seed, coverage, list(getattr(mod, "ASSUMPTIONS", [])),
                       time.time() - t0, len(violations))
    import shutil
    shutil.rmtree(lib.BUILD / "cases" / f"{prop}_{os.getpid()}", ignore_errors=True)
    for line in known_lines:
        print(line)
    for line in violations:
        print(line)
    print(f"{prop} {a.tier}: {len(results)} cases, {len(nontrivial_keys)} distinct non-trivial, "
          f"{len(modelled)} compared with the model ({len(mism)} differ), proofs {pg['discharged']}/{pg['obligations']}, "
          f"{time.time() - t0:.1f}s", file=sys.stderr)
    return 1 if violations else 0


def _main_in_scratch():
    """run in a private scratch cwd: the library writes recovery/checkpoint files relative to cwd"""
    import shutil
    import tempfile
    d = tempfile.mkdtemp(prefix="verif_cwd_")
    old = os.getcwd()
    os.chdir(d)
    try:
        return main()
    finally:
        os.chdir(old)
        shutil.rmtree(d, ignore_errors=True)


if __name__ == "__main__":
    sys.exit(_main_in_scratch())
