"""Deterministic two-or-more-thread schedules for the parent's polling loop (C01 `race` family).

The parent's run() executes on thread "P"; every completion of an executor job (function + the
library's done-callback) executes on its own thread "W<j>".  Exactly one of these threads runs at
any time: each blocks at its *points* and the scheduler (the calling thread) grants the next turn
according to the scenario's schedule.  Points are the accesses to the two lists the threads share:

  P : len(running_children), len(signal_queue), signal_queue.pop, sleep      (inside the wait loop)
  W : signal_queue.append, running_children.remove                            (the done-callback)

so a schedule is an interleaving of the loop's reads with the callback's writes at the granularity
of single list operations -- what the OS scheduler may do to the real threads.  Everything that
happens is appended to one trace (the threads never run concurrently, so the trace is a total order).
"""
from __future__ import annotations

import threading

LIMIT = 20.0


class Stuck(RuntimeError):
    pass


class Baton:
    def __init__(self, sched):
        self.cv = threading.Condition()
        self.turn = None            # name of the thread allowed to run (None: the scheduler)
        self.waiting = {}           # name -> point it is blocked at
        self.finished = set()
        self.trace = []
        self.sched = list(sched)
        self.in_loop = False
        self.hang = False
        self.abort = False

    # ---- called by the controlled threads
    def point(self, what):
        name = threading.current_thread().name
        if not (name == "P" or name.startswith("W")):
            return
        with self.cv:
            self.waiting[name] = what
            self.turn = None
            self.cv.notify_all()
            if not self.cv.wait_for(lambda: self.turn == name or self.abort, LIMIT) or self.abort:
                self.waiting.pop(name, None)
                raise Stuck(f"{name} was never granted its turn at {what}")
            del self.waiting[name]

    def log(self, *ev):
        self.trace.append([threading.current_thread().name, *ev])

    def _finish(self):
        name = threading.current_thread().name
        with self.cv:
            self.finished.add(name)
            self.turn = None
            self.cv.notify_all()

    # ---- called by the scheduler
    def _grant(self, name):
        with self.cv:
            self.turn = name
            self.cv.notify_all()
            if not self.cv.wait_for(lambda: self.turn is None, LIMIT):
                self.abort = True
                self.cv.notify_all()
                raise Stuck(f"{name} did not reach its next point")

    def _spawn(self, name, fn):
        def body():
            try:
                fn()
            except BaseException as e:      # noqa
                self.trace.append([name, "exc", type(e).__name__])
            finally:
                self._finish()
        t = threading.Thread(target=body, name=name, daemon=True)
        with self.cv:
            self.turn = name
            t.start()
            if not self.cv.wait_for(lambda: self.turn is None, LIMIT):
                self.abort = True
                self.cv.notify_all()
                raise Stuck(f"{name} did not reach its first point")
        return t

    def drive(self, parent_fn, outstanding, complete, max_steps=4000):
        """run parent_fn on thread P; `outstanding()` lists the job ids that may be completed now,
        `complete(j)` completes job j (called on thread W<j>)"""
        threads = [self._spawn("P", parent_fn)]
        started = set()
        idle = 0
        for _ in range(max_steps):
            if "P" in self.finished and not self.waiting:
                break
            ws = sorted(n for n in self.waiting if n != "P")
            spawnable = [j for j in outstanding() if j not in started]
            choices = [("w", n) for n in ws] + [("s", j) for j in spawnable]
            p_at = self.waiting.get("P")
            if p_at is not None:
                choices.append(("p", "P"))
            if not choices:
                break
            if choices == [("p", "P")] and p_at == "sleep":
                idle += 1
                if idle > 3:
                    self.hang = True        # the parent sleeps, nobody else can ever act
            else:
                idle = 0
            k = self.sched.pop(0) if self.sched else 0
            kind, who = choices[k % len(choices)]
            if kind == "s":
                started.add(who)
                threads.append(self._spawn(f"W{who}", lambda j=who: complete(j)))
            else:
                self._grant(who)
        else:
            self.abort = True
            with self.cv:
                self.cv.notify_all()
            raise Stuck("schedule did not terminate")
        self.abort = True
        with self.cv:
            self.cv.notify_all()
        for t in threads:
            t.join(2.0)


class ProbedList(list):
    """the parent's bookkeeping lists, reporting every access that matters to the protocol"""
    baton = None
    name = "?"

    def __len__(self):
        b = self.baton
        t = threading.current_thread().name
        if b is not None and b.in_loop and t == "P":
            b.point("len_" + self.name)
            n = list.__len__(self)
            b.log("len_" + self.name, n)
            return n
        return list.__len__(self)

    def pop(self, *a):
        b = self.baton
        t = threading.current_thread().name
        if b is not None and b.in_loop and t == "P":
            b.point("pop")
            ok = list.__len__(self) > 0
            b.log("pop", ok)
        return list.pop(self, *a)

    def append(self, x):
        b = self.baton
        t = threading.current_thread().name
        if b is not None:
            if t.startswith("W"):
                b.point("append_" + self.name)
            b.log("append_" + self.name, x if isinstance(x, str) else None)
        return list.append(self, x)

    def remove(self, x):
        b = self.baton
        t = threading.current_thread().name
        if b is not None:
            if t.startswith("W"):
                b.point("remove_" + self.name)
            b.log("remove_" + self.name, x if isinstance(x, str) else None)
        return list.remove(self, x)


def probed_workflow_class():
    from pyiron_workflow import Workflow

    class ProbedWorkflow(Workflow):
        _baton = None

        def _wrap(self, name, value):
            w = ProbedList(value)
            w.name = name
            w.baton = self._baton
            return w

        @property
        def running_children(self):
            return self.__dict__["_p_running"]

        @running_children.setter
        def running_children(self, v):
            self.__dict__["_p_running"] = self._wrap("running", v)

        @property
        def signal_queue(self):
            return self.__dict__["_p_queue"]

        @signal_queue.setter
        def signal_queue(self, v):
            self.__dict__["_p_queue"] = self._wrap("queue", v)

        def _run_while_children_or_signals_exist(self):
            b = self._baton
            if b is not None:
                b.log("loop_enter")
                b.in_loop = True
            try:
                return super()._run_while_children_or_signals_exist()
            finally:
                if b is not None:
                    b.in_loop = False
                    b.log("loop_exit", list.__len__(self.running_children), list.__len__(self.signal_queue))
    return ProbedWorkflow
