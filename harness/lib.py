"""Shared machinery of the checks: Coq build + proof gate, model evaluation by generated
cases files (vm_compute inside coqc), evidence, known findings, verdict."""
from __future__ import annotations

import fcntl
import hashlib
import json
import os
import re
import shutil
import subprocess
import sys
import time
from concurrent.futures import ThreadPoolExecutor
from pathlib import Path

VERIF = Path(__file__).resolve().parent.parent
OUT = Path(os.environ["VERIF_OUT"]) if os.environ.get("VERIF_OUT") else VERIF   # evidence/replays root (scratch runs)
REPO = Path(os.environ.get("VERIF_REPO", "/repo"))
COQ = VERIF / "coq"
BUILD = VERIF / "build"
COQ_ARGS = ["-Q", str(COQ / "theories"), "PW", "-w", "-notation-overridden,-ambiguous-paths"]
FORBIDDEN = re.compile(
    r"\b(Admitted|admit|Axiom|Axioms|Parameter|Parameters|Conjecture|Conjectures|Hypothesis|Variable|Variables|"
    r"Unset\s+Guard|bypass_check|Admit\s+Obligations|Unset\s+Universe\s+Checking|Unset\s+Positivity)\b")
ALLOWED_AXIOMS: set[str] = set()   # stdlib axioms we accept under Print Assumptions (none needed so far)


# ---------------------------------------------------------------------------- Coq text
def cz(z: int) -> str:
    return f"({int(z)})%Z"


def cn(n: int) -> str:
    assert 0 <= n < 5000
    return f"{int(n)}%nat"


def cs(s: str) -> str:
    assert all(32 <= ord(c) < 127 for c in s), s
    return '"' + s.replace('"', '""') + '"%string'


def cb(b: bool) -> str:
    return "true" if b else "false"


def cl(items) -> str:
    return "[" + "; ".join(items) + "]"


def copt(x, f) -> str:
    return "None" if x is None else f"(Some {f(x)})"


def cobs(x) -> str:
    """python nested value -> Coq literal of type Base.obs"""
    if isinstance(x, bool):
        return f"(OZ {1 if x else 0}%Z)"
    if isinstance(x, int):
        return f"(OZ {cz(x)})"
    if isinstance(x, str):
        return f"(OS {cs(x)})"
    if x is None:
        return "(OL [])"
    if isinstance(x, (list, tuple)):
        return "(OL " + cl(cobs(e) for e in x) + ")"
    raise TypeError(f"cannot encode {x!r} as obs")


def parse_obs(text: str):
    """parse the Coq printing of an obs term back to python (for replay files)"""
    toks = re.findall(r'"(?:[^"]|"")*"|\(|\)|\[|\]|;|-?\d+|[A-Za-z_%]+', text)
    pos = 0

    def term():
        nonlocal pos
        t = toks[pos]
        if t == "(":
            pos += 1
            r = term()
            assert toks[pos] == ")", toks[pos:pos + 5]
            pos += 1
            if pos < len(toks) and toks[pos].startswith("%"):
                pos += 1
            return r
        if t == "OZ":
            pos += 1
            return term()
        if t == "OS":
            pos += 1
            return term()
        if t == "OL":
            pos += 1
            return term()
        if t == "[":
            pos += 1
            out = []
            while toks[pos] != "]":
                out.append(term())
                if toks[pos] == ";":
                    pos += 1
            pos += 1
            return out
        if t.startswith('"'):
            pos += 1
            if pos < len(toks) and toks[pos].startswith("%"):
                pos += 1
            return t[1:-1].replace('""', '"')
        if re.fullmatch(r"-?\d+", t):
            pos += 1
            if pos < len(toks) and toks[pos].startswith("%"):
                pos += 1
            return int(t)
        raise ValueError(f"parse_obs: unexpected {t!r} in {text[:200]!r}")

    return term()


# ---------------------------------------------------------------------------- build
class Lock:
    def __init__(self, name: str = ""):
        self.name = name

    def __enter__(self):
        BUILD.mkdir(exist_ok=True)
        self.f = open(BUILD / f".lock{self.name}", "w")
        fcntl.flock(self.f, fcntl.LOCK_EX)

    def __exit__(self, *a):
        fcntl.flock(self.f, fcntl.LOCK_UN)
        self.f.close()


def sh(cmd, timeout=600, cwd=None, env=None):
    p = subprocess.run(cmd, cwd=cwd, env=env, stdout=subprocess.PIPE, stderr=subprocess.STDOUT,
                       text=True, timeout=timeout)
    return p.returncode, p.stdout


def regenerate_hintsgen() -> tuple[bool, str]:
    """(re)generate HintsGen.v from /repo's type_hinting.py; only rewrite when changed."""
    out = COQ / "theories" / "HintsGen.v"
    tmp = BUILD / "HintsGen.v.new"
    BUILD.mkdir(exist_ok=True)
    rc, log = sh([sys.executable, str(VERIF / "tools" / "py2gallina.py"),
                  str(REPO / "pyiron_workflow" / "type_hinting.py"), str(tmp)])
    if rc != 0:
        return False, log
    new = tmp.read_text()
    if not out.exists() or out.read_text() != new:
        out.write_text(new)
    return True, ""


GEN_PARTS = {"C02": ("trig", "TrigGen"), "C03": ("fetch", "FetchGen"), "C12": ("conn", "ConnGen"), "C16": ("for", "ForGen"), "C15": ("wf", "WfGen"), "C18": ("inj", "InjGen"),
             "C05": ("hit", "NodeHitGen"), "C10": ("lock", "NodeLockGen"), "C19": ("save", "StoreGen"), "C01": ("topo", "TopoGen"),
             "C08": ("epi", "EpiGen"), "C06": ("epi", "EpiGen"), "C17": ("fn", "FnGen"), "C11": ("tree", "TreeGen")}
GEN_TOOL = {"for": ("py2gallina_for.py", "pyiron_workflow/nodes/for_loop.py"), "wf": ("py2gallina_wf.py", "pyiron_workflow/workflow.py"),
            "inj": ("py2gallina_inj.py", "pyiron_workflow/mixin/injection.py"),
            "hit": ("py2gallina_node.py", "pyiron_workflow/node.py"), "lock": ("py2gallina_node.py", "pyiron_workflow/node.py"),
            "save": ("py2gallina_store.py", "pyiron_workflow/storage.py"),
            "topo": ("py2gallina_topo.py", "pyiron_workflow/topology.py"),
            "epi": ("py2gallina_epi.py", "pyiron_workflow/node.py"),
            "fn": ("py2gallina_fn.py", "pyiron_workflow/nodes/function.py"),
            "tree": ("py2gallina_tree.py", "pyiron_workflow/topology.py")}     # default: py2gallina_chan.py on channels.py


def generated_tie(prop: str) -> dict:
    """The proof tie by regeneration for C02 / C03.  In a private directory: tools/py2gallina_chan.py regenerates the
    trigger / data-delivery methods of REPO's channels.py as Gallina (TrigGen.v / FetchGen.v); coq/gen/<X>GenProofs.v
    and coq/gen/<prop>gen.v, which prove `regenerated method = model function`, are compiled against them.
    applies=False: the source has left the translator's language (reason given) -- the correspondence tie remains.
    ok=False: the regenerated methods are no longer proved equal to the model."""
    key, gen = GEN_PARTS[prop]
    tool, source = GEN_TOOL.get(key, ("py2gallina_chan.py", "pyiron_workflow/channels.py"))
    d = BUILD / "gen" / f"{prop}_{os.getpid()}"
    shutil.rmtree(d, ignore_errors=True)
    d.mkdir(parents=True)
    tie = {"file": f"coq/gen/{prop}gen.v", "generated": f"{gen}.v from {REPO}/{source} by tools/{tool}", "applies": False,
           "ok": True, "theorems": [], "closed": 0, "error": None}
    try:
        rc, log = sh([sys.executable, str(VERIF / "tools" / tool), str(REPO / source), str(d)])
        try:
            status = json.loads(log.strip().splitlines()[-1]).get(key, "translator gave no status")
        except Exception:      # noqa: BLE001
            status = "translator crashed: " + log[-300:]
        tie["translator"] = status
        if status != "ok":
            return tie
        tie["applies"] = True
        srcs = [d / f"{gen}.v"]
        for name in (f"{gen}Proofs.v", f"{prop}gen.v"):
            shutil.copy(COQ / "gen" / name, d / name)
            srcs.append(d / name)
        hits = forbidden_scan(srcs)
        if hits:
            tie["ok"], tie["error"] = False, "forbidden vernacular: " + "; ".join(hits[:5])
            return tie
        src = re.sub(r"\(\*.*?\*\)", "", srcs[-1].read_text(), flags=re.S)
        thms = re.findall(r"^\s*(?:Theorem|Lemma|Corollary)\s+([A-Za-z0-9_']+)", src, flags=re.M)
        tie["theorems"] = thms
        log = ""
        for f in srcs:
            rc, log = sh(["timeout", "300", "coqc", *COQ_ARGS, "-Q", str(d), "PWGen", str(f)], cwd=d, timeout=400)
            if rc != 0:
                break
        tie["closed"] = log.count("Closed under the global context") if rc == 0 else 0
        if rc != 0 or tie["closed"] < len(thms) or "Axioms:" in log:
            tie["ok"] = False
            tie["error"] = ("the code regenerated from the source is no longer proved equal to the model: "
                            + re.sub(re.escape(str(d)), "<gen>", log[-2500:]))
            tie["generated_text"] = (d / f"{gen}.v").read_text()[-3000:]
        return tie
    finally:
        shutil.rmtree(d, ignore_errors=True)


def coq_build(jobs: int = 8, prop: str | None = None) -> tuple[bool, str]:
    """make the development (incremental, full .vo), or only the theorem file of one property with its
    dependency closure; serialised by a file lock."""
    if prop and (COQ / "Makefile").exists() and (COQ / "_CoqProject").exists():
        # fast path without the lock: nothing to do when the property's theorem file is up to date
        rc, _ = sh(["make", "-q", f"theories/Props/{prop}.vo"], cwd=COQ, timeout=300)
        if rc == 0:
            return True, "up to date"
    with Lock():
        head = (COQ / "_CoqProject.head").read_text()
        files = sorted(str(p.relative_to(COQ)) for p in (COQ / "theories").rglob("*.v"))
        proj = head + "\n".join(files) + "\n"
        pj = COQ / "_CoqProject"
        regen = not pj.exists() or pj.read_text() != proj or not (COQ / "Makefile").exists()
        if regen:
            pj.write_text(proj)
            rc, log = sh(["coq_makefile", "-f", "_CoqProject", "-o", "Makefile"], cwd=COQ)
            if rc != 0:
                return False, log
        target = [f"theories/Props/{prop}.vo"] if prop else []
        rc, log = sh(["timeout", "1500", "make", "-k", f"-j{jobs}", *target], cwd=COQ, timeout=1600)
        return rc == 0, log


def dep_closure(start: Path) -> list[Path]:
    """the .v files Props/<prop>.v depends on inside the development (by its Require lines)"""
    todo, seen = [start], []
    while todo:
        f = todo.pop()
        if f in seen or not f.exists():
            continue
        seen.append(f)
        txt = re.sub(r"\(\*.*?\*\)", "", f.read_text(), flags=re.S)
        for m in re.finditer(r"From\s+PW\s+Require\s+(?:Import|Export)\s+([^.]*)\.", txt):
            for name in m.group(1).split():
                todo.append(COQ / "theories" / (name.replace(".", "/") + ".v"))
        for m in re.finditer(r"Require\s+(?:Import|Export)\s+PW\.([A-Za-z0-9_.]+)", txt):
            todo.append(COQ / "theories" / (m.group(1).replace(".", "/") + ".v"))
    return seen


def forbidden_scan(files=None) -> list[str]:
    hits = []
    for p in (files if files is not None else sorted((COQ / "theories").rglob("*.v"))):
        txt = re.sub(r"\(\*.*?\*\)", "", p.read_text(), flags=re.S)
        depth = 0
        for i, line in enumerate(txt.splitlines(), 1):
            m = FORBIDDEN.search(line)
            if re.match(r"\s*Section\b", line):
                depth += 1
            if re.match(r"\s*End\b", line) and depth > 0:
                depth -= 1
                continue
            if m:
                word = m.group(1)
                if word in ("Variable", "Variables", "Hypothesis") and depth > 0:
                    continue       # Section variables are ordinary universally quantified binders
                hits.append(f"{p.relative_to(COQ)}:{i}: {line.strip()}")
    return hits


def proof_gate(prop: str) -> dict:
    """Compile Props/<prop>.v afresh and read back every `Print Assumptions`."""
    t0 = time.time()
    f = COQ / "theories" / "Props" / f"{prop}.v"
    res = {"file": str(f.relative_to(VERIF)), "ok": False, "theorems": [], "assumptions": {},
           "obligations": 0, "discharged": 0, "error": None}
    if not f.exists():
        res["error"] = "no property file"
        return res
    src = re.sub(r"\(\*.*?\*\)", "", f.read_text(), flags=re.S)
    thms = re.findall(r"^\s*(?:Theorem|Lemma|Corollary)\s+([A-Za-z0-9_']+)", src, flags=re.M)
    res["theorems"] = thms
    res["obligations"] = len(thms)
    hits = forbidden_scan(dep_closure(f))
    if hits:
        res["error"] = "forbidden vernacular: " + "; ".join(hits[:5])
        return res
    with Lock("_" + prop):
        rc, log = sh(["timeout", "600", "coqc", *COQ_ARGS, str(f)], cwd=COQ, timeout=700)
    res["wall_s"] = round(time.time() - t0, 2)
    if rc != 0:
        res["error"] = log[-3000:]
        m = re.search(r'File "([^"]+)", line (\d+)', log)
        res["where"] = m.group(0) if m else None
        return res
    # Print Assumptions output: "Closed under the global context" or "Axioms:\n name : type ..."
    blocks = re.split(r"(?=Closed under the global context|Axioms:)", log)
    closed = log.count("Closed under the global context")
    axioms = re.findall(r"^([A-Za-z0-9_.']+)\s*:", log.split("Axioms:", 1)[1], flags=re.M) if "Axioms:" in log else []
    res["assumptions"] = {"closed": closed, "axioms": sorted(set(axioms))}
    bad = [a for a in axioms if a.split(".")[-1] not in ALLOWED_AXIOMS]
    n_print = len(re.findall(r"Print\s+Assumptions", src))
    if bad:
        res["error"] = f"unaccepted axioms: {bad}"
        return res
    if n_print < len(thms):
        res["error"] = f"{len(thms)} theorems but only {n_print} Print Assumptions"
        return res
    res["discharged"] = len(thms)
    res["ok"] = True
    if prop in GEN_PARTS:
        tie = generated_tie(prop)
        res["generated_tie"] = tie
        if tie["applies"]:
            res["obligations"] += len(tie["theorems"])
            if tie["ok"]:
                res["theorems"] = res["theorems"] + tie["theorems"]
                res["discharged"] += len(tie["theorems"])
                res["assumptions"]["closed"] += tie["closed"]
            else:
                res["ok"], res["file"], res["error"] = False, tie["file"], tie["error"]
    return res


# ---------------------------------------------------------------------------- model runs
def _run_shard(args):
    idx, imports, prelude, pairs, tag = args
    d = BUILD / "cases" / tag
    d.mkdir(parents=True, exist_ok=True)
    name = f"cases_{idx}"
    f = d / f"{name}.v"
    lines = [f"From PW Require Import {imports}.", "Open Scope Z_scope.", prelude,
             "Definition cases : list (obs * obs) := ["]
    lines.append(";\n".join(f"  ({m},\n   {e})" for m, e in pairs))
    lines.append("].")
    lines.append("Definition bad := mismatches 0 cases.")
    lines.append("Eval vm_compute in bad.")
    f.write_text("\n".join(lines) + "\n")
    rc, log = sh(["timeout", "900", "coqc", "-noglob", *COQ_ARGS, "-R", str(d), "Cases_" + tag, str(f)], cwd=d, timeout=1000)
    if rc != 0:
        return idx, None, log[-2000:]
    flat = " ".join(log.split())
    m = re.search(r"= \[(.*?)\]\s*: list nat", flat)
    if not m:
        return idx, None, log[-2000:]
    body = m.group(1).strip()
    bad = [int(x.replace("%nat", "")) for x in body.split(";")] if body else []
    return idx, bad, ""


def model_mismatches(tag: str, imports: str, pairs: list[tuple[str, str]], prelude: str = "",
                     shard: int = 300, jobs: int = 8) -> tuple[list[int], list[str]]:
    """pairs = [(coq term computing the model's obs, coq literal of the implementation's obs)].
    Returns (indices that differ, error logs)."""
    import shutil
    d = BUILD / "cases" / tag
    if d.exists():
        shutil.rmtree(d)
    shards = [(i, imports, prelude, pairs[s:s + shard], tag) for i, s in enumerate(range(0, len(pairs), shard))]
    bad, errs = [], []
    with ThreadPoolExecutor(max_workers=jobs) as ex:
        for idx, b, log in ex.map(_run_shard, shards):
            if b is None:
                errs.append(log)
            else:
                bad.extend(idx * shard + k for k in b)
    return sorted(bad), errs


def model_eval(tag: str, imports: str, term: str, prelude: str = "") -> str:
    """print one model term (used for replay files)"""
    d = BUILD / "cases" / (tag + "_eval")
    d.mkdir(parents=True, exist_ok=True)
    f = d / "one.v"
    f.write_text(f"From PW Require Import {imports}.\nOpen Scope Z_scope.\n{prelude}\nEval vm_compute in ({term}).\n")
    rc, log = sh(["timeout", "300", "coqc", "-noglob", *COQ_ARGS, str(f)], cwd=d, timeout=400)
    flat = " ".join(log.split())
    m = re.search(r"= (.*) : obs", flat)
    return m.group(1) if m else flat[-1500:]


# ---------------------------------------------------------------------------- findings / evidence
def known_findings(prop: str) -> list[dict]:
    entries = []
    p = VERIF / "known_findings.json"
    if p.exists():
        entries += json.loads(p.read_text())["entries"]
    for q in sorted((VERIF / "known_findings.d").glob("*.json")) if (VERIF / "known_findings.d").exists() else []:
        entries += json.loads(q.read_text())["entries"]
    return [e for e in entries if e["property"] == prop]


def write_replay(prop: str, payload: dict) -> str:
    d = OUT / "replays" / prop
    d.mkdir(parents=True, exist_ok=True)
    blob = json.dumps(payload, indent=1, sort_keys=True, default=str)
    h = hashlib.sha1(blob.encode()).hexdigest()[:12]
    p = d / f"{h}.json"
    p.write_text(blob)
    return str(p)


def write_evidence(prop: str, tier: str, seed: int, coverage: dict, assumptions: list[str],
                   wall_s: float, violations: int):
    d = OUT / "evidence"
    d.mkdir(parents=True, exist_ok=True)
    ev = {"property_id": prop, "tier": tier, "seed": seed, "level": "proof", "coverage": coverage,
          "assumptions": assumptions, "wall_s": round(wall_s, 2), "violations": violations}
    (d / f"{prop}.json").write_text(json.dumps(ev, indent=1, default=str) + "\n")


TRUSTED_BASE = [
    "Coq 8.16.1 kernel + vm_compute (no native_compute)",
    "Print Assumptions of every theorem in Props/<id>.v: closed under the global context (no axioms)",
    "correspondence check: python harness (generators, implementation drivers, canonicaliser, oracles) "
    "and coqc evaluation of the same scenarios (Eval vm_compute)",
    "modelled not verified: CPython, pickle/cloudpickle, typeguard, toposort, bidict, concurrent.futures, OS file system",
]
