"""C19 -- a failed or interrupted save never costs the last good save or poisons loading.

Implementation side: REAL nodes (two function-node classes, a Workflow, and two distinct
hand-written Function subclasses that share module and qualified name) are saved into a
fresh temporary directory per case (the process chdir()s into it), with picklable content,
content only cloudpickle can serialise (a lambda) and content neither pickler can serialise
(a threading.Lock).  A crash is injected by running the save in a forked child whose
os.mkdir/open/write/close/os.replace/os.unlink/os.listdir are wrapped: at the chosen
primitive step (for a write: after k of its n bytes) the child dies with os._exit.  The
parent then inspects the directory and loads / auto-loads / deletes.  Every save and delete
also records the sequence of os-level calls it made; the Coq model (Store.v) must predict
that trace, every result, and the state of every file after every operation.
"""
from __future__ import annotations

import builtins
import io
import json
import os
import shutil
import tempfile
import threading
from pathlib import Path

from harness import lib
from harness.lib import cb, cl, cn, cs, cz

PROP = "C19"
IMPORTS = "Base Store"
LABEL = "g"
LOCS = ["default", "rec", "sub", "flat", "dot"]
LOC_DIR = {"default": LABEL, "rec": LABEL, "sub": "sub", "flat": None, "dot": "sub"}
LOC_STEM = {"default": "picklestorage", "rec": "recovery", "sub": "fn", "flat": "fn", "dot": "gn.v2"}
# the file name the user gives and the stem on disk differ when the name contains a dot: the back end forms its
# paths with Path.with_suffix, which REPLACES the last suffix ("gn.v2" -> gn.pckl / gn.cpckl / gn.pckl.tmp ...)
LOC_DISK = dict(LOC_STEM, dot="gn")
DIRS = [LABEL, "sub"]
USER = "user.txt"
USERS = [LABEL, "sub", None]          # directories that may receive a foreign file
NBYTES = 4                            # model-side size of a dump; the cut index 0..3 is symbolic
MAXSTEP = 12                          # a save has at most 11 primitive steps

RULE = ("histories of 1-9 operations over four save locations (default <label>/picklestorage, <label>/recovery as an "
        "absolute Path, 'sub/fn' and the bare 'fn' as strings): saves of picklable / cloudpickle-only / unserialisable "
        "content with and without cloudpickle_fallback, each possibly interrupted at any primitive step (write cut at "
        "0, 1, mid, len-1 bytes), Node.load into nodes of the same or another class (two function-node classes, a hand-written class and its subclass, "
        "Workflow, and two DISTINCT Function subclasses sharing module and qualified name; every ordered pair "
        "saver/loader via explicit name, default name and autoload), the EMPTY graph (a Workflow whose child was "
        "removed: len 0, falsy) as saved state in the model's state 0 of class W, construction with autoload / "
        "delete_existing_savefiles, delete_storage, foreign files; plus the exhaustive family prior-state x content x "
        "every crash point followed by load, autoload and delete.  Non-trivial = contains a failing or interrupted "
        "save, a class-mismatching load or a delete; distinct = distinct op lists")
TRUSTED = ["harness/props/c19.py Tracer: crash injection by os._exit inside wrapped os.mkdir/open/write/close/"
           "os.replace/os.unlink/os.listdir of a forked child; bytes of a dump are handed to the file at close",
           "CPython pickle/cloudpickle: a truncated dump never unpickles to a node"]
ASSUMPTIONS = ["file-system model: each primitive (mkdir, create, rename/os.replace, unlink, rmdir) is atomic, a dying "
               "process leaves exactly the completed primitives plus a prefix of the write in flight; completed "
               "effects are durable (no fsync / power-loss semantics); one directory level; file stems without dots",
               "an interrupted save counts as completed from the step at which load starts returning its content "
               "(the rename, or for a .cpckl shadowed by an older .pckl the unlink of that .pckl)",
               "TypeNotFoundError guard of _save (fallback disabled and a non-importable class) is not exercised; "
               "interrupted deletes are outside the property's quantifier"]


# ---- node definitions (module level: as_function_node reads the source, pickle finds the class) ----
from pyiron_workflow import Workflow, as_function_node  # noqa: E402
from pyiron_workflow.storage import PickleStorage  # noqa: E402


@as_function_node("y")
def C19A(x=0):
    return x


@as_function_node("y")
def C19B(x=0):
    return x


_LAMBDA = lambda: 0   # noqa: E731  -- not picklable by reference (qualname <lambda>); cloudpickle takes it by value


def _make_calc(kind):
    """two calls give two UNRELATED node classes with the same module and the same qualified name
    (`_make_calc.<locals>.Calc`); hand-written Function subclasses, so each one round-trips through
    cloudpickle (by value: plain pickle cannot reach a local class) to exactly itself"""
    from pyiron_workflow.nodes.function import Function
    if kind == "p":

        class Calc(Function):
            @staticmethod
            def node_function(x=0):
                y = x
                return y

    else:

        class Calc(Function):
            @staticmethod
            def node_function(x=0, z=5):
                y = x
                return y

    return Calc


from pyiron_workflow.nodes.function import Function as _Function  # noqa: E402


class CalcE(_Function):
    """hand-written, importable: plain pickle takes it by reference"""
    @staticmethod
    def node_function(x=0):
        y = x
        return y


class CalcD(CalcE):
    """a SUBCLASS of CalcE with one more input: still another class for Node.load, whichever of the two saved"""
    @staticmethod
    def node_function(x=0, shift=7):
        y = x
        return y


CalcP, CalcQ = _make_calc("p"), _make_calc("q")
assert CalcP is not CalcQ and (CalcP.__module__, CalcP.__qualname__) == (CalcQ.__module__, CalcQ.__qualname__)
import cloudpickle as _cloudpickle  # noqa: E402
# give both classes their cloudpickle tracker id NOW, so that a dump made by a forked child and read back
# by this process is recognised as the very same class
_cloudpickle.dumps(CalcP), _cloudpickle.dumps(CalcQ)
CLASSES = {"A": C19A, "B": C19B, "W": Workflow, "P": CalcP, "Q": CalcQ, "E": CalcE, "D": CalcD}
LOCAL = ("P", "Q")    # classes plain pickle cannot serialise: every save of theirs goes to cloudpickle


# ---- tracing / crash injection -------------------------------------------------------------
class _Proxy:
    """stands in for the file object of a write: collects the dump, hands it to the real file at
    close; when armed, hands over only the first k bytes and kills the process"""

    def __init__(self, tr, real, rel):
        self.tr, self.real, self.rel, self.buf, self.cut, self.done = tr, real, rel, bytearray(), None, False
        if tr.crash is not None and tr.count == tr.crash[0]:
            self.cut = tr.crash[1]          # the process dies inside this write
            tr.armed = self
        else:
            tr.count += 1
            tr.emit(("write", rel))

    def write(self, b):
        self.buf += bytes(b)
        return len(b)

    def die(self):
        n = len(self.buf)
        k = [0, min(1, max(n - 1, 0)), n // 2, max(n - 1, 0)][self.cut]
        self.real.write(bytes(self.buf[:k]))
        self.real.flush()
        os._exit(0)

    def _finish(self):
        if self.done:
            return
        if self.cut is not None:
            self.die()
        self.real.write(bytes(self.buf))
        self.real.flush()
        self.done = True
        self.tr.step(("close", self.rel))

    def close(self):
        self._finish()
        return self.real.close()

    def __enter__(self):
        return self

    def __exit__(self, *a):
        self._finish()
        return self.real.__exit__(*a)

    def __getattr__(self, name):
        return getattr(self.real, name)


class Tracer:
    """records the os-level calls made below `root`; with crash=(i, cut) the process dies when
    primitive step i is about to start (a write: after the cut-th sample of its bytes)"""
    NAMES = ["mkdir", "unlink", "remove", "replace", "rename", "rmdir", "listdir", "scandir"]

    def __init__(self, root, crash=None, sink=None):
        self.root = os.path.realpath(root)
        self.crash, self.sink = crash, sink
        self.events, self.count, self.armed = [], 0, None

    def rel(self, p):
        if isinstance(p, int):
            return None
        try:
            ap = os.path.abspath(os.fspath(p))
        except TypeError:
            return None
        if ap == self.root:
            return "."
        if ap.startswith(self.root + os.sep):
            return os.path.relpath(ap, self.root)
        return None

    def emit(self, e):
        self.events.append(list(e))
        if self.sink is not None:
            os.write(self.sink, (json.dumps(list(e)) + "\n").encode())

    def step(self, s):
        if self.crash is not None and self.count == self.crash[0]:
            if self.armed is not None:
                self.armed.die()
            os._exit(0)
        self.count += 1
        self.emit(s)

    def __enter__(self):
        o = self.orig = {n: getattr(os, n) for n in self.NAMES}
        self.orig_open, self.orig_ioopen = builtins.open, io.open
        tr = self

        def one(name, verb):
            def f(p, *a, **k):
                r = tr.rel(p)
                if r is not None:
                    tr.step((verb, r))
                return o[name](p, *a, **k)
            return f

        def two(name):
            def f(a, b, *x, **k):
                ra, rb = tr.rel(a), tr.rel(b)
                if ra is not None or rb is not None:
                    tr.step(("rename", ra, rb))
                return o[name](a, b, *x, **k)
            return f

        def rmdir(p, *a, **k):
            r = tr.rel(p)
            if r is not None:
                tr.emit(("rmdir", r))       # same primitive step as the scan that found it empty
            return o["rmdir"](p, *a, **k)

        def scan(name):
            def f(p=".", *a, **k):
                r = tr.rel(p)
                if r is not None:
                    tr.step(("scan", r))
                return o[name](p, *a, **k)
            return f

        def opn(file, mode="r", *a, **k):
            r = tr.rel(file)
            if r is None or not any(c in mode for c in "wax+"):
                return tr.orig_open(file, mode, *a, **k)
            tr.step(("create", r))
            return _Proxy(tr, tr.orig_open(file, mode, *a, **k), r)

        os.mkdir = one("mkdir", "mkdir")
        os.unlink = one("unlink", "unlink")
        os.remove = one("remove", "unlink")
        os.replace, os.rename = two("replace"), two("rename")
        os.rmdir = rmdir
        os.listdir, os.scandir = scan("listdir"), scan("scandir")
        builtins.open = io.open = opn
        return self

    def __exit__(self, *a):
        for n, f in self.orig.items():
            setattr(os, n, f)
        builtins.open, io.open = self.orig_open, self.orig_ioopen
        return False


# ---- implementation driver ---------------------------------------------------------------------
def _value(kind, v):
    return v if kind == "ok" else [v, _LAMBDA] if kind == "cloud" else [v, threading.Lock()]


def _make(cls, v=0, kind="ok"):
    if cls == "W":
        wf = Workflow(LABEL, autoload=None)
        wf.a = C19A(x=_value(kind, v))
        if v == 0 and kind == "ok":
            # state 0 of a Workflow = the EMPTY graph (populated, then emptied again): a legal composite
            # whose len() is 0, i.e. an object that is falsy
            wf.remove_child("a")
            assert len(wf) == 0
        return wf
    return CLASSES[cls](label=LABEL, x=_value(kind, v), autoload=None)


def _cname(inst):
    t = type(inst)
    if t is CalcP:
        return "P"
    if t is CalcQ:
        return "Q"
    return {"C19A": "A", "C19B": "B", "Workflow": "W", "CalcE": "E", "CalcD": "D"}.get(t.__name__, t.__name__)


def _state(inst):
    """the state a node carries, as an int (0 = a fresh node)"""
    try:
        return _state_(inst)
    except Exception as e:          # a node left half-adopted by a refused load
        return "broken:" + type(e).__name__


def _state_(inst):
    if _cname(inst) == "W":
        if "a" not in inst.children:
            return 0
        x = inst.children["a"].inputs.x.value
    else:
        x = inst.inputs.x.value
    if isinstance(x, list):
        x = x[0]
    return x if isinstance(x, int) and not isinstance(x, bool) else 0


def _fname(loc, root):
    if loc == "default":
        return None
    if loc == "rec":
        return Path(root) / LABEL / "recovery"      # an absolute Path, like the recovery file
    return {"sub": "sub/fn", "flat": "fn", "dot": "sub/gn.v2"}[loc]


def _exc(e):
    if isinstance(e, FileNotFoundError):
        return "FileNotFoundError"
    if isinstance(e, OSError):
        return "OSError"
    if isinstance(e, TypeError):
        return "TypeError"
    return "Corrupt"


def _status(p):
    import cloudpickle
    if not os.path.lexists(p):
        return 0
    try:
        with open(p, "rb") as f:
            inst = cloudpickle.load(f)
        return [_cname(inst), _state(inst)]
    except Exception:
        return "partial"


def _universe(case):
    """the part of the directory tree this history can touch: (locations, sub-directories, directories whose
    foreign file is watched), each in the fixed order of LOCS / DIRS / USERS"""
    used, touched = set(), set()
    for op in case["ops"]:
        if op[0] in ("save", "load", "delete"):
            used.add(op[1])
        elif op[0] == "ctor":
            used.add("default")
        elif op[0] == "touch":
            touched.add(op[1])
    locs = [l for l in LOCS if l in used]
    dd = {LOC_DIR[l] for l in locs} | touched
    return locs, [d for d in DIRS if d in dd], [d for d in USERS if d in dd]


VERBS = {"mkdir": 1, "create": 2, "write": 3, "close": 4, "rename": 5, "unlink": 6, "scan": 7, "rmdir": 8}
SUFFIXES = (".pckl", ".cpckl", ".pckl.tmp", ".cpckl.tmp")


def _codes(uni):
    """relative path -> number, as Store.pcode / Store.dcode count them"""
    locs, dirs_, _ = uni
    files, dirs = {}, {".": 1}
    for i, d in enumerate(dirs_):
        dirs[d] = 2 + i
    for i, loc in enumerate(locs):
        for j, suffix in enumerate(SUFFIXES):
            d = LOC_DIR[loc]
            files[(d + "/" if d else "") + LOC_DISK[loc] + suffix] = 10 * (i + 1) + j
    return files, dirs


def _encode(trace, uni):
    """events as numbers verb*10000 + a*100 + b; anything outside the universe stays readable"""
    files, dirs = _codes(uni)
    out = []
    for e in trace:
        verb, args = e[0], e[1:]
        table = dirs if verb in ("mkdir", "scan", "rmdir") else files
        if all(a in table for a in args):
            out.append(VERBS[verb] * 10000 + table[args[0]] * 100 + (table[args[1]] if len(args) > 1 else 0))
        else:
            out.append(" ".join(str(x) for x in e))
    return out


def decode(code, uni):
    """inverse of _encode, for reading replay files"""
    if not isinstance(code, int):
        return code
    files, dirs = _codes(uni)
    verb = {v: k for k, v in VERBS.items()}[code // 10000]
    table = dirs if verb in ("mkdir", "scan", "rmdir") else files
    inv = {v: k for k, v in table.items()}
    a, b = (code // 100) % 100, code % 100
    return " ".join([verb, inv.get(a, "?")] + ([inv.get(b, "?")] if b else []))


def _snapshot(root, uni):
    root = Path(root)
    locs, dirs_, users_ = uni
    known_paths, per_loc = set(), []
    for loc in locs:
        d = root / LOC_DIR[loc] if LOC_DIR[loc] else root
        stem = LOC_STEM[loc]
        row = []
        for suffix in (".pckl", ".cpckl", ".pckl.tmp", ".cpckl.tmp"):
            p = d / (LOC_DISK[loc] + suffix)
            known_paths.add(str(p))
            row.append(_status(p))
        be = PickleStorage()
        row.append(bool(be.has_saved_content(filename=d / stem)))
        try:
            inst = be.load(filename=d / stem)
            row.append([_cname(inst), _state(inst)])
        except FileNotFoundError:
            row.append("FileNotFoundError")
        except Exception:
            row.append("Corrupt")
        per_loc.append(row)
    dirs = [(root / d).is_dir() for d in dirs_]
    users = []
    for d in users_:
        p = (root / d if d else root) / USER
        known_paths.add(str(p))
        users.append(p.exists())
    known_paths.update(str(root / d) for d in dirs_)
    extras = sorted(str(p.relative_to(root)) for p in root.rglob("*") if str(p) not in known_paths)
    snap = [per_loc, dirs, users]
    if extras:
        snap.append(extras)
    return snap


def _crashed_save(node, fn, kw, root, crash):
    r, w = os.pipe()
    pid = os.fork()
    if pid == 0:
        code = 9
        try:
            os.close(r)
            with Tracer(root, crash=tuple(crash), sink=w):
                try:
                    node.save(filename=fn, **kw)
                    code = 7
                except OSError:
                    code = 8
                except Exception:
                    code = 6
        finally:
            os._exit(code)
    os.close(w)
    chunks = []
    while True:
        b = os.read(r, 65536)
        if not b:
            break
        chunks.append(b)
    os.close(r)
    _, status = os.waitpid(pid, 0)
    code = os.waitstatus_to_exitcode(status)
    res = {0: "crashed", 7: "ok", 8: "OSError", 6: "SaveError"}.get(code, f"child-exit-{code}")
    return res, [json.loads(x) for x in b"".join(chunks).decode().split("\n")[:-1]]


def run_impl(case):
    root = tempfile.mkdtemp(prefix="c19_")
    old = os.getcwd()
    os.chdir(root)
    out = []
    uni = _universe(case)
    try:
        for op in case["ops"]:
            k = op[0]
            if k == "save":
                _, loc, cls, v, kind, fb, crash = op
                node = _make(cls, v, kind)
                kw = {} if fb else {"cloudpickle_fallback": False}
                fn = _fname(loc, root)
                if crash is not None:
                    res, trace = _crashed_save(node, fn, kw, root, crash)
                else:
                    with Tracer(root) as tr:
                        try:
                            node.save(filename=fn, **kw)
                            res = "ok"
                        except OSError:
                            res = "OSError"
                        except Exception:
                            res = "SaveError"
                    trace = tr.events
                out.append(["save", res, _encode(trace, uni), _snapshot(root, uni)])
            elif k == "load":
                _, loc, cls, w = op
                node = _make(cls, w)
                try:
                    node.load(filename=_fname(loc, root))
                    res = "ok"
                except Exception as e:
                    res = _exc(e)
                out.append(["load", res, [_cname(node), _state(node)], _snapshot(root, uni)])
            elif k == "ctor":
                _, cls, dele, auto = op
                kw = dict(delete_existing_savefiles=bool(dele), autoload="pickle" if auto else None)
                node = None
                with Tracer(root) as tr:
                    try:
                        node = Workflow(LABEL, **kw) if cls == "W" else CLASSES[cls](label=LABEL, **kw)
                        res = "ok"
                    except Exception as e:
                        res = _exc(e)
                st = [_cname(node), _state(node)] if node is not None else [cls, 0]
                out.append(["ctor", res, st, _encode(tr.events, uni), _snapshot(root, uni)])
            elif k == "delete":
                node = _make("A")
                with Tracer(root) as tr:
                    try:
                        node.delete_storage(filename=_fname(op[1], root))
                        res = "ok"
                    except Exception as e:
                        res = _exc(e)
                out.append(["delete", res, _encode(tr.events, uni), _snapshot(root, uni)])
            elif k == "touch":
                d = Path(root) / op[1] if op[1] else Path(root)
                d.mkdir(exist_ok=True)
                (d / USER).write_text("mine")
                out.append(["touch", _snapshot(root, uni)])
            else:
                raise ValueError(op)
    finally:
        os.chdir(old)
        shutil.rmtree(root, ignore_errors=True)
    prev = []                                   # an unchanged snapshot is printed as "="
    for o in out:
        snap = o[-1]
        if _norm(snap) == prev:
            o[-1] = "="
        prev = _norm(snap)
    return out


def _norm(x):
    if isinstance(x, bool):
        return int(x)
    if isinstance(x, list):
        return [_norm(e) for e in x]
    return x


def _expand(obs):
    """undo the "=" compression"""
    out, prev = [], None
    for o in obs:
        o = list(o)
        if o[-1] == "=":
            o[-1] = prev
        prev = o[-1]
        out.append(o)
    return out


# ---- the model's term -----------------------------------------------------------------------------
def _cdir(d):
    return "None" if d is None else f"(Some {cs(d)})"


def _cloc(loc):
    return f"({_cdir(LOC_DIR[loc])}, {cs(LOC_STEM[loc])})"


def _ccls(c):
    return {"A": "CA", "B": "CB", "W": "CW", "P": "CP", "Q": "CQ", "E": "CE", "D": "CD"}[c]


def _ekind(cls, kind):
    """what the picklers can do with the node as a whole: a node of a local class is out of reach of plain
    pickle whatever its content"""
    return "cloud" if (cls in LOCAL and kind == "ok") else kind


def op_coq(op):
    k = op[0]
    if k == "save":
        _, loc, cls, v, kind, fb, crash = op
        cr = "None" if crash is None else f"(Some ({cn(crash[0])}, {cn(crash[1])}))"
        kk = {"ok": "KOk", "cloud": "KCloud", "bad": "KBad"}[_ekind(cls, kind)]
        return f"OSave {_cloc(loc)} {cb(fb)} {_ccls(cls)} {cz(v)} {kk} {cn(NBYTES)} {cn(NBYTES)} {cr}"
    if k == "load":
        return f"OLoad {_cloc(op[1])} {_ccls(op[2])} {cz(op[3])}"
    if k == "ctor":
        return f"OCtor {cs(LABEL)} {_ccls(op[1])} {cb(op[2])} {cb(op[3])}"
    if k == "delete":
        return f"ODelete {_cloc(op[1])}"
    if k == "touch":
        return f"OTouch {_cdir(op[1])} {cs(USER)}"
    raise ValueError(op)


def model_term(case):
    locs, dirs_, users_ = _universe(_tolist(case))
    return ("obs_run " + cl(_cloc(l) for l in locs) + " " + cl(cs(d) for d in dirs_) + " "
            + cl(f"({_cdir(d)}, NUser {cs(USER)})" for d in users_) + " " + cl(op_coq(o) for o in case["ops"]))


# ---- generators --------------------------------------------------------------------------------------
def _tolist(x):
    return [_tolist(e) for e in x] if isinstance(x, (list, tuple)) else x


def _rand_save(rng, loc, v, crash_p=0.45):
    kind = rng.choice(["ok", "ok", "ok", "cloud", "cloud", "bad", "bad"])
    fb = rng.random() < 0.85
    crash = None
    if rng.random() < crash_p:
        crash = [rng.randrange(0, MAXSTEP), rng.randrange(0, 4)]
    cls = rng.choice(["A", "A", "A", "B", "W", "P", "Q", "E", "D"])
    if cls in LOCAL:
        fb = True     # without the fallback _save refuses a non-importable class up front (TypeNotFoundError): not modelled
    return ["save", loc, cls, v, kind, fb, crash]


def _rand_case(rng):
    locs = rng.choice([["default"], ["default"], ["default", "rec"], ["sub"], ["flat"], ["default", "flat"],
                       ["rec"], ["sub", "flat"], ["dot"], ["dot", "sub"], LOCS])
    n = rng.choice([2, 3, 4, 5, 6, 7, 8, 9])
    ops, v = [], 0
    last_cls = {}
    for _ in range(n):
        loc = rng.choice(locs)
        r = rng.random()
        if r < 0.48 or not ops:
            v += 1
            op = _rand_save(rng, loc, v)
            if loc in last_cls and rng.random() < 0.7:
                op[2] = last_cls[loc]           # mostly the same graph saved again
            if op[2] in LOCAL:
                op[5] = True
            if op[2] == "W" and op[4] == "ok" and rng.random() < 0.35:
                op[3] = 0                       # the emptied graph
            last_cls[loc] = op[2]
            ops.append(op)
        elif r < 0.66:
            cls = last_cls.get(loc, "A") if rng.random() < 0.6 else rng.choice(["A", "B", "W", "P", "Q", "E", "D"])
            ops.append(["load", loc, cls, 100 + v])
        elif r < 0.78:
            cls = last_cls.get("default", "A") if rng.random() < 0.65 else rng.choice(["A", "B", "W", "P", "Q", "E", "D"])
            ops.append(["ctor", cls, rng.random() < 0.25, rng.random() < 0.85])
        elif r < 0.93:
            ops.append(["delete", loc])
        else:
            ops.append(["touch", LOC_DIR[loc]])
    return {"ops": ops}


def _family(locs):
    """prior state x content x EVERY crash point (write steps at the four byte cuts), followed by
    load, construction with autoload, delete"""
    out = []
    priors = {"none": [], "pckl": [["ok"]], "cpckl": [["cloud"]], "both": [["ok"], ["cloud", [9, 0]]]}
    write_steps = {("ok", True): [2], ("ok", False): [2], ("cloud", True): [2, 6], ("cloud", False): [2],
                   ("bad", True): [2, 6], ("bad", False): [2]}
    nsteps = {("ok", True): 7, ("ok", False): 6, ("cloud", True): 11, ("cloud", False): 6,
              ("bad", True): 10, ("bad", False): 6}
    for loc in locs:
        for pname, prior in priors.items():
            for kind in ("ok", "cloud", "bad"):
                for fb in (True, False):
                    crashes = [None]
                    for i in range(nsteps[(kind, fb)]):
                        cuts = [0, 1, 2, 3] if i in write_steps[(kind, fb)] else [0]
                        crashes += [[i, c] for c in cuts]
                    for cr in crashes:
                        ops = [["save", loc, "A", 1 + j, p[0], True, p[1] if len(p) > 1 else None]
                               for j, p in enumerate(prior)]
                        ops.append(["save", loc, "A", 5, kind, fb, cr])
                        ops.append(["load", loc, "A", 50])
                        if loc == "default":
                            ops.append(["ctor", "A", False, True])
                        ops.append(["delete", loc])
                        out.append({"ops": ops})
    return out


def _class_family():
    """every ordered pair (class that saved, class that loads) -- including the two distinct classes that share
    module and qualified name -- through an explicit file name, the shared default file name, and autoload"""
    out = []
    names = ["A", "B", "W", "P", "Q", "E", "D"]
    for i, a in enumerate(names):
        for b in names:
            v = 3 + i
            out.append({"ops": [["save", "sub", a, v, "ok", True, None], ["load", "sub", b, 60]]})
            out.append({"ops": [["save", "default", a, v, "ok", True, None], ["load", "default", b, 60],
                                ["ctor", b, False, True]]})
    return out


def _empty_family():
    """a composite with ZERO children (a falsy object) as the saved state: over nothing / a populated graph / a
    node of another class, completed or interrupted, read back through load(), load(filename=...), autoload"""
    out = []
    for loc in ("default", "sub", "rec"):
        auto = [["ctor", "W", False, True]] if loc == "default" else []
        for prior in ([], [["save", loc, "W", 2, "ok", True, None]], [["save", loc, "A", 2, "ok", True, None]],
                      [["save", loc, "W", 2, "cloud", True, None]]):
            for fb in (True, False):
                out.append({"ops": prior + [["save", loc, "W", 0, "ok", fb, None], ["load", loc, "W", 60]] + auto
                            + [["load", loc, "A", 60], ["delete", loc]]})
        # the empty graph is the last good save while a later save dies / fails ...
        for later in (["save", loc, "W", 3, "ok", True, [2, 1]], ["save", loc, "W", 3, "bad", True, None],
                      ["save", loc, "W", 3, "cloud", True, [9, 0]]):
            out.append({"ops": [["save", loc, "W", 0, "ok", True, None], later, ["load", loc, "W", 60]] + auto})
        # ... or is itself cut before / after its commit step
        for i in (2, 4, 5, 6):
            out.append({"ops": [["save", loc, "W", 3, "ok", True, None], ["save", loc, "W", 0, "ok", True, [i, 2]],
                                ["load", loc, "W", 60]] + auto})
    return out


def generate(ctx):
    rng = ctx.rng
    fam = _family(["default"] if ctx.quick else LOCS)
    if ctx.quick:
        fam = fam + rng.sample(_family(["flat", "rec", "sub"]), 120)
    cases, seen = [], set()
    for c in _class_family() + _empty_family() + fam:
        k = json.dumps(c, sort_keys=True)
        if k not in seen:
            seen.add(k)
            cases.append(c)
    target = len(cases) + ctx.n(480, 6000)
    while len(cases) < target:
        c = _rand_case(rng)
        k = json.dumps(c, sort_keys=True)
        if k in seen:
            continue
        seen.add(k)
        cases.append(c)
    return cases


def corpus(ctx):
    out = []
    for p in sorted((lib.VERIF / "corpus" / PROP).glob("*.json")):
        out.extend(json.loads(p.read_text()))
    return out


# ---- the property, on the implementation's observation ----------------------------------------------
def _want(e):
    return "FileNotFoundError" if e is None else [e[0], e[1]]


def _judge(case, obs):
    """all violations of the property text in this history: [(signature, message, op index, finding id or None)]"""
    case = _tolist(case)
    bad = []
    if (not isinstance(obs, list) or len(obs) != len(case["ops"]) or (obs and obs[0] == "HARNESS-EXC")
            or not all(isinstance(o, list) and o and o[0] == op[0] for o, op in zip(obs, case["ops"]))):
        return [("driver", f"driver: observation does not match the op list: {str(obs)[:200]}", 0, None)]
    uni = _universe(case)
    locs = uni[0]
    obs = _expand(obs)
    exp = {loc: None for loc in locs}            # per location: (class, state) of the last completed save
    prev_snap = None
    for idx, (op, o) in enumerate(zip(case["ops"], obs)):
        k, snap = op[0], o[-1]
        rows = dict(zip(locs, snap[0]))
        where = f"op {idx} {json.dumps(op)}"
        if len(snap) > 3:
            bad.append(("stray-file", f"stray-file: {where} left unexpected files {snap[3]}", idx, None))
        if k == "save":
            _, loc, cls, v, kind, fb, crash = op
            res = o[1]
            serial = _ekind(cls, kind) == "ok" or (_ekind(cls, kind) == "cloud" and fb)
            got = rows[loc][5]
            if res == "crashed":
                allowed = [_want(exp[loc])] + ([[cls, v]] if serial else [])
                if got not in allowed:
                    bad.append(("interrupted-save", f"interrupted-save: {where}: after the interruption load gives "
                                f"{got}, the last good save was {_want(exp[loc])}", idx, None))
                if got == [cls, v] and serial:
                    exp[loc] = (cls, v)
            elif res == "ok":
                if not serial:
                    bad.append(("save-result", f"save-result: {where} reported success for unserialisable content", idx, None))
                exp[loc] = (cls, v)
                if got != [cls, v]:
                    bad.append(("success-not-visible", f"success-not-visible: {where} succeeded but load gives {got}", idx, None))
            elif res in ("SaveError", "OSError"):
                if serial:
                    bad.append(("save-result", f"save-result: {where} raised {res} for serialisable content", idx, None))
                if got != _want(exp[loc]):
                    bad.append(("failed-save", f"failed-save: {where}: after the failed save load gives {got}, "
                                f"the last good save was {_want(exp[loc])}", idx, None))
            else:
                bad.append(("driver", f"driver: {where} child ended with {res}", idx, None))
        elif k in ("load", "ctor"):
            if k == "load":
                _, loc, cls, w = op
            else:
                _, cls, dele, auto = op
                loc, w = "default", 0
                if dele:
                    bad += _judge_delete(uni, loc, rows, snap, prev_snap, "ok" if o[1] != "OSError" else "OSError", where, idx)
                    exp[loc] = None
            res, st = o[1], o[2]
            e = exp[loc] if (k == "load" or auto) else None
            if e is None:
                want_res = "FileNotFoundError" if k == "load" else "ok"
                want_st = [cls, w]
            elif e[0] == cls:
                want_res, want_st = "ok", [cls, e[1]]
            else:
                want_res, want_st = "TypeError", [cls, w]
            if res != want_res or st != want_st:
                sig = "class-check" if (e is not None and e[0] != cls) else "load-result"
                bad.append((sig, f"{sig}: {where}: got {res} and node {st}, the last good save is {_want(e)} "
                            f"so {want_res} and node {want_st} was due", idx, None))
        elif k == "delete":
            loc = op[1]
            bad += _judge_delete(uni, loc, rows, snap, prev_snap, o[1], where, idx)
            exp[loc] = None
        # in every state: nothing partial where load looks, has_saved_content and load agree with the
        # last completed save, every other location untouched
        for loc in locs:
            r = rows[loc]
            if "partial" in (r[0], r[1]):
                bad.append(("partial-final", f"partial-final: {where} leaves a partial file under a name load reads "
                            f"at {loc}", idx, None))
            if r[5] != _want(exp[loc]) and not (k == "save" and op[1] == loc):
                bad.append(("load-state", f"load-state: after {where} load at {loc} gives {r[5]}, last good save "
                            f"{_want(exp[loc])}", idx, None))
            if bool(r[4]) != (exp[loc] is not None) and r[5] == _want(exp[loc]):
                bad.append(("has-saved", f"has-saved: after {where} has_saved_content at {loc} is {r[4]} but load "
                            f"gives {r[5]}", idx, None))
        prev_snap = snap
    return bad


def _dir_files(uni, snap, d):
    """what the snapshot shows inside directory d: [(loc, suffix index)] + foreign file"""
    rows = dict(zip(uni[0], snap[0]))
    found = [(loc, j) for loc in uni[0] if LOC_DIR[loc] == d for j in range(4) if rows[loc][j] != 0]
    user = snap[2][uni[2].index(d)]
    return found, user


def _judge_delete(uni, loc, rows, snap, prev_snap, res, where, idx):
    bad = []
    d = LOC_DIR[loc]
    left = [j for j in range(4) if rows[loc][j] != 0]
    found, user = _dir_files(uni, snap, d)
    if res != "ok":
        bad.append(("delete-raised", f"delete-raised: {where} raised {res}", idx, None))
    if left:
        bad.append(("delete-leaves-files", f"delete-leaves-files: {where} leaves "
                    f"{[['.pckl', '.cpckl', '.pckl.tmp', '.cpckl.tmp'][j] for j in left]} of {loc} behind", idx, None))
    if d is not None and not found and not user and snap[1][uni[1].index(d)]:
        bad.append(("delete-leaves-empty-dir", f"delete-leaves-empty-dir: {where} leaves the emptied directory {d}", idx, None))
    return bad


def oracle(case, obs):
    bad = _judge(case, obs)
    if not bad:
        return None
    fresh = [b for b in bad if b[3] is None]      # a violation no recorded finding explains comes first
    return (fresh or bad)[0][1]


def known(case, obs, verdict):
    return None        # no open finding: S16, S24, S25 are fixed in /repo (their witnesses live in corpus/C19)


def nontrivial(case, obs):
    saved = {}
    for op in case["ops"]:
        if op[0] == "save":
            saved[op[1]] = op[2]
        if op[0] == "load" and saved.get(op[1], op[2]) != op[2]:
            return True
        if op[0] == "ctor" and saved.get("default", op[1]) != op[1]:
            return True
    for op in case["ops"]:
        if op[0] == "save" and (op[6] is not None or op[4] == "bad" or (_ekind(op[2], op[4]) == "cloud" and not op[5])):
            return True
        if op[0] == "delete":
            return True
    return False


def key(case):
    return case["ops"]


def shrink_candidates(case):
    ops = _tolist(case["ops"])
    for i in range(len(ops)):
        yield {"ops": ops[:i] + ops[i + 1:]}
    for i, op in enumerate(ops):
        if op[0] == "save" and op[2] in LOCAL:
            continue      # a local class cannot be swapped for A without changing what the picklers can do
        if op[0] == "save":
            if op[6] is not None:
                yield {"ops": ops[:i] + [op[:6] + [None]] + ops[i + 1:]}
                if op[6][1] != 0:
                    yield {"ops": ops[:i] + [op[:6] + [[op[6][0], 0]]] + ops[i + 1:]}
            if op[2] != "A":
                yield {"ops": ops[:i] + [op[:2] + ["A"] + op[3:]] + ops[i + 1:]}
            if not op[5]:
                yield {"ops": ops[:i] + [op[:5] + [True] + op[6:]] + ops[i + 1:]}


def distribution(results):
    d = {"ops": {}, "save_results": {}, "crash_step": {}, "content": {}, "loads": {}, "locations": {}}
    for c, enc, v, o in results:
        if not isinstance(o, list) or len(o) != len(c["ops"]):
            continue
        for op, ob in zip(c["ops"], o):
            d["ops"][op[0]] = d["ops"].get(op[0], 0) + 1
            if op[0] == "save":
                d["save_results"][ob[1]] = d["save_results"].get(ob[1], 0) + 1
                d["content"][op[4]] = d["content"].get(op[4], 0) + 1
                d["locations"][op[1]] = d["locations"].get(op[1], 0) + 1
                if op[6] is not None:
                    s = str(op[6][0])
                    d["crash_step"][s] = d["crash_step"].get(s, 0) + 1
            elif op[0] in ("load", "ctor"):
                d["loads"][ob[1]] = d["loads"].get(ob[1], 0) + 1
    return d
