"""C18 -- operators on outputs mean what they mean in Python; no duplicates, no mix-ups.

A case is a small graph of user nodes (UserInput / a two-output function node), inside a
Workflow or parentless, already run or not, plus a short PROGRAM of written operations
(`x + 1`, `x[a:b]`, `x.real`, `(x < y).bool()` ... in A-normal form: later steps may use the
node an earlier step returned).  run_impl writes every operation on the REAL objects
(operator syntax, explicit dunder call or reflected spelling), and observes per step: the
class of the injected node, which earlier step first returned the same object, the pre-hash
nominal labels the library computed, the child count of the parent, the input wiring of the
node and the result (or exception) of `.pull()`.  model_term evaluates coq/theories/Inject.v
on the same program, with CPython's operators handed over as a finite table computed by the
real interpreter.  The oracle evaluates the program with plain Python operators on the
underlying values and checks value/exception, reuse, distinctness and child counts directly
on the implementation's observation (never looking at the model).
"""
from __future__ import annotations

import builtins
import itertools
import json
import operator
import os
import re
import shutil
import tempfile

from harness import lib
from harness.lib import cb, cl, cn, cs

from pyiron_workflow.nodes.function import as_function_node
from pyiron_workflow.nodes.macro import as_macro_node
from pyiron_workflow.nodes.standard import UserInput as _UserInput

PROP = "C18"
IMPORTS = "Base Inject"
RULE = ("1-3 user nodes (UserInput / two-output function node / single-output MACRO node (a composite); values from a pool of None, bools, ints, floats, "
        "strings, lists, tuples, sets, dicts, slices; already run or not), inside a Workflow (75%) or parentless, "
        "and a program of 2-8 written operations over all 30 entry points + channel-containing slices + "
        "unsupported reflected operators: receivers are channels, single-output nodes, the two-output node "
        "(ambiguous) or nodes returned by earlier steps; operands are raw pool values, channels, nodes or earlier "
        "results; ~20% of the steps repeat an earlier step (other spelling), ~20% are near-identical variants "
        "(1 vs '1' vs True vs 1.0, -1 vs -2 and -1.0 vs -2.0 (equal hash()), None vs 'None', a channel vs the string spelling its scoped label, swapped "
        "operands, other receiver); plus a family of identifier labels that make the '_'-join of the label ambiguous; "
        "each returned node is pulled with p=0.6; when the node's own run raises, its failed flag is cleared and it "
        "is pulled again (0-2 times) and must raise the same again. Macro family: the same programs written inside a generated macro "
        "definition (inputs = macro parameters), every binary entry point as x <op> x, slices with one bound used "
        "twice (x[i:i], x[i::i], x[:i:i], x[i:i:i]) and random programs biased to one input feeding both operands of "
        "one operator node; the macro is run and its output compared with python. Non-trivial = at least one node was "
        "injected; distinct = distinct (graph, program)")
TRUSTED = ["CPython's operators, repr()/str() and slice() enter the model as a finite table computed by the real interpreter "
           "on the values a case can reach (Inject.tbl_pyop / tbl_str); a missing row can only produce a disagreement",
           "the library's `hash` is observed by shadowing the name `hash` in pyiron_workflow.mixin.injection with a "
           "recording wrapper around the builtin; nominal labels are compared after substituting, inside them, every "
           "hashed label by its own pre-hash text (the model's hash is the identity)",
           "a scenario ends at the first pull() that raises (which upstream nodes ran before the failure depends on "
           "label order of hashed labels, which the model does not predict)"]
ASSUMPTIONS = ["hash of the nominal label is injective (Section hypothesis hash_inj)",
               "user node labels do not collide with injected labels; user nodes are plain function nodes with at "
               "least one value-holding input, without executors; raw operands are never NOT_DATA; values of user "
               "nodes do not change during a scenario",
               "Node.pull of an injected node = run the upstream closure (through parent.run() inside a Workflow, "
               "whose own input cache run_data_tree empties afterwards), then the "
               "node itself; pull as such is property C11's subject, the composite cache C05's (run_data_tree leaves "
               "the parent's cache empty, so every pull re-executes its upstream closure)"]


# ---- harness node classes (module level: the library reads their source) --------------------
@as_function_node("p", "q")
def Two18(a, b):
    return a, b


@as_macro_node("out")
def Mac18(self, a):
    """a single-output COMPOSITE node: its output is its input"""
    self.inner = _UserInput(a)
    return self.inner


# ---- values ----------------------------------------------------------------------------------
# V ::= ["none"] ["bool",b] ["int",z] ["float","1.5"] ["str",s] ["list",[V]] ["tuple",[V]] ["set",[V]]
#       ["dict",[[V,V]]] ["slice",V,V,V]
def build_val(v):
    k = v[0]
    if k == "none":
        return None
    if k in ("bool", "int", "str"):
        return v[1]
    if k == "float":
        return float(v[1])
    if k == "list":
        return [build_val(x) for x in v[1]]
    if k == "tuple":
        return tuple(build_val(x) for x in v[1])
    if k == "set":
        return {build_val(x) for x in v[1]}
    if k == "dict":
        return {build_val(a): build_val(b) for a, b in v[1]}
    if k == "slice":
        return slice(build_val(v[1]), build_val(v[2]), build_val(v[3]))
    raise ValueError(v)


def crepr(v):
    if isinstance(v, (set, frozenset)):
        inner = ", ".join(sorted(crepr(e) for e in v))
        body = "{" + inner + "}" if v else "set()"
        return body if isinstance(v, set) else f"frozenset({body})"
    if isinstance(v, list):
        return "[" + ", ".join(crepr(e) for e in v) + "]"
    if isinstance(v, tuple):
        return "(" + ", ".join(crepr(e) for e in v) + ("," if len(v) == 1 else "") + ")"
    if isinstance(v, dict):
        return "{" + ", ".join(f"{crepr(a)}: {crepr(b)}" for a, b in v.items()) + "}"
    if isinstance(v, slice):
        return f"slice({crepr(v.start)}, {crepr(v.stop)}, {crepr(v.step)})"
    r = repr(v)
    r = re.sub(r" at 0x[0-9a-f]+", "", r)
    return r


def enc(v):
    """canonical, type-tagged text of a python value (what both sides print)"""
    s = f"{type(v).__name__}:{crepr(v)}"
    if len(s) > 300:
        s = s[:300] + "..."
    return "".join(c if 32 <= ord(c) < 127 else "?" for c in s)


N_, T_, F_ = ["none"], ["bool", True], ["bool", False]
I = lambda z: ["int", z]
S = lambda s: ["str", s]
FL = lambda s: ["float", s]
NUM = [I(0), I(1), I(2), I(3), I(-1), I(-2), T_, F_, FL("1.0"), FL("0.5"), FL("2.5"), FL("-1.0"), FL("-2.0")]
STR = [S("a"), S("ab"), S("1"), S(""), S("None"), S("True"), S("1.0"), S("[1]"), S("2")]
SEQ = [["list", []], ["list", [I(1)]], ["list", [I(1), I(2)]], ["list", [S("1")]], ["list", [I(1), I(2), I(3), I(4)]],
       ["tuple", []], ["tuple", [I(1)]], ["tuple", [I(1), I(2)]], ["tuple", [I(3), I(1), I(2)]]]
SETS = [["set", []], ["set", [I(1)]], ["set", [I(1), I(2)]], ["dict", []], ["dict", [[I(1), S("a")]]],
        ["dict", [[S("a"), I(1)]]], ["dict", [[S("1"), I(5)], [I(1), I(6)]]]]
SLICES = [["slice", I(0), I(1), N_], ["slice", N_, I(2), N_], ["slice", I(1), N_, N_], ["slice", N_, N_, I(-1)]]
POOL = [N_] + NUM + STR + SEQ + SETS + SLICES
# raw operands whose str() coincides although the values differ (S17)
TWINS = [[I(1), S("1")], [I(2), S("2")], [N_, S("None")], [T_, S("True")], [FL("1.0"), S("1.0")],
         [["list", [I(1)]], S("[1]")], [I(0), S("0")], [["tuple", [I(1), I(2)]], S("(1, 2)")]]
# different values with equal hash() in CPython (hash(-1) == hash(-2) == -2): must NOT share nodes
HASHTWINS = [[I(-1), I(-2)], [FL("-1.0"), FL("-2.0")], [I(-1), FL("-2.0")]]
# values that are == but print differently: must NOT share nodes
EQUALS = [[I(1), T_, FL("1.0")], [I(0), F_], [I(2), FL("2.0")]]
ATTRS = ["real", "imag", "numerator", "denominator", "zzz", "to_hdf", "_priv", "start", "stop"]
UNSUP = ["add", "sub", "truediv", "floordiv", "pow", "and", "or", "xor"]

# entry point -> (Coq constructor, number of operands, python meaning, operator-table function it denotes)
ENTRIES = {
    "getattr": ("EGetattr", 1, lambda v, o: getattr(v, o), "getattr"),
    "getitem": ("EGetitem", 1, lambda v, o: v[o], "getitem"),
    "lt": ("ELt", 1, lambda v, o: v < o, "lt"),
    "le": ("ELe", 1, lambda v, o: v <= o, "le"),
    "eq": ("EEq", 1, lambda v, o: v == o, "eq"),
    "ne": ("ENe", 1, lambda v, o: v != o, "ne"),
    "gt": ("EGt", 1, lambda v, o: v > o, "gt"),
    "ge": ("EGe", 1, lambda v, o: v >= o, "ge"),
    "bool": ("EBool", 0, lambda v: bool(v), "truth"),
    "len": ("ELen", 0, lambda v: len(v), "len"),
    "contains": ("EContains", 1, lambda v, o: o in v, "contains"),
    "add": ("EAdd", 1, lambda v, o: v + o, "add"),
    "sub": ("ESub", 1, lambda v, o: v - o, "sub"),
    "mul": ("EMul", 1, lambda v, o: v * o, "mul"),
    "rmul": ("ERmul", 1, lambda v, o: o * v, "mul"),
    "matmul": ("EMatmul", 1, lambda v, o: v @ o, "matmul"),
    "truediv": ("ETruediv", 1, lambda v, o: v / o, "truediv"),
    "floordiv": ("EFloordiv", 1, lambda v, o: v // o, "floordiv"),
    "mod": ("EMod", 1, lambda v, o: v % o, "mod"),
    "pow": ("EPow", 1, lambda v, o: v ** o, "pow"),
    "and": ("EAnd", 1, lambda v, o: v & o, "and"),
    "xor": ("EXor", 1, lambda v, o: v ^ o, "xor"),
    "or": ("EOr", 1, lambda v, o: v | o, "or"),
    "neg": ("ENeg", 0, lambda v: -v, "neg"),
    "pos": ("EPos", 0, lambda v: +v, "pos"),
    "abs": ("EAbs", 0, lambda v: abs(v), "abs"),
    "invert": ("EInvert", 0, lambda v: ~v, "invert"),
    "int": ("EInt", 0, lambda v: int(v), "int"),
    "float": ("EFloat", 0, lambda v: float(v), "float"),
    "round": ("ERound", 0, lambda v: round(v), "round"),
}
CLASSNAME = {"getattr": "GetAttr", "getitem": "GetItem", "lt": "LessThan", "le": "LessThanEquals", "eq": "Equals",
             "ne": "NotEquals", "gt": "GreaterThan", "ge": "GreaterThanEquals", "bool": "Bool", "len": "Length",
             "contains": "Contains", "add": "Add", "sub": "Subtract", "mul": "Multiply", "rmul": "RightMultiply",
             "matmul": "MatrixMultiply", "truediv": "Divide", "floordiv": "FloorDivide", "mod": "Modulo",
             "pow": "Power", "and": "And", "xor": "XOr", "or": "Or", "neg": "Negative", "pos": "Positive",
             "abs": "Absolute", "invert": "Invert", "int": "Int", "float": "Float", "round": "Round"}
# the functions behind the rows of the operator table handed to the model (python's own)
PYFUN = {
    "getattr": getattr, "getitem": operator.getitem, "lt": operator.lt, "le": operator.le, "eq": operator.eq,
    "ne": operator.ne, "gt": operator.gt, "ge": operator.ge, "truth": operator.truth, "len": len,
    "contains": operator.contains, "add": operator.add, "sub": operator.sub, "mul": operator.mul,
    "matmul": operator.matmul, "truediv": operator.truediv, "floordiv": operator.floordiv, "mod": operator.mod,
    "pow": operator.pow, "and": operator.and_, "xor": operator.xor, "or": operator.or_, "neg": operator.neg,
    "pos": operator.pos, "abs": abs, "invert": operator.invert, "int": int, "float": float, "round": round,
    "slice": slice,
}
SYNTAX = {"lt": operator.lt, "le": operator.le, "ne": operator.ne, "gt": operator.gt, "ge": operator.ge,
          "add": operator.add, "sub": operator.sub, "mul": operator.mul, "matmul": operator.matmul,
          "truediv": operator.truediv, "floordiv": operator.floordiv, "mod": operator.mod, "pow": operator.pow,
          "and": operator.and_, "xor": operator.xor, "or": operator.or_, "neg": operator.neg, "pos": operator.pos,
          "abs": abs, "invert": operator.invert, "round": round, "getitem": operator.getitem, "getattr": getattr}
DUNDER = {"getattr": "__getattr__", "getitem": "__getitem__", "lt": "__lt__", "le": "__le__", "eq": "eq",
          "ne": "__ne__", "gt": "__gt__", "ge": "__ge__", "bool": "bool", "len": "len", "contains": "contains",
          "add": "__add__", "sub": "__sub__", "mul": "__mul__", "rmul": "__rmul__", "matmul": "__matmul__",
          "truediv": "__truediv__", "floordiv": "__floordiv__", "mod": "__mod__", "pow": "__pow__",
          "and": "__and__", "xor": "__xor__", "or": "__or__", "neg": "__neg__", "pos": "__pos__", "abs": "__abs__",
          "invert": "__invert__", "int": "int", "float": "float", "round": "__round__"}
MIRROR = {"lt": operator.gt, "le": operator.ge, "gt": operator.lt, "ge": operator.le, "ne": operator.ne}
CHAN_LABELS = {"ui": ["user_input"], "two": ["p", "q"], "mac": ["out"]}
# a composite answers node.attr, node[item] and node[a:b] with its CHILDREN (LexicalParent.__getattr__ /
# Composite.__getitem__) instead of injecting: known finding C18-composite-child-access-shadows-item-and-attribute
CHILD_ACCESS = ("getattr", "getitem")


def _child_access(key):
    """what a composite's child lookup does with a key that names no child (plain dict semantics)"""
    try:
        {}[key]
    except KeyError:
        raise AttributeError(key) from None


PYFUN["childaccess"] = _child_access


def _on_composite(case, s):
    """the cause predicate of the finding: attribute access, item access or slicing whose receiver is a
    single-output composite node itself (not its channel)"""
    return (s["k"] == "slice" or (s["k"] == "op" and s["e"] in CHILD_ACCESS)) and s["recv"][0] == "node" \
        and case["users"][s["recv"][1]]["kind"] == "mac"


def _tolist(x):
    return [_tolist(e) for e in x] if isinstance(x, (list, tuple)) else x


# ---- generation --------------------------------------------------------------------------------
def _scoped(users, u, j):
    return f"{users[u]['label']}__{CHAN_LABELS[users[u]['kind']][j]}"


def gen_value(rng, theme):
    r = rng.random()
    if theme == "num":
        return rng.choice(NUM) if r < 0.9 else rng.choice(POOL)
    if theme == "seq":
        return rng.choice(SEQ + STR) if r < 0.85 else rng.choice(POOL)
    if theme == "set":
        return rng.choice(SETS) if r < 0.85 else rng.choice(POOL)
    return rng.choice(POOL)


def gen_users(rng):
    theme = rng.choice(["num", "num", "num", "seq", "seq", "set", "mixed"])
    n = rng.choice([1, 2, 2, 3])
    labels = rng.sample(["x", "y", "z", "n0"], n)
    users = []
    for l in labels:
        r = rng.random()
        kind = "two" if r < 0.2 else "mac" if r < 0.4 else "ui"
        vals = [gen_value(rng, theme) for _ in CHAN_LABELS[kind]]
        users.append({"label": l, "kind": kind, "vals": vals, "ran": rng.random() < 0.6})
    return users, theme


def gen_ref(rng, users, nres, theme, raw_p=0.0, allow_amb=True):
    r = rng.random()
    if r < raw_p:
        return ["raw", gen_value(rng, theme)]
    if nres and rng.random() < 0.3:
        return ["res", rng.randrange(nres), rng.randrange(2)]
    u = rng.randrange(len(users))
    kind = users[u]["kind"]
    if kind in ("ui", "mac"):
        return ["node", u] if rng.random() < (0.5 if kind == "ui" else 0.75) else ["chan", u, 0]
    if allow_amb and rng.random() < 0.12:
        return ["node", u]           # two outputs: ambiguous
    return ["chan", u, rng.randrange(2)]


BINARY = [e for e, t in ENTRIES.items() if t[1] == 1 and e not in ("getattr", "getitem")]
UNARY = [e for e, t in ENTRIES.items() if t[1] == 0]


def gen_step(rng, users, nres, theme):
    r = rng.random()
    pull = rng.random() < 0.6
    if r < 0.03:
        return {"k": "unsup", "op": rng.choice(UNSUP), "recv": gen_ref(rng, users, nres, theme),
                "other": ["raw", rng.choice([I(1), I(2), FL("0.5"), N_])]}
    if r < 0.13:
        ms = [["raw", N_], ["raw", N_], ["raw", N_]]
        picks = rng.sample(range(3), rng.choice([1, 1, 2, 3]))
        for i in range(3):
            if i in picks:
                ms[i] = gen_ref(rng, users, nres, theme)
            elif rng.random() < 0.5:
                ms[i] = ["raw", rng.choice([I(0), I(1), I(2), I(-1), S("1_2"), S("2_None"), I(1)])]
        return {"k": "slice", "recv": gen_ref(rng, users, nres, theme), "m": ms, "pull": pull}
    r = rng.random()
    if r < 0.08:
        e = "getattr"
    elif r < 0.22:
        e = "getitem"
    elif r < 0.40:
        e = rng.choice(UNARY)
    else:
        e = rng.choice(BINARY)
    recv = gen_ref(rng, users, nres, theme)
    others = []
    if e == "getattr":
        others = [["raw", S(rng.choice(ATTRS))]]
    elif ENTRIES[e][1] == 1:
        o = gen_ref(rng, users, nres, theme, raw_p=0.6)
        if o[0] == "raw" and e == "getitem" and rng.random() < 0.7:
            o = ["raw", rng.choice([I(0), I(1), I(-1), S("a"), S("1"), S("0"), T_] + SLICES)]
        others = [o]
    return {"k": "op", "e": e, "recv": recv, "others": others, "pull": pull, "sp": rng.randrange(3),
            "retry": rng.choice([0, 0, 1, 2])}


def near_identical(rng, users, step, theme):
    """a variant of an earlier step that differs from it 'only a little'"""
    s = json.loads(json.dumps(step))
    s["pull"] = rng.random() < 0.7
    if "sp" in s:
        s["sp"] = rng.randrange(3)
    refs = s["others"] if s["k"] == "op" else (s["m"] if s["k"] == "slice" else [])
    raws = [i for i, r in enumerate(refs) if r[0] == "raw" and not (s["k"] == "op" and s["e"] == "getattr")]
    chans = [i for i, r in enumerate(refs) if r[0] in ("chan", "node")]
    r = rng.random()
    if raws and r < 0.5:
        i = rng.choice(raws)
        v = refs[i][1]
        for a, b in TWINS:
            if v == a:
                refs[i] = ["raw", b]
                return s
            if v == b:
                refs[i] = ["raw", a]
                return s
        for a, b in HASHTWINS:
            if v in (a, b) and rng.random() < 0.8:
                refs[i] = ["raw", b if v == a else a]
                return s
        for grp in EQUALS:
            if v in grp:
                refs[i] = ["raw", rng.choice([g for g in grp if g != v])]
                return s
        a, b = rng.choice(TWINS)
        refs[i] = ["raw", rng.choice([a, b])]
        return s
    if chans and r < 0.75:
        i = rng.choice(chans)
        u = refs[i][1]
        if users[u]["kind"] in ("ui", "mac") or refs[i][0] == "chan":
            j = refs[i][2] if refs[i][0] == "chan" else 0
            refs[i] = ["raw", S(_scoped(users, u, j))]
            return s
    if raws and r < 0.85:
        # the string spelling some channel's scoped label
        u = rng.randrange(len(users))
        refs[rng.choice(raws)] = ["raw", S(_scoped(users, u, 0))]
        return s
    if s["k"] == "op" and s["e"] in BINARY and rng.random() < 0.5:
        s["e"] = rng.choice(BINARY)
        return s
    s["recv"] = gen_ref(rng, users, 0, theme)
    return s


def gen_case(rng):
    users, theme = gen_users(rng)
    steps = []
    for _ in range(rng.choice([2, 3, 4, 4, 5, 6, 7, 8])):
        r = rng.random()
        if steps and r < 0.2:
            s = json.loads(json.dumps(rng.choice(steps)))
            s["pull"] = rng.random() < 0.6
            if "sp" in s:
                s["sp"] = rng.randrange(3)
            if s["k"] == "op" and rng.random() < 0.3 and s["recv"][0] in ("node", "chan") \
                    and users[s["recv"][1]]["kind"] in ("ui", "mac"):
                s["recv"] = ["node", s["recv"][1]] if s["recv"][0] == "chan" else ["chan", s["recv"][1], 0]
        elif steps and r < 0.4:
            s = near_identical(rng, users, rng.choice(steps), theme)
        else:
            s = gen_step(rng, users, len(steps), theme)
            for _ in range(6):          # mostly valid operations: redraw most of the invalid ones
                exp = _ideal({"users": users, "steps": steps + [s]}, None)[-1]
                if exp[0] == "ok" or rng.random() < 0.2:
                    break
                s = gen_step(rng, users, len(steps), theme)
        steps.append(s)
    return {"parent": rng.random() < 0.75, "users": users, "steps": steps}


def handmade():
    """systematic part: every entry point x {channel, node} receiver x a few operand pairs"""
    out = []
    pairs = [(I(3), I(2)), (FL("2.5"), I(2)), (S("ab"), I(2)), (["list", [I(1), I(2)]], I(1)),
             (["set", [I(1), I(2)]], ["set", [I(2)]]), (T_, F_), (N_, I(1)), (["tuple", [I(1), I(2)]], ["tuple", [I(3)]]),
             (["dict", [[I(1), S("a")]]], I(1)), (I(2), S("a"))]
    k = 0
    for e, (_, ar, _, _) in ENTRIES.items():
        for a, b in pairs:
            k += 1
            if e == "getattr":
                others = [["raw", S(ATTRS[k % len(ATTRS)])]]
            elif ar == 1:
                others = [["raw", b]] if k % 3 else [["node", 1]]
            else:
                others = []
            recv = ["node", 0] if k % 2 else ["chan", 0, 0]
            step = {"k": "op", "e": e, "recv": recv, "others": others, "pull": True, "sp": k % 3}
            rep = dict(step, sp=(k + 1) % 3, recv=["chan", 0, 0] if k % 2 else ["node", 0], pull=k % 4 == 0)
            users = [{"label": "x", "kind": "ui", "vals": [a], "ran": k % 5 != 0},
                     {"label": "y", "kind": "ui", "vals": [b], "ran": k % 7 != 0}]
            out.append({"parent": k % 4 != 0, "users": users, "steps": [step, rep]})
    return out


def framing_family():
    """identifier labels that make the '_'-join of the label ambiguous (known finding C18-underscore-framing)"""
    out = []
    for k, e in enumerate(["add", "sub", "mul", "lt", "contains", "eq"]):
        c = CLASSNAME[e]
        users = [{"label": "a", "kind": "ui", "vals": [I(1)], "ran": True},
                 {"label": "d", "kind": "ui", "vals": [I(10)], "ran": k % 2 == 0},
                 {"label": f"c__user_input_{c}_d", "kind": "ui", "vals": [I(100)], "ran": True},
                 {"label": f"a__user_input_{c}_c", "kind": "ui", "vals": [I(1000)], "ran": k % 3 != 0}]
        steps = [{"k": "op", "e": e, "recv": ["node", 0], "others": [["node", 2]], "pull": True, "sp": 0},
                 {"k": "op", "e": e, "recv": ["chan", 3, 0], "others": [["chan", 1, 0]], "pull": True, "sp": 1}]
        out.append({"parent": True, "users": users, "steps": steps})
        out.append({"parent": False, "users": users, "steps": steps})
    return out


def hash_twin_family():
    """same receiver, same operator, operands -1 / -2 (and -1.0 / -2.0) inside one parent"""
    out = []
    seqs = [["list", [I(10), I(20), I(30), I(40)]], ["tuple", [I(3), I(1), I(2)]], S("abc")]
    nums = [FL("8.0"), I(3), FL("2.5")]
    k = 0
    for e in ["getitem", "add", "sub", "mul", "pow", "truediv", "floordiv", "mod", "lt", "eq", "rmul"]:
        for a, b in HASHTWINS:
            if e == "getitem" and a[0] == "float":
                continue
            k += 1
            val = seqs[k % 3] if e == "getitem" else nums[k % 3]
            recv = ["node", 0] if k % 2 else ["chan", 0, 0]
            first, second = (a, b) if k % 3 else (b, a)
            users = [{"label": "x", "kind": "ui", "vals": [val], "ran": k % 4 != 0}]
            steps = [{"k": "op", "e": e, "recv": recv, "others": [["raw", first]], "pull": True, "sp": k % 2},
                     {"k": "op", "e": e, "recv": recv, "others": [["raw", second]], "pull": True, "sp": (k + 1) % 2},
                     {"k": "op", "e": e, "recv": recv, "others": [["raw", first]], "pull": k % 2 == 0, "sp": 0}]
            out.append({"parent": True, "users": users, "steps": steps})
    return out


def macro_node_family():
    """operations spelled on a single-output MACRO node itself, parentless and as a Workflow child:
    the named helpers (eq, bool, len, contains, int, float) and a few dunders; then the same on its channel"""
    out = []
    lst, num = ["list", [I(1), I(2), I(3)]], FL("2.5")
    k = 0
    for e, val, other in [("len", lst, None), ("bool", lst, None), ("contains", lst, I(2)), ("contains", lst, I(7)),
                          ("eq", lst, ["list", [I(1), I(2), I(3)]]), ("eq", lst, N_), ("int", num, None),
                          ("float", I(3), None), ("bool", I(0), None), ("len", S("ab"), None), ("add", lst, ["list", [I(0)]]),
                          ("round", num, None), ("lt", num, I(3)), ("neg", num, None), ("rmul", lst, I(2))]:
        for parent in (True, False):
            for ran in (True, False):
                k += 1
                users = [{"label": "m", "kind": "mac", "vals": [val], "ran": ran}]
                others = [] if other is None else [["raw", other]]
                steps = [{"k": "op", "e": e, "recv": ["node", 0], "others": others, "pull": True, "sp": k % 2},
                         {"k": "op", "e": e, "recv": ["node", 0], "others": others, "pull": k % 3 == 0, "sp": (k + 1) % 2},
                         {"k": "op", "e": e, "recv": ["chan", 0, 0], "others": others, "pull": True, "sp": 0}]
                out.append({"parent": parent, "users": users, "steps": steps})
    return out


def retry_family():
    """an invalid operation pulled, the failed flag cleared, pulled again (twice): it must raise what python
    raises every time -- also when the first writing already raised and the failed node is found again"""
    out = []
    k = 0
    for e, val, other in [("add", I(1), S("a")), ("getitem", S("abc"), I(5)), ("truediv", I(6), I(0)),
                          ("mod", I(6), I(0)), ("getattr", I(3), S("zzz")), ("int", S("a"), None), ("len", I(3), None),
                          ("lt", I(1), S("a")), ("getitem", ["dict", [[I(1), S("a")]]], I(2)), ("neg", S("a"), None)]:
        for parent in (True, False):
            for ran in (True, False):
                k += 1
                recv = ["chan", 0, 0] if e in CHILD_ACCESS or k % 2 else ["node", 0]
                users = [{"label": "x", "kind": "mac" if k % 3 == 0 else "ui", "vals": [val], "ran": ran}]
                others = [] if other is None else [["raw", other]]
                step = {"k": "op", "e": e, "recv": recv, "others": others, "pull": True, "sp": 0, "retry": 2}
                steps = [step] if not (ran and parent) else [dict(step, pull=False), step]
                out.append({"parent": parent, "users": users, "steps": steps})
    return out


def generate(ctx):
    rng = ctx.rng
    cases, seen = [], set()
    hm = handmade()
    if ctx.quick:
        hm = [c for i, c in enumerate(hm) if (i + ctx.seed) % 3 == 0]
    mf = macro_family()
    if ctx.quick:
        mf = [c for i, c in enumerate(mf) if (i + ctx.seed) % 2 == 0]
    mn = macro_node_family()
    if ctx.quick:
        mn = [c for i, c in enumerate(mn) if (i + ctx.seed) % 2 == 0]
    hm = hm + framing_family() + hash_twin_family() + mf + mn + retry_family()
    for c in hm:
        seen.add(json.dumps(c, sort_keys=True))
        cases.append(c)
    n = ctx.n(900, 9000)
    n_macro = ctx.n(120, 1500)
    while len(cases) < n + len(hm):
        c = gen_macro_case(rng) if len(cases) < len(hm) + n_macro else gen_case(rng)
        k = json.dumps(c, sort_keys=True)
        if k in seen:
            continue
        seen.add(k)
        cases.append(c)
    return cases


def corpus(ctx):
    out = []
    for p in sorted((lib.VERIF / "corpus" / PROP).glob("*.json")):
        out.extend(json.loads(p.read_text()))
    return out


# ---- implementation ------------------------------------------------------------------------------
_NOM: list = []          # (nominal, hashed text) in call order


def _recording_hash(x):
    h = builtins.hash(x)
    if isinstance(x, str):
        _NOM.append((x, str(h).replace("-", "m")))
    return h


def _install():
    import pyiron_workflow.mixin.injection as inj
    if getattr(inj, "hash", None) is not _recording_hash:
        inj.hash = _recording_hash
    return inj


_LABEL_RE = re.compile(r"injected_([A-Za-z]+)_(m?\d+)")


def _canon_nominal(s, hmap):
    """substitute every hashed label inside a nominal label by its own pre-hash text"""
    return _LABEL_RE.sub(lambda m: f"injected_{m.group(1)}_{hmap[m.group(2)]}" if m.group(2) in hmap else m.group(0), s)


def _exc_name(e):
    return type(e).__name__


def _apply(step, recv, others):
    """write the operation the way a user would (spelling sp)"""
    e, sp = step["e"], step.get("sp", 0)
    raw_other = bool(step["others"]) and step["others"][0][0] == "raw"
    if sp == 1 or e in ("eq", "bool", "len", "contains", "int", "float"):
        if e == "getattr":
            return getattr(recv, others[0])
        return getattr(recv, DUNDER[e])(*others)
    if e == "rmul":
        return operator.mul(others[0], recv) if raw_other else recv.__rmul__(others[0])
    if sp == 2 and e in MIRROR and raw_other:
        return MIRROR[e](others[0], recv)          # 1 < x  is  x > 1
    return SYNTAX[e](recv, *others)


class hang(Exception):
    """writing an operation did not return within the time limit"""


class _alarm:
    def __init__(self, seconds):
        self.seconds = seconds

    def __enter__(self):
        import signal
        import threading
        self.on = threading.current_thread() is threading.main_thread()
        if self.on:
            def fire(*a):
                raise hang()
            self.old = signal.signal(signal.SIGALRM, fire)
            signal.setitimer(signal.ITIMER_REAL, self.seconds)

    def __exit__(self, *a):
        import signal
        if self.on:
            signal.setitimer(signal.ITIMER_REAL, 0)
            signal.signal(signal.SIGALRM, self.old)
        return False


def run_impl(case):
    from pyiron_workflow import Workflow
    from pyiron_workflow.nodes import standard as std
    from pyiron_workflow.channels import NOT_DATA
    case = _tolist(case)
    _install()
    if _is_macro(case):
        return run_macro_impl(case)
    old = os.getcwd()
    root = tempfile.mkdtemp(prefix="c18_")
    os.chdir(root)
    try:
        wf = Workflow("w") if case["parent"] else None
        users = []
        for u in case["users"]:
            vals = [build_val(v) for v in u["vals"]]
            cls = {"ui": std.UserInput, "two": Two18, "mac": Mac18}[u["kind"]]
            n = cls(*vals, label=u["label"], parent=wf)
            if u["ran"]:
                n.run()
            users.append(n)
        user_ids = {id(n): i for i, n in enumerate(users)}
        results: list = []
        hmap: dict = {}
        obs = []
        stopped = False

        def nchildren():
            return len(wf.children) if wf is not None else 0

        def first_seen(node):
            for j, r in enumerate(results):
                if r is node:
                    return j
            return None

        def resolve(ref):
            k = ref[0]
            if k == "chan":
                return users[ref[1]].outputs[CHAN_LABELS[case["users"][ref[1]]["kind"]][ref[2]]]
            if k == "node":
                return users[ref[1]]
            if k == "raw":
                return build_val(ref[1])
            if k == "res":
                n = results[ref[1]] if ref[1] < len(results) else None
                if n is None:
                    raise LookupError
                return n.channel if ref[2] else n
            raise ValueError(ref)

        def flat(ch):
            if ch.connections:
                owner = ch.connections[0].owner
                if id(owner) in user_ids:
                    return ["u", user_ids[id(owner)], owner.outputs.labels.index(ch.connections[0].label)]
                k = first_seen(owner)
                return ["r", k] if k is not None else ["s"]
            return ["v", enc(ch.value)]

        def wiring(node):
            out = []
            for lab in node.inputs.labels:
                ch = node.inputs[lab]
                if ch.connections and id(ch.connections[0].owner) not in user_ids \
                        and first_seen(ch.connections[0].owner) is None:
                    up = ch.connections[0].owner
                    out.append(["s", type(up).__name__] + [flat(up.inputs[l2]) for l2 in up.inputs.labels])
                else:
                    out.append(flat(ch))
            return out

        for step in case["steps"]:
            if stopped:
                obs.append(["stopped"])
                continue
            mark = len(_NOM)
            try:
                if step["k"] == "op":
                    recv = resolve(step["recv"])
                    others = [resolve(r) for r in step["others"]]
                elif step["k"] == "slice":
                    recv = resolve(step["recv"])
                    others = [resolve(r) for r in step["m"]]
                else:
                    recv = resolve(step["recv"])
                    others = [resolve(step["other"])]
            except LookupError:
                results.append(None)
                obs.append([["skip"], [], nchildren(), [], [], None])
                continue
            mready = None
            if step["k"] == "slice":      # does each channel-like slice member hold data right now?
                mready = []
                for ref, o in zip(step["m"], others):
                    try:
                        mready.append(True if ref[0] == "raw" else o.channel.value is not NOT_DATA)
                    except AttributeError:
                        mready.append(True)
            try:
                with _alarm(8):          # writing an operation must return
                    if step["k"] == "op":
                        node = _apply(step, recv, others)
                    elif step["k"] == "slice":
                        node = recv[slice(*others)]
                    else:
                        node = SYNTAX[step["op"]](others[0], recv)
                exc = None
            except Exception as e:     # noqa: BLE001 -- every library/python exception is an observation
                node, exc = None, e
                if isinstance(e, hang):
                    stopped = True       # whatever looped has littered the graph: the scenario ends here
            noms = []
            for nom, hashed in _NOM[mark:]:
                c = _canon_nominal(nom, hmap)
                hmap[hashed] = c
                noms.append(c)
            if exc is not None:
                results.append(None)
                obs.append([["raise", _exc_name(exc)], noms, nchildren(), [], [], [None, mready, None]])
                continue
            if not hasattr(type(node), "pull"):
                results.append(None)
                obs.append([["notanode", type(node).__name__], noms, nchildren(), [], [], None])
                continue
            results.append(node)
            head = ["node", type(node).__name__, first_seen(node)]
            wir = wiring(node)
            nch = nchildren()
            pl, pinfo, outdiff = [], None, None
            if step.get("pull"):
                try:
                    v = node.pull()
                    pl = ["val", enc(v)]
                    out_v = node.outputs[node.outputs.labels[0]].value
                    if out_v is NOT_DATA or enc(out_v) != enc(v):
                        outdiff = enc(out_v) if out_v is not NOT_DATA else "NOT_DATA"
                except Exception as e:     # noqa: BLE001
                    cause = e.__cause__
                    pinfo = [_exc_name(e), _exc_name(cause) if cause is not None else None]
                    pl = ["own", _exc_name(e)] if node.failed and _exc_name(e) != "FailedChildError" else ["up"]
                    stopped = True
                    for _ in range(int(step.get("retry", 0)) if pl[0] == "own" else 0):
                        node.failed = False            # the documented recovery of a failed node
                        try:
                            pl.append(["val", enc(node.pull())])
                            break
                        except Exception as e2:     # noqa: BLE001
                            own = node.failed and _exc_name(e2) != "FailedChildError"
                            pl.append(["own", _exc_name(e2)] if own else ["up"])
                            if not own:
                                break
            obs.append([head, noms, nch, wir, pl, [pinfo, mready, outdiff]])
        return obs
    finally:
        os.chdir(old)
        shutil.rmtree(root, ignore_errors=True)


def digest(s):
    """Inject.digest: what stands for a nominal label in the compared observation"""
    h = 7
    for ch in s:
        h = (h * 131 + ord(ch)) % 2305843009213693951
    return h


def model_view(case, obs):
    """what the model predicts: everything but the detail kept for the oracle; nominal labels by digest"""
    if not isinstance(obs, list):
        return obs
    if _is_macro(case):
        return obs[:2] if obs and obs[0] == "val" else ["err"]
    return [[s[0], [digest(n) for n in s[1]]] + s[2:5] if len(s) == 6 else s for s in obs]


# ---- model term -------------------------------------------------------------------------------------
def _ref_coq(ref, case=None):
    k = ref[0]
    if k == "chan":
        return f"(RChan {cn(ref[1])} {cn(ref[2])})"
    if k == "node":
        comp = case is not None and case["users"][ref[1]]["kind"] == "mac"
        return f"({'RComp' if comp else 'RNode'} {cn(ref[1])})"
    if k == "raw":
        return f"(RRaw {cs(enc(build_val(ref[1])))})"
    if k == "res":
        return f"(RRes {cn(ref[1])})"
    raise ValueError(ref)


class _Table:
    """rows of CPython's operator table on the values the case can reach"""
    CAP = 24

    def __init__(self):
        self.rows = {}

    def call(self, fname, objs):
        key = (fname, tuple(enc(o) for o in objs))
        try:
            r = PYFUN[fname](*objs)
            self.rows.setdefault(key, (False, enc(r)))
            return ("ok", r)
        except Exception as e:     # noqa: BLE001
            self.rows.setdefault(key, (True, type(e).__name__))
            return ("exc", None)


def _reach_table(case):
    """closure of the values the program can compute (also through nodes shared by mistake)"""
    t = _Table()
    users = case["users"]
    cand: list = []            # per step: {enc: obj} of the values its node may hold
    strs, reprs = {}, {}
    all_slices = {}

    def cands(ref):
        k = ref[0]
        if k == "chan":
            return [build_val(users[ref[1]]["vals"][ref[2]])]
        if k == "node":
            return [build_val(users[ref[1]]["vals"][0])]
        if k == "raw":
            v = build_val(ref[1])
            strs[enc(v)] = str(v)
            reprs[enc(v)] = repr(v)
            return [v]
        if k == "res":
            return list(cand[ref[1]].values())[:_Table.CAP] if ref[1] < len(cand) else []
        return []

    for i, s in enumerate(case["steps"]):
        own = {}
        if _on_composite(case, s):
            for r in (s["others"] if s["k"] == "op" else s["m"]):
                if r[0] == "raw":
                    t.call("childaccess", cands(r))
        if s["k"] == "op":
            fname = ENTRIES[s["e"]][3]
            lists = [cands(s["recv"])] + [cands(r) for r in s["others"]]
            for combo in itertools.islice(itertools.product(*lists), 64):
                for objs in {tuple(map(id, combo)): combo, tuple(map(id, combo[::-1])): combo[::-1]}.values():
                    tag, r = t.call(fname, list(objs))
                    if tag == "ok":
                        own[enc(r)] = r
            key = ("op", s["e"])
        elif s["k"] == "slice":
            lists = [cands(r) for r in s["m"]]
            for pos in (0, 2):          # an unready start/step connection leaves the default None in place
                if s["m"][pos][0] != "raw":
                    lists[pos] = lists[pos] + [None]
            for a, b, c in itertools.islice(itertools.product(*lists), 64):
                for args in ([b], [a, b, c]):
                    tag, r = t.call("slice", args)
                    if tag == "ok":
                        all_slices[enc(r)] = r
                        reprs[enc(r)] = repr(r)
            for x in cands(s["recv"]):
                for sl in list(all_slices.values())[:_Table.CAP]:
                    tag, r = t.call("getitem", [x, sl])
                    if tag == "ok":
                        own[enc(r)] = r
            key = ("slice",)
        else:
            cands(s["other"])
            key = ("unsup",)
        merged = dict(own)
        for j in range(i):
            sj = case["steps"][j]
            kj = ("op", sj["e"]) if sj["k"] == "op" else (sj["k"],)
            if kj == key or (key == ("slice",) and kj == ("op", "getitem")) or (kj == ("slice",) and key == ("op", "getitem")):
                merged.update(cand[j])
        cand.append(merged)
    return t.rows, strs, reprs


def _ascii(v):
    return "".join(c if 32 <= ord(c) < 127 else "?" for c in v)


def model_term(case):
    case = _tolist(case)
    rows, strs, reprs = _reach_table(case)
    rows_c = cl(f"({cs(f)}, {cl(cs(a) for a in args)}, {cb(isx)}, {cs(r)})" for (f, args), (isx, r) in rows.items())
    strs_c = cl(f"({cs(k)}, {cs(_ascii(v))})" for k, v in strs.items())
    reprs_c = cl(f"({cs(k)}, {cs(_ascii(v))})" for k, v in reprs.items())
    users_c = cl(
        "(mkU " + cs(u["label"]) + " "
        + cl(f"({cs(l)}, {cs(enc(build_val(v)))})" for l, v in zip(CHAN_LABELS[u["kind"]], u["vals"]))
        + " " + cb(u["ran"]) + ")" for u in case["users"])
    steps = []
    for s in case["steps"]:
        if s["k"] == "op":
            steps.append(f"(SOp {ENTRIES[s['e']][0]} {_ref_coq(s['recv'], case)} {cl(_ref_coq(r, case) for r in s['others'])} "
                         f"{cn((1 + int(s.get('retry', 0))) if s.get('pull') else 0)})")
        elif s["k"] == "slice":
            steps.append(f"(SSlice {_ref_coq(s['recv'], case)} {' '.join(_ref_coq(r, case) for r in s['m'])} {cn((1 + int(s.get('retry', 0))) if s.get('pull') else 0)})")
        else:
            steps.append(f"(SUnsup {_ref_coq(s['recv'], case)} {_ref_coq(s['other'], case)})")
    if _is_macro(case):
        return f"t_macro {rows_c} {strs_c} {reprs_c} {users_c} {cl(steps)} {cn(case['out'])}"
    return f"t_run {rows_c} {strs_c} {reprs_c} {cb(case['parent'])} {users_c} {cl(steps)}"



# ---- the same programs written INSIDE A MACRO DEFINITION -----------------------------------------------
# case = {"kind": "macro", "parent": True, "users": [macro inputs as ui users, not run], "steps": [...], "out": k}
# The macro class is generated as source text (the library scrapes it), instantiated with the input values,
# run, and its single output is compared with plain python on the underlying values.
GEN = lib.BUILD / "c18_gen"
_MODS: dict = {}
SYMBOL = {"lt": "<", "le": "<=", "ne": "!=", "gt": ">", "ge": ">=", "add": "+", "sub": "-", "mul": "*", "matmul": "@",
          "truediv": "/", "floordiv": "//", "mod": "%", "pow": "**", "and": "&", "xor": "^", "or": "|"}
PREFIX = {"neg": "-", "pos": "+", "invert": "~"}


def _src_ref(ref):
    k = ref[0]
    if k in ("chan", "node"):
        return f"x{ref[1]}"
    if k == "raw":
        return repr(build_val(ref[1]))
    return f"t{ref[1]}" + (".channel" if ref[2] else "")


def _src_step(s):
    if s["k"] == "slice":
        ms = ["" if r == ["raw", ["none"]] else _src_ref(r) for r in s["m"]]
        return f"{_src_ref(s['recv'])}[{ms[0]}:{ms[1]}:{ms[2]}]"
    e, recv = s["e"], _src_ref(s["recv"])
    o = _src_ref(s["others"][0]) if s["others"] else None
    if e in SYMBOL:
        return f"({recv}) {SYMBOL[e]} ({o})"
    if e in PREFIX:
        return f"{PREFIX[e]}({recv})"
    if e == "rmul":
        return f"({o}) * ({recv})" if s["others"][0][0] == "raw" else f"({recv}).__rmul__({o})"
    if e == "getitem":
        return f"({recv})[{o}]"
    if e == "getattr":
        return f"({recv}).{build_val(s['others'][0][1])}"
    if e in ("abs", "round"):
        return f"{e}({recv})"
    if e in ("eq", "contains"):
        return f"({recv}).{e}({o})"
    return f"({recv}).{e}()"          # bool len int float


def macro_source(case):
    params = ", ".join(f"x{i}" for i in range(len(case["users"])))
    body = "".join(f"    t{i} = {_src_step(s)}\n" for i, s in enumerate(case["steps"]))
    return ("from pyiron_workflow import as_macro_node\n\n\n"
            f"@as_macro_node(\"out\")\ndef M18(self, {params}):\n{body}    return t{case['out']}\n")


def _load_macro(src):
    import hashlib
    import importlib.util
    import sys
    name = "c18m_" + hashlib.sha1(src.encode()).hexdigest()[:16]
    if name in _MODS:
        return _MODS[name]
    GEN.mkdir(parents=True, exist_ok=True)
    path = GEN / f"{name}.py"
    if not path.exists() or path.read_text() != src:
        tmp = GEN / f".{name}.{os.getpid()}.tmp"
        tmp.write_text(src)
        tmp.replace(path)
    spec = importlib.util.spec_from_file_location(name, path)
    mod = importlib.util.module_from_spec(spec)
    sys.modules[name] = mod
    try:
        spec.loader.exec_module(mod)
    except BaseException:
        sys.modules.pop(name, None)
        raise
    _MODS[name] = mod
    if len(_MODS) > 300:
        for k in list(_MODS)[:150]:
            sys.modules.pop(k, None)
            _MODS.pop(k, None)
    return mod


def run_macro_impl(case):
    from pyiron_workflow.channels import NOT_DATA
    old = os.getcwd()
    root = tempfile.mkdtemp(prefix="c18m_")
    os.chdir(root)
    try:
        try:
            cls = _load_macro(macro_source(case)).M18
            m = cls(*[build_val(u["vals"][0]) for u in case["users"]], label="m")
        except Exception as e:     # noqa: BLE001
            return ["def-err", _exc_name(e), str(e)[:200]]
        try:
            m.run()
        except Exception as e:     # noqa: BLE001
            c = e.__cause__
            return ["err", _exc_name(e), _exc_name(c) if c is not None else None]
        v = m.outputs.out.value
        return ["val", enc(v)] if v is not NOT_DATA else ["err", "NOT_DATA", None]
    finally:
        os.chdir(old)
        shutil.rmtree(root, ignore_errors=True)


def macro_oracle(case, obs):
    ideal = _ideal(case, None)
    bad = set()
    for r in ideal:
        if r[0] == "exc":
            bad.add(r[1])
        elif r[0] == "upexc":
            bad |= set(r[1])
        elif r[0] != "ok":
            return None                # malformed writing is not generated inside macros
    if obs[0] == "def-err":
        return f"macro-definition: defining/instantiating the macro raised {obs[1]}: {obs[2]}"
    if bad:
        several = sum(1 for r in ideal if r[0] == "exc") >= 2      # "multiple errors in children": no cause
        if obs[0] == "err" and (obs[1] in bad or (obs[1] == "FailedChildError" and (obs[2] in bad or (several and obs[2] is None)))):
            return None
        return f"macro-exception: macro gave {obs}; python raises {sorted(bad)}"
    want = enc(ideal[case["out"]][1])
    if obs != ["val", want]:
        return f"macro-value: macro gave {obs}; python gives {want}"
    return None


def _twice(rng, users, theme):
    """one macro input used for BOTH operands of a single operator node"""
    u = rng.randrange(len(users))
    me = ["node", u]
    if rng.random() < 0.3 and len(users) >= 2:
        v = rng.choice([k for k in range(len(users)) if k != u])
        pat = rng.choice([[0, 1, 2], [0, 1], [0, 2], [1, 2]])
        ms = [["node", v] if i in pat else ["raw", N_] for i in range(3)]
        return {"k": "slice", "recv": me, "m": ms, "pull": False}
    e = rng.choice(BINARY + ["getitem"])
    return {"k": "op", "e": e, "recv": me, "others": [["node", u]], "pull": False, "sp": 0}


def gen_macro_case(rng):
    theme = rng.choice(["num", "num", "num", "seq", "seq", "set", "mixed"])
    n = rng.choice([1, 1, 2, 2, 3])
    users = [{"label": f"x{i}", "kind": "ui", "vals": [gen_value(rng, theme)], "ran": False} for i in range(n)]
    if n >= 2 and rng.random() < 0.5:          # something to slice, something to slice it with
        users[0]["vals"] = [rng.choice(SEQ + [S("hello")])]
        users[1]["vals"] = [rng.choice([I(0), I(1), I(2), I(-1), I(3)])]
    steps = []
    for _ in range(rng.choice([1, 1, 1, 2, 3, 4])):
        for _try in range(6):
            if rng.random() < 0.55:
                s = _twice(rng, users, theme)
            else:
                s = gen_step(rng, users, len(steps), theme)
            ok = s["k"] != "unsup" and not (s["k"] == "op" and s["e"] == "getattr"
                                               and build_val(s["others"][0][1]) in ("to_hdf", "_priv"))
            if not ok:
                continue
            exp = _ideal({"users": users, "steps": steps + [s]}, None)[-1]
            if exp[0] == "ok" or (exp[0] in ("exc", "upexc") and rng.random() < 0.25):
                break
        else:
            continue
        steps.append(s)
    if not steps:
        steps = [{"k": "op", "e": "mul", "recv": ["node", 0], "others": [["node", 0]], "pull": False, "sp": 0}]
    used = {r[1] for s in steps for r in _step_refs(s) if r[0] in ("chan", "node")}
    keep = sorted(used)
    for s in steps:                                # every macro input is used
        for r in _step_refs(s):
            if r[0] in ("chan", "node"):
                r[1] = keep.index(r[1])
    users = [dict(users[k], label=f"x{i}") for i, k in enumerate(keep)]
    return {"kind": "macro", "parent": True, "users": users, "steps": steps, "out": len(steps) - 1}


def macro_family():
    """systematic part: x <op> x for every binary entry point, and slices with one bound used twice"""
    out = []
    vals = [I(3), FL("2.5"), S("ab"), ["list", [I(1), I(2)]], ["set", [I(1), I(2)]], T_, N_, I(0), ["tuple", [I(1)]]]
    k = 0
    for e in BINARY + ["getitem"]:
        for j in range(3):
            k += 1
            v = vals[(k + j) % len(vals)]
            users = [{"label": "x0", "kind": "ui", "vals": [v], "ran": False}]
            steps = [{"k": "op", "e": e, "recv": ["node", 0], "others": [["node", 0]], "pull": False, "sp": 0}]
            out.append({"kind": "macro", "parent": True, "users": users, "steps": steps, "out": 0})
    seqs = [["list", [I(1), I(2), I(3), I(4), I(5)]], S("hello"), ["tuple", [I(1), I(2), I(3)]]]
    for q in seqs:
        for i in (I(0), I(1), I(2), I(-1)):
            for pat in ([0, 1], [0, 2], [1, 2], [0, 1, 2], [0], [1]):
                users = [{"label": "x0", "kind": "ui", "vals": [q], "ran": False},
                         {"label": "x1", "kind": "ui", "vals": [i], "ran": False}]
                ms = [["node", 1] if p in pat else ["raw", N_] for p in range(3)]
                steps = [{"k": "slice", "recv": ["node", 0], "m": ms, "pull": False}]
                out.append({"kind": "macro", "parent": True, "users": users, "steps": steps, "out": 0})
    return out


def _is_macro(case):
    return isinstance(case, dict) and case.get("kind") == "macro"


# ---- the property, checked on the implementation's observation ----------------------------------------
def _is_two(case, ref):
    return ref[0] == "node" and case["users"][ref[1]]["kind"] == "two"


def _step_refs(s):
    if s["k"] == "op":
        return [s["recv"]] + s["others"]
    if s["k"] == "slice":
        return [s["recv"]] + s["m"]
    return [s["recv"], s["other"]]


def _ideal(case, obs):
    """what plain Python says each step is worth, on the underlying values"""
    users = case["users"]
    out = []

    def den(ref):
        k = ref[0]
        if k == "chan":
            return ("ok", build_val(users[ref[1]]["vals"][ref[2]]))
        if k == "node":
            return ("ok", build_val(users[ref[1]]["vals"][0]))
        if k == "raw":
            return ("ok", build_val(ref[1]))
        r = out[ref[1]] if ref[1] < len(out) else ("none",)
        if r[0] == "ok":
            return r
        if r[0] in ("exc", "upexc"):
            return ("upexc", {r[1]} if r[0] == "exc" else set(r[1]))
        return ("none",)

    for s in case["steps"]:
        refs = _step_refs(s)
        if any(r[0] == "res" and (r[1] >= len(out) or out[r[1]][0] in ("malformed", "none")) for r in refs):
            out.append(("none",))
            continue
        if s["k"] == "unsup":
            out.append(("malformed", "TypeError"))
            continue
        if any(_is_two(case, r) for r in refs):
            out.append(("malformed", "AmbiguousOutputError"))
            continue
        if s["k"] == "op" and s["e"] == "getattr":
            name = build_val(s["others"][0][1])
            if name == "to_hdf" or name.startswith("_"):
                out.append(("malformed", "AttributeError"))
                continue
        ds = [den(r) for r in refs]
        if any(d[0] == "none" for d in ds):
            out.append(("none",))
            continue
        ups = [d[1] for d in ds if d[0] == "upexc"]
        if ups:
            out.append(("upexc", set().union(*ups)))
            continue
        vals = [d[1] for d in ds]
        try:
            if s["k"] == "op":
                v = ENTRIES[s["e"]][2](*vals)
            else:
                v = vals[0][slice(vals[1], vals[2], vals[3])]
            out.append(("ok", v))
        except Exception as e:     # noqa: BLE001
            out.append(("exc", type(e).__name__))
    return out


def _norms(case, level="exact"):
    """normal form of the request(s) each step issues.  level "frame" blurs exactly what the label blurs:
    a request becomes (class, the "_"-join of the texts of receiver, class name and operands)"""
    users = case["users"]
    norms = []          # per step: (top request normal form or None, [request normal forms issued in order])

    def tok(n):
        return n[1] if n[0] == "t" else "<" + json.dumps(n) + ">"

    def ref_norm(ref):
        k = ref[0]
        if k in ("chan", "node"):
            u, j = ref[1], (ref[2] if k == "chan" else 0)
            return ("t", _scoped(users, u, j)) if level == "frame" else ("c", u, j)
        if k == "raw":
            v = build_val(ref[1])
            return ("v", enc(v)) if level == "exact" else ("t", repr(v))
        top = norms[ref[1]][0] if ref[1] < len(norms) else None
        return ("n", top)

    def request(cname, recv, others):
        if level == "frame":
            return ("lbl", cname, "_".join([tok(recv), cname] + [tok(o) for o in others]))
        return ("req", cname, recv, tuple(others))

    for s in case["steps"]:
        if s["k"] == "op":
            req = request(CLASSNAME[s["e"]], ref_norm(s["recv"]), [ref_norm(r) for r in s["others"]])
            norms.append((req, [req]))
        elif s["k"] == "slice":
            recv = ref_norm(s["recv"])
            if all(r[0] == "raw" for r in s["m"]):      # python's own slice object: an ordinary raw item
                sl = slice(*[build_val(r[1]) for r in s["m"]])
                req = request("GetItem", recv, [("v", enc(sl)) if level == "exact" else ("t", repr(sl))])
                norms.append((req, [req]))
            else:
                slq = request("Slice", recv, [ref_norm(r) for r in s["m"]])
                req = request("GetItem", recv, [("n", slq)])
                norms.append((req, [slq, req]))
        else:
            norms.append((None, []))
    return norms


LEVELS = [("frame", "C18-underscore-framing")]


def _closure(case, i):
    seen, todo = set(), [i]
    while todo:
        k = todo.pop()
        if k in seen or k >= len(case["steps"]):
            continue
        seen.add(k)
        todo.extend(r[1] for r in _step_refs(case["steps"][k]) if r[0] == "res")
    return seen


def analyse(case, obs):
    """every departure from the property: [(step, signature, message)]"""
    case = _tolist(case)
    if not isinstance(obs, list):
        return [(0, "driver", f"driver: {obs}")]
    ideal = _ideal(case, obs)
    norms = _norms(case)
    users = case["users"]
    out = []
    issued = set()
    first_with_norm = {}
    raised_tops = set()      # expressions whose first writing raised: their (failed) node was never handed out
    prev_children = len(users) if case["parent"] else 0
    for i, (s, o) in enumerate(zip(case["steps"], obs)):
        if o == ["stopped"]:
            break
        head, noms, nch, wir, pl, extra = o
        pinfo, mready, outdiff = extra if extra else (None, None, None)
        exp = ideal[i]
        if head[0] == "skip":
            continue
        if head == ["raise", "hang"]:
            out.append((i, "hang", f"hang: writing step {i} did not return within the time limit "
                                   f"(the parent has {nch} children by then)"))
            break
        if head[0] == "notanode":
            out.append((i, "not-a-node", f"not-a-node: step {i} evaluated to a {head[1]} instead of a node"))
            continue
        # ---- children of the parent
        reqs = norms[i][1][:len(noms)] if exp[0] != "malformed" else []
        new = []
        for r in reqs:
            if r not in issued and r not in new:
                new.append(r)
        cc = None
        if case["parent"]:
            if nch - prev_children != len(new):
                cc = (i, "child-count", f"child-count: step {i} added {nch - prev_children} children to the parent, "
                                        f"{len(new)} new expression(s) were written")
            prev_children = nch
        elif nch != 0:
            cc = (i, "child-count", f"child-count: parentless case reports {nch} children")
        issued.update(reqs)
        if cc and (exp[0] == "malformed" or head[0] == "raise"):
            out.append(cc)
        # ---- malformed writing
        if exp[0] == "malformed":
            if head != ["raise", exp[1]]:
                out.append((i, "malformed", f"malformed: step {i} should raise {exp[1]}, got {head}"))
            continue
        # ---- exception at injection time
        if head[0] == "raise":
            raised_tops.add(norms[i][0])
            if exp != ("exc", head[1]):
                out.append((i, "exception", f"exception: step {i} raised {head[1]} when written; python gives "
                                            f"{_show(exp)}"))
            continue
        # ---- identity
        top = norms[i][0]
        k = head[2]
        if case["parent"]:
            if top in first_with_norm and first_with_norm[top] != k:
                out.append((i, "not-reused", f"not-reused: step {i} repeats the expression of step "
                                             f"{first_with_norm[top]} but got another node"))
            elif top not in first_with_norm and k != i and top not in raised_tops:
                out.append((i, "shared-node", f"shared-node: step {i} writes a different expression than step {k} "
                                              f"but got the same node"))
            first_with_norm.setdefault(top, k)
        elif k != i:
            out.append((i, "shared-node", f"shared-node: parentless step {i} returned the node of step {k}"))
        if cc:
            out.append(cc)
        # ---- value once run
        if pl:
            if pl[0] == "val":
                if exp[0] != "ok" or enc(exp[1]) != pl[1]:
                    out.append((i, "value", f"value: step {i} pulled {pl[1]}; python gives {_show(exp)}"))
                elif outdiff:
                    out.append((i, "value", f"value: step {i} pull returned {pl[1]} but the output channel holds {outdiff}"))
            elif pl[0] == "own":
                ok = exp[0] == "exc" and pl[1] in (exp[1], "ReadinessError")
                if not ok:
                    out.append((i, "exception", f"exception: step {i} pull raised {pl[1]}; python gives {_show(exp)}"))
                for r in pl[2:]:        # failed flag cleared, pulled again: python raises the same again
                    if ok and r != ["own", exp[1]]:
                        out.append((i, "exception", f"exception: step {i} pulled again after clearing the failed flag "
                                                    f"gave {r}; python gives {_show(exp)}"))
                        break
            else:
                ok = exp[0] == "upexc" and (
                    (pinfo[0] == "FailedChildError" and (pinfo[1] in exp[1] or pinfo[1] == "ReadinessError"))
                    or pinfo[0] in exp[1] or pinfo[0] == "ReadinessError")
                if not ok:
                    out.append((i, "exception", f"exception: step {i} pull failed upstream with {pinfo}; python gives "
                                                f"{_show(exp)}"))
    return out


def _show(exp):
    if exp[0] == "ok":
        return enc(exp[1])
    if exp[0] == "exc":
        return f"raises {exp[1]}"
    if exp[0] == "upexc":
        return f"raises {sorted(exp[1])} in a sub-expression"
    return str(exp[0])


def oracle(case, obs):
    if _is_macro(case):
        return macro_oracle(_tolist(case), obs) if isinstance(obs, list) else f"driver: {obs}"
    v = analyse(case, obs)
    return v[0][2] if v else None


def _collisions(case, obs):
    """per step: the weakest blurring under which a request that is NEW as written coincides with an
    earlier one (steps that repeat such a request inherit its verdict)"""
    exact = _norms(case)
    blurred = {lv: _norms(case, lv) for lv, _ in LEVELS}
    seen_exact, seen = set(), {lv: set() for lv, _ in LEVELS}
    fid_of = {}
    out = {}
    for i, o in enumerate(obs):
        if o == ["stopped"]:
            break
        n = len(o[1]) if len(o) > 1 else 0
        for q, r in enumerate(exact[i][1][:n]):
            if r not in seen_exact:
                for lv, fid in LEVELS:
                    if blurred[lv][i][1][q] in seen[lv]:
                        fid_of[r] = fid
                        break
            if r in fid_of:
                out.setdefault(i, fid_of[r])
            seen_exact.add(r)
            for lv, _ in LEVELS:
                seen[lv].add(blurred[lv][i][1][q])
    return out


def known(case, obs, verdict):
    if _is_macro(case):
        return None
    case = _tolist(case)
    vs = analyse(case, obs)
    if not vs or not isinstance(obs, list):
        return None
    active = {e["id"] for e in lib.known_findings(PROP) if e.get("status") == "known"}
    coll = _collisions(case, obs)
    ids = []
    for i, sig, msg in vs:
        fid = None
        clo = sorted(_closure(case, i))
        if sig in ("exception", "malformed") and _on_composite(case, case["steps"][i]) and obs[i][0][0] == "raise":
            fid = "C18-composite-child-access-shadows-item-and-attribute"
        elif sig in ("shared-node", "child-count"):
            fid = coll.get(i)
        elif sig in ("value", "exception"):
            fid = next((coll[k] for k in clo if k in coll), None)
        if fid is None or fid not in active:
            return None
        ids.append(fid)
    return ids[0]


def nontrivial(case, obs):
    if _is_macro(case):
        return isinstance(obs, list) and obs[:1] in (["val"], ["err"])
    return isinstance(obs, list) and any(isinstance(o, list) and o and o[0] and o[0][0] == "node" for o in obs)


def key(case):
    return [case.get("kind"), case["parent"], case["users"], case["steps"], case.get("out")]


def shrink_candidates(case):
    case = _tolist(case)
    if _is_macro(case):
        for i in range(len(case["steps"])):        # keep only what step i needs, return it
            need = sorted(_closure(case, i))
            if len(need) == len(case["steps"]) and i == case["out"]:
                continue
            new = json.loads(json.dumps([case["steps"][k] for k in need]))
            for s in new:
                for r in _step_refs(s):
                    if r[0] == "res":
                        r[1] = need.index(r[1])
            used = sorted({r[1] for s in new for r in _step_refs(s) if r[0] in ("chan", "node")})
            for s in new:
                for r in _step_refs(s):
                    if r[0] in ("chan", "node"):
                        r[1] = used.index(r[1])
            users = [dict(case["users"][u], label=f"x{j}") for j, u in enumerate(used)]
            yield dict(case, users=users, steps=new, out=need.index(i))
        return
    steps = case["steps"]
    for i in reversed(range(len(steps))):
        # drop step i when nothing later refers to it (renumber later references)
        if any(r[0] == "res" and r[1] == i for s in steps[i + 1:] for r in _step_refs(s)):
            continue
        new = json.loads(json.dumps(steps[:i] + steps[i + 1:]))
        for s in new[i:]:
            for r in _step_refs(s):
                if r[0] == "res" and r[1] > i:
                    r[1] -= 1
        yield dict(case, steps=new)
    used = {r[1] for s in steps for r in _step_refs(s) if r[0] in ("chan", "node")}
    for u in reversed(range(len(case["users"]))):
        if u in used or len(case["users"]) == 1:
            continue
        new = json.loads(json.dumps(steps))
        for s in new:
            for r in _step_refs(s):
                if r[0] in ("chan", "node") and r[1] > u:
                    r[1] -= 1
        yield dict(case, users=case["users"][:u] + case["users"][u + 1:], steps=new)
    for i, s in enumerate(steps):
        if s.get("pull") and i != len(steps) - 1:
            new = json.loads(json.dumps(steps))
            new[i]["pull"] = False
            yield dict(case, steps=new)
    for u, ur in enumerate(case["users"]):
        if not ur["ran"]:
            us = json.loads(json.dumps(case["users"]))
            us[u]["ran"] = True
            yield dict(case, users=us)


def distribution(results):
    d = {"cases": 0, "parent": 0, "steps": 0, "nodes": 0, "raise_at_injection": 0, "pull_val": 0, "pull_own": 0,
         "pull_up": 0, "skipped": 0, "stopped": 0, "reused": 0}
    entries, classes = {}, {}
    d["macro_cases"] = d["macro_val"] = d["macro_err"] = d["macro_same_input_twice"] = 0
    for c, enc_, v, o in results:
        d["cases"] += 1
        if _is_macro(c):
            d["macro_cases"] += 1
            if isinstance(o, list) and o:
                d["macro_val" if o[0] == "val" else "macro_err"] += 1
            d["macro_same_input_twice"] += any(
                len([r for r in _step_refs(s)[0 if s["k"] == "op" else 1:] if r[0] in ("chan", "node")])
                > len({r[1] for r in _step_refs(s)[0 if s["k"] == "op" else 1:] if r[0] in ("chan", "node")})
                for s in c["steps"])
            continue
        d["parent"] += bool(c["parent"])
        if not isinstance(o, list):
            continue
        for i, (s, so) in enumerate(zip(c["steps"], o)):
            d["steps"] += 1
            name = s.get("e", s["k"])
            entries[name] = entries.get(name, 0) + 1
            if so == ["stopped"]:
                d["stopped"] += 1
                continue
            h = so[0]
            if h[0] == "node":
                d["nodes"] += 1
                classes[h[1]] = classes.get(h[1], 0) + 1
                d["reused"] += h[2] != i
            elif h[0] == "raise":
                d["raise_at_injection"] += 1
            elif h[0] == "skip":
                d["skipped"] += 1
            if so[4]:
                d["pull_" + so[4][0]] += 1
    d["entries"] = entries
    d["classes"] = classes
    return d
