"""C06 -- a failing node is contained, reported, and leaves consistent statuses.

flow family : hand-wired flows of function nodes that raise when an argument is negative, inside
              a non-automated Workflow, all children local; run with raised or suppressed
              exceptions; compared with Fail.obs_run.
dag family  : automatically wired DAG workflows (as in C01) with failing nodes, any subset of
              children on the manual executor with a prescribed completion order, optionally
              nested macros; oracle only.
The oracle states the property directly on the implementation's observation.
"""
from __future__ import annotations

import signal as _signal

from harness import lib, nodes
from harness.lib import cb, cl, cn, cz, copt

PROP = "C06"
IMPORTS = "Base Fail Free"
FUEL = 400
RULE = ("flow: signal graphs as in C02 (forward run/accumulate edges over 2-7 nodes, optional If branch, `failed` handlers) "
        "whose functions raise on a negative argument; negative constants make 1-3 nodes fail, incl. starting nodes; dag: "
        "random DAGs 2-9 nodes with 1-2 failing nodes, every node independently on the manual executor, optionally one "
        "nested macro with a failing child; free: the flow graphs again with parentless nodes (signals delivered depth first, every "
        "starting node run in turn by the caller; model Free.v); argument -5/-7/-8/-9 raise AttributeError/ReadinessError/"
        "IndexError/KeyError subclasses. Non-trivial: at least one node failed AND at least one other node ran; distinct by content.")
TRUSTED = ["harness ManualExecutor and replacement of composite.sleep as the completion schedule (dag family)"]
ASSUMPTIONS = ["the failing function is deterministic (raises iff an argument is negative)",
               "executor callbacks are atomic events; real thread timing is not exhibited"]

from pyiron_workflow.nodes.function import as_function_node  # noqa: E402
from pyiron_workflow.nodes.macro import as_macro_node  # noqa: E402


@as_function_node("y")
def Chk0(tag, k):
    return nodes.chk(tag, k, [])


@as_function_node("y")
def Chk3(tag, k, a, b, c):
    return nodes.chk(tag, k, [a, b, c])


CHK = [Chk0, nodes.Chk1, nodes.Chk2, Chk3]


@as_macro_node("out")
def FM(self, x):
    """macro with two children in a chain; fails when x is negative (first child) or x == 13 (second child sees -1)"""
    self.p = nodes.Chk1(tag=101, k=1, a=x)
    self.q = nodes.Chk2(tag=102, k=2, a=self.p, b=0)
    return self.q


# =========================================================================== flow family
def gen_flow(rng):
    n = rng.randint(2, 6)
    ns = []
    for i in range(n):
        m = rng.choice([0, 1, 1, 2, 2, 3])
        ins = []
        for _ in range(m):
            conns = rng.sample(range(n), rng.choice([1, 1, 2])) if rng.random() < 0.6 else []
            init = rng.randint(0, 30) if (not conns or rng.random() < 0.6) else None
            ins.append({"init": init, "conns": conns})
        ns.append({"kind": ["chk", rng.randint(1, 60)], "ins": ins, "sig": {"ran": [], "failed": []}})
    for j in range(1, n):
        srcs = rng.sample(range(j), min(j, rng.choice([0, 1, 1, 2, 3])))
        if not srcs:
            continue
        mode = "acc" if (len(srcs) >= 2 and rng.random() < 0.6) or rng.random() < 0.15 else "run"
        for s in srcs:
            ns[s]["sig"]["ran"].insert(0, [j, mode])
    starting = [i for i in range(n) if not any(t[0] == i for nd in ns for lst in nd["sig"].values() for t in lst)]
    # failure handlers: `failed` of some node triggers another node
    for _ in range(rng.choice([0, 0, 1, 2])):
        a, b = rng.randrange(n), rng.randrange(n)
        if a != b and [b, "run"] not in ns[a]["sig"]["failed"]:
            ns[a]["sig"]["failed"].append([b, "run"])
            if b in starting and len(starting) > 1:
                starting.remove(b)
    # make 1-3 nodes fail: a negative constant in an unconnected (or sometimes connected) input
    cands = [i for i in range(n) if ns[i]["ins"]]
    for i in rng.sample(cands, min(len(cands), rng.choice([1, 1, 2, 3]))):
        j = rng.randrange(len(ns[i]["ins"]))
        ns[i]["ins"][j]["init"] = -rng.randint(1, 9)
        if rng.random() < 0.7:
            ns[i]["ins"][j]["conns"] = []
    if rng.random() < 0.2 and len(starting) > 1:
        rng.shuffle(starting)
    return {"fam": "flow", "nodes": ns, "starting": starting, "suppress": rng.random() < 0.3}


def gen_flow_rerun(rng):
    """round 7: the hand-wired flow is run TWICE on the same objects -- a prelude run in which OTHER nodes fail, flags
    cleared by hand, constants re-assigned -- and the second run is judged: signals heard by all-of triggers in the
    aborted first run must not count (a composite that wires its flow once -- non-automated workflow, macro -- has only
    the per-run reset to rely on)"""
    c = gen_flow(rng)
    ns = c["nodes"]
    cands = [(i, j) for i, nd in enumerate(ns) for j, inp in enumerate(nd["ins"]) if inp["init"] is not None]
    pre = []
    for i, j in cands:
        v = ns[i]["ins"][j]["init"]
        pre.append([i, j, abs(v) if v != -6 else 6])          # what fails in the judged run is healthy in the prelude
    for t in rng.sample(pre, min(len(pre), rng.choice([1, 1, 2]))):
        if ns[t[0]]["ins"][t[1]]["init"] >= 0:
            t[2] = -rng.randint(1, 5)                          # ... and something else fails there
    c["prelude"] = pre
    c["suppress"] = False
    return c


class _Timeout(BaseException):
    pass


def _alarm(signum, frame):
    raise _Timeout()


def build_flow(case):
    from pyiron_workflow import Workflow
    wf = Workflow("wf", automate_execution=False)
    wf.use_cache = False
    wf.recovery = None
    ch = []
    for i, nd in enumerate(case["nodes"]):
        kw = {"tag": i, "k": nd["kind"][1]}
        for j, inp in enumerate(nd["ins"]):
            if inp["init"] is not None:
                kw[nodes.ARG[j]] = inp["init"]
        node = CHK[len(nd["ins"])](label=f"n{i}", **kw)
        wf.add_child(node)
        ch.append(node)
    for i, nd in enumerate(case["nodes"]):
        for j, inp in enumerate(nd["ins"]):
            for u in reversed(inp["conns"]):
                ch[i].inputs[nodes.ARG[j]].connect(ch[u].outputs.y)
        for sname, lst in nd["sig"].items():
            out = ch[i].signals.output[sname]
            for (m, mode) in reversed(lst):
                out.connect(ch[m].signals.input.run if mode == "run" else ch[m].signals.input.accumulate_and_run)
    wf.starting_nodes = [ch[i] for i in case["starting"]]
    return wf, ch


def _slot(v):
    from pyiron_workflow.channels import NOT_DATA
    return "nd" if v is NOT_DATA else int(v)


def run_flow(case):
    from pyiron_workflow.mixin.run import ReadinessError
    from pyiron_workflow.nodes.composite import FailedChildError
    nodes.reset()
    wf, ch = build_flow(case)
    idx = {c.label: i for i, c in enumerate(ch)}
    old = _signal.signal(_signal.SIGALRM, _alarm)
    _signal.alarm(10)
    exc = None
    prev_outs = None
    if case.get("prelude"):
        for c in ch:
            c.use_cache = False
        for i, j, v in case["prelude"]:
            ch[i].inputs[nodes.ARG[j]].value = v
        try:
            wf.run()
        except _Timeout:
            _signal.alarm(0)
            _signal.signal(_signal.SIGALRM, old)
            return "timeout"
        except BaseException as e:      # noqa: BLE001
            if isinstance(e, (KeyboardInterrupt, SystemExit)):
                raise
        for c in [wf] + ch:
            c.failed = False
            c.running = False
        for i, j, _ in case["prelude"]:
            ch[i].inputs[nodes.ARG[j]].value = case["nodes"][i]["ins"][j]["init"]
        prev_outs = [_slot(c.outputs.y.value) for c in ch]
        nodes.reset()
    nodes.KI_ENABLED = True         # an argument -6 is a Ctrl-C landing inside that node's body (local runs only)
    try:
        if case["suppress"]:
            ret = wf.run(raise_run_exceptions=False)
        else:
            ret = wf.run()
        verdict = "ok"
    except (nodes.UserExc, nodes.UserInterrupt) as e:
        verdict, exc = ["UserExc", e.tag], e
    except ReadinessError as e:
        verdict, exc = ["Readiness"], e
    except FailedChildError as e:
        verdict, exc = ["FailedChild", e.__cause__ is not None], e
    except _Timeout:
        return "timeout"
    finally:
        nodes.KI_ENABLED = False
        _signal.alarm(0)
        _signal.signal(_signal.SIGALRM, old)
    return {"verdict": verdict, "chain": nodes.exc_kind(exc) if exc is not None else [],
            "prov": [idx[l] for l in wf.provenance_by_execution],
            "outs": [_slot(c.outputs.y.value) for c in ch], "failed": [bool(c.failed) for c in ch],
            "running": [bool(c.running) for c in ch], "wf": [bool(wf.failed), bool(wf.running)],
            "raised": sorted({t for t, a in nodes.CALLS if any(x < 0 for x in a)}),
            **({"prev_outs": prev_outs} if prev_outs is not None else {})}


def flow_coq(case):
    ns = []
    for nd in case["nodes"]:
        ins = cl(f"{{| fi_init := {copt(i['init'], cz)}; fi_conns := {cl(cn(u) for u in i['conns'])} |}}" for i in nd["ins"])
        sg = cl("(O" + s.capitalize() + ", " + cl(f"({cn(m)}, I{mode.capitalize()})" for m, mode in lst) + ")"
                for s, lst in nd["sig"].items())
        ns.append(f"{{| f_kind := KChk {cz(nd['kind'][1])}; f_ins := {ins}; f_sig := {sg} |}}")
    return cl(ns)


def flow_view(case, o):
    if not isinstance(o, dict):
        return o
    v = o["verdict"]
    if case["suppress"]:
        # the suppressed run returns None: the model's verdict is compared through the parent's failed flag only
        return ["suppressed", o["prov"], o["outs"], o["failed"], o["wf"][0]]
    if v == "ok":
        mv = "ok"
    elif v[0] == "UserExc":
        mv = ["UserExc", v[1]]
    elif v[0] == "Readiness":
        mv = ["Readiness"]
    else:
        mv = ["FailedChild", v[1]]
    return [mv, o["prov"], o["outs"], o["failed"], o["wf"][0]]


def flow_term(case):
    run = f"run {flow_coq(case)} {cn(FUEL)} {cl(cn(i) for i in case['starting'])}"
    if case["suppress"]:
        return (f"match {run} with (Some s, v) => OL [OS \"suppressed\"; OL (map on (started (log s))); OL (map obs_slot (outv s)); "
                f"OL (map ob (failedv s)); ob (parent_failed v)] | (None, v) => OL [obs_verdict v] end")
    # the starting node's index in VReadiness is not observable on the implementation
    return (f"match {run} with (Some s, v) => OL [match v with VReadiness _ => OL [OS \"Readiness\"] | _ => obs_verdict v end; "
            f"OL (map on (started (log s))); OL (map obs_slot (outv s)); OL (map ob (failedv s)); ob (parent_failed v)] "
            f"| (None, v) => OL [obs_verdict v] end")


def flow_oracle(case, o):
    if o == "timeout":
        return "diverges: run did not terminate"
    ns = case["nodes"]
    failed = [i for i, f in enumerate(o["failed"]) if f]
    if any(o["running"]) or o["wf"][1]:
        return "left-running: a node (or the workflow) is still running after the run ended"
    if o["raised"] != failed:
        return f"wrong-failed-flags: functions of {o['raised']} raised but nodes {failed} are marked failed"
    for i in failed:
        if o["outs"][i] != (o["prev_outs"][i] if "prev_outs" in o else "nd"):
            return f"output-changed: failing node n{i} has output {o['outs'][i]} although it never completed"
    if failed and not o["wf"][0]:
        return "parent-not-failed: a child failed but the workflow is not marked failed"
    if failed and not case["suppress"] and o["verdict"] == "ok":
        return "swallowed: a child failed but run() returned normally"
    if not case["suppress"] and o["verdict"] != "ok" and o["verdict"][0] in ("UserExc", "FailedChild"):
        tags = [c[1] for c in o["chain"] if c[0] == "UserExc"]
        if o["verdict"][0] == "UserExc" and tags[:1] != [o["verdict"][1]]:
            return "wrong-exception: the propagated exception is not the failing node's"
        if o["verdict"] == ["FailedChild", True] and (not tags or tags[0] not in failed) and failed:
            return "cause-lost: FailedChildError with a single erring receiver does not carry the original exception"
    # nothing that depends on a failed node's completion executed: every started non-starting node needs an
    # incoming signal from a node that completed (ran/true/false) or from a node that failed (failed)
    ok_nodes = [i for i in o["prov"] if i not in failed]
    for m in set(o["prov"]):
        if m in case["starting"]:
            continue
        emitted = lambda i, s: (s == "failed" and i in failed) or (s != "failed" and i in ok_nodes)     # noqa: E731
        by_run = any(t == [m, "run"] and emitted(i, s) for i, nd in enumerate(ns) for s, lst in nd["sig"].items() for t in lst)
        acc_src = [(i, s) for i, nd in enumerate(ns) for s, lst in nd["sig"].items() for t in lst if t == [m, "acc"]]
        # the all-of trigger needs EVERY one of its sources to have emitted in this run
        by_acc = bool(acc_src) and all(emitted(i, s) for i, s in acc_src)
        legit = by_run or by_acc
        if not legit:
            return f"ran-after-failure: n{m} executed although nothing that could trigger it completed"
    return None


# =========================================================================== free family (hand-wired flow without any parent)
def gen_free(rng):
    c = gen_flow(rng)
    return {"fam": "free", "nodes": c["nodes"], "starting": c["starting"], "suppress": False}


def _build_free(case, healthy):
    ch = []
    for i, nd in enumerate(case["nodes"]):
        kw = {"tag": i, "k": nd["kind"][1]}
        for j, inp in enumerate(nd["ins"]):
            if inp["init"] is not None:
                kw[nodes.ARG[j]] = abs(inp["init"]) if healthy else inp["init"]
        node = CHK[len(nd["ins"])](label=f"n{i}", **kw)
        node.recovery = None
        node.use_cache = False
        ch.append(node)
    for i, nd in enumerate(case["nodes"]):
        for j, inp in enumerate(nd["ins"]):
            for u in reversed(inp["conns"]):
                ch[i].inputs[nodes.ARG[j]].connect(ch[u].outputs.y)
        for sname, lst in nd["sig"].items():
            out = ch[i].signals.output[sname]
            for (m, mode) in reversed(lst):
                out.connect(ch[m].signals.input.run if mode == "run" else ch[m].signals.input.accumulate_and_run)
    return ch


def run_free(case):
    """the same hand-wired graph as the flow family, but the nodes have no parent: signals are delivered by direct calls
    (depth first), and the caller of the outermost run is whoever runs a starting node.  Every starting node is run in turn.
    A healthy copy of the graph (same labels, no failing argument) is run to the end first and thrown away: what one flow
    heard must not count for another."""
    from pyiron_workflow.mixin.run import ReadinessError
    nodes.reset()
    old = _signal.signal(_signal.SIGALRM, _alarm)
    _signal.alarm(10)
    try:
        pre = _build_free(case, True)
        for st in case["starting"]:
            try:
                pre[st].run()
            except (Exception, _Timeout):
                pass
    finally:
        _signal.alarm(0)
        _signal.signal(_signal.SIGALRM, old)
    nodes.reset()
    ch = _build_free(case, False)
    old = _signal.signal(_signal.SIGALRM, _alarm)
    _signal.alarm(10)
    runs = []
    try:
        for st in case["starting"]:
            n0 = len(nodes.CALLS)
            try:
                ch[st].run()
                v = "ok"
            except nodes.UserExc as e:
                v = ["UserExc", e.tag]
            except ReadinessError:
                v = ["Readiness"]
            except _Timeout:
                return "timeout"
            except RecursionError:
                v = ["Recursion"]
            calls = nodes.CALLS[n0:]
            runs.append({"start": st, "verdict": v, "called": [t for t, a in calls],
                         "raised": [t for t, a in calls if any(x < 0 for x in a)]})
    except _Timeout:
        return "timeout"
    finally:
        _signal.alarm(0)
        _signal.signal(_signal.SIGALRM, old)
    return {"runs": runs, "outs": [_slot(c.outputs.y.value) for c in ch], "failed": [bool(c.failed) for c in ch],
            "running": [bool(c.running) for c in ch], "verdict": "free",
            "raised": sorted({t for r in runs for t in r["raised"]}), "prov": [t for r in runs for t in r["called"]]}


def free_oracle(case, o):
    if o == "timeout":
        return "diverges: run did not terminate"
    ns = case["nodes"]
    failed = [i for i, f in enumerate(o["failed"]) if f]
    if any(o["running"]):
        return "left-running: a node is still running after the run ended"
    if o["raised"] != failed:
        return f"wrong-failed-flags: functions of {o['raised']} raised but nodes {failed} are marked failed"
    for i in failed:
        if o["outs"][i] != "nd":
            return f"output-changed: failing node n{i} has output {o['outs'][i]} although it never completed"
    for r in o["runs"]:
        if r["raised"] and r["verdict"] == "ok":
            return f"swallowed: the function of n{r['raised'][0]} raised but the outermost run (of n{r['start']}) returned normally"
        if r["verdict"] != "ok" and r["verdict"][0] == "UserExc" and r["verdict"][1] not in r["raised"]:
            return "wrong-exception: the propagated exception is not a failing node's"
    called = o["prov"]
    ok_nodes = [i for i in called if i not in failed]
    for m in set(called):
        direct = sum(1 for r in o["runs"] if r["start"] == m)
        if called.count(m) <= direct:
            continue
        emitted = lambda i, s: (s == "failed" and i in failed) or (s != "failed" and i in ok_nodes)     # noqa: E731
        by_run = any(t == [m, "run"] and emitted(i, s) for i, nd in enumerate(ns) for s, lst in nd["sig"].items() for t in lst)
        acc_src = [(i, s) for i, nd in enumerate(ns) for s, lst in nd["sig"].items() for t in lst if t == [m, "acc"]]
        by_acc = bool(acc_src) and all(emitted(i, s) for i, s in acc_src)
        if not (by_run or by_acc):
            return f"ran-after-failure: n{m} executed although nothing that could trigger it completed"
    return None


# =========================================================================== dag family
def gen_dag(rng):
    n = rng.randint(2, 9)
    ns = []
    for i in range(n):
        m = rng.choice([1, 1, 2, 2, 3]) if i else rng.choice([1, 2])
        ins = []
        for _ in range(m):
            if i == 0 or rng.random() < 0.35:
                ins.append(["c", rng.randint(0, 50)])
            else:
                ins.append(["n", rng.sample(range(i), min(i, rng.choice([1, 1, 2])))])
        ns.append({"k": rng.randint(0, 99), "ins": ins, "ex": rng.random() < rng.choice([0.0, 0.4, 0.8])})
    for i in rng.sample(range(n), min(n, rng.choice([1, 1, 2]))):
        j = rng.randrange(len(ns[i]["ins"]))
        ns[i]["ins"][j] = ["c", -rng.randint(1, 9)]
    macro = None
    if rng.random() < 0.3:
        macro = {"x": rng.choice([-2, 13, 4]), "after": rng.randrange(n), "ex": rng.random() < 0.3}
    case = {"fam": "dag", "nodes": ns, "oracle": [rng.randint(0, 7) for _ in range(n + 1)], "macro": macro,
            "suppress": rng.random() < 0.2}
    if rng.random() < 0.3:
        # a second run of the same objects: failed flags cleared, every constant input re-assigned (other nodes fail)
        new = []
        for i, nd in enumerate(ns):
            for j, inp in enumerate(nd["ins"]):
                if inp[0] == "c":
                    new.append([i, j, rng.randint(0, 50)])
        for t in rng.sample(new, min(len(new), rng.choice([1, 1, 2]))):
            t[2] = -rng.randint(1, 9)
        case["rerun"] = {"consts": new, "oracle": [rng.randint(0, 7) for _ in range(n + 1)]}
    r = rng.random()
    if r < 0.25:
        # completion moments other than the parent's idle poll: while a LOCAL sibling's function executes (k > 0: the
        # k-th outstanding job comes home at that call) ...
        case["during"] = [rng.choice([0, 1, 1, 2, 3]) for _ in range(rng.randint(2, 8))]
    elif r < 0.35:
        case["sync"] = True     # ... or inside submit() itself (a future that is already done when it is handed back)
    return case


def run_dag(case):
    from pyiron_workflow import Workflow
    from pyiron_workflow.mixin.run import ReadinessError
    from pyiron_workflow.nodes.composite import FailedChildError
    nodes.reset()
    wf = Workflow("wf")
    wf.recovery = None
    ex = nodes.SyncExecutor() if case.get("sync") else nodes.ManualExecutor()
    ch = []
    for i, nd in enumerate(case["nodes"]):
        kw = {"tag": i, "k": nd["k"]}
        for j, inp in enumerate(nd["ins"]):
            if inp[0] == "c":
                kw[nodes.ARG[j]] = inp[1]
        node = CHK[len(nd["ins"])](label=f"n{i}", **kw)
        wf.add_child(node)
        ch.append(node)
        for j, inp in enumerate(nd["ins"]):
            if inp[0] == "n":
                for u in reversed(inp[1]):
                    node.inputs[nodes.ARG[j]].connect(ch[u].outputs.y)
        if nd["ex"]:
            node.executor = ex
    mac = None
    if case["macro"]:
        mac = FM(label="mac", x=case["macro"]["x"])
        wf.add_child(mac)
        # the macro also waits for a regular node (data dependency through an extra input would change FM; use signals' data: none)
        if case["macro"]["ex"]:
            mac.executor = ex
    everyone = ch + ([mac] if mac else [])
    oracle = list(case["oracle"])
    rr = case.get("rerun")
    prev_outs = None
    if rr:
        # history prefix: a first run (whatever its end), flags cleared, constants re-assigned
        o1 = list(case["oracle"])

        def hook1():
            outs = [i for i, c in enumerate(everyone) if c.running and c.future is not None and not c.future.done()]
            if not outs:
                return False
            ex.complete(everyone[outs[(o1.pop(0) if o1 else 0) % len(outs)]].future)
            return True
        with nodes.poll_hook(hook1):
            try:
                wf.run(raise_run_exceptions=not case["suppress"])
            except BaseException as e:      # noqa
                if isinstance(e, (KeyboardInterrupt, SystemExit)):
                    raise
        for c in everyone:
            if c.future is not None and not c.future.done():
                ex.complete(c.future)
        for c in [wf] + everyone + (list(mac) if mac else []):
            c.failed = False
            c.running = False
        for i, j, v in rr["consts"]:
            ch[i].inputs[nodes.ARG[j]].value = v
        prev_outs = [_slot(c.outputs[c.outputs.labels[0]].value) for c in everyone]
        nodes.reset()
        oracle = list(rr["oracle"])

    def hook():
        outs = [i for i, c in enumerate(everyone) if c.running and c.future is not None and not c.future.done()]
        if not outs:
            return False
        k = oracle.pop(0) if oracle else 0
        ex.complete(everyone[outs[k % len(outs)]].future)
        return True
    during = list(case.get("during") or [])
    busy = [False]

    def on_call(tag):
        # a local child's function starts executing: the scenario may let an outstanding job come home right now
        if busy[0] or not during:
            return
        k = during.pop(0)
        outs = [i for i, c in enumerate(everyone) if c.running and c.future is not None and not c.future.done()]
        if k and outs:
            busy[0] = True
            try:
                ex.complete(everyone[outs[(k - 1) % len(outs)]].future)
            finally:
                busy[0] = False
    if during:
        nodes.ON_CALL.append(on_call)
    exc = None
    verdict = "ok"
    with nodes.poll_hook(hook):
        try:
            if case["suppress"]:
                wf.run(raise_run_exceptions=False)
            else:
                wf.run()
        except nodes.UserExc as e:
            verdict, exc = ["UserExc", e.tag], e
        except ReadinessError as e:
            verdict, exc = ["Readiness"], e
        except FailedChildError as e:
            verdict, exc = ["FailedChild", e.__cause__ is not None], e
        except RuntimeError as e:
            verdict, exc = ["RuntimeError", str(e)[:60]], e
    pending = [i for i, c in enumerate(everyone) if c.future is not None and not c.future.done()]
    obs = {"verdict": verdict, "chain": nodes.exc_kind(exc) if exc is not None else [],
           "failed": [bool(c.failed) for c in everyone], "running": [bool(c.running) for c in everyone],
           "outs": [_slot(c.outputs[c.outputs.labels[0]].value) for c in everyone],
           "wf": [bool(wf.failed), bool(wf.running)], "pending_jobs": pending,
           "raised": sorted({t for t, a in nodes.CALLS if any(x < 0 for x in a)}),
           "called": sorted({t for t, a in nodes.CALLS}),
           "mac_children": ([[bool(c.failed), bool(c.running)] for c in mac] if mac else []),
           "prev_outs": prev_outs}
    # let outstanding jobs finish so that nothing leaks into the next case
    nodes.ON_CALL.clear()
    for c in everyone:
        if c.future is not None and not c.future.done():
            ex.complete(c.future)
    return obs


def dag_oracle(case, o):
    ns = case["nodes"]
    n = len(ns)
    fails = o["raised"]
    if not fails:
        return None if o["verdict"] == "ok" else f"spurious-error: nothing raised but run ended {o['verdict']}"
    if isinstance(o["verdict"], list) and o["verdict"][0] == "RuntimeError":
        return ("hang: the composite kept waiting although no job was outstanding (a finished child is still "
                f"registered as running): {o['verdict'][1]}")
    if any(o["running"]) or o["wf"][1] or o["pending_jobs"]:
        return "left-running: a node is still running (or a job still out) after the outermost run ended"
    reg_fails = [t for t in fails if t < 100]
    marked = [i for i in range(n) if o["failed"][i]]
    if marked != reg_fails:
        return f"wrong-failed-flags: functions of {reg_fails} raised but nodes {marked} are marked failed"
    for i in marked:
        before = o["prev_outs"][i] if o.get("prev_outs") else "nd"
        if o["outs"][i] != before:
            return f"output-changed: failing node n{i} has output {o['outs'][i]}, before its run it held {before}"
    if case["macro"] and any(t >= 100 for t in fails):
        if not o["failed"][n]:
            return "parent-not-failed: a child of the nested macro failed but the macro is not marked failed"
    if not o["wf"][0]:
        return "parent-not-failed: a child failed but the workflow is not marked failed"
    if not case["suppress"]:
        if o["verdict"] == "ok":
            return "swallowed: a child failed but run() returned normally"
        tags = [c[1] for c in o["chain"] if c[0] == "UserExc"]
        if o["verdict"][0] in ("UserExc", "FailedChild") and (o["verdict"] == ["FailedChild", True] or o["verdict"][0] == "UserExc"):
            if not tags or tags[-1] not in fails:
                return "cause-lost: the error that reached the caller does not carry the original exception"
    # no node downstream (through data) of a failed node was called
    down = set()
    for i in range(n):
        ups = {u for inp in ns[i]["ins"] if inp[0] == "n" for u in inp[1]}
        if ups & (set(marked) | down):
            down.add(i)
    bad = sorted(down & set(o["called"]))
    if bad:
        return f"ran-after-failure: {['n%d' % i for i in bad]} executed although an upstream node failed"
    return None


def _exec_failure(case, o):
    """cause predicate of S6: some failing child (or the macro containing it) was out on an executor"""
    ns = case["nodes"]
    for t in o["raised"]:
        if t < 100 and ns[t]["ex"]:
            return True
        if t >= 100 and case["macro"] and case["macro"]["ex"]:
            return True
    return False


def _start_failure_with_jobs_out(case, o):
    """cause predicate of S26: a local child raised during the starting phase while an executor sibling was out"""
    direct = isinstance(o["verdict"], list) and o["verdict"][0] in ("UserExc", "Readiness") or \
        (case["suppress"] and o["verdict"] == "ok")
    # exactly the S26 pattern: everything still marked running is a sibling whose job is genuinely still out, and
    # some LOCAL child raised (a job that came back -- failed or not -- and is still marked running is not S26)
    n = len(case["nodes"])
    still = [i for i, r in enumerate(o["running"]) if r]
    local_raise = any((t < 100 and not case["nodes"][t]["ex"]) or (t >= 100 and not case["macro"]["ex"]) for t in o["raised"])
    return bool(direct) and local_raise and bool(o["pending_jobs"]) and all(i in o["pending_jobs"] for i in still)


# =========================================================================== If-switch failing with a stale truth value
class BadBool:
    """a value whose truth cannot be evaluated (like an array with several elements): bool() raises"""
    def __bool__(self):
        raise ValueError("the truth value is ambiguous")


from pyiron_workflow.nodes.function import as_function_node as _afn  # noqa: E402


@_afn("y")
def IfSrc(x):
    return BadBool() if x < 0 else x


def run_iffail(case):
    """src -> If -> (true: a | false: b); the runs listed in case['xs'] one after the other on the same objects; a
    negative x makes the If node's evaluation RAISE -- it holds a truth value from the previous run at that moment"""
    from pyiron_workflow import Workflow
    from pyiron_workflow.nodes.standard import If
    nodes.reset()
    wf = Workflow("wf", automate_execution=False)
    wf.recovery = None
    wf.src = IfSrc(x=0)
    wf.sw = If(condition=wf.src)
    wf.a = nodes.Lin0(tag=1, k=1)
    wf.b = nodes.Lin0(tag=2, k=2)
    wf.src >> wf.sw
    wf.sw.signals.output.true >> wf.a.signals.input.run
    wf.sw.signals.output.false >> wf.b.signals.input.run
    wf.starting_nodes = [wf.src]
    runs = []
    for x in case["xs"]:
        for n in (wf, wf.src, wf.sw, wf.a, wf.b):
            n.failed = False
        wf.src.inputs.x.value = x
        try:
            wf.run()
            end = "ok"
        except Exception as e:      # noqa: BLE001
            end = nodes.exc_kind(e)
        runs.append([x, end, list(wf.provenance_by_execution), bool(wf.sw.failed), bool(wf.failed)])
    return {"runs": runs}


def iffail_oracle(case, o):
    if not isinstance(o, dict):
        return f"crash: {o}"
    for x, end, prov, swf, wff in o["runs"]:
        if x < 0:
            if not swf or not wff:
                return "wrong-failed-flags: the If node's evaluation raised but it / the workflow is not marked failed"
            if end == "ok":
                return "swallowed: the If node failed but run() returned normally"
            if "a" in prov or "b" in prov:
                return (f"ran-after-failure: {[n for n in prov if n in ('a', 'b')]} executed in the run in which the If node "
                        f"FAILED (it emitted a branch signal from the truth value of an earlier run)")
        else:
            want = "a" if x else "b"
            if end != "ok" or [n for n in prov if n in ("a", "b")] != [want]:
                return f"wrong-branch: x={x} ended {end} with {prov}"
    return None


# =========================================================================== framework API
def generate(ctx):
    rng = ctx.rng
    out = [gen_flow(rng) for _ in range(ctx.n(450, 5000))] + [gen_dag(rng) for _ in range(ctx.n(300, 4000))]
    out += [gen_free(rng) for _ in range(ctx.n(150, 1500))]
    for _ in range(ctx.n(12, 60)):
        out.append({"fam": "iffail", "xs": [rng.choice([0, 1, 5, -1, -1]) for _ in range(rng.randint(1, 5))], "suppress": False})
    out += [gen_flow_rerun(rng) for _ in range(ctx.n(250, 2500))]
    return out


def corpus(ctx):
    import json
    out = []
    for p in sorted((lib.VERIF / "corpus" / PROP).glob("*.json")):
        out.extend(json.loads(p.read_text()))
    return out


def run_impl(case):
    if case["fam"] == "iffail":
        return run_iffail(case)
    if case["fam"] == "free":
        return run_free(case)
    return run_flow(case) if case["fam"] == "flow" else run_dag(case)


def free_view(case, o):
    if not isinstance(o, dict):
        return o
    vs = [r["verdict"] if isinstance(r["verdict"], str) or r["verdict"][0] != "Readiness" else ["Readiness"] for r in o["runs"]]
    return [vs, o["prov"], o["outs"], o["failed"]]


def model_view(case, obs):
    if case["fam"] == "free":
        return free_view(case, obs)
    return flow_view(case, obs) if case["fam"] == "flow" else obs


def _has_interrupt(case):
    return any(inp["init"] == -6 for nd in case["nodes"] for inp in nd["ins"])


def model_term(case):
    if case["fam"] == "free":
        return f"obs_free {flow_coq(case)} {cn(FUEL)} {cl(cn(i) for i in case['starting'])}"
    if case["fam"] != "flow" or _has_interrupt(case) or case.get("prelude"):     # re-run histories: oracle only
        # a KeyboardInterrupt is not collected by the composite's loop (it leaves at once): oracle only
        return None
    return flow_term(case)


def oracle(case, obs):
    if not isinstance(obs, dict) and obs != "timeout":
        return f"crash: {obs}"
    if case["fam"] == "iffail":
        return iffail_oracle(case, obs)
    if case["fam"] == "free":
        return free_oracle(case, obs)
    return flow_oracle(case, obs) if case["fam"] == "flow" else dag_oracle(case, obs)


def _retriggered_failure(case, o):
    """cause predicate of S27: failure handlers exist (a `failed` signal is wired) and the error that reached the caller is the
    ReadinessError of a failed node triggered again, which replaced the original exception under the same receiver key"""
    return o["verdict"] == ["FailedChild", True] and len(o["chain"]) >= 2 and o["chain"][1] == ["ReadinessError"] and bool(o["raised"])


def known(case, obs, verdict):
    if case["fam"] == "dag" and isinstance(obs, dict):
        sig = verdict.split(":")[0]
    return None


def nontrivial(case, obs):
    if not isinstance(obs, dict):
        return False
    if case["fam"] == "iffail":
        return any(x < 0 for x in case["xs"]) and any(x >= 0 for x in case["xs"])
    if case["fam"] in ("flow", "free"):
        return any(obs["failed"]) and len(obs["prov"]) >= 2
    return bool(obs["raised"]) and len(obs["called"]) >= 2


def key(case):
    return case


def shrink_candidates(case):
    if case["fam"] == "iffail":
        for i in range(len(case["xs"])):
            yield dict(case, xs=case["xs"][:i] + case["xs"][i + 1:])
        return
    if case["fam"] in ("flow", "free"):
        ns = case["nodes"]
        for i, nd in enumerate(ns):
            for s, lst in nd["sig"].items():
                for j in range(len(lst)):
                    new = [dict(x, sig={a: list(b) for a, b in x["sig"].items()}) for x in ns]
                    del new[i]["sig"][s][j]
                    yield dict(case, nodes=new)
        if case["suppress"]:
            yield dict(case, suppress=False)
        if len(case["starting"]) > 1:
            for i in range(len(case["starting"])):
                yield dict(case, starting=case["starting"][:i] + case["starting"][i + 1:])
    else:
        if case["macro"]:
            yield dict(case, macro=None)
        for i, nd in enumerate(case["nodes"]):
            if nd["ex"]:
                new = [dict(x) for x in case["nodes"]]
                new[i]["ex"] = False
                yield dict(case, nodes=new)


def distribution(results):
    d = {"flow": 0, "dag": 0, "iffail": 0, "free": 0, "suppressed": 0, "verdicts": {}, "failing_nodes": 0, "executor_failures": 0, "macro_failures": 0}
    for c, enc, v, o in results:
        d[c["fam"]] += 1
        d["suppressed"] += bool(c["suppress"])
        if c["fam"] == "iffail":
            continue
        if isinstance(o, dict):
            k = o["verdict"] if isinstance(o["verdict"], str) else o["verdict"][0]
            if c["fam"] == "free":
                k = "free:" + ",".join(sorted({r["verdict"] if isinstance(r["verdict"], str) else r["verdict"][0] for r in o["runs"]}))
            d["verdicts"][k] = d["verdicts"].get(k, 0) + 1
            d["failing_nodes"] += len(o["raised"])
            if c["fam"] == "dag":
                d["executor_failures"] += _exec_failure(c, o)
                d["macro_failures"] += any(t >= 100 for t in o["raised"])
    return d
