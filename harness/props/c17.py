"""C17 -- node classes faithfully wrap their definitions.

Families of cases, all run on the REAL library:
  fn        a python function whose SOURCE TEXT is generated from a signature description into a module
            file under build/c17_gen/ (so that inspect.signature / inspect.getsource / ast run on real
            source), wrapped by as_function_node(...)(f), `@as_function_node(...)` in the source, or
            function_node(f, ...); constructed with one positional/keyword split, then called with others
  tolist / todict / toframe / fromlist   the transformer factories, through the public constructor
            function or through the factory-made class
  dc        dataclass nodes from generated dataclass source (defaults, default factories, required
            fields, plain or postponed annotations)

Oracle (independent of the Coq model): python itself -- inspect.Signature.bind_partial of the definition
for the binding, the bare function / the dataclass's own constructor / pandas.DataFrame(rows) for the
value, the description for labels, defaults and hints.
Model = coq/theories/Wrap.v evaluated on the same description (Wrap.oscenario).
"""
from __future__ import annotations

import dataclasses
import hashlib
import importlib.util
import inspect
import itertools
import json
import sys
import time
import types
import typing

from harness import lib
from harness.lib import cb, cl, cn, cs, cz

PROP = "C17"
IMPORTS = "Base Wrap"
RULE = ("fn: generated source for signatures of 0-5 parameters (defaults on a suffix; annotations int/str/None/"
        "X|Y/typing.Union/Optional/list/tuple), bodies without return / `return` / `return None` / one "
        "expression / tuples of 1-3 expressions (nested, odd spacing, broken over lines) / two return "
        "statements, return annotations, declared vs scraped labels (right and wrong counts, duplicates), "
        "validation on/off, three ways of wrapping; every case = one construction split + 1-3 call splits "
        "(positional prefix + keywords in any order; too many positionals, clashes, unknown keys, values "
        "violating hints, repeated calls); transformers of size 0-6 plus 11, 12 and one size in 20..25 "
        "(two-digit channel indices, distinct value per position); dataclass layouts (required/default/"
        "factory, plain or postponed annotations); hand-written `class f(Function)` / `class f(B)` hierarchies "
        "(derived class overriding node_function, base used before or after it); function objects made by calling ONE generated "
        "factory def several times (same code object, own defaults and closure value), the earlier ones "
        "wrapped first through the same entry point; parameter / returned-variable / "
        "spec names that are also attributes of the IO panels (items, labels, ready, connections, fetch, ...), all "
        "channels observed by ITEM access, a single-output function node fed into a downstream node (oracle only); "
        "defaults whose identity matters (sentinel objects, module-level lists compared with `is`); dataclasses "
        "deriving, undecorated, from a dataclass or a node's .dataclass (added fields, changed defaults); "
        "several transformer nodes made in one process from permuted inputs-to-dict specifications (name lists and full specs) or at "
        "neighbouring sizes, each checked against its own specification. Non-trivial = at least one step returns a value and the "
        "node has >=1 input; distinct = distinct case JSON")
TRUSTED = ["harness renderer: writes the python source of the described function/dataclass; the fragments it "
           "records for every returned expression are compared with what CPython's ast reports on every case "
           "(a wrong fragment shows up as a model/implementation disagreement on the output labels)",
           "pandas.DataFrame (tables are compared as column -> list)",
           "the downstream wiring of a single-output function node (Ident(v=node)()) is outside the model: it is "
           "checked by the oracle only (model_view strips it from the compared observation)"]
ASSUMPTIONS = ["values are ints, strs, None, tuples, lists, dicts with str keys; no two dict values of one case are "
               "equal up to key order only (python's dict == ignores order, the model's equality does not)",
               "generated functions are pure and total; they do not mutate their arguments",
               "parameters are positional-or-keyword (no variadics, no keyword-only/positional-only markers)",
               "pint.Quantity unwrapping in valid_value and executors are outside this property"]

GEN = lib.BUILD / "c17_gen"
INIT_KEYWORDS = ["self", "args", "label", "parent", "delete_existing_savefiles", "autoload", "autorun",
                 "checkpoint", "kwargs"]
RUN_FLAGS = ["run_data_tree", "run_parent_trees_too", "fetch_input", "check_readiness", "emit_ran_signal"]
RUN_KEYWORDS = RUN_FLAGS + ["raise_run_exceptions"]      # reserved next to __init__'s keywords

# =============================================================================================
# values: ["nd"] ["n"] ["i",z] ["s",str] ["t",[v]] ["l",[v]] ["m",tag,[[k,v]]]


def build_val(v):
    from pyiron_workflow.channels import NOT_DATA
    k = v[0]
    if k == "nd":
        return NOT_DATA
    if k == "n":
        return None
    if k in ("i", "s"):
        return v[1]
    if k == "t":
        return tuple(build_val(x) for x in v[1])
    if k == "l":
        return [build_val(x) for x in v[1]]
    if k == "m":
        return {a: build_val(b) for a, b in v[2]}
    raise ValueError(v)


def sentinel(name):
    """value JSON of the module-level object `name = object()`: an opaque instance known by its name"""
    return ["m", "object", [["id", ["s", name]]]]


def is_sentinel(v):
    return isinstance(v, list) and len(v) == 3 and v[0] == "m" and v[1] == "object"


_SENTINEL_IDS: dict = {}      # id(object) -> name, for the sentinel objects of the loaded modules (kept alive there)


def lit_val(v):
    """python source text of a value"""
    k = v[0]
    if is_sentinel(v):
        return v[2][0][1][1]
    if k == "n":
        return "None"
    if k == "i":
        return repr(v[1])
    if k == "s":
        return '"' + v[1] + '"'
    if k == "t":
        return "(" + ", ".join(lit_val(x) for x in v[1]) + ("," if len(v[1]) == 1 else "") + ")"
    if k == "l":
        return "[" + ", ".join(lit_val(x) for x in v[1]) + "]"
    if k == "m":
        return "{" + ", ".join(f'"{a}": {lit_val(b)}' for a, b in v[2]) + "}"
    raise ValueError(v)


def val_coq(v):
    k = v[0]
    if k == "nd":
        return "VNotData"
    if k == "n":
        return "VNone"
    if k == "i":
        return f"(VInt {cz(v[1])})"
    if k == "s":
        return f"(VStr {cs(v[1])})"
    if k == "t":
        return f"(VTup {cl(val_coq(x) for x in v[1])})"
    if k == "l":
        return f"(VList {cl(val_coq(x) for x in v[1])})"
    if k == "m":
        return f"(VMap {cs(v[1])} " + cl(f"({cs(a)}, {val_coq(b)})" for a, b in v[2]) + ")"
    raise ValueError(v)


def enc_val(o):
    """python object -> value JSON (what both sides print)"""
    from pyiron_snippets.dotdict import DotDict
    from pyiron_workflow.channels import NOT_DATA
    import numbers
    if o is NOT_DATA:
        return ["nd"]
    if o is None:
        return ["n"]
    if type(o) is object:              # by IDENTITY: a copy of a sentinel is not the sentinel
        return sentinel(_SENTINEL_IDS[id(o)]) if id(o) in _SENTINEL_IDS else ["?", "object"]
    if isinstance(o, bool):
        return ["?", "bool"]
    if isinstance(o, numbers.Integral):
        return ["i", int(o)]
    if isinstance(o, str):
        return ["s", o]
    if isinstance(o, tuple):
        return ["t", [enc_val(x) for x in o]]
    if isinstance(o, list):
        return ["l", [enc_val(x) for x in o]]
    if isinstance(o, DotDict):
        return ["m", "DotDict", [[str(k), enc_val(x)] for k, x in o.items()]]
    if isinstance(o, dict):
        return ["m", "dict", [[str(k), enc_val(x)] for k, x in o.items()]]
    if type(o).__name__ == "DataFrame":
        d = o.to_dict("list")
        return ["m", "DataFrame", [[str(k), ["l", [enc_val(x) for x in col]]] for k, col in d.items()]]
    if dataclasses.is_dataclass(o):
        return ["m", type(o).__name__, [[f.name, enc_val(getattr(o, f.name))] for f in dataclasses.fields(o)]]
    return ["?", type(o).__name__]


# ---- hints -------------------------------------------------------------------------------------
# hint JSON: ["u", [atom...], style]  style in plain|pipe|union|optional ; ["t", [[atom...]...]] ; ["x", text]
# annotation JSON: ["none"] (the literal None) or a hint ; absent = None
ATOMS = {"int": int, "str": str, "NoneType": type(None), "list": list, "tuple": tuple, "dict": dict}
ATOM_COQ = {"int": "AInt", "str": "AStr", "NoneType": "ANoneT", "list": "AListT", "tuple": "ATupleT", "dict": "ADictT"}
ATOM_SRC = {"int": "int", "str": "str", "NoneType": "None", "list": "list", "tuple": "tuple", "dict": "dict"}


def atom_coq(a):
    return ATOM_COQ[a] if a in ATOM_COQ else f"(ACls {cs(a)})"


def union_src(atoms, style):
    if len(atoms) == 1:
        return "type(None)" if atoms[0] == "NoneType" else ATOM_SRC[atoms[0]]
    if style == "optional" and len(atoms) == 2 and atoms[1] == "NoneType":
        return f"typing.Optional[{ATOM_SRC[atoms[0]]}]"
    if style == "union":
        return "typing.Union[" + ", ".join(ATOM_SRC[a] for a in atoms) + "]"
    return " | ".join(ATOM_SRC[a] for a in atoms)


def ann_src(a):
    if a[0] == "none":
        return "None"
    if a[0] == "u":
        return union_src(a[1], a[2] if len(a) > 2 else "pipe")
    if a[0] == "t":
        return "tuple[" + ", ".join(union_src(u, "pipe") for u in a[1]) + "]"
    raise ValueError(a)


def hint_coq(h):
    if h[0] == "u":
        return f"(HAtoms {cl(atom_coq(a) for a in h[1])})"
    if h[0] == "t":
        return "(HTuple " + cl(cl(atom_coq(a) for a in u) for u in h[1]) + ")"
    if h[0] == "x":
        return f"(HText {cs(h[1])})"
    raise ValueError(h)


def ann_coq(a):
    return "AnnNone" if a[0] == "none" else f"(AnnH {hint_coq(a)})"


def enc_hint(h):
    """python hint object -> what both sides print: [] | ["u",[names]] | ["t",[[names]]] | ["x",text]"""
    if h is None:
        return []
    if isinstance(h, str):
        return ["x", h]
    if isinstance(h, type):
        return ["u", [h.__name__]]
    org = typing.get_origin(h)
    if isinstance(h, types.UnionType) or org is typing.Union:
        return ["u", [a.__name__ for a in typing.get_args(h)]]
    if org is tuple:
        out = []
        for a in typing.get_args(h):
            e = enc_hint(a)
            out.append(e[1] if e and e[0] == "u" else ["?"])
        return ["t", out]
    return ["?", repr(h)]


def hint_obs_of_ann(a):
    """what the PROPERTY expects a channel to show for an annotation of the description"""
    if a is None:
        return []
    if a[0] == "none":
        return ["u", ["NoneType"]]
    if a[0] == "u":
        return ["u", list(a[1])]
    if a[0] == "t":
        return ["t", [list(u) for u in a[1]]]
    return ["x", a[1]]


def admits_json(h, v):
    """does the value JSON conform to the hint obs (independent re-statement of isinstance/typeguard)"""
    if not h:
        return True
    if h[0] == "x":
        return True
    if h[0] == "u":
        t = {"i": "int", "s": "str", "n": "NoneType", "l": "list", "t": "tuple"}.get(v[0])
        if v[0] == "m":
            t = "dict" if v[1] in ("dict", "DotDict") else v[1]
        return t in h[1]
    if h[0] == "t":
        return v[0] == "t" and len(v[1]) == len(h[1]) and all(admits_json(["u", u], x) for u, x in zip(h[1], v[1]))
    return False


# =============================================================================================
# rendering of function source.  expr: ["p",name] ["c",val] ["t",[expr],sep] ["l",[expr],sep]
SEPS = [", ", ",", ",  ", ",   ", "NL"]


def render_expr(e, indent):
    """-> list of lines: the first without indentation, continuation lines as they stand in the file"""
    k = e[0]
    if k == "p":
        return [e[1]]
    if k == "c":
        return [lit_val(e[1])]
    if k == "k":
        return ["_off"]
    if k == "is":                 # identity against the default object; A and B are one-line expressions
        return [f"{render_expr(e[4], indent)[0]} if {e[1]} is {e[2]} else {render_expr(e[5], indent)[0]}"]
    op, cl_ = ("(", ")") if k == "t" else ("[", "]")
    sep = SEPS[e[2] % len(SEPS)] if len(e) > 2 else ", "
    lines = [op]
    for i, x in enumerate(e[1]):
        sub = render_expr(x, indent + 4)
        if i > 0:
            if sep == "NL":
                lines[-1] += ","
                lines.append(" " * (indent + 4))
            else:
                lines[-1] += sep
        lines[-1] += sub[0]
        lines.extend(sub[1:])
    if k == "t" and len(e[1]) == 1:
        lines[-1] += ","
    lines[-1] += cl_
    return lines


def render_stmt(s, indent):
    """-> (source lines of the statement, list of fragments per returned expression or None)"""
    pad = " " * indent
    if s[0] == "bare":
        return [pad + "return"], None
    if s[0] == "single":
        sub = render_expr(s[1], indent)
        return [pad + "return " + sub[0]] + sub[1:], [sub]
    style = s[2] if len(s) > 2 else 0        # 0: a, b   1: (a, b)   2: (a,\n b)   3: a,  b
    paren = style in (1, 2) or len(s[1]) == 0
    lines = [pad + "return " + ("(" if paren else "")]
    frags = []
    for i, x in enumerate(s[1]):
        sub = render_expr(x, indent + 4)
        if i > 0:
            if style == 2:
                lines[-1] += ","
                lines.append(" " * (indent + 8))
            elif style == 3:
                lines[-1] += ",  "
            else:
                lines[-1] += ", "
        lines[-1] += sub[0]
        lines.extend(sub[1:])
        frags.append(sub)
    if len(s[1]) == 1:
        lines[-1] += ","
    if paren:
        lines[-1] += ")"
    return lines, frags


def canonical_text(e):
    """the returned expression as one would write it (single spaces): the label the property expects"""
    k = e[0]
    if k == "p":
        return e[1]
    if k == "c":
        return lit_val(e[1])
    if k == "k":
        return "_off"
    if k == "is":
        return f"{canonical_text(e[4])} if {e[1]} is {e[2]} else {canonical_text(e[5])}"
    op, cl_ = ("(", ")") if k == "t" else ("[", "]")
    return op + ", ".join(canonical_text(x) for x in e[1]) + ("," if k == "t" and len(e[1]) == 1 else "") + cl_


def class_source(case):
    """hand-written node classes: `class B(Function)` with a node_function staticmethod (the base,
    optional) and `class f(B)` overriding it; -> (source, fragment lists of f's statements)"""
    lines = ["from pyiron_workflow.nodes.function import Function", "import typing", "", ""]
    base = case.get("base")
    objs = []
    chain = ([("B", "Function", base)] if base else []) + [("f", "B" if base else "Function", case)]
    frags = None
    for cname, parent, d in chain:
        src, frags = fn_source({**d, "via": "call", "postponed": False, "nested": False, "base": None})
        fl = src.split("\n")
        k = next(i for i, l in enumerate(fl) if l.startswith("def f("))
        objs += [l for l in fl[:k] if l.startswith(("_S", "_L")) and l not in objs]
        lines.append(f"class {cname}({parent}):")
        if d["declared"]:
            lines.append("    _output_labels = (" + ", ".join(json.dumps(l) for l in d["declared"]) + ",)")
        lines.append(f"    _validate_output_labels = {bool(d['validate'])}")
        lines.append("")
        lines.append("    @staticmethod")
        lines.append("    def node_function(" + fl[k][len("def f("):])
        lines.extend("    " + l if l else l for l in fl[k + 1:])
        lines.append("")
    lines[2:2] = objs
    return "\n".join(lines), frags


def fn_source(case):
    """python source of the described function (named f) and the fragment lists per statement"""
    if case["via"] == "class":
        return class_source(case)
    ps, fac_args, objects = [], [], []
    for p in case["params"]:
        t = p["name"]
        if p.get("ann") is not None:
            t += ": " + ann_src(p["ann"])
        if p.get("default") is not None:
            lit = p.get("by_ref") or lit_val(p["default"])     # a module-level object referred to by name
            if p.get("by_ref"):
                objects.append(f"{p['by_ref']} = {lit_val(p['default'])}")
            elif is_sentinel(p["default"]):
                objects.append(f"{lit} = object()")
            dflt = f"_d{len(fac_args)}" if case.get("factory") else lit
            fac_args.append(lit)
            t += (" = " if p.get("ann") is not None else "=") + dflt
        ps.append(t)
    ret = ""
    if case.get("ret") is not None:
        ret = " -> " + ann_src(case["ret"])
    head = []
    if case.get("postponed"):
        head.append("from __future__ import annotations")
    if case["via"] == "at":
        head.append("from pyiron_workflow import as_function_node")
    head.append("import typing")
    head.extend(objects)
    head.append("")
    head.append("")
    if case["via"] == "at":
        args = [json.dumps(l) for l in (case["declared"] or [])]
        if not case["validate"]:
            args.append("validate_output_labels=False")
        head.append("@as_function_node" + (f"({', '.join(args)})" if args else ""))
    head.append(f"def f({', '.join(ps)}){ret}:")
    body, frags = [], []
    stmts = case["body"]
    if not stmts:
        body.append("    pass")
    for i, s in enumerate(stmts):
        guarded = len(stmts) > 1 and i < len(stmts) - 1
        if guarded:
            first = case["params"][0]["name"] if case["params"] else "None"
            body.append(f"    if {first} is None:")
        lines, fr = render_stmt(s, 8 if guarded else 4)
        body.extend(lines)
        frags.append(fr)
    if case.get("factory"):
        # ONE def statement executed several times: function objects sharing a code object, with their own
        # defaults (`_d0`, ...) and closure cell (`_off`); f is the last one, the others come first
        fac = case["factory"]
        k = max(i for i, l in enumerate(head) if l == "") + 1
        inner = ["    " + l if l else l for l in head[k:] + body]
        formals = ", ".join([f"_d{i}" for i in range(len(fac_args))] + ["_off"])
        calls = ["_make(" + ", ".join([lit_val(v) for v in pr["defaults"]] + [lit_val(pr["off"])]) + ")"
                 for pr in fac["prior"]]
        tail = ["    return f", "", "", "_prior = [" + ", ".join(calls) + "]",
                "f = _make(" + ", ".join(fac_args + [lit_val(fac["off"])]) + ")"]
        return "\n".join(head[:k] + [f"def _make({formals}):"] + inner + tail) + "\n", frags
    if case.get("nested"):
        # the same definition inside a function scope: __qualname__ ("_outer.<locals>.f") differs from __name__
        k = max(i for i, l in enumerate(head) if l == "") + 1
        inner = ["    " + l if l else l for l in head[k:] + body]
        return "\n".join(head[:k] + ["def _outer():"] + inner + ["    return f", "", "", "f = _outer()"]) + "\n", frags
    return "\n".join(head + body) + "\n", frags


def dc_fields(case):
    """the fields of the dataclass the case describes: for a class deriving from a dataclass, python's
    rule -- base fields first, a re-declared field keeps its place, new fields are appended"""
    out = [dict(f) for f in (case.get("parent") or {"fields": []})["fields"]]
    if not case.get("parent"):
        return case["fields"]
    for f in case["fields"]:
        for i, g in enumerate(out):
            if g["name"] == f["name"]:
                out[i] = f
                break
        else:
            out.append(f)
    return out


def _field_lines(fields):
    lines = []
    if not fields:
        lines.append("    pass")
    for f in fields:
        t = f"    {f['name']}: {ann_src(f['type'])}"
        d = f["default"]
        if d[0] == "val":
            t += " = " + lit_val(d[1])
        elif d[0] == "fac":
            t += f" = field(default_factory=lambda: {lit_val(d[1])})"
        lines.append(t)
    return lines


def dc_source(case):
    lines = []
    if case.get("postponed"):
        lines.append("from __future__ import annotations")
    lines += ["import typing", "from dataclasses import dataclass, field", "", ""]
    par = case.get("parent")
    if case["via"] == "at" or (par and par.get("as_node")):
        lines.insert(-2, "from pyiron_workflow.nodes.transform import as_dataclass_node")
    base = ""
    if par:                                 # the base: a real dataclass, or the dataclass of another node
        lines.append("@as_dataclass_node" if par.get("as_node") else "@dataclass")
        lines.append("class P:")
        lines += _field_lines(par["fields"]) + ["", ""]
        base = "(P.dataclass)" if par.get("as_node") else "(P)"
    if case["via"] == "at":
        lines.append("@as_dataclass_node")
    elif case.get("predecorated"):
        lines.append("@dataclass")
    lines.append(f"class {case['name']}{base}:")       # undecorated unless said otherwise
    lines += _field_lines(case["fields"])
    return "\n".join(lines) + "\n"


_MODS: dict = {}


def load_module(src, fresh=False):
    """write the source under build/c17_gen and import it (content-addressed; ImportError -> raise)"""
    h = hashlib.sha1(src.encode()).hexdigest()[:16]
    name = f"c17m_{h}"
    if name in _MODS and not fresh:
        return _MODS[name]
    GEN.mkdir(parents=True, exist_ok=True)
    path = GEN / f"{name}.py"
    if not path.exists() or path.read_text() != src:
        tmp = GEN / f".{name}.{time.time_ns()}.tmp"
        tmp.write_text(src)
        tmp.replace(path)
    spec = importlib.util.spec_from_file_location(name, path)
    mod = importlib.util.module_from_spec(spec)
    sys.modules[name] = mod
    try:
        spec.loader.exec_module(mod)
    except BaseException:
        sys.modules.pop(name, None)
        raise
    for attr, obj in vars(mod).items():
        if attr.startswith("_S") and type(obj) is object:
            _SENTINEL_IDS[id(obj)] = attr
    _MODS[name] = mod
    return mod


# =============================================================================================
# implementation side
def exc_name(e):
    return type(e).__name__


def obs_class(cls):
    pre = cls.preview_io()
    return [[[k, enc_hint(h), enc_val(d)] for k, (h, d) in pre["inputs"].items()],
            [[k, enc_hint(h)] for k, h in pre["outputs"].items()]]


def chan_obs(panel, label):
    """one channel, reached by ITEM access under its label (what copy_io, replace, single-output wiring use)"""
    from pyiron_workflow.channels import DataChannel
    ch = panel[label]
    if not isinstance(ch, DataChannel):
        return [label, ["?", "not a channel"], ["?", type(ch).__name__]]
    return [ch.label, enc_hint(ch.type_hint), enc_val(ch.value)]


def obs_node(n):
    return [[chan_obs(n.inputs, l) for l in n.inputs.labels],
            [chan_obs(n.outputs, l) for l in n.outputs.labels],
            1 if n.failed else 0]


_IDENT_SRC = "def ident(v):\n    w = v\n    return w\n"


def wire_downstream(n):
    """use the node as THE channel of its single output: feed it to a downstream identity node and pull that"""
    from pyiron_workflow.nodes.function import as_function_node
    mod = load_module(_IDENT_SRC)
    if not hasattr(mod, "Ident"):
        mod.Ident = as_function_node("w")(mod.ident)
    try:
        down = mod.Ident(v=n)
        down.recovery = None
        return ["ok", enc_val(down())]
    except Exception as e:
        return ["err", exc_name(e)]


def model_view(case, obs):
    """the part of the observation the model computes: the downstream wiring is checked by the oracle only"""
    if case.get("kind") == "multi" and isinstance(obs, list) and len(obs) == len(case["cases"]):
        return [model_view(c, o) for c, o in zip(case["cases"], obs)]
    if isinstance(obs, list) and obs and isinstance(obs[-1], list) and obs[-1] and obs[-1][0] == "wire":
        return obs[:-1]
    return obs


def split_args(op):
    pos = [build_val(v) for v in op[0]]
    kw = {k: build_val(v) for k, v in op[1]}
    return pos, kw


def drive(make_class, make_instance, ops, wire=False):
    """the scenario shape shared by all families (mirrors Wrap.oscenario)"""
    import warnings
    with warnings.catch_warnings():
        warnings.simplefilter("ignore")
        try:
            cls = make_class()
            cobs = obs_class(cls)
        except Exception as e:
            return [["err", exc_name(e)]]
        pos, kw = split_args(ops[0])
        try:
            n = make_instance(cls, pos, kw)
            n.recovery = None          # no recovery files for failing runs
        except Exception as e:
            return [["ok", cobs], ["err", exc_name(e)]]
        out = [["ok", cobs], ["ok", obs_node(n)]]
        for op in ops[1:]:
            pos, kw = split_args(op)
            try:
                r = ["ok", enc_val(n(*pos, **kw))]
            except Exception as e:
                r = ["err", exc_name(e)]
            out.append([r, obs_node(n)])
        if wire and len(out) > 2 and out[-1][0][0] == "ok" and len(n.outputs.labels) == 1:
            out.append(["wire", wire_downstream(n)])
        return out


def fn_objects(case):
    """(bare function, class maker, instance maker) for a fn case"""
    from pyiron_workflow.nodes.function import as_function_node, function_node
    src, _ = fn_source(case)
    labels = case["declared"] or []
    kwargs = {} if case["validate"] else {"validate_output_labels": False}

    class WrappedOtherFunction(Exception):
        pass

    def wrap_priors(how):
        from pyiron_workflow.nodes.function import to_function_node
        for pf in getattr(load_module(src), "_prior", []):
            try:
                if how == "function_node":
                    function_node(pf, output_labels=tuple(labels) or None, **kwargs).recovery = None
                elif how == "to":
                    to_function_node("f", pf, *labels, **kwargs)
                else:
                    as_function_node(*labels, **kwargs)(pf)
            except Exception:
                pass

    def same_function(cls):
        if cls.node_function is not load_module(src).f:
            raise WrappedOtherFunction()
        return cls

    if case["via"] == "at":
        def make_class():
            return load_module(src).f
    elif case["via"] == "class":
        def make_class():
            mod = load_module(src, fresh=True)       # fresh class objects: previews are memoised on them
            if case.get("base") and case.get("base_first"):
                try:                                  # the base class is used first
                    mod.B.preview_io()
                    mod.B().recovery = None
                except Exception:
                    pass
            return mod.f
    elif case["via"] == "to":
        def make_class():
            from pyiron_workflow.nodes.function import to_function_node
            wrap_priors("to")
            return same_function(to_function_node("f", load_module(src).f, *labels, **kwargs))
    else:
        def make_class():
            wrap_priors("call")
            return same_function(as_function_node(*labels, **kwargs)(load_module(src).f))

    if case["via"] == "function_node":
        def make_instance(cls, pos, kw):
            from pyiron_workflow.nodes.function import function_node_factory
            function_node_factory.clear()          # forget the class made for the class-level observation
            wrap_priors("function_node")
            n = function_node(load_module(src).f, *pos, output_labels=tuple(labels) or None, **kwargs, **kw)
            same_function(type(n))                 # the node wraps the function it was given
            return n
    else:
        def make_instance(cls, pos, kw):
            return cls(*pos, **kw)

    class DefaultObjectNotCarried(Exception):
        pass

    def checked_instance(cls, pos, kw):
        """the input of a parameter left alone holds the parameter's default OBJECT (identity, not equality),
        and so does the class-level preview"""
        n = make_instance(cls, pos, kw)
        bare = type(n).node_function
        pre = type(n).preview_inputs()
        for i, (name, prm) in enumerate(inspect.signature(bare).parameters.items()):
            if prm.default is inspect.Parameter.empty:
                continue
            if pre[name][1] is not prm.default:
                raise DefaultObjectNotCarried(name)
            if i >= len(pos) and name not in kw and n.inputs[name].value is not prm.default:
                raise DefaultObjectNotCarried(name)
        return n
    return make_class, checked_instance


def tf_objects(case):
    from pyiron_workflow.channels import NOT_DATA
    from pyiron_workflow.nodes import transform as T
    k = case["kind"]
    fun = case["via"] == "function"
    if k == "tolist":
        return (lambda: T.inputs_to_list_factory(case["n"])), \
            (lambda cls, pos, kw: T.inputs_to_list(case["n"], *pos, **kw) if fun else cls(*pos, **kw))
    if k == "fromlist":
        return (lambda: T.list_to_outputs_factory(case["n"])), \
            (lambda cls, pos, kw: T.list_to_outputs(case["n"], *pos, **kw) if fun else cls(*pos, **kw))
    if k == "toframe":
        return (lambda: T.inputs_to_dataframe_factory(case["n"])), \
            (lambda cls, pos, kw: T.inputs_to_dataframe(case["n"], *pos, **kw) if fun else cls(*pos, **kw))
    if k == "todict":
        def spec():
            s = case["spec"]
            if s[0] == "names":
                return list(s[1])
            return {name: (hint_obj(h), build_val(d)) for name, h, d in s[1]}
        # an unhashable default needs an explicit class name suffix (documented)
        suffix = None if '"l"' not in json.dumps(case["spec"]) and '"m"' not in json.dumps(case["spec"]) else \
            "U" + hashlib.sha1(json.dumps(case["spec"]).encode()).hexdigest()[:10]
        return (lambda: T.inputs_to_dict_factory(spec(), suffix)), \
            (lambda cls, pos, kw: T.inputs_to_dict(spec(), *pos, class_name_suffix=suffix, **kw)
             if fun else cls(*pos, **kw))
    raise ValueError(k)


def hint_obj(h):
    if h is None:
        return None
    if h[0] == "u":
        parts = [ATOMS[a] for a in h[1]]
        r = parts[0]
        for p in parts[1:]:
            r = r | p
        return r
    if h[0] == "t":
        return tuple[tuple(hint_obj(["u", u]) for u in h[1])]
    raise ValueError(h)


def dc_objects(case):
    from pyiron_workflow.nodes import transform as T
    src = dc_source(case)
    name = case["name"]

    def make_class():
        T.dataclass_node_factory.clear(name)
        if case["via"] == "at":
            return getattr(load_module(src), name)
        # a fresh module object each time: as_dataclass mutates the class it is given
        return T.as_dataclass_node(getattr(load_module(src, fresh=True), name))

    def make_instance(cls, pos, kw):
        if case["via"] == "function":
            T.dataclass_node_factory.clear(name)
            return T.dataclass_node(getattr(load_module(src, fresh=True), name), *pos, **kw)
        return cls(*pos, **kw)
    return make_class, make_instance


def _clear_registries():
    """every case starts from empty transformer class registries, so that it does not depend on the cases
    that ran before it in this process (inputs_to_dict names its classes by a hash of the specification)"""
    from pyiron_workflow.nodes import transform as T
    from pyiron_workflow.nodes.function import function_node_factory
    for fac in (T.inputs_to_dict_factory, T.inputs_to_list_factory, T.list_to_outputs_factory,
                T.inputs_to_dataframe_factory, function_node_factory):
        fac.clear()


def _run_one(case):
    k = case["kind"]
    if k == "fn":
        mk, inst = fn_objects(case)
    elif k == "dc":
        mk, inst = dc_objects(case)
    else:
        mk, inst = tf_objects(case)
    return drive(mk, inst, case["ops"], wire=(k == "fn"))


def run_impl(case):
    _clear_registries()
    if case["kind"] == "multi":     # several nodes made one after the other in one process
        return [_run_one(c) for c in case["cases"]]
    return _run_one(case)


# =============================================================================================
# model side
def expr_coq(e):
    k = e[0]
    if k == "p":
        return f"(EParam {cs(e[1])})"
    if k in ("c", "k"):       # a closure cell is a constant of the function object that is wrapped
        return f"(EConst {val_coq(e[1])})"
    if k == "is":
        return f"(EIs {cs(e[1])} {val_coq(e[3])} {expr_coq(e[4])} {expr_coq(e[5])})"
    return f"({'ETup' if k == 't' else 'ELst'} {cl(expr_coq(x) for x in e[1])})"


def rsrc_coq(e, frags):
    return "{| r_frags := " + cl(cs(f) for f in frags) + f"; r_expr := {expr_coq(e)} |}}"


def stmt_coq(s, frags):
    if s[0] == "bare":
        return "RBare"
    if s[0] == "single":
        return f"(RSingle {rsrc_coq(s[1], frags[0])})"
    return "(RTuple " + cl(rsrc_coq(e, f) for e, f in zip(s[1], frags)) + ")"


def ops_coq(ops):
    return cl("(" + cl(val_coq(v) for v in pos) + ", " + cl(f"({cs(k)}, {val_coq(v)})" for k, v in kw) + ")"
              for pos, kw in ops)


def opt(x, f):
    return "None" if x is None else f"(Some {f(x)})"


def fdesc_coq(case):
    _, frags = fn_source(case)
    ps = cl("{| p_name := " + cs(p["name"]) + "; p_default := " + opt(p.get("default"), val_coq) +
            "; p_ann := " + opt(p.get("ann"), ann_coq) + " |}" for p in case["params"])
    body = cl(stmt_coq(s, f) for s, f in zip(case["body"], frags))
    r = case.get("ret")
    if r is None:
        ret = "None"
    elif r[0] == "t":
        ret = "(Some (RTupAnn " + cl(cl(atom_coq(a) for a in u) for u in r[1]) + "))"
    else:
        ret = f"(Some (RAnn {ann_coq(r)}))"
    dec = opt(case["declared"], lambda l: cl(cs(x) for x in l))
    return ("{| f_params := " + ps + "; f_body := " + body + "; f_ret := " + ret + "; f_declared := " + dec +
            "; f_validate := " + cb(case["validate"]) + " |}")


def strings_ok(x):
    if isinstance(x, str):
        return all(32 <= ord(c) < 127 for c in x)
    if isinstance(x, (list, tuple)):
        return all(strings_ok(e) for e in x)
    if isinstance(x, dict):
        return all(strings_ok(k) and strings_ok(v) for k, v in x.items())
    return True


def model_term(case):
    if not strings_ok(case):
        return None
    k = case["kind"]
    if k == "multi":
        subs = [model_term(c) for c in case["cases"]]
        return None if any(t is None for t in subs) else "(OL " + cl(subs) + ")"
    pos0, kw0 = case["ops"][0]
    kw0c = cl(f"({cs(a)}, {val_coq(b)})" for a, b in kw0)
    pos0c = cl(val_coq(v) for v in pos0)
    rest = ops_coq(case["ops"][1:])
    if k == "fn" and case["via"] == "class" and case.get("base"):
        b = fdesc_coq({**case["base"], "via": "call"})
        d = fdesc_coq(case)
        return (f"(let d := derive {cb(bool(case.get('base_first')))} {b} {d} in oscenario (sem_of d) "
                f"(function_class d) (fun k => instantiate k {pos0c} {kw0c}) {rest})")
    if k == "fn":
        d = fdesc_coq(case)
        return f"(let d := {d} in oscenario (sem_of d) (function_class d) (fun k => instantiate k {pos0c} {kw0c}) {rest})"
    none = "(fun _ => VNone)"
    if k in ("tolist", "fromlist"):
        c = ("to_list_class" if k == "tolist" else "from_list_class") + f" {cn(case['n'])}"
        return f"(oscenario {none} (Ok ({c})) (fun k => instantiate k {pos0c} {kw0c}) {rest})"
    if k == "todict":
        s = case["spec"]
        if s[0] == "names":
            sp = f"(SNames {cl(cs(x) for x in s[1])})"
        else:
            sp = "(SFull " + cl(f"({cs(n)}, ({opt(h, hint_coq)}, {val_coq(d)}))" for n, h, d in s[1]) + ")"
        return f"(oscenario {none} (Ok (to_dict_class {sp})) (fun k => instantiate k {pos0c} {kw0c}) {rest})"
    if k == "toframe":
        return (f"(oscenario {none} (Ok (to_frame_class {cn(case['n'])} true)) "
                f"(fun k => instantiate k {pos0c} {kw0c}) {rest})")
    if k == "dc":
        def fields_coq(fields):
            fs = []
            for f in fields:
                d = f["default"]
                dd = "FRequired" if d[0] == "req" else f"({'FDefault' if d[0] == 'val' else 'FFactory'} {val_coq(d[1])})"
                t = hint_coq(f["type"])      # postponed annotations are resolved (typing.get_type_hints)
                fs.append("{| fd_name := " + cs(f["name"]) + f"; fd_type := {t}; fd_default := {dd} |}}")
            return cl(fs)
        fl = fields_coq(case["fields"])
        if case.get("parent"):
            fl = f"(merge_fields {fields_coq(case['parent']['fields'])} {fl})"
        d = "{| dc_name := " + cs(case["name"]) + "; dc_fields := " + fl + " |}"
        return f"(oscenario {none} (dataclass_class {d} true) (fun k => instantiate k {pos0c} {kw0c}) {rest})"
    return None


# =============================================================================================
# the property, checked on the implementation's observation with python's own machinery
def expected_labels(case):
    """the labels the property demands when they are scraped: every returned expression as written,
    white-space runs (including line breaks) collapsed to one blank; None = nothing is returned"""
    import re
    body = case["body"]
    if len(body) > 1:
        return None
    if not body or body[0][0] == "bare" or (body[0][0] == "single" and body[0][1] == ["c", ["n"]]):
        return None
    _, frags = fn_source(case)
    return [re.sub(r"\s+", " ", "\n".join(f)) for f in frags[0]]


def declared_of(case):
    """the labels the definition declares: its own `_output_labels`, else (a python class attribute)
    the ones its base class declares"""
    if case["declared"] is not None or not case.get("base"):
        return case["declared"]
    return case["base"]["declared"]


def fn_class_expectation(case):
    """'ok' / 'reject' / 'any' for class creation, by the property's reading of the definition"""
    if any(p["name"] in INIT_KEYWORDS + RUN_KEYWORDS for p in case["params"]):
        return "reject"                       # documented restriction on argument names
    multi = len(case["body"]) > 1
    dec = declared_of(case)
    if multi and (case["validate"] or dec is None):
        return "reject"
    scraped = None if multi else expected_labels(case)
    labels = dec if dec is not None else scraped
    if case["validate"]:
        if labels is not None and len(set(labels)) != len(labels):
            return "reject"
        if (dec is None) != (scraped is None) and dec is not None:
            return "reject"
        if dec is not None and scraped is not None and len(dec) != len(scraped):
            return "reject"
    n = len(labels) if labels is not None else 0
    r = case.get("ret")
    if r is not None and n > 1:
        if r[0] == "u" and len(r[1]) > 1:
            return "any"                      # `-> X | Y` next to several returned values: no rule
        args = len(r[1]) if r[0] == "t" else 0
        if args != n:
            return "reject"
    return "ok"


class Ref:
    """python-level reference: the arguments given so far (later ones override), next to the
    definition's own defaults (which python, not the oracle, applies when the definition is called)"""

    def __init__(self, names, defaults):
        self.names = names
        self.defaults = dict(defaults)         # name -> value JSON
        self.given: dict = {}

    @staticmethod
    def bind(sig, op):
        pos, kw = split_args(op)
        try:
            b = sig.bind_partial(*pos, **kw)
        except TypeError:
            return None
        return {k: enc_val(v) for k, v in b.arguments.items()}

    def view(self):
        return [self.given.get(n, self.defaults.get(n, ["nd"])) for n in self.names]

    def complete(self):
        return all(n in self.given or n in self.defaults for n in self.names)

    def resync(self, chans):
        for c in chans:
            if c[2] != self.defaults.get(c[0], ["nd"]) or c[0] in self.given:
                self.given[c[0]] = c[2]


def oracle_steps(case, obs, names, hints, defaults, sig, call_ref):
    """shared walk over construction + calls.
    call_ref(given) -> None (the definition gives no rule) | ("value", v, outs) | ("hint-failure",) |
    ("refuse",)  -- computed by calling the definition itself"""
    ref = Ref(names, defaults)
    ops = case["ops"]
    failed = False
    prev_outs = None
    last_ok = None
    for i, op in enumerate(ops):
        step = obs[1 + i]
        if i == 0:
            ok = step[0] == "ok"
            res, nobs = step, (step[1] if ok else None)
        else:
            res, nobs = step[0], step[1]
            ok = res[0] == "ok"
        where = "construction" if i == 0 else f"call {i}"
        flagged = i > 0 and any(k in RUN_FLAGS for k, _ in op[1])
        b = ref.bind(sig, op)
        if b is None:
            if ok:
                return f"binding-accepted: {where} is a TypeError for the definition but the node accepted it"
            if i == 0:
                return None
            if [c[2] for c in nobs[0]] != ref.view():
                return f"rejected-call-changed-inputs: {where}"
            prev_outs = [c[2] for c in nobs[1]]
            continue
        bad_hint = [k for k, v in b.items() if not admits_json(hints.get(k), v)]
        if bad_hint:
            if ok:
                return f"hint-ignored: {where} stored a value its annotation excludes ({bad_hint[0]})"
            if i == 0:
                return None
            ref.resync(nobs[0])            # a partial assignment is outside the property
            prev_outs = [c[2] for c in nobs[1]]
            continue
        if flagged and not ok:
            return f"call-keyword-rejected: {where} passes an input by keyword and the node raises {res[1]}"
        ref.given.update(b)
        if i == 0:
            if not ok:
                return f"construction-rejected: valid arguments raised {step[1]}"
            if [c[0] for c in nobs[0]] != names:
                return f"instance-input-labels: {[c[0] for c in nobs[0]]} != {names}"
            if [c[1] for c in nobs[0]] != [hints.get(n) for n in names]:
                return f"instance-input-hints: {[c[1] for c in nobs[0]]}"
            if [c[2] for c in nobs[0]] != ref.view():
                return f"construction-binding: inputs {[c[2] for c in nobs[0]]} != {ref.view()}"
            prev_outs = [c[2] for c in nobs[1]]
            continue
        if [c[2] for c in nobs[0]] != ref.view():
            return f"call-binding: {where} inputs {[c[2] for c in nobs[0]]} != {ref.view()}"
        outs = [c[2] for c in nobs[1]]
        # the definition is a function of its arguments: a call made with the arguments of the latest
        # call that returned must return the same value (also where the definition's value is not compared)
        if ok:
            if last_ok is not None and last_ok[0] == ref.view() and last_ok[1] != res[1]:
                return (f"repeat-differs: {where} returned {res[1]} but the same arguments returned "
                        f"{last_ok[1]} just before")
            last_ok = (ref.view(), res[1])
        if failed:
            if ok:
                return f"failed-node-ran: {where}"
            prev_outs = outs
            continue
        if not ref.complete():
            if ok:
                return f"ran-without-arguments: {where} returned although a required argument is missing"
            if outs != prev_outs:
                return f"refused-call-changed-outputs: {where}"
            prev_outs = outs
            continue
        exp = call_ref(dict(ref.given))
        if exp is None:
            failed = bool(nobs[2])
        elif exp[0] == "hint-failure":
            if ok:
                return f"output-hint-ignored: {where}"
            failed = True
        elif exp[0] == "refuse":
            if ok:
                return f"list-length: {where} accepted a list whose length is not the node's size"
            if outs != prev_outs:
                return f"list-length: {where} refused the list but changed the outputs"
            failed = bool(nobs[2])
        else:
            _, exp_val, exp_outs = exp
            if not ok:
                return f"call-rejected: {where} raised {res[1]} where the definition returns a value"
            if res[1] != exp_val:
                return f"return-value: {where} returned {res[1]} but the definition gives {exp_val}"
            if outs != exp_outs:
                return f"outputs: {where} stored {outs} but the definition gives {exp_outs}"
            if nobs[2]:
                return f"failed-flag: {where}"
        prev_outs = outs
    return None


def oracle(case, obs):
    try:
        return _oracle(case, obs)
    except Exception as e:                   # an oracle that crashes must not pass silently
        return f"oracle-crash: {type(e).__name__} {e}"


def _oracle(case, obs):
    k = case["kind"]
    if k == "multi":            # every node is checked against its OWN specification
        for i, (c, o) in enumerate(zip(case["cases"], obs)):
            v = _oracle(c, o)
            if v is not None:
                sig, _, rest = v.partition(":")
                return f"{sig}: [node {i}]{rest}"
        return None
    if k == "fn":
        return oracle_fn(case, obs)
    if k == "dc":
        return oracle_dc(case, obs)
    return oracle_tf(case, obs)


def oracle_fn(case, obs):
    want = fn_class_expectation(case)
    got = obs[0][0]
    if want == "reject":
        return None if got == "err" else "class-accepted: the definition breaks a documented rule but a class was made"
    if want == "any" and got == "err":
        return None
    if got == "err":
        return f"class-rejected: {obs[0][1]} for a definition the wrapper should take"
    cins, couts = obs[0][1]
    params = case["params"]
    names = [p["name"] for p in params]
    exp_in = [[p["name"], hint_obs_of_ann(p.get("ann")), p["default"] if p.get("default") is not None else ["nd"]]
              for p in params]
    if cins != exp_in:
        return f"input-preview: {cins} != {exp_in}"
    dec = declared_of(case)
    multi = len(case["body"]) > 1
    scraped = None if multi else expected_labels(case)
    labels = dec if dec is not None else scraped
    exp_labels = list(dict.fromkeys(labels)) if labels is not None else ["None"]
    if [o[0] for o in couts] != exp_labels:
        return f"output-labels: {[o[0] for o in couts]} != {exp_labels}"
    # the return annotation goes to the outputs: whole for one output, by component for a tuple[...]
    r = case.get("ret")
    if labels is not None and len(exp_labels) == len(labels):
        if r is None:
            exp_oh = [[] for _ in exp_labels]
        elif len(exp_labels) == 1:
            exp_oh = [hint_obs_of_ann(r)]
        elif r[0] == "t":
            exp_oh = [["u", list(u)] for u in r[1]]
        else:
            exp_oh = None
        if exp_oh is not None and [o[1] for o in couts] != exp_oh:
            return f"output-hints: {[o[1] for o in couts]} != {exp_oh}"
    if len(obs) < 2:
        return "observation-shape"
    # the bare function, bound by python itself
    src, _ = fn_source(case)
    f = load_module(src).f
    if case["via"] in ("at", "class"):
        f = f.node_function
    sig = inspect.signature(f)
    hints = {c[0]: c[1] for c in cins}
    out_hints = [o[1] for o in couts]
    defaults = {p["name"]: p["default"] for p in params if p.get("default") is not None}
    bad_default = [n for n, v in defaults.items() if not admits_json(hints[n], v)]
    if bad_default:
        return None if obs[1][0] == "err" else f"hint-ignored: default of {bad_default[0]}"
    n_out = len(exp_labels)
    consistent = case["validate"] or dec is None or scraped is None or len(dec) == len(scraped)

    def call_ref(given):
        v = enc_val(f(**{a: build_val(b) for a, b in given.items()}))
        if not consistent or (labels is not None and len(set(labels)) != len(labels)):
            return None
        comps = [v] if n_out == 1 else (v[1] if v[0] == "t" else None)     # n outputs <- an n-tuple
        if comps is None or len(comps) != n_out:
            return None
        if any(not admits_json(h, c) for h, c in zip(out_hints, comps)):
            return ("hint-failure",)
        return ("value", v, comps)
    v = oracle_steps(case, obs, names, hints, defaults, sig, call_ref)
    if v is None and obs[-1][0] == "wire":
        # the single-output node IS its output channel: a downstream node fed with it gets the stored result
        last = obs[-2]
        if obs[-1][1] != ["ok", last[0][1]]:
            return f"wiring: a downstream node fed with the single-output node got {obs[-1][1]}, the node returned {last[0][1]}"
    return v


def _sig_of(names):
    return inspect.Signature([inspect.Parameter(n, inspect.Parameter.POSITIONAL_OR_KEYWORD) for n in names])


def oracle_tf(case, obs):
    k = case["kind"]
    if obs[0][0] != "ok":
        return f"class-rejected: {obs[0][1]}"
    cins, couts = obs[0][1]
    n = case.get("n", 0)
    if k == "tolist":
        exp_in = [[f"item_{i}", [], ["nd"]] for i in range(n)]
        exp_out = [["list", ["u", ["list"]]]]
    elif k == "fromlist":
        exp_in = [["list", ["u", ["list"]], ["nd"]]]
        exp_out = [[f"item_{i}", []] for i in range(n)]
    elif k == "toframe":
        exp_in = [[f"row_{i}", ["u", ["dict"]], ["nd"]] for i in range(n)]
        exp_out = [["df", ["u", ["DataFrame"]]]]
    else:
        s = case["spec"]
        if s[0] == "names":
            exp_in = [[x, [], ["nd"]] for x in dict.fromkeys(s[1])]
        else:
            exp_in = [[x, hint_obs_of_ann(h), d] for x, h, d in s[1]]
        exp_out = [["dict", ["u", ["dict"]]]]
    if cins != exp_in:
        return f"input-preview: {cins} != {exp_in}"
    if couts != exp_out:
        return f"output-preview: {couts} != {exp_out}"
    names = [c[0] for c in exp_in]
    hints = {c[0]: c[1] for c in exp_in}
    defaults = {c[0]: c[2] for c in exp_in if c[2] != ["nd"]}
    bad_default = [x for x, v in defaults.items() if not admits_json(hints[x], v)]
    if bad_default:
        return None if obs[1][0] == "err" else f"hint-ignored: default of {bad_default[0]}"

    def call_ref(given):
        env = {x: given.get(x, defaults.get(x)) for x in names}
        vals = [env[x] for x in names]
        if k == "tolist":
            v = ["l", vals]
            return ("value", v, [v])
        if k == "todict":
            v = ["m", "dict", [[x, env[x]] for x in names]]
            return ("value", v, [v])
        if k == "toframe":
            import pandas
            rows = [build_val(r) for r in vals]
            if any(not isinstance(r, dict) or set(r) != set(rows[0]) for r in rows):
                return None                   # ragged rows: the property does not say
            v = enc_val(pandas.DataFrame(rows)) if rows else ["m", "DataFrame", []]
            return ("value", v, [v])
        items = vals[0][1]
        if len(items) != n:
            return ("refuse",)
        return ("value", ["m", "dict", [[f"item_{i}", x] for i, x in enumerate(items)]], items)
    return oracle_steps(case, obs, names, hints, defaults, _sig_of(names), call_ref)


def oracle_dc(case, obs):
    fields = dc_fields(case)
    seen_default = False
    order_ok = True
    for f in fields:
        if f["default"][0] == "req":
            order_ok = order_ok and not seen_default
        else:
            seen_default = True
    if not order_ok:
        return None if obs[0][0] == "err" else "class-accepted: python itself refuses this dataclass"
    if obs[0][0] != "ok":
        return f"class-rejected: {obs[0][1]}"
    cins, couts = obs[0][1]
    exp_in = [[f["name"], hint_obs_of_ann(f["type"]), f["default"][1] if f["default"][0] == "val" else ["nd"]]
              for f in fields]
    if cins != exp_in:
        return f"input-preview: {cins} != {exp_in}"
    if couts != [["dataclass", ["u", [case["name"]]]]]:
        return f"output-preview: {couts}"
    names = [f["name"] for f in fields]
    hints = {c[0]: c[1] for c in exp_in}
    # the reference: the dataclass python builds from the same source, called by python
    ref_case = {**case, "via": "plain", "predecorated": True}
    if case.get("parent"):
        ref_case["parent"] = {**case["parent"], "as_node": False}
    src = dc_source(ref_case)
    DC = getattr(load_module(src), case["name"])
    if [f.name for f in dataclasses.fields(DC)] != names:
        return f"oracle-crash: reference dataclass has fields {[f.name for f in dataclasses.fields(DC)]}, expected {names}"
    sig = inspect.signature(DC)
    defaults = {f["name"]: f["default"][1] for f in fields if f["default"][0] != "req"}
    bad_default = [x for x, v in defaults.items() if not admits_json(hints[x], v)]
    if bad_default:
        return None if obs[1][0] == "err" else f"hint-ignored: default of {bad_default[0]}"

    def call_ref(given):
        v = enc_val(DC(**{a: build_val(b) for a, b in given.items()}))
        return ("value", v, [v])
    return oracle_steps(case, obs, names, hints, defaults, sig, call_ref)


# ---- known findings --------------------------------------------------------------------------
def known(case, obs, verdict):
    """no open finding: every oracle failure is a violation (the former defects are regression cases in
    corpus/C17/witnesses.json)"""
    return None


def nontrivial(case, obs):
    if case.get("kind") == "multi":
        return any(nontrivial(c, o) for c, o in zip(case["cases"], obs))
    if not isinstance(obs, list) or len(obs) < 3 or obs[0][0] != "ok":
        return False
    return bool(obs[0][1][0]) and any(s[0][0] == "ok" for s in obs[2:])


def key(case):
    return case


# =============================================================================================
# generators
NAMES = ["a", "b", "c", "x", "y", "n_0", "val", "k2"]
UNIONS = [["int"], ["str"], ["int", "NoneType"], ["str", "NoneType"], ["int", "str"], ["int", "str", "NoneType"],
          ["NoneType", "int"], ["list"], ["tuple"], ["list", "NoneType"]]


def gen_value(rng, atoms=None, depth=1):
    if atoms is None:
        atoms = [rng.choice(["int", "int", "str", "NoneType", "list", "tuple"])]
    a = rng.choice(atoms)
    if a == "int":
        return ["i", rng.choice([0, 1, 2, 3, 5, 7, -1, 10])]
    if a == "str":
        return ["s", rng.choice(["", "u", "v", "ab", "None"])]
    if a == "NoneType":
        return ["n"]
    sub = [gen_value(rng, None if depth > 0 else ["int"], depth - 1) for _ in range(rng.choice([0, 1, 2, 2, 3]))]
    if a == "dict":
        return ["m", "dict", [[f"k{i}", x] for i, x in enumerate(sub)]]
    return ["l" if a == "list" else "t", sub]


def gen_ann(rng):
    r = rng.random()
    if r < 0.35:
        return None
    if r < 0.45:
        return ["none"]
    u = rng.choice(UNIONS)
    style = "plain" if len(u) == 1 else rng.choice(["pipe", "pipe", "union", "optional"])
    return ["u", list(u), style]


def atoms_of(ann):
    if ann is None:
        return None
    if ann[0] == "none":
        return ["NoneType"]
    return ann[1]


def gen_expr(rng, params, depth):
    r = rng.random()
    if params and r < 0.6:
        return ["p", rng.choice(params)["name"]]
    if r < 0.75 or depth <= 0:
        return ["c", gen_value(rng, ["int", "str", "int"], 0)] if (rng.random() < 0.8 or not params) else \
            ["p", rng.choice(params)["name"]]
    k = rng.choice(["t", "l"])
    return [k, [gen_expr(rng, params, depth - 1) for _ in range(rng.choice([1, 2, 2, 3]))], rng.randrange(len(SEPS))]


def gen_single_expr(rng, params):
    e = gen_expr(rng, params, 2)
    while e[0] == "t":                          # a tuple at the top is a tuple of returned values
        e = gen_expr(rng, params, 2)
    return e


def gen_stmt(rng, params):
    r = rng.random()
    if r < 0.06:
        return ["bare"]
    if r < 0.10:
        return ["single", ["c", ["n"]]]
    if r < 0.45:
        return ["single", gen_single_expr(rng, params)]
    n = rng.choice([1, 2, 2, 2, 3, 3])
    return ["tuple", [gen_expr(rng, params, 2) for _ in range(n)], rng.randrange(4)]


def static_atoms(e, params):
    if e[0] == "is":
        return None
    if e[0] in ("c", "k"):
        return [{"i": "int", "s": "str", "n": "NoneType"}[e[1][0]]]
    if e[0] == "p":
        for p in params:
            if p["name"] == e[1]:
                return atoms_of(p.get("ann"))
        return None
    return ["tuple"] if e[0] == "t" else ["list"]


_PANEL_NAMES: list = []


def panel_names():
    """legal parameter / returned-variable names that are also attributes of the IO panels (read off the real
    classes, plus the instance attribute channel_dict)"""
    if not _PANEL_NAMES:
        import keyword
        from pyiron_workflow.io import Inputs
        from pyiron_workflow.mixin.injection import OutputsWithInjection
        names = set(dir(Inputs)) | set(dir(OutputsWithInjection)) | {"channel_dict"}
        _PANEL_NAMES.extend(sorted(a for a in names if a.isidentifier() and not a.startswith("_")
                                   and not keyword.iskeyword(a) and a not in INIT_KEYWORDS + RUN_KEYWORDS))
    return _PANEL_NAMES


def gen_fn(rng, ctx=None):
    k = rng.choice([0, 1, 1, 2, 2, 2, 3, 3, 4, 5])
    pool = list(NAMES)
    r = rng.random()
    if r > 0.88:
        pool = list(panel_names())       # items, labels, ready, connections, fetch, to_value_dict, ...
    if r < 0.05:
        pool += ["fetch_input", "check_readiness", "raise_run_exceptions"]
    elif r < 0.08:
        pool += ["label", "parent"]
    names = rng.sample(pool, k)
    if k and "fetch_input" in pool and rng.random() < 0.8:
        names[rng.randrange(k)] = rng.choice(["fetch_input", "check_readiness", "raise_run_exceptions"])
        names = list(dict.fromkeys(names))
    ndef = rng.choice([0, 0, 1, 1, 2, len(names)]) if names else 0
    ndef = min(ndef, len(names))
    params = []
    for i, nm in enumerate(names):
        ann = gen_ann(rng)
        p = {"name": nm, "ann": ann, "default": None}
        if i >= len(names) - ndef:
            p["default"] = gen_value(rng, atoms_of(ann), 1) if rng.random() < 0.93 else gen_value(rng, None, 1)
        params.append(p)
    r = rng.random()
    if r < 0.05:
        body = []
    elif r < 0.11:
        body = [gen_stmt(rng, params), gen_stmt(rng, params)]
    else:
        body = [gen_stmt(rng, params)]
    scraped_n = None
    if len(body) == 1:
        if body[0][0] == "tuple":
            scraped_n = len(body[0][1])
        elif body[0][0] == "single" and body[0][1] != ["c", ["n"]]:
            scraped_n = 1
    declared = None
    validate = rng.random() < 0.88
    r = rng.random()
    if r < 0.4:
        n = scraped_n if (scraped_n and rng.random() < 0.8) else rng.choice([1, 2, 3])
        declared = [rng.choice(["out", "res", "p1", "m1", "sum"]) + (str(i) if rng.random() < 0.9 else "")
                    for i in range(n)]
    ret = None
    r = rng.random()
    if r < 0.35 and len(body) == 1 and body[0][0] != "bare":
        exprs = [body[0][1]] if body[0][0] == "single" else body[0][1]
        ats = [static_atoms(e, params) or rng.choice(UNIONS) for e in exprs]
        if rng.random() < 0.12:
            ats = [rng.choice(UNIONS) for _ in ats]
        if body[0][0] == "single":
            ret = ["none"] if ats[0] == ["NoneType"] and rng.random() < 0.5 else \
                ["u", list(ats[0]), "plain" if len(ats[0]) == 1 else rng.choice(["pipe", "union"])]
        elif rng.random() < 0.85:
            ret = ["t", [list(a) for a in ats]]
        else:
            ret = ["u", list(rng.choice(UNIONS)), "pipe"]
    elif r < 0.40:
        ret = rng.choice([["none"], ["u", ["int"], "plain"], ["u", ["int", "NoneType"], "pipe"]])
    case = {"kind": "fn", "params": params, "body": body, "ret": ret, "declared": declared, "validate": validate,
            "via": rng.choice(["call", "call", "at", "function_node", "to"]), "postponed": rng.random() < 0.1, "ops": []}
    if rng.random() < 0.25:
        case["nested"] = True       # defined inside a function scope (closure-style): __qualname__ != __name__
    case["ops"] = gen_ops(rng, [p["name"] for p in params], {p["name"]: atoms_of(p.get("ann")) for p in params},
                          [p["name"] for p in params if p["default"] is None])
    if rng.random() < 0.12:
        add_identity(rng, case)
    return case


def add_identity(rng, case):
    """give one defaulted parameter a default whose IDENTITY the function looks at -- a sentinel object
    (`_S0 = object()`, `... if p is _S0 else ...`) or a module-level list compared with `is` -- and make one
    returned expression depend on it; the ops never pass an equal-but-distinct object for it"""
    cands = [p_ for p_ in case["params"] if p_["default"] is not None]
    body = case["body"]
    if not cands or len(body) != 1 or body[0][0] not in ("single", "tuple") or body[0][1] == ["c", ["n"]]:
        return case
    p_ = rng.choice(cands)
    p_["ann"] = None
    if rng.random() < 0.6:
        ref = "_S0"
        p_["default"] = sentinel(ref)
    else:
        ref = "_L0"
        p_["by_ref"] = ref
        p_["default"] = ["l", [["i", 1], ["i", 2]]]
    others = [q for q in case["params"] if q is not p_]
    a = ["p", rng.choice(others)["name"]] if others and rng.random() < 0.5 else ["c", ["s", "dflt"]]
    b = ["p", p_["name"]] if rng.random() < 0.6 else ["c", ["i", 8]]
    e = ["is", p_["name"], ref, p_["default"], a, b]
    if body[0][0] == "single":
        body[0][1] = e
    else:
        body[0][1][rng.randrange(len(body[0][1]))] = e
    case["ret"] = None
    idx = [q["name"] for q in case["params"]].index(p_["name"])
    for pos, kw in case["ops"]:
        if idx < len(pos) and (pos[idx] == p_["default"] or is_sentinel(pos[idx])):
            pos[idx] = ["i", 0]
        for kv in kw:
            if kv[0] == p_["name"] and (kv[1] == p_["default"] or is_sentinel(kv[1])):
                kv[1] = ["i", 0]
    return case


def gen_fn_factory(rng):
    """the definition sits in a factory `def _make(_d0, .., _off): def f(..., p=_d0): ... _off ...; return f`
    that is called several times: function objects with ONE code object, their own defaults and closure
    value; the earlier ones are wrapped first through the same entry point with the same options"""
    d = gen_fn(rng)
    while not any(p_["default"] is not None for p_ in d["params"]) and rng.random() < 0.8:
        d = gen_fn(rng)
    d["via"] = rng.choice(["function_node", "function_node", "call", "to", "at"])
    d.pop("nested", None)
    off = ["i", rng.choice([50, 60, 70])]

    def close(e):
        if e[0] == "c" and e[1][0] == "i" and rng.random() < 0.7:
            return ["k", off]
        if e[0] in ("t", "l"):
            return [e[0], [close(x) for x in e[1]]] + e[2:]
        return e
    body = []
    for st in d["body"]:
        if st[0] == "single" and st[1] != ["c", ["n"]]:
            body.append(["single", close(st[1])])
        elif st[0] == "tuple":
            body.append(["tuple", [close(x) for x in st[1]]] + st[2:])
        else:
            body.append(st)
    d["body"] = body

    def vary(v, j):
        if v[0] == "i":
            return ["i", v[1] + 40 * (j + 1)]
        if v[0] == "s":
            return ["s", v[1] + "z" * (j + 1)]
        return v
    dfl = [p_["default"] for p_ in d["params"] if p_["default"] is not None]
    d["factory"] = {"off": off,
                    "prior": [{"defaults": [vary(v, j) for v in dfl], "off": ["i", off[1] + 1 + j]}
                              for j in range(rng.choice([1, 1, 2]))]}
    return d


def gen_fn_class(rng):
    """a hand-written `class f(Function)` -- most of the time deriving from a hand-written base class with
    another signature, the base being used before or after the derived class"""
    d = gen_fn(rng)
    d["via"], d["postponed"] = "class", False
    d.pop("nested", None)
    d["base"], d["base_first"] = None, False
    if rng.random() < 0.8:
        b = gen_fn(rng)
        r = rng.random()
        if r < 0.25:                                  # same parameter names, other defaults/annotations
            b["params"] = json.loads(json.dumps(d["params"]))
            for p_ in b["params"]:
                if p_["default"] is not None and p_["default"][0] == "i":
                    p_["default"] = ["i", p_["default"][1] + 40]
            b["body"] = [gen_stmt(rng, b["params"])]
            b["ret"] = None
        elif r < 0.45 and len(d["params"]) > 1:       # the derived class adds parameters to the base's
            b["params"] = json.loads(json.dumps(d["params"][:-1]))
            b["body"] = [gen_stmt(rng, b["params"])]
            b["ret"] = None
        d["base"] = {k2: b[k2] for k2 in ("params", "body", "ret", "declared", "validate")}
        d["base_first"] = rng.random() < 0.65
    return d


def gen_multi(rng):
    """several transformer nodes made in ONE process from related specifications: permuted inputs-to-dict
    specs (name lists and full specs), the other kinds at neighbouring sizes"""
    subs = []
    r = rng.random()
    m = rng.choice([2, 3, 3, 4, 5])
    names = rng.sample(NAMES + ["p", "q"], m)
    perms = [list(names)]
    for _ in range(rng.choice([1, 2, 2, 3])):
        q = list(names)
        while q in perms and m > 1:
            rng.shuffle(q)
            if m == 2:
                q = list(reversed(names))
                break
        perms.append(q)
    if r < 0.45:
        for q in perms:
            vs = {nm: ["i", 10 * (names.index(nm) + 1)] for nm in names}
            npos = rng.randint(0, m)
            op0 = [[vs[nm] for nm in q[:npos]], [[nm, vs[nm]] for nm in reversed(q[npos:])]]
            subs.append({"kind": "todict", "spec": ["names", q], "via": rng.choice(["function", "class"]),
                         "ops": [op0, [[], []]]})
    elif r < 0.85:
        hints = {nm: rng.choice([None, ["u", ["int"], "pipe"], ["u", ["int", "NoneType"], "pipe"]]) for nm in names}
        dfl = {nm: (["i", 7 + names.index(nm)] if rng.random() < 0.4 else ["nd"]) for nm in names}
        for q in perms:
            vs = {nm: ["i", 10 * (names.index(nm) + 1)] for nm in names}
            npos = rng.randint(0, m)
            op0 = [[vs[nm] for nm in q[:npos]], [[nm, vs[nm]] for nm in reversed(q[npos:])]]
            subs.append({"kind": "todict", "spec": ["full", [[nm, hints[nm], dfl[nm]] for nm in q]],
                         "via": rng.choice(["function", "class"]), "ops": [op0, [[], []]]})
    else:
        for n in [m, m + 1, m]:
            k = rng.choice(["tolist", "toframe", "fromlist"])
            vs = [["i", 10 * (i + 1)] for i in range(n)]
            if k == "tolist":
                subs.append({"kind": k, "n": n, "via": "function", "ops": [[vs, []], [[], []]]})
            elif k == "toframe":
                rows = [["m", "dict", [["a", v]]] for v in vs]
                subs.append({"kind": k, "n": n, "via": "function", "ops": [[rows, []], [[], []]]})
            else:
                subs.append({"kind": k, "n": n, "via": "function", "ops": [[[["l", vs]], []], [[], []]]})
    return {"kind": "multi", "via": "multi", "cases": subs}


def gen_split(rng, names, atoms, provide, malformed=True):
    """one op: a positional prefix + keywords (any order) for the parameters in `provide`"""
    provide = [n for n in names if n in provide]
    # longest prefix of names that is entirely provided can go positional
    j = 0
    while j < len(names) and names[j] in provide:
        j += 1
    npos = rng.randint(0, j)

    def value(n):
        a = atoms.get(n)
        if rng.random() < 0.05:
            return gen_value(rng, None, 1)
        return gen_value(rng, a, 1)
    pos = [value(n) for n in names[:npos]]
    rest = [n for n in provide if n not in names[:npos]]
    rng.shuffle(rest)
    kw = [[n, value(n)] for n in rest]
    if malformed:
        r = rng.random()
        if r < 0.04:
            pos = pos + [gen_value(rng, None, 0) for _ in range(len(names) - npos + rng.choice([1, 2]))]
        elif r < 0.08 and npos > 0:
            kw.insert(rng.randint(0, len(kw)), [names[rng.randrange(npos)], gen_value(rng, None, 0)])
        elif r < 0.12:
            kw.insert(rng.randint(0, len(kw)), [rng.choice(["zz", "qq", "item_9", "lst"]), gen_value(rng, None, 0)])
    seen, kw2 = set(), []
    for k, v in kw:                     # a python call cannot repeat a keyword
        if k not in seen:
            seen.add(k)
            kw2.append([k, v])
    return [pos, kw2]


def gen_ops(rng, names, atoms, required, max_calls=3):
    ops = []
    # construction: a random subset
    sub = [n for n in names if rng.random() < 0.5]
    ops.append(gen_split(rng, names, atoms, sub))
    given = set(sub)
    for c in range(rng.choice([1, 1, 2, 2, 3][:max_calls + 2])):
        r = rng.random()
        if r < 0.15 and len(ops) > 1:
            ops.append([[], []] if rng.random() < 0.5 else json.loads(json.dumps(ops[-1])))   # repeat
            continue
        missing = [n for n in required if n not in given]
        if rng.random() < 0.85:
            sub = set(missing) | {n for n in names if rng.random() < 0.35}
        else:
            sub = {n for n in names if rng.random() < 0.4}
        ops.append(gen_split(rng, names, atoms, sub))
        given |= set(sub)
    return ops


def gen_tf(rng):
    k = rng.choice(["tolist", "tolist", "todict", "todict", "toframe", "toframe", "fromlist"])
    via = rng.choice(["function", "class"])
    if k == "tolist":
        n = rng.choice([0, 1, 2, 3, 3, 4, 5, 6, 11, 13])
        names = [f"item_{i}" for i in range(n)]
        return {"kind": k, "n": n, "via": via, "ops": gen_ops(rng, names, {}, names)}
    if k == "todict":
        m = rng.choice([0, 1, 2, 3, 4, 5, 6])
        names = rng.sample((NAMES + ["p", "q"]) if rng.random() < 0.85 else panel_names(), m)
        if rng.random() < 0.5:
            if names and rng.random() < 0.15:
                names = names + [names[0]]
            spec = ["names", names]
            atoms = {}
            req = list(dict.fromkeys(names))
        else:
            full = []
            for nm in names:
                ann = gen_ann(rng)
                h = None if ann is None or ann[0] == "none" else ["u", ann[1], "pipe"]
                d = gen_value(rng, h[1] if h else None, 1) if rng.random() < 0.4 else ["nd"]
                full.append([nm, h, d])
            spec = ["full", full]
            atoms = {x: (h[1] if h else None) for x, h, _ in full}
            req = [x for x, _, d in full if d == ["nd"]]
        return {"kind": k, "spec": spec, "via": via, "ops": gen_ops(rng, list(dict.fromkeys(names)), atoms, req)}
    if k == "toframe":
        n = rng.choice([0, 1, 2, 2, 3, 3, 4, 5, 6, 11, 12])
        names = [f"row_{i}" for i in range(n)]
        cols = rng.sample(["a", "b", "c", "d"], rng.choice([1, 2, 2, 3]))

        def row():
            cs_ = list(cols)
            r = rng.random()
            if r < 0.1:
                rng.shuffle(cs_)
            elif r < 0.14:
                cs_ = cs_[:-1] if len(cs_) > 1 else cs_ + ["z"]
            elif r < 0.17:
                cs_ = cs_ + ["z"]
            return ["m", "dict", [[c, gen_value(rng, ["int", "int", "str"], 0)] for c in cs_]]
        ops = gen_ops(rng, names, {}, names)
        for pos, kw in ops:
            for i in range(len(pos)):
                pos[i] = row() if rng.random() < 0.95 else pos[i]
            for kv in kw:
                kv[1] = row() if rng.random() < 0.95 else kv[1]
        return {"kind": k, "n": n, "via": via, "ops": ops}
    n = rng.choice([0, 1, 2, 3, 3, 4, 5, 6])
    ops = gen_ops(rng, ["list"], {}, ["list"])
    for pos, kw in ops:
        def lst():
            m = n if rng.random() < 0.8 else rng.choice([max(n - 1, 0), n + 1, 0])
            return ["l", [gen_value(rng, ["int", "str", "NoneType"], 0) for _ in range(m)]]
        for i in range(len(pos)):
            pos[i] = lst() if rng.random() < 0.95 else pos[i]
        for kv in kw:
            kv[1] = lst() if rng.random() < 0.95 else kv[1]
    return {"kind": "fromlist", "n": n, "via": via, "ops": ops}


def gen_dc(rng, idx):
    m = rng.choice([0, 1, 2, 2, 3, 3, 4, 5])
    names = rng.sample(NAMES + ["p", "q"], m)
    fields = []
    # mostly python-valid layouts: required, then defaulted
    nreq = rng.randint(0, m)
    kinds = ["req"] * nreq + [rng.choice(["val", "fac"]) for _ in range(m - nreq)]
    if rng.random() < 0.06:
        rng.shuffle(kinds)
    for nm, kd in zip(names, kinds):
        u = rng.choice([["int"], ["str"], ["int", "NoneType"], ["list"], ["int", "str"], ["list", "NoneType"]])
        t = ["u", u, "plain" if len(u) == 1 else "pipe"]
        if kd == "req":
            d = ["req"]
        elif kd == "val":
            scal = [a for a in u if a in ("int", "str", "NoneType")]
            if not scal:
                d = ["fac", gen_value(rng, u, 1)]
            else:
                d = ["val", gen_value(rng, scal if rng.random() < 0.95 else None, 0)]
                if d[1][0] in ("l", "t", "m"):
                    d = ["val", ["i", 4]]
        else:
            d = ["fac", gen_value(rng, u if rng.random() < 0.95 else ["list"], 1)]
        fields.append({"name": nm, "type": t, "default": d})
    case = {"kind": "dc", "name": f"DC{idx % 7}", "fields": fields, "postponed": rng.random() < 0.08,
            "via": rng.choice(["at", "class", "function"]), "ops": []}
    if rng.random() < 0.3 and m >= 1:
        # an inherited layout: the first fields live in a base dataclass (a real one, or another node's
        # `.dataclass`); the UNDECORATED derived class adds the rest and re-declares some with other defaults
        cut = rng.randint(1, m)
        parent_fields = json.loads(json.dumps(fields[:cut]))
        own = fields[cut:]
        for f in parent_fields:
            if f["default"][0] == "val" and rng.random() < 0.5:
                v = f["default"][1]
                own = own + [{**f, "default": ["val", ["i", v[1] + 30] if v[0] == "i" else v]}]
            elif f["default"][0] == "fac" and rng.random() < 0.3:
                own = own + [{**f, "default": ["fac", gen_value(rng, f["type"][1], 1)]}]
        case["parent"] = {"fields": parent_fields, "as_node": rng.random() < 0.5}
        case["fields"] = own
        case["postponed"] = False
    eff = dc_fields(case)
    case["ops"] = gen_ops(rng, [f["name"] for f in eff], {f["name"]: f["type"][1] for f in eff},
                          [f["name"] for f in eff if f["default"][0] == "req"])
    return case


def dict_order_clean(case):
    """ASSUMPTION: no two dict values equal up to key order only"""
    ds = []

    def walk(v):
        if isinstance(v, list) and v and v[0] == "m":
            ds.append(v)
        if isinstance(v, list):
            for x in v:
                walk(x)
    if case.get("kind") == "multi":
        return all(dict_order_clean(c) for c in case["cases"])
    walk(case["ops"])
    for a, b in itertools.combinations(ds, 2):
        if a != b and dict((k, json.dumps(x)) for k, x in a[2]) == dict((k, json.dumps(x)) for k, x in b[2]):
            return False
    return True


def exhaustive_splits(names, vals):
    """every positional-prefix / keyword-order split of giving `vals` to `names`"""
    out = []
    for npos in range(len(names) + 1):
        rest = list(range(npos, len(names)))
        for perm in itertools.permutations(rest):
            out.append([[vals[i] for i in range(npos)], [[names[i], vals[i]] for i in perm]])
    return out


def exhaustive_fn_cases():
    """every signature shape of 0-4 parameters (defaults on every suffix), every subset of provided
    parameters, every positional prefix and up to 6 keyword orders, at construction and at call time"""
    out = []
    names_all = ["a", "b", "c", "x"]
    for k in range(0, 5):
        names = names_all[:k]
        for ndef in range(0, k + 1):
            params = [{"name": nm, "ann": None, "default": (["i", 90 + i] if i >= k - ndef else None)}
                      for i, nm in enumerate(names)]
            body = [["tuple", [["p", nm] for nm in names], 0]] if k > 1 else \
                [["single", ["p", names[0]]]] if k == 1 else [["single", ["c", ["i", 7]]]]
            base = {"kind": "fn", "params": params, "body": body, "ret": None, "declared": None,
                    "validate": True, "via": "call", "postponed": False}
            for mask in range(2 ** k):
                sub = [i for i in range(k) if mask >> i & 1]
                j = 0
                while j < k and j in sub:
                    j += 1
                for npos in range(j + 1):
                    rest = [i for i in sub if i >= npos]
                    for pi, perm in enumerate(itertools.permutations(rest)):
                        if pi >= 6:
                            break
                        op = [[["i", i + 1] for i in range(npos)], [[names[i], ["i", i + 1]] for i in perm]]
                        if (mask + npos + pi) % 2:
                            out.append({**base, "ops": [op, [[], []]]})
                        else:
                            out.append({**base, "ops": [[[], []], op]})
    return out


def generate(ctx):
    rng = ctx.rng
    for p in GEN.glob("*.py") if GEN.exists() else []:
        try:
            if time.time() - p.stat().st_mtime > 86400:
                p.unlink()
        except OSError:
            pass
    cases, seen = [], set()

    def add(c):
        if not strings_ok(c) or not dict_order_clean(c):
            return
        kk = json.dumps(c, sort_keys=True)
        if kk not in seen:
            seen.add(kk)
            cases.append(c)
    # every split for one small function, one transformer, one dataclass (construction and call)
    base = {"kind": "fn", "params": [{"name": "a", "ann": None, "default": None},
                                     {"name": "b", "ann": ["u", ["int", "NoneType"], "pipe"], "default": None},
                                     {"name": "c", "ann": ["u", ["int"], "plain"], "default": ["i", 9]}],
            "body": [["tuple", [["p", "a"], ["t", [["p", "b"], ["p", "c"]], 0]], 0]], "ret": None,
            "declared": None, "validate": True, "via": "call"}
    vals = [["s", "u"], ["n"], ["i", 3]]
    splits = exhaustive_splits(["a", "b", "c"], vals)
    for i, s in enumerate(splits):
        add({**base, "ops": [s, [[], []]]})
        add({**base, "ops": [[[], []], s]})
        add({**base, "ops": [splits[(i * 7 + 3) % len(splits)], s, s]})
    for n in range(0, 7):
        names = [f"item_{i}" for i in range(n)]
        vs = [["i", i + 1] for i in range(n)]
        for npos in range(n + 1):
            s = [vs[:npos], [[names[i], vs[i]] for i in reversed(range(npos, n))]]
            add({"kind": "tolist", "n": n, "via": "function", "ops": [s, [[], []]]})
            add({"kind": "tolist", "n": n, "via": "class", "ops": [[[], []], s]})
            rows = [["m", "dict", [["a", ["i", i]], ["b", ["s", "u"]]]] for i in range(n)]
            rn = [f"row_{i}" for i in range(n)]
            add({"kind": "toframe", "n": n, "via": "class",
                 "ops": [[rows[:npos], [[rn[i], rows[i]] for i in range(npos, n)]], [[], []]]})
        add({"kind": "fromlist", "n": n, "via": "function", "ops": [[[], []], [[["l", vs]], []]]})
        add({"kind": "fromlist", "n": n, "via": "class", "ops": [[[["l", vs]], []], [[], []]]})
    # large transformer sizes (two-digit channel indices: item_10 sorts before item_2), with a
    # distinguishable value per position; all-positional, and half positional + keywords at call time
    for n in (11, 12, rng.randint(20, 25)):
        vs = [["i", 100 + i] for i in range(n)]
        half = n // 2
        for kind, names in (("tolist", [f"item_{i}" for i in range(n)]),
                            ("todict", [f"p{i}" for i in range(n)])):
            extra = {"n": n} if kind == "tolist" else {"spec": ["names", names]}
            kws = [[names[i], vs[i]] for i in range(half, n)]
            add({"kind": kind, **extra, "via": "function", "ops": [[vs, []], [[], []]]})
            add({"kind": kind, **extra, "via": "class", "ops": [[vs[:half], []], [[], kws]]})
            add({"kind": kind, **extra, "via": "function", "ops": [[[], list(reversed(kws))], [vs[:half], []], [[], []]]})
        rows = [["m", "dict", [["a", ["i", 100 + i]], ["b", ["s", "u" if i % 2 else "v"]]]] for i in range(n)]
        rn = [f"row_{i}" for i in range(n)]
        add({"kind": "toframe", "n": n, "via": "function", "ops": [[rows, []], [[], []]]})
        add({"kind": "toframe", "n": n, "via": "class",
             "ops": [[rows[:half], []], [[], [[rn[i], rows[i]] for i in range(half, n)]]]})
        add({"kind": "fromlist", "n": n, "via": "function", "ops": [[[["l", vs]], []], [[], []]]})
        add({"kind": "fromlist", "n": n, "via": "class", "ops": [[[], []], [[], [["list", ["l", vs]]]]]})
    if not ctx.quick:
        for c in exhaustive_fn_cases():
            add(c)
    # the scenario of the docstring-style class hierarchy: base used first, then the derived class
    scale = {"params": [{"name": "x", "ann": None, "default": None},
                        {"name": "factor", "ann": ["u", ["int"], "plain"], "default": ["i", 2]}],
             "body": [["single", ["p", "x"]]], "ret": None, "declared": None, "validate": True}
    shift = {"kind": "fn", "params": [{"name": "x", "ann": None, "default": None},
                                      {"name": "factor", "ann": ["u", ["int"], "plain"], "default": ["i", 3]},
                                      {"name": "shift", "ann": ["u", ["int"], "plain"], "default": ["i", 10]}],
             "body": [["single", ["p", "x"]]], "ret": None, "declared": None, "validate": True,
             "via": "class", "postponed": False, "base": scale}
    for bf in (True, False):
        add({**shift, "base_first": bf, "ops": [[[], []], [[["i", 4]], []], [[["i", 4]], [["shift", ["i", 1]]]]]})
        add({**shift, "base_first": bf, "declared": ["out"], "ops": [[[["i", 4], ["i", 5], ["i", 6]], []], [[], []]]})
    for names_, perm in ((["a", "b", "c"], ["c", "a", "b"]), (["x", "y"], ["y", "x"])):
        for kind_ in ("names", "full"):
            def spec_(q):
                return ["names", q] if kind_ == "names" else \
                    ["full", [[nm, None, (["i", 7] if nm == names_[0] else ["nd"])] for nm in q]]
            def sub_(q):
                return {"kind": "todict", "spec": spec_(q), "via": "function",
                        "ops": [[[["i", 10 * (names_.index(nm) + 1)] for nm in q], []], [[], []]]}
            add({"kind": "multi", "via": "multi", "cases": [sub_(names_), sub_(perm), sub_(names_)]})
    # one def executed several times (function factory): each node wraps the function object it is given
    for via_ in ("function_node", "call", "to"):
        for dec_ in (None, ["out", "off"]):
            add({"kind": "fn", "params": [{"name": "x", "ann": None, "default": None},
                                          {"name": "y", "ann": None, "default": ["i", 3]}],
                 "body": [["tuple", [["p", "y"], ["k", ["i", 20]]], 0]], "ret": None, "declared": dec_,
                 "validate": True, "via": via_, "postponed": False,
                 "factory": {"off": ["i", 20], "prior": [{"defaults": [["i", 2]], "off": ["i", 10]}]},
                 "ops": [[[["i", 1]], []], [[], []], [[], [["y", ["i", 5]]]]]})
    add({"kind": "fn", "params": [{"name": "x", "ann": None, "default": None}, {"name": "y", "ann": None, "default": ["i", 3]}],
         "body": [["tuple", [["p", "y"], ["k", ["i", 20]]], 0]], "ret": None, "declared": None, "validate": True,
         "via": "at", "postponed": False,
         "factory": {"off": ["i", 20], "prior": [{"defaults": [["i", 2]], "off": ["i", 10]}]},
         "ops": [[[["i", 1]], []], [[], []]]})
    # defaults whose identity matters: the sentinel idiom and a module-level list compared with `is`
    for via_ in ("function_node", "call", "at", "class"):
        for dflt_, ref_, extra_ in ((sentinel("_S0"), "_S0", {}), (["l", [["i", 1], ["i", 2]]], "_L0", {"by_ref": "_L0"})):
            add({"kind": "fn", "params": [{"name": "value", "ann": None, "default": None},
                                          {"name": "fallback", "ann": None, "default": dflt_, **extra_}],
                 "body": [["single", ["is", "fallback", ref_, dflt_, ["p", "value"], ["p", "fallback"]]]],
                 "ret": None, "declared": None, "validate": True, "via": via_, "postponed": False,
                 **({"base": None, "base_first": False} if via_ == "class" else {}),
                 "ops": [[[["i", 1]], []], [[], []], [[], [["fallback", ["s", "fb"]]]]]})
    # inherited dataclass layouts: an undecorated class deriving from a dataclass / from a node's .dataclass,
    # adding a field and a default factory and changing a default
    I_ = lambda u: ["u", [u], "plain"]
    for as_node_ in (False, True):
        for via_ in ("class", "function", "at"):
            add({"kind": "dc", "name": "DC1", "postponed": False, "via": via_,
                 "parent": {"as_node": as_node_,
                            "fields": [{"name": "a", "type": I_("int"), "default": ["req"]},
                                       {"name": "b", "type": I_("int"), "default": ["val", ["i", 4]]}]},
                 "fields": [{"name": "c", "type": I_("list"), "default": ["fac", ["l", [["i", 1]]]]},
                            {"name": "b", "type": I_("int"), "default": ["val", ["i", 7]]},
                            {"name": "d", "type": I_("str"), "default": ["val", ["s", "u"]]}],
                 "ops": [[[["i", 1]], []], [[], []], [[], [["d", ["s", "v"]], ["c", ["l", []]]]]]})
    # parameter and returned-variable names that are also attributes of the IO panels
    for via_ in ("call", "function_node", "class"):
        add({"kind": "fn", "params": [{"name": "items", "ann": ["u", ["list"], "plain"], "default": None},
                                      {"name": "labels", "ann": None, "default": ["t", [["s", "a"], ["s", "b"]]]},
                                      {"name": "ready", "ann": ["u", ["int"], "plain"], "default": ["i", 1]},
                                      {"name": "channel_dict", "ann": None, "default": ["i", 5]}],
             "body": [["single", ["p", "labels"]]],
             "ret": None, "declared": None, "validate": True, "via": via_, "postponed": False,
             **({"base": None, "base_first": False} if via_ == "class" else {}),
             "ops": [[[["l", [["i", 1]]]], []], [[], []], [[], [["labels", ["i", 3]], ["channel_dict", ["i", 6]]]]]})
    add({"kind": "fn", "params": [{"name": "fetch", "ann": None, "default": None},
                                  {"name": "to_value_dict", "ann": None, "default": ["i", 2]}],
         "body": [["tuple", [["p", "to_value_dict"], ["p", "fetch"]], 0]], "ret": None, "declared": None,
         "validate": True, "via": "call", "postponed": False,
         "ops": [[[], []], [[["i", 1]], []], [[], [["to_value_dict", ["i", 9]]]]]})
    add({"kind": "todict", "spec": ["names", ["items", "labels", "connected"]], "via": "function",
         "ops": [[[["i", 1], ["i", 2]], []], [[], [["connected", ["i", 3]]]]]})
    n_fac = ctx.n(90, 1000)
    target = len(cases) + n_fac
    while len(cases) < target:
        add(gen_fn_factory(rng))
    n_cls = ctx.n(150, 1800)
    n_multi = ctx.n(60, 700)
    target = len(cases) + n_cls
    while len(cases) < target:
        add(gen_fn_class(rng))
    target += n_multi
    while len(cases) < target:
        add(gen_multi(rng))
    n_fn = ctx.n(620, 9000)
    n_tf = ctx.n(260, 3000)
    n_dc = ctx.n(200, 2500)
    target = len(cases) + n_fn
    while len(cases) < target:
        add(gen_fn(rng))
    target += n_tf
    while len(cases) < target:
        add(gen_tf(rng))
    target += n_dc
    i = 0
    while len(cases) < target:
        i += 1
        add(gen_dc(rng, i))
    return cases


def corpus(ctx):
    out = []
    for p in sorted((lib.VERIF / "corpus" / PROP).glob("*.json")):
        out.extend(json.loads(p.read_text()))
    return out


def shrink_candidates(case):
    c = json.loads(json.dumps(case))
    if c["kind"] == "multi":
        subs = c["cases"]
        for i in range(len(subs)):
            if len(subs) > 1:
                yield {**c, "cases": subs[:i] + subs[i + 1:]}
        for i, sub in enumerate(subs):
            for s2 in shrink_candidates(sub):
                yield {**c, "cases": subs[:i] + [s2] + subs[i + 1:]}
        return
    ops = c["ops"]
    for i in range(len(ops) - 1, 0, -1):
        if len(ops) > 2:
            yield {**c, "ops": ops[:i] + ops[i + 1:]}
    for i, (pos, kw) in enumerate(ops):
        for j in range(len(kw)):
            yield {**c, "ops": ops[:i] + [[pos, kw[:j] + kw[j + 1:]]] + ops[i + 1:]}
        if pos:
            yield {**c, "ops": ops[:i] + [[pos[:-1], kw]] + ops[i + 1:]}
    if c["kind"] == "fn":
        used = {k for _, kw in ops for k, _ in kw}
        for j in range(len(c["params"]) - 1, -1, -1):
            p = c["params"][j]
            mentioned = json.dumps(["p", p["name"]]) in json.dumps(c["body"])
            if p["name"] not in used and not mentioned and all(len(pos) <= j for pos, _ in ops):
                yield {**c, "params": c["params"][:j] + c["params"][j + 1:]}
        if c.get("ret") is not None:
            yield {**c, "ret": None}
        for j, p in enumerate(c["params"]):
            if p.get("ann") is not None:
                ps = json.loads(json.dumps(c["params"]))
                ps[j]["ann"] = None
                yield {**c, "params": ps}
        if c["via"] == "class" and c.get("base"):
            yield {**c, "base": None, "base_first": False}
            if c["base"].get("ret") is not None:
                yield {**c, "base": {**c["base"], "ret": None}}
        if c["via"] not in ("call", "class"):
            yield {**c, "via": "call"}
    if c["kind"] in ("tolist", "toframe", "fromlist") and c["n"] > 0:
        yield {**c, "n": c["n"] - 1}


def distribution(results):
    d = {"kinds": {}, "class_rejected": 0, "construction_rejected": 0, "calls_ok": 0, "calls_rejected": 0,
         "params": {}, "outputs": {}, "via": {}}
    flat = []
    for c, enc, v, o in results:
        if c["kind"] == "multi":
            d["kinds"]["multi"] = d["kinds"].get("multi", 0) + 1
            if isinstance(o, list) and len(o) == len(c["cases"]):
                flat.extend((c2, None, v, o2) for c2, o2 in zip(c["cases"], o))
        else:
            flat.append((c, enc, v, o))
    for c, enc, v, o in flat:
        d["kinds"][c["kind"]] = d["kinds"].get(c["kind"], 0) + 1
        d["via"][c["via"]] = d["via"].get(c["via"], 0) + 1
        if not isinstance(o, list) or not o or not isinstance(o[0], list):
            continue
        if o[0][0] == "err":
            d["class_rejected"] += 1
            continue
        ni, no = len(o[0][1][0]), len(o[0][1][1])
        d["params"][ni] = d["params"].get(ni, 0) + 1
        d["outputs"][no] = d["outputs"].get(no, 0) + 1
        if len(o) > 1 and o[1][0] == "err":
            d["construction_rejected"] += 1
            continue
        for s in o[2:]:
            d["calls_ok" if s[0][0] == "ok" else "calls_rejected"] += 1
    return d
