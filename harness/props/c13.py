"""C13 -- ownership forms a tree: one parent, unique labels, no cycles, both sides agree.

A case is a small universe of objects (Workflow / Macro / function-node instances, all
orphans at the start) and a history of ownership operations on them.  run_impl executes
the history on REAL pyiron_workflow objects and snapshots every object after every
operation; model_term evaluates coq/theories/Lex.v on the same history; the oracle
checks the property itself on the implementation's snapshots (never looking at the
model).
"""
from __future__ import annotations

import json

from harness import lib
from harness.lib import cb, cl, cn, cs

from pyiron_workflow.nodes.function import as_function_node
from pyiron_workflow.nodes.macro import as_macro_node

PROP = "C13"
IMPORTS = "Base Lex"
RULE = ("universe of 4-8 objects (1-3 Workflows, 0-3 empty Macros, leaves; labels from a clash-prone pool, "
        "strict naming on/off per composite) + history of 6-40 operations: add_child (with/without label, "
        "strict_naming override), attribute assignment, construction with parent=, parent assignment "
        "(composite/None/non-composite; the node may already carry a reserved name), remove_child by instance/label, replace_child by instance/label, "
        "marking starting nodes; ~75% of the operations are biased towards being applicable, the rest is "
        "arbitrary (clashes, second parents, cycles, workflows as children, reserved names: methods, properties, "
        "instance-only attributes such as executor/running/starting_nodes, a user-set plain attribute, NON-PUBLIC "
        "attributes and methods such as _inputs/_parent/_children/_get_unique_label and dunders); a history is abandoned "
        "at the first operation after which the property fails on the implementation (never, on the repaired code). "
        "Labels include whitespace variants of sibling labels ('a ' next to 'a'). ORACLE-ONLY family (not in Lex.v): "
        "11 macro classes with a real graph creator (incl. creators that name a child like a non-public / instance-only "
        "attribute and must be refused, and one with a harmless underscore label) (hand-wired run signals + starting_nodes or automatic flow, inputs "
        "no child uses, forked inputs, nested macros) x 5 ways into a workflow x run/not: the tree invariant incl. "
        "starting_nodes <= children is checked on the whole object tree after construction, nesting, run, removal. Non-trivial = some "
        "operation changed the ownership state; distinct = distinct (universe, history)")
TRUSTED = ["graph-creator macros (UI-node creation/purge, execution wiring at construction) are judged by the oracle "
           "alone: Lex.v models empty macros only",
           "the composite's own attribute names (instance __dict__ + dir(class), read off real objects, NOT through "
           "the __dir__ under test) restricted to the label pool are the model's `reserved` table and the oracle's",
           "replace_child is exercised on unconnected nodes only (copy_io / value links have nothing to do)"]
ASSUMPTIONS = ["labels are assigned only through adoption (no direct `child.label = x` on an owned child); "
               "children/starting_nodes containers are not edited directly except appending a current child to "
               "starting_nodes; nodes are unconnected; no pickling (detached paths stay None)"]
FUEL = 12      # nesting of set_parent/add_child/remove_child calls (the theorems need >= 4)
PFUEL = 40     # ancestor walk / suffix search / lexical_path bound (universe has <= 8 objects)


# ---- node classes of the harness (module level: the library reads their source) -----------
@as_function_node("y")
def Leaf13(x=0):
    return x


@as_macro_node()
def Macro13(self):
    pass


# Macros with a real graph creator: children, data connections, hand-wired or automatic execution, inputs that
# no child uses / that fork to two children, nesting.  Their construction (UI nodes created for the signature,
# purged again, starting nodes re-pointed) is outside Lex.v; these cases are judged by the oracle alone.
@as_macro_node("out")
def MacManSpare(self, x=0, spare=5):
    self.first = Leaf13(x=x)
    self.second = Leaf13(x=self.first)
    self.third = Leaf13(x=self.second)
    self.first >> self.second >> self.third
    self.starting_nodes = [self.first]
    return self.third


@as_macro_node("out")
def MacAutoSpare(self, x=0, spare=5):
    self.first = Leaf13(x=x)
    self.second = Leaf13(x=self.first)
    return self.second


@as_macro_node("out")
def MacManTwoSpare(self, s1=1, x=0, s2=2):
    self.first = Leaf13(x=x)
    self.second = Leaf13(x=self.first)
    self.first >> self.second
    self.starting_nodes = [self.first]
    return self.second


@as_macro_node("out")
def MacManFork(self, x=0, spare=5):
    self.first = Leaf13(x=x)
    self.second = Leaf13(x=x)
    self.first >> self.second
    self.starting_nodes = [self.first]
    return self.second


@as_macro_node("out")
def MacManPlain(self, x=0):
    self.first = Leaf13(x=x)
    self.second = Leaf13(x=self.first)
    self.first >> self.second
    self.starting_nodes = [self.first]
    return self.second


@as_macro_node("out")
def MacManOnlySpare(self, spare=5):
    self.first = Leaf13()
    self.second = Leaf13(x=self.first)
    self.first >> self.second
    self.starting_nodes = [self.first]
    return self.second


@as_macro_node("out")
def MacNestMan(self, x=0, spare=1):
    self.inner = MacManSpare(x=x)
    self.last = Leaf13(x=self.inner)
    self.inner >> self.last
    self.starting_nodes = [self.inner]
    return self.last


@as_macro_node("out")
def MacNestAuto(self, x=0, spare=1):
    self.inner = MacManFork(x=x)
    self.other = MacAutoSpare(x=self.inner)
    return self.other


@as_macro_node("out")
def MacPrivateClash(self, a=0):
    self._inputs = Leaf13(a)      # collides with the macro's own (non-public) attribute: must be refused
    return self._inputs


@as_macro_node("out")
def MacInstanceClash(self, a=0):
    self.first = Leaf13(a)
    self.running = Leaf13(self.first)   # collides with an instance-only attribute: must be refused
    return self.running


@as_macro_node("out")
def MacPrivateFine(self, a=0):
    self._helper = Leaf13(a)      # an underscore label that collides with nothing is fine
    return self._helper


REFUSED_AT_CONSTRUCTION = {"MacPrivateClash", "MacInstanceClash"}
MACROS = {f.__name__: f for f in (MacPrivateClash, MacInstanceClash, MacPrivateFine, MacManSpare, MacAutoSpare, MacManTwoSpare, MacManFork, MacManPlain,
                                  MacManOnlySpare, MacNestMan, MacNestAuto)}
HOSTS = ["none", "attr", "add", "kw", "two"]     # how the macro gets into a workflow (two = a second, connected copy)


def gen_macro_cases():
    out = []
    for name in MACROS:
        for host in HOSTS:
            for run in (False, True):
                out.append({"kind": "macro", "cls": name, "host": host, "run": run,
                            "strict": (len(out) % 3) != 0})
    return out


def tree_snapshot(roots):
    """every composite reachable from roots (by identity): [path label, own _parent agrees?, children, starting]"""
    from pyiron_workflow.nodes.composite import Composite
    out, seen = [], set()

    def visit(c, where):
        if id(c) in seen:
            return
        seen.add(id(c))
        ch = []
        for k, v in c._children.items():
            ch.append([k, v.label, v._parent is c, type(v).__name__])
        st = [[n.label, any(v is n for v in c._children.values()), n._parent is c] for n in c.starting_nodes]
        out.append([where, ch, st, sorted(k for k in c._children if k in genuine_attributes(c))])
        for k, v in c._children.items():
            if isinstance(v, Composite):
                visit(v, where + "/" + k)
    for r in roots:
        visit(r, r.label)
    return out


def run_macro_case(case):
    from pyiron_workflow import Workflow
    cls, host, strict = MACROS[case["cls"]], case["host"], case["strict"]
    obs, roots = [], []

    def stage(name, f):
        try:
            f()
            r = "ok"
        except Exception as e:
            r = type(e).__name__
        obs.append([name, r, tree_snapshot(roots)])
    box = {}

    def build():
        box["m"] = cls(label="m", strict_naming=strict)
        roots.append(box["m"])
    stage("construct", build)
    if host != "none" and "m" in box:
        def nest():
            wf = Workflow("c13_macro_family", autoload=None, strict_naming=strict)
            box["wf"] = wf
            roots.insert(0, wf)
            if host == "attr":
                wf.m = box["m"]
            elif host == "add":
                wf.add_child(box["m"], label="renamed")
            elif host == "kw":
                box["k"] = cls(label="k", parent=wf)
                box["m"].parent = wf
            elif host == "two":
                wf.m = box["m"]
                first = box["m"].inputs.labels[0]
                wf.n = cls(**{first: wf.m}) if first in ("x", "a") else cls()
        stage("nest", nest)
    if case["run"] and "m" in box:
        stage("run", lambda: (box.get("wf") or box["m"])())
    if host in ("attr", "two") and "wf" in box:
        stage("remove", lambda: box["wf"].remove_child(box["m"]))
    return obs


def macro_oracle(case, obs):
    if not isinstance(obs, list) or not obs:
        return "driver: no observation"
    for name, res, snap in obs:
        if case["cls"] in REFUSED_AT_CONSTRUCTION and name == "construct" and res == "AttributeError":
            continue      # the clash was refused (the half-built macro is garbage); an accepted one is judged below
        if res != "ok":
            return f"macro-family-error: stage {name} of {case['cls']}/{case['host']} raised {res}"
        for where, ch, st, reserved in snap:
            keys = [k for k, _, _, _ in ch]
            if len(set(keys)) != len(keys):
                return f"unique: after {name}, {where} lists a label twice: {keys}"
            for k, lab, par_ok, _ in ch:
                if not par_ok:
                    return f"agree: after {name}, {where} lists {k!r} but that node does not name it as its parent"
                if lab != k:
                    return f"agree: after {name}, {where} lists a child under {k!r} whose label is {lab!r}"
            if reserved:
                return f"reserved: after {name}, {where} lists children under its own attribute names {reserved}"
            for lab, listed, par_ok in st:
                if not listed or not par_ok:
                    return (f"starting: after {name}, starting node {lab!r} of {where} is not a current child "
                            f"(listed: {listed}, names it as parent: {par_ok}; children {keys})")
    return None


POOL = ["a", "b", "c", "a0", "a1", "b0", "m", "w", "run", "inputs", "parent", "children", "label",
        "starting_nodes", "a/b", "", "x"]
# names that exist only in the INSTANCE __dict__ of a composite (not on its class), plus a plain value the
# user stored on it (USERVAL, set by the driver on every composite): as reserved as a method name
USERVAL = "userval"
INSTANCE_ONLY = ["executor", "running", "failed", "future", "checkpoint", "recovery", "strict_naming",
                 "signal_queue", "running_children", "provenance_by_execution", "provenance_by_completion",
                 "automate_execution", "starting_nodes", USERVAL]


# labels differing from the everyday ones only by leading/trailing blanks: distinct labels as far as the
# ownership code is concerned (a sibling "a " next to "a" is no clash)
WS_VARIANTS = [v for l in POOL[:8] for v in (l + " ", " " + l, " " + l + " ")]


def genuine_attributes(obj):
    """the composite's own attribute names, read off the object itself (instance __dict__ + everything its
    class and its bases define, from their __dict__s) -- deliberately NOT through obj.__dir__(), which is the code
    under test"""
    return set(vars(obj)).union(*(vars(k) for k in type(obj).__mro__))


ATTRS: dict[str, set] = {}     # every attribute name of a composite of each kind (for the oracle)


# non-public attribute / method names of the composites (filled from the real objects below): as reserved as the
# public ones; PRIVATE_FREE are underscore labels that collide with nothing and must be accepted
PRIVATE: list[str] = []
PRIVATE_FREE = ["_helper", "_x"]
_PRIVATE_FIRST = ["_inputs", "_outputs", "_label", "_children", "_signals", "_parent", "_starting_node_labels",
                  "_cached_inputs", "_user_data", "_detached_parent_path", "_check_label", "_get_unique_label",
                  "_inputs_map", "_input_value_links", "__dict__", "__init__", "__class__"]


def _reserved_tables():
    from pyiron_workflow import Workflow
    w = Workflow("resprobe", autoload=None)
    m = Macro13(label="resprobe")
    for o in (w, m):
        setattr(o, USERVAL, 7)
    both = genuine_attributes(w) | genuine_attributes(m)
    rest = sorted(n for n in both if n.startswith("_") and not n.startswith("__") and n not in _PRIVATE_FIRST)
    PRIVATE[:] = [n for n in _PRIVATE_FIRST if n in both] + rest[::9]
    cand = set(POOL) | set(INSTANCE_ONLY) | set(WS_VARIANTS) | set(PRIVATE) | set(PRIVATE_FREE)
    for l in POOL + INSTANCE_ONLY + WS_VARIANTS + PRIVATE + PRIVATE_FREE:
        for i in range(12):
            cand.add(f"{l}{i}")
            for j in range(3):
                cand.add(f"{l}{i}{j}")
    dw, dm = genuine_attributes(w), genuine_attributes(m)
    ATTRS.update({"W": dw, "M": dm, "L": set()})
    return {"W": sorted(c for c in cand if c in dw), "M": sorted(c for c in cand if c in dm), "L": []}


RES = _reserved_tables()
PRELUDE = ("Definition res13 (k : kind) (l : string) : bool := match k with "
           f"Wf => mems l {cl(cs(x) for x in RES['W'])} | Macro => mems l {cl(cs(x) for x in RES['M'])} "
           "| Leaf => false end.")


def _in_dir(kind, l):
    return l in ATTRS[kind]


# ---- generation -----------------------------------------------------------------------------
def gen_universe(rng):
    n_w = rng.choice([1, 1, 2, 2, 3])
    n_m = rng.choice([0, 1, 1, 2, 3])
    n_l = rng.choice([2, 3, 3, 4])
    while n_w + n_m + n_l > 8:
        n_l -= 1
    kinds = ["W"] * n_w + ["M"] * n_m + ["L"] * n_l
    rng.shuffle(kinds)
    lab_pool = ["a", "b", "c", "a0", "m", "w", "x", "a", "b"]

    def ulab(k):
        if k != "W" and rng.random() < 0.14:
            return rng.choice(INSTANCE_ONLY + ["run", "inputs"] + PRIVATE[:10] + PRIVATE_FREE)
        return rng.choice(lab_pool)
    return [[k, ulab(k), rng.random() < 0.6] for k in kinds]


class _Sim:
    """a crude tracker of 'who probably owns whom', only to bias the generator towards
    applicable operations; it is NOT used by the driver, the model or the oracle"""

    def __init__(self, nodes):
        self.par = [None] * len(nodes)
        self.lab = [n[1] for n in nodes]

    def kids(self, p):
        return [i for i, q in enumerate(self.par) if q == p]


def gen_ops(rng, nodes, n_ops):
    N = len(nodes)
    comps = [i for i, n in enumerate(nodes) if n[0] != "L"]
    nonwf = [i for i, n in enumerate(nodes) if n[0] != "W"]
    sim = _Sim(nodes)
    ops = []
    last_add = None

    def anyn(avoid_wf=False):
        i = rng.randrange(N)
        if avoid_wf and nodes[i][0] == "W" and rng.random() < 0.75:
            i = rng.randrange(N)
        return i
    def lab():
        r = rng.random()
        if r < 0.12:
            return rng.choice(INSTANCE_ONLY)
        if r < 0.24:
            return rng.choice(WS_VARIANTS[:9] if rng.random() < 0.6 else WS_VARIANTS)   # "a ", " a", " a ", "b ", ...
        if r < 0.35:
            return rng.choice(PRIVATE[:8] if rng.random() < 0.5 else PRIVATE + PRIVATE_FREE)   # "_inputs", "_parent", ...
        return rng.choice(POOL if r < 0.56 else POOL[:8])
    for _ in range(n_ops):
        wild = rng.random() < 0.25
        k = rng.choice(["add", "add", "add", "setattr", "setattr", "new", "parent", "parent", "parent", "rmi", "rml",
                        "rpi", "rpl", "start"])
        p = anyn() if wild and rng.random() < 0.3 else rng.choice(comps)
        orphans = [i for i in nonwf if sim.par[i] is None and i != p]
        kids = sim.kids(p)
        if k == "add":
            c = anyn(True) if wild or not orphans else rng.choice(orphans + kids if rng.random() < 0.3 else orphans)
            lb = lab() if rng.random() < 0.45 else None
            sn = rng.choice([None, None, True, False])
            if last_add is not None and rng.random() < 0.3:   # burst: same composite, same label, suffixing
                p, lb, sn = last_add[0], last_add[1], False
                orphans = [i for i in nonwf if sim.par[i] is None and i != p]
                c = rng.choice(orphans) if orphans else c
            last_add = (p, lb if lb is not None else sim.lab[c])
            ops.append(["add", p, c, lb, sn])
            if not wild:
                sim.par[c] = p
        elif k == "setattr":
            c = anyn(True) if wild or not orphans else rng.choice(orphans + kids if rng.random() < 0.3 else orphans)
            key = lab() if rng.random() < 0.9 else "parent"
            ops.append(["setattr", p, key, c])
            if not wild and key != "parent":
                sim.par[c] = p
        elif k == "new":
            free = [i for i in nonwf if sim.par[i] is None and not sim.kids(i)]
            c = anyn() if wild or not free else rng.choice(free)
            ops.append(["new", c, lab(), p])
            if not wild:
                sim.par[c] = p
        elif k == "parent":
            c = anyn() if wild else rng.choice(nonwf)
            r = rng.random()
            np_ = None if r < 0.3 else (anyn() if wild else rng.choice(comps))
            ops.append(["parent", c, np_])
            sim.par[c] = np_
        elif k == "rmi":
            c = anyn() if wild or not kids else rng.choice(kids)
            ops.append(["rmi", p, c])
            if sim.par[c] == p:
                sim.par[c] = None
        elif k == "rml":
            l = lab() if wild or not kids else sim.lab[rng.choice(kids)]
            ops.append(["rml", p, l])
        elif k == "rpi":
            o = anyn() if wild or not kids else rng.choice(kids)
            r = anyn(True) if wild or not orphans else rng.choice(orphans)
            ops.append(["rpi", p, o, r])
            if not wild and sim.par[o] == p:
                sim.par[o], sim.par[r] = None, p
        elif k == "rpl":
            l = lab() if wild or not kids else sim.lab[rng.choice(kids)]
            r = anyn(True) if wild or not orphans else rng.choice(orphans)
            ops.append(["rpl", p, l, r])
        else:
            c = anyn() if wild or not kids else rng.choice(kids)
            ops.append(["start", p, c])
    return ops


def generate(ctx):
    rng = ctx.rng
    cases, seen = gen_macro_cases(), set()
    n = len(cases) + ctx.n(700, 12000)
    while len(cases) < n:
        nodes = gen_universe(rng)
        ops = gen_ops(rng, nodes, rng.choice([6, 10, 14, 20, 30] if ctx.quick else [10, 20, 30, 40]))
        c = {"nodes": nodes, "ops": ops}
        k = json.dumps(c, sort_keys=True)
        if k in seen:
            continue
        seen.add(k)
        cases.append(c)
    return cases


def corpus(ctx):
    out = []
    for p in sorted((lib.VERIF / "corpus" / PROP).glob("*.json")):
        out.extend(json.loads(p.read_text()))
    return out


# ---- implementation driver -------------------------------------------------------------------
def _make(kind, label, strict, parent=None, fresh=False):
    from pyiron_workflow import Workflow
    if kind == "W":
        o = Workflow(label, strict_naming=strict, autoload=None)
    elif kind == "M":
        o = Macro13(label=label, strict_naming=strict, parent=parent) if fresh else Macro13(label=label, strict_naming=strict)
    else:
        return Leaf13(label=label, parent=parent) if fresh else Leaf13(label=label)
    setattr(o, USERVAL, 7)     # a plain value the user stored on the composite
    return o


def run_impl(case):
    from pyiron_workflow.nodes.composite import Composite
    if case.get("kind") == "macro":
        return run_macro_case(case)
    nodes, ops = case["nodes"], case["ops"]
    N = len(nodes)
    objs = [_make(k, l, s) for k, l, s in nodes]
    is_comp = [k != "L" for k, _, _ in nodes]

    def idof(o):
        if o is None:
            return -1
        for i, x in enumerate(objs):
            if x is o:
                return i
        return -99

    def snap():
        out = []
        for i, o in enumerate(objs):
            try:
                path = o.lexical_path
            except RecursionError:
                path = "REC"
            if isinstance(o, Composite):
                ch = [[k, idof(v)] for k, v in o._children.items()]
                st = [idof(v) for v in o.starting_nodes]
            else:
                ch, st = [], []
            out.append([o.label, idof(o._parent), ch, st, path])
        return out

    def listed(c):
        return any(isinstance(o, Composite) and (any(v is c for v in o._children.values())
                                                 or any(v is c for v in o.starting_nodes)) for o in objs)

    def do(op):
        k = op[0]
        if k == "add":
            _, p, c, lb, sn = op
            if not is_comp[p]:
                return "skip"
            objs[p].add_child(objs[c], label=lb, strict_naming=sn)
        elif k == "setattr":
            _, p, key, c = op
            if not is_comp[p] or (is_comp[c] and key == "_parent"):
                return "skip"
            setattr(objs[p], key, objs[c])
        elif k == "new":
            _, c, l, p = op
            o = objs[c]
            if (p == c or (is_comp[c] and not is_comp[p]) or nodes[c][0] == "W" or o._parent is not None or (is_comp[c] and (len(o._children) or o.starting_nodes))
                    or listed(o)):
                return "skip"
            objs[c] = _make(nodes[c][0], l, nodes[c][2], parent=objs[p], fresh=True)
        elif k == "parent":
            _, c, np_ = op
            objs[c].parent = None if np_ is None else objs[np_]
        elif k == "rmi":
            _, p, c = op
            if not is_comp[p]:
                return "skip"
            objs[p].remove_child(objs[c])
        elif k == "rml":
            _, p, l = op
            if not is_comp[p]:
                return "skip"
            objs[p].remove_child(l)
        elif k == "rpi":
            _, p, o, r = op
            if not is_comp[p]:
                return "skip"
            objs[p].replace_child(objs[o], objs[r])
        elif k == "rpl":
            _, p, l, r = op
            if not is_comp[p]:
                return "skip"
            objs[p].replace_child(l, objs[r])
        elif k == "start":
            _, p, c = op
            if not is_comp[p]:
                return "skip"
            P, C = objs[p], objs[c]
            if any(v is C for v in P._children.values()) and not any(v is C for v in P.starting_nodes):
                P.starting_nodes.append(C)
            else:
                return "skip"
        else:
            raise ValueError(op)
        return "ok"

    obs = [snap()]
    for op in ops:
        try:
            r = do(op)
        except Exception as e:   # the library's refusals (and RecursionError)
            r = type(e).__name__
        obs.append([r, snap()])
        if first_failure(case, obs[-2:], base=len(obs) - 2) is not None:
            break     # the property is violated: the rest of the history is not explored (see RULE)
    _EXECUTED[_ckey(case)] = len(obs) - 1
    return obs


_EXECUTED: dict[str, int] = {}


def _ckey(case):
    return json.dumps([case["nodes"], case["ops"]])


# ---- model term ------------------------------------------------------------------------------
_KIND = {"L": "Leaf", "M": "Macro", "W": "Wf"}


def _ostr(x):
    return "None" if x is None else f"(Some {cs(x)})"


def _onat(x):
    return "None" if x is None else f"(Some {cn(x)})"


def _obool(x):
    return "None" if x is None else f"(Some {cb(x)})"


def op_coq(op):
    k = op[0]
    if k == "add":
        return f"AddChild {cn(op[1])} {cn(op[2])} {_ostr(op[3])} {_obool(op[4])}"
    if k == "setattr":
        return f"SetAttr {cn(op[1])} {cs(op[2])} {cn(op[3])}"
    if k == "new":
        return f"NewNode {cn(op[1])} {cs(op[2])} {cn(op[3])}"
    if k == "parent":
        return f"SetParent {cn(op[1])} {_onat(op[2])}"
    if k == "rmi":
        return f"RemoveI {cn(op[1])} {cn(op[2])}"
    if k == "rml":
        return f"RemoveL {cn(op[1])} {cs(op[2])}"
    if k == "rpi":
        return f"ReplaceI {cn(op[1])} {cn(op[2])} {cn(op[3])}"
    if k == "rpl":
        return f"ReplaceL {cn(op[1])} {cs(op[2])} {cn(op[3])}"
    if k == "start":
        return f"SetStart {cn(op[1])} {cn(op[2])}"
    raise ValueError(op)


def model_term(case):
    if case.get("kind") == "macro":
        return None       # graph-creator macros are outside Lex.v (oracle-only family, see RULE)
    if _ckey(case) not in _EXECUTED:
        run_impl(case)
    nodes, ops = case["nodes"], case["ops"][:_EXECUTED[_ckey(case)]]
    kinds = cl(_KIND[k] for k, _, _ in nodes)
    labels = cl(cs(l) for _, l, _ in nodes)
    stricts = cl(cb(s) for _, _, s in nodes)
    return (f"history_obs (fun n => nth n {kinds} Leaf) (fun n => nth n {stricts} true) res13 {cn(len(nodes))} "
            f"{cn(PFUEL)} {cn(FUEL)} (init_state (fun n => nth n {labels} \"\"%string)) "
            f"{cl(op_coq(o) for o in ops)}")


# ---- the property, on the implementation's snapshots -----------------------------------------
def check_snapshot(nodes, snap):
    """the tree invariant of C13 on one snapshot; None or (signature, detail)"""
    N = len(nodes)
    lab = [s[0] for s in snap]
    par = [s[1] for s in snap]
    for i in range(N):
        if not (-1 <= par[i] < N):
            return "agree", f"object {i} names an unknown parent"
        if nodes[i][0] == "W" and par[i] != -1:
            return "workflow-parent", f"workflow {i} has acquired parent {par[i]}"
    owners = {}
    for p in range(N):
        ch, st = snap[p][2], snap[p][3]
        if nodes[p][0] == "L" and (ch or st):
            return "agree", f"non-composite {p} holds children"
        keys = [k for k, _ in ch]
        if len(set(keys)) != len(keys):
            return "unique", f"composite {p} lists a label twice: {keys}"
        for k, c in ch:
            if not (0 <= c < N):
                return "agree", f"composite {p} lists an unknown object under {k!r}"
            owners.setdefault(c, []).append(p)
            if par[c] != p:
                return "agree", f"composite {p} lists {c} under {k!r} but {c} names {par[c]} as its parent"
            if lab[c] != k:
                return "agree", f"composite {p} lists {c} under {k!r} but its label is {lab[c]!r}"
            if _in_dir(nodes[p][0], k):
                return "reserved", f"composite {p} lists {c} under {k!r}, an attribute of the composite"
        for c in st:
            if c not in [v for _, v in ch]:
                return "starting", f"starting node {c} of composite {p} is not one of its children"
    for c, ps in owners.items():
        if len(ps) > 1:
            return "one-parent", f"object {c} is listed by several composites {ps}"
    for c in range(N):
        if par[c] != -1 and [lab[c], c] not in snap[par[c]][2]:
            return "agree", f"object {c} names {par[c]} as parent but is not listed there under {lab[c]!r}"
    for c in range(N):
        cur, steps = c, 0
        while cur != -1:
            cur = par[cur]
            steps += 1
            if steps > N:
                return "cycle", f"following parents from {c} never ends"
        if snap[c][4] == "REC":
            return "cycle", f"lexical_path of {c} recurses forever"
    return None


def first_failure(case, obs, base=0):
    """(step, signature, detail) of the first snapshot violating the property, else None.
    obs[0] is a bare snapshot when base == 0, otherwise a [result, snapshot] pair."""
    nodes = case["nodes"]
    if not isinstance(obs, list) or not obs:
        return 0, "driver", "no observation"
    if base == 0:
        bad = check_snapshot(nodes, obs[0])
        if bad:
            return 0, bad[0], bad[1]
        prev = obs[0]
    else:
        prev = obs[0][1]
    for t in range(1, len(obs)):
        res, snap = obs[t]
        bad = check_snapshot(nodes, snap)
        if bad:
            return base + t, bad[0], bad[1]
        if res not in ("ok", "skip") and snap != prev:
            return base + t, "rejected-not-noop", f"raised {res} but changed the ownership state"
        if res == "skip" and snap != prev:
            return base + t, "driver", "skipped operation changed the state"
        prev = snap
    return None


def oracle(case, obs):
    if case.get("kind") == "macro":
        return macro_oracle(case, obs)
    f = first_failure(case, obs)
    if f is None:
        return None
    t, sig, detail = f
    op = case["ops"][t - 1] if t >= 1 else None
    return f"{sig}: step {t} {json.dumps(op)} -> {obs[t][0] if t >= 1 else ''}; {detail}"


# ---- known findings: none (K1..K4 of the first round are repaired by fix commits; their
# witnesses are regression cases in corpus/C13/) ------------------------------------------------
def known(case, obs, verdict):
    return None


# ---- bookkeeping -------------------------------------------------------------------------------
def nontrivial(case, obs):
    if case.get("kind") == "macro":
        return True
    return isinstance(obs, list) and any(obs[t][1] != (obs[t - 1][1] if t > 1 else obs[0]) for t in range(1, len(obs)))


def key(case):
    if case.get("kind") == "macro":
        return [case["cls"], case["host"], case["run"], case["strict"]]
    return [case["nodes"], case["ops"]]


def shrink_candidates(case):
    if case.get("kind") == "macro":
        if case["run"]:
            yield dict(case, run=False)
        if case["host"] != "none":
            yield dict(case, host="none")
        return
    nodes, ops = case["nodes"], case["ops"]
    for i in range(len(ops) - 1, -1, -1):
        yield {"nodes": nodes, "ops": ops[:i] + ops[i + 1:]}
    for i, op in enumerate(ops):
        if op[0] == "add" and (op[3] is not None or op[4] is not None):
            yield {"nodes": nodes, "ops": ops[:i] + [["add", op[1], op[2], None, None]] + ops[i + 1:]}


def distribution(results):
    d = {"ops": {}, "results": {}, "histories_with_violation": 0, "clean_histories": 0, "max_depth": 0,
         "macro_family_cases": 0, "labels_with_blanks": 0}
    for c, enc, v, o in results:
        if c.get("kind") == "macro":
            d["macro_family_cases"] += 1
            continue
        d["labels_with_blanks"] += sum(1 for op in c["ops"] for a in op[1:] if isinstance(a, str) and a != a.strip())
        if v is None:
            d["clean_histories"] += 1
        else:
            d["histories_with_violation"] += 1
        if not isinstance(o, list) or (o and o[0] == "HARNESS-EXC"):
            continue
        for t in range(1, len(o)):
            k = c["ops"][t - 1][0]
            d["ops"][k] = d["ops"].get(k, 0) + 1
            d["results"][o[t][0]] = d["results"].get(o[t][0], 0) + 1
        last = o[-1][1] if len(o) > 1 else o[0]
        for s in last:
            d["max_depth"] = max(d["max_depth"], s[4].count("/"))
    return d
