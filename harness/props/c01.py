"""C01 -- automatic DAG execution is complete, ordered and correct under every schedule.

Model: coq/theories/Dag.v (abstract machine + the code-shaped FIFO scheduler `sched`).
Tie: real Workflows over function nodes are built from the same graph description; any
subset of children is handed to a ManualExecutor whose jobs are completed from the
parent's poll point in the order the scenario prescribes.  The merged start/finish log,
outputs, flags, the derived trigger wiring and the starting nodes are compared with the
model; the oracle checks (a)-(d) of the property on the implementation alone.
"""
from __future__ import annotations

from harness import lib, nodes
from harness.lib import cb, cl, cn, cz

PROP = "C01"
IMPORTS = "Base Dag"
RULE = ("random DAGs in topological numbering (2..12 nodes quick, ..30 thorough), 0-4 inputs per node, each input a "
        "constant or 1-3 prioritised connections to earlier nodes; every node independently local or on the manual "
        "executor; completion choices from the scenario's oracle. Non-trivial: at least one data edge AND at least one "
        "node with >=2 distinct upstream owners or an executor child. Distinct: distinct (graph, oracle).")
TRUSTED = ["harness ManualExecutor + replacement of pyiron_workflow.nodes.composite.sleep as the completion schedule",
           "toposort package (layer 0 = starting nodes) as Dag.sources"]
ASSUMPTIONS = ["executor callbacks are atomic events (finer thread interleavings are not exhibited: DESIGN C01 split-callback residue)",
               "node functions deterministic; fresh nodes (no cache hits inside one run)"]


def gen_graph(rng, nmax, p_remote):
    n = rng.randint(2, nmax)
    ns = []
    for i in range(n):
        m = rng.choice([0, 1, 1, 2, 2, 3, 4]) if i else rng.choice([0, 1, 2])
        ins = []
        for _ in range(m):
            if i == 0 or rng.random() < 0.3:
                ins.append(["c", rng.randint(0, 50)])
            else:
                cnt = min(i, rng.choice([1, 1, 1, 2, 2, 3]))
                ins.append(["n", rng.sample(range(i), cnt)])
        nd = {"k": rng.randint(0, 99), "ins": ins, "ex": rng.random() < p_remote}
        if len(ins) == 1 and rng.random() < 0.25:
            nd["macro"] = True      # a nested macro child with one input
        ns.append(nd)
    return ns


def generate(ctx):
    rng = ctx.rng
    out = []
    for j in range(ctx.n(350, 4000)):
        nmax = rng.choice([4, 6, 8, 12]) if ctx.quick else rng.choice([4, 8, 12, 20, 30])
        g = gen_graph(rng, nmax, rng.choice([0.0, 0.3, 0.6, 1.0]))
        out.append({"nodes": g, "oracle": [rng.randint(0, 7) for _ in range(len(g))]})
    # a few real thread-pool runs with a slow checkpoint back end on the executor children (regression for S20)
    for j in range(ctx.n(3, 25)):
        n = rng.randint(2, 4)
        out.append({"fam": "thread", "n": n, "threaded": sorted(rng.sample(range(n - 1), rng.randint(1, n - 1))),
                    "delay": rng.choice([0.05, 0.1])})
    if not ctx.quick:
        out.extend(enumerate_small())
    return out


def enumerate_small():
    """all DAG shapes on 3 single-input-set nodes x executor subsets x completion choices (exhaustive part)"""
    import itertools
    cases = []
    for ups1 in ([], [0]):
        for ups2 in ([], [0], [1], [0, 1], [1, 0]):
            for ex in itertools.product([False, True], repeat=3):
                for orc in itertools.product([0, 1], repeat=2):
                    ns = [{"k": 1, "ins": [["c", 2]], "ex": ex[0]},
                          {"k": 2, "ins": ([["n", ups1]] if ups1 else [["c", 3]]), "ex": ex[1]},
                          {"k": 3, "ins": ([["n", ups2]] if ups2 else [["c", 4]]), "ex": ex[2]}]
                    cases.append({"nodes": ns, "oracle": list(orc)})
    return cases


def corpus(ctx):
    import json
    out = []
    for p in sorted((lib.VERIF / "corpus" / PROP).glob("*.json")):
        out.extend(json.loads(p.read_text()))
    return out


def build(case, name="wf"):
    from pyiron_workflow import Workflow
    wf = Workflow(name)
    ex = nodes.ManualExecutor()
    children = []
    for i, nd in enumerate(case["nodes"]):
        m = len(nd["ins"])
        kw = {"tag": i, "k": nd["k"]}
        for j, inp in enumerate(nd["ins"]):
            if inp[0] == "c":
                kw[nodes.ARG[j]] = inp[1]
        if nd.get("macro"):
            node = M2(label=f"n{i}", k=nd["k"], **({"x": kw["a"]} if "a" in kw else {}))
        else:
            node = nodes.LIN[m](label=f"n{i}", **kw)
        wf.add_child(node)
        children.append(node)
        for j, inp in enumerate(nd["ins"]):
            if inp[0] == "n":
                for u in reversed(inp[1]):       # connect lowest priority first: newest connection wins
                    node.inputs["x" if nd.get("macro") else nodes.ARG[j]].connect(children[u].outputs[_out(children[u])])
        if nd["ex"]:
            node.executor = ex
    return wf, children, ex


from pyiron_workflow.nodes.macro import as_macro_node  # noqa: E402


@as_macro_node("y")
def M2(self, k, x):
    self.a = nodes.Lin1(tag=-1, k=k, a=x)
    self.b = nodes.Lin2(tag=-2, k=5, a=self.a, b=7)
    return self.b


def _out(node):
    return "y"


def make_hook(children, ex, oracle):
    oracle = list(oracle)

    def hook():
        outs = [i for i, c in enumerate(children) if c.running and c.future is not None and not c.future.done()]
        if not outs:
            return False
        k = oracle.pop(0) if oracle else 0
        i = outs[k % len(outs)]
        ex.complete(children[i].future)
        return True
    return hook


def run_threaded(case):
    """real ThreadPoolExecutor child whose checkpoint back end is slow: the parent must not return early (S20)"""
    import time
    from concurrent.futures import ThreadPoolExecutor
    from pyiron_workflow import Workflow
    from pyiron_workflow.channels import NOT_DATA
    from pyiron_workflow.storage import StorageInterface

    class Slow(StorageInterface):
        def _save(self, node, filename, /, **kw):
            time.sleep(case["delay"])

        def _load(self, filename, /, **kw):
            raise FileNotFoundError

        def _has_saved_content(self, filename, /, **kw):
            return False

        def _delete(self, filename, /, **kw):
            pass
    nodes.reset()
    wf = Workflow("wt", autoload=None)
    chain = []
    for i in range(case["n"]):
        node = nodes.Lin1(label=f"n{i}", tag=i, k=i + 1, **({"a": 2} if i == 0 else {}))
        wf.add_child(node)
        if i:
            node.inputs.a.connect(chain[-1].outputs.y)
        chain.append(node)
    ex = ThreadPoolExecutor(2)
    for i in case["threaded"]:
        chain[i].executor = ex
        chain[i].checkpoint = Slow()
    try:
        ret = dict(wf.run())
        ran = [c.outputs.y.value is not NOT_DATA for c in chain]
        res = ["ok", ran, [bool(c.running) for c in chain] + [bool(wf.running)], [t for t, a in nodes.CALLS]]
    except Exception as e:
        res = ["err", type(e).__name__]
    ex.shutdown(wait=True)
    return {"threaded": res}


def run_impl(case):
    if case.get("fam") == "thread":
        return run_threaded(case)
    from pyiron_workflow.channels import NOT_DATA
    nodes.reset()
    wf, children, ex = build(case)
    res = None
    with nodes.poll_hook(make_hook(children, ex, case["oracle"])), nodes.event_log():
        try:
            ret = wf.run()
            res = ["ok", sorted([k, v if isinstance(v, int) else "nd"] for k, v in dict(ret).items())]
        except Exception as e:
            res = ["err", nodes.exc_kind(e)]
    idx = {c.label: i for i, c in enumerate(children)}
    log = [[t, idx[c]] for (t, p, c) in nodes.EVENTS if p == wf.full_label]
    outs = [c.outputs.y.value if c.outputs.y.value is not NOT_DATA else "nd" for c in children]
    done = [(not c.running) and (not c.failed) and c.outputs.y.value is not NOT_DATA for c in children]
    wiring = [sorted({idx[o.owner.label] for o in c.signals.input.accumulate_and_run.connections}) for c in children]
    starting = [idx[s.label] for s in wf.starting_nodes]
    case["_order"] = starting
    calls = [t for (t, a) in nodes.CALLS]
    flags = [[bool(c.running), bool(c.failed)] for c in children] + [[bool(wf.running), bool(wf.failed)]]
    runsig = [len(c.signals.input.run.connections) for c in children]
    return {"model": [[log, outs, done], [wiring, sorted(starting)]], "res": res, "calls": calls, "flags": flags,
            "run_conns": runsig}


def model_view(case, obs):
    return obs["model"] if isinstance(obs, dict) else obs


def graph_coq(case):
    ns = []
    for nd in case["nodes"]:
        ins = cl((f"IConst {cz(i[1])}" if i[0] == "c" else "IConn " + cl(cn(u) for u in i[1])) for i in nd["ins"])
        ns.append(f"{{| n_k := {cz(nd['k'])}; n_ins := {ins}; n_remote := {cb(nd['ex'])}; n_macro := {cb(bool(nd.get('macro')))} |}}")
    return cl(ns)


def model_term(case):
    if case.get("fam") == "thread" or "_order" not in case:
        return None
    return (f"g_obs {graph_coq(case)} {cl(cn(u) for u in case['_order'])} "
            f"{cl(cn(u) for u in case['oracle'])}")


def expected_values(case):
    vals = []
    for nd in case["nodes"]:
        args = [(i[1] if i[0] == "c" else vals[i[1][0]]) for i in nd["ins"]]
        v = (nd["k"] + sum((j + 1) * a for j, a in enumerate(args))) % nodes.M
        if nd.get("macro"):
            v = (5 + v + 2 * 7) % nodes.M
        vals.append(v)
    return vals


def oracle(case, obs):
    if not isinstance(obs, dict):
        return f"crash: driver observation {obs}"
    if "threaded" in obs:
        r = obs["threaded"]
        if r[0] != "ok":
            return f"raised: threaded run raised {r[1]}"
        if not all(r[1]):
            return "early-return: run() returned before every child had run (a thread-pool child was still in its epilogue)"
        if any(r[2]):
            return "left-running: something is still running after run() returned"
        if sorted(r[3]) != list(range(case["n"])):
            return "not-once: a child's function was not called exactly once"
        return None
    (log, outs, done), (wiring, starting) = obs["model"]
    n = len(case["nodes"])
    if obs["res"][0] != "ok":
        return f"raised: running an acyclic graph raised {obs['res'][1]}"
    for i in range(n):
        if log.count(["s", i]) != 1 or log.count(["f", i]) != 1:
            return f"not-once: child n{i} started {log.count(['s', i])}x / finished {log.count(['f', i])}x"
        if not case["nodes"][i].get("macro") and obs["calls"].count(i) != 1:
            return f"not-once: function of n{i} called {obs['calls'].count(i)}x"
    n_mac = sum(1 for nd in case["nodes"] if nd.get("macro"))
    if obs["calls"].count(-1) != n_mac or obs["calls"].count(-2) != n_mac:
        return "not-once: the children of a nested macro were not each called exactly once"
    for i in range(n):
        pass
    for i, nd in enumerate(case["nodes"]):
        for inp in nd["ins"]:
            if inp[0] == "n":
                for u in inp[1]:
                    if log.index(["f", u]) > log.index(["s", i]):
                        return f"early: n{i} started before its upstream n{u} finished"
    exp = expected_values(case)
    if outs != exp:
        bad = [i for i in range(n) if outs[i] != exp[i]]
        return f"wrong-value: outputs of {['n%d' % i for i in bad]} differ from plain composition"
    if any(r or f for r, f in obs["flags"]):
        return "left-running: a node is still running/failed after the run returned"
    # the returned dictionary = the unconnected outputs
    used = {u for nd in case["nodes"] for inp in nd["ins"] if inp[0] == "n" for u in inp[1]}
    exp_ret = sorted([f"n{i}__y", exp[i]] for i in range(n) if i not in used)
    if obs["res"][1] != exp_ret:
        return "wrong-return: run() did not return the open outputs' values"
    return None


def nontrivial(case, obs):
    if case.get("fam") == "thread":
        return True
    ups = [set(u for inp in nd["ins"] if inp[0] == "n" for u in inp[1]) for nd in case["nodes"]]
    return any(ups) and (any(len(u) >= 2 for u in ups) or any(nd["ex"] for nd in case["nodes"]))


def key(case):
    return case if case.get("fam") == "thread" else [case["nodes"], case["oracle"]]


def shrink_candidates(case):
    if case.get("fam") == "thread":
        return
    ns = case["nodes"]
    n = len(ns)
    # drop the last node / a leaf node
    used = {u for nd in ns for inp in nd["ins"] if inp[0] == "n" for u in inp[1]}
    for d in reversed(range(n)):
        if d not in used and n > 1:
            new = []
            for i, nd in enumerate(ns):
                if i == d:
                    continue
                ins = []
                for inp in nd["ins"]:
                    if inp[0] == "n":
                        ins.append(["n", [u - (u > d) for u in inp[1]]])
                    else:
                        ins.append(inp)
                new.append({"k": nd["k"], "ins": ins, "ex": nd["ex"]})
            yield {"nodes": new, "oracle": case["oracle"]}
    for i, nd in enumerate(ns):
        if nd["ex"]:
            new = [dict(x) for x in ns]
            new[i]["ex"] = False
            yield {"nodes": new, "oracle": case["oracle"]}
        for j, inp in enumerate(nd["ins"]):
            new = [dict(x, ins=[list(y) for y in x["ins"]]) for x in ns]
            if inp[0] == "n" and len(inp[1]) > 1:
                new[i]["ins"][j] = ["n", inp[1][:-1]]
                yield {"nodes": new, "oracle": case["oracle"]}
            elif inp[0] == "n":
                new[i]["ins"][j] = ["c", 1]
                yield {"nodes": new, "oracle": case["oracle"]}
    if any(case["oracle"]):
        yield {"nodes": ns, "oracle": [0] * len(case["oracle"])}


def distribution(results):
    import collections
    sizes = collections.Counter()
    remote = collections.Counter()
    edges = 0
    for c, enc, v, o in results:
        if c.get("fam") == "thread":
            continue
        sizes[len(c["nodes"])] += 1
        remote[sum(1 for nd in c["nodes"] if nd["ex"])] += 1
        edges += sum(len(inp[1]) for nd in c["nodes"] for inp in nd["ins"] if inp[0] == "n")
    return {"nodes_per_graph": dict(sorted(sizes.items())), "executor_children_per_graph": dict(sorted(remote.items())),
            "data_connections_total": edges}
