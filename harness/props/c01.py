"""C01 -- automatic DAG execution is complete, ordered and correct under every schedule.

Model: coq/theories/Dag.v (abstract machine + the code-shaped FIFO scheduler `sched`).
Tie: real Workflows over function nodes are built from the same graph description; any
subset of children is handed to a ManualExecutor whose jobs are completed from the
parent's poll point in the order the scenario prescribes.  The merged start/finish log,
outputs, flags, the derived trigger wiring and the starting nodes are compared with the
model; the oracle checks (a)-(d) of the property on the implementation alone.
"""
from __future__ import annotations

from harness import lib, nodes
from harness.lib import cb, cl, cn, cz

PROP = "C01"
IMPORTS = "Base Dag Poll"
RULE = ("random DAGs in topological numbering (2..12 nodes quick, ..30 thorough), 0-4 inputs per node, each input a "
        "constant or 1-3 prioritised connections to earlier nodes; every node independently local or on the manual "
        "executor; completion choices from the scenario's oracle. Non-trivial: at least one data edge AND at least one "
        "node with >=2 distinct upstream owners or an executor child. Distinct: distinct (graph, oracle).")
TRUSTED = ["harness ManualExecutor + replacement of pyiron_workflow.nodes.composite.sleep as the completion schedule",
           "toposort package (layer 0 = starting nodes) as Dag.sources"]
ASSUMPTIONS = ["dag family: executor callbacks are atomic events; race family: the interleaving is at the granularity of the "
               "accesses to running_children / signal_queue (Poll.v) -- finer (bytecode-level) interleavings rely on the GIL "
               "making single list operations atomic",
               "node functions deterministic; fresh nodes (no cache hits inside one run)"]


def gen_graph(rng, nmax, p_remote):
    n = rng.randint(2, nmax)
    ns = []
    for i in range(n):
        m = rng.choice([0, 1, 1, 2, 2, 3, 4]) if i else rng.choice([0, 1, 2])
        ins = []
        for _ in range(m):
            if i == 0 or rng.random() < 0.3:
                ins.append(["c", rng.randint(0, 50)])
            else:
                cnt = min(i, rng.choice([1, 1, 1, 2, 2, 3]))
                ins.append(["n", rng.sample(range(i), cnt)])
        nd = {"k": rng.randint(0, 99), "ins": ins, "ex": rng.random() < p_remote}
        if len(ins) == 1 and rng.random() < 0.25:
            nd["macro"] = True      # a nested macro child with one input
        elif len(ins) == 1 and rng.random() < 0.3:
            nd["fk"] = rng.randint(1, 9)    # its class comes from a factory of same-named closures (computes the same function)
        ns.append(nd)
    return ns


def generate(ctx):
    rng = ctx.rng
    out = []
    for j in range(ctx.n(350, 4000)):
        nmax = rng.choice([4, 6, 8, 12]) if ctx.quick else rng.choice([4, 8, 12, 20, 30])
        g = gen_graph(rng, nmax, rng.choice([0.0, 0.3, 0.6, 1.0]))
        c = {"nodes": g, "oracle": [rng.randint(0, 7) for _ in range(len(g))]}
        if rng.random() < 0.3:
            c["pickle"] = True
        if rng.random() < 0.35:
            c["rerun"] = {"oracle0": [rng.randint(0, 7) for _ in range(len(g))], "bump": rng.randint(1, 5)}
            if rng.random() < 0.5:
                unused = [i for i in range(len(g)) if not any(inp[0] == "n" and i in inp[1] for nd in g for inp in nd["ins"])]
                c["rerun"]["edit"] = [rng.choice(["swap", "swap", "reconnect"]), rng.choice(unused)]
        if rng.random() < 0.15 and not (c.get("rerun") or {}).get("edit"):
            cands = [(i, j) for i, nd in enumerate(g) if i >= 1 and not nd.get("macro") for j, inp in enumerate(nd["ins"]) if inp[0] == "c"]
            if cands:
                i, j = rng.choice(cands)
                c["kwedge"] = [i, j, rng.randrange(i)]
        out.append(c)
    # targeted: a nested macro with a fan-in of 2-3 upstream nodes crosses a pickle boundary (its merged-back copy must
    # come home with clean trigger state), and the workflow is run a second time
    for j in range(ctx.n(30, 300)):
        g = gen_graph(rng, rng.choice([4, 6, 8]), rng.choice([0.0, 0.3, 0.6]))
        while len(g) < 3:
            g = gen_graph(rng, 6, 0.3)
        i = rng.randrange(2, len(g))
        g[i] = {"k": rng.randint(0, 99), "ins": [["n", rng.sample(range(i), min(i, rng.choice([2, 2, 3])))]], "ex": True, "macro": True}
        out.append({"nodes": g, "oracle": [rng.randint(0, 7) for _ in range(len(g))], "pickle": True,
                    "rerun": {"oracle0": [rng.randint(0, 7) for _ in range(len(g))], "bump": rng.randint(1, 5)}})
    # a few real thread-pool runs with a slow checkpoint back end on the executor children (regression for S20)
    for j in range(ctx.n(3, 25)):
        n = rng.randint(2, 4)
        out.append({"fam": "thread", "n": n, "threaded": sorted(rng.sample(range(n - 1), rng.randint(1, n - 1))),
                    "delay": rng.choice([0.05, 0.1])})
    # the wait loop against the done-callbacks, list access by list access (Poll.v)
    for j in range(ctx.n(160, 2500)):
        g = gen_graph(rng, rng.choice([2, 3, 4, 6]), rng.choice([0.5, 0.8, 1.0]))
        if not any(nd["ex"] for nd in g):
            g[0]["ex"] = True
        out.append({"fam": "race", "nodes": g, "sched": [rng.randint(0, 5) for _ in range(rng.choice([10, 30, 80]))]})
    if not ctx.quick:
        out.extend(enumerate_small())
        out.extend(enumerate_race())
    return out


def enumerate_race():
    """every schedule prefix of length 7 over <=3 choices for executor-child -> local child (and a 2-job fork)"""
    import itertools
    g1 = [{"k": 1, "ins": [["c", 2]], "ex": True}, {"k": 2, "ins": [["n", [0]]], "ex": False}]
    g2 = [{"k": 1, "ins": [["c", 2]], "ex": True}, {"k": 2, "ins": [["c", 3]], "ex": True},
          {"k": 3, "ins": [["n", [0]], ["n", [1]]], "ex": False}]
    out = [{"fam": "race", "nodes": g1, "sched": list(s)} for s in itertools.product(range(3), repeat=7)]
    out += [{"fam": "race", "nodes": g2, "sched": list(s)} for s in itertools.product(range(4), repeat=5)]
    return out


def enumerate_small():
    """all DAG shapes on 3 single-input-set nodes x executor subsets x completion choices (exhaustive part)"""
    import itertools
    cases = []
    for ups1 in ([], [0]):
        for ups2 in ([], [0], [1], [0, 1], [1, 0]):
            for ex in itertools.product([False, True], repeat=3):
                for orc in itertools.product([0, 1], repeat=2):
                    ns = [{"k": 1, "ins": [["c", 2]], "ex": ex[0]},
                          {"k": 2, "ins": ([["n", ups1]] if ups1 else [["c", 3]]), "ex": ex[1]},
                          {"k": 3, "ins": ([["n", ups2]] if ups2 else [["c", 4]]), "ex": ex[2]}]
                    cases.append({"nodes": ns, "oracle": list(orc)})
    return cases


def corpus(ctx):
    import json
    out = []
    for p in sorted((lib.VERIF / "corpus" / PROP).glob("*.json")):
        out.extend(json.loads(p.read_text()))
    return out


def build(case, name="wf", cls=None):
    from pyiron_workflow import Workflow
    wf = (cls or Workflow)(name)
    ex = nodes.ManualExecutor()
    children = []
    for i, nd in enumerate(case["nodes"]):
        m = len(nd["ins"])
        kw = {"tag": i, "k": nd["k"]}
        for j, inp in enumerate(nd["ins"]):
            if inp[0] == "c":
                kw[nodes.ARG[j]] = inp[1]
        if nd.get("macro"):
            node = M2(label=f"n{i}", k=nd["k"], **({"x": kw["a"]} if "a" in kw else {}))
        elif nd.get("fk"):
            make_lin1(nd["fk"] + 1)      # another closure of the same name was wrapped just before
            node = make_lin1(nd["fk"])(label=f"n{i}", **dict(kw, k=nd["k"] - nd["fk"]))
        else:
            node = nodes.LIN[m](label=f"n{i}", **kw)
        wf.add_child(node)
        children.append(node)
        for j, inp in enumerate(nd["ins"]):
            if inp[0] == "n":
                for u in reversed(inp[1]):       # connect lowest priority first: newest connection wins
                    node.inputs["x" if nd.get("macro") else nodes.ARG[j]].connect(children[u].outputs[_out(children[u])])
        if nd["ex"]:
            if case.get("pickle") and nd.get("macro"):
                from harness import c10_nodes
                node.executor = c10_nodes.PickleBoundaryExecutor()     # the macro crosses by value and is merged back
            else:
                node.executor = ex
    return wf, children, ex


def eff(case):
    """the graph the observed run executed: a re-run case bumps every constant input before its second run"""
    rr = case.get("rerun")
    ns = case["nodes"]
    if rr:
        ns = [dict(nd, ins=[(["c", i[1] + rr["bump"]] if i[0] == "c" else i) for i in nd["ins"]]) for nd in ns]
    ke = case.get("kwedge")
    if ke:
        # a data edge that only comes into being with the (last) run: a channel handed to run() as a keyword value
        i, j, u = ke
        ns = [dict(nd, ins=[(["n", [u]] if (a == i and b == j) else inp) for b, inp in enumerate(nd["ins"])]) for a, nd in enumerate(ns)]
    return ns


from pyiron_workflow.nodes.macro import as_macro_node  # noqa: E402


from pyiron_workflow.nodes.function import as_function_node  # noqa: E402


@as_function_node("y")
def LinTwice(tag, k, a, a2):
    """Lin1 reading its argument from two channels: the macro input x feeds BOTH, and nothing else"""
    if a != a2:
        raise ValueError(f"the two readings of the macro's input differ: {a} / {a2}")
    return nodes.lin(tag, k, [a])


def make_lin1(shift):
    """node classes made by a factory: every call wraps ANOTHER function of the same name (a closure over `shift`)"""
    @as_function_node("y")
    def LinF(tag, k, a):
        return nodes.lin(tag, k + shift, [a])
    return LinF


@as_macro_node("y")
def M2(self, k, x):
    self.a = LinTwice(tag=-1, k=k, a=x, a2=x)
    self.b = nodes.Lin2(tag=-2, k=5, a=self.a, b=7)
    return self.b


def _out(node):
    return "y"


def make_hook(children, ex, oracle):
    oracle = list(oracle)

    def hook():
        outs = [i for i, c in enumerate(children) if c.running and c.future is not None and not c.future.done()]
        if not outs:
            return False
        k = oracle.pop(0) if oracle else 0
        i = outs[k % len(outs)]
        children[i].executor.complete(children[i].future)
        return True
    return hook


def run_threaded(case):
    """real ThreadPoolExecutor child whose checkpoint back end is slow: the parent must not return early (S20)"""
    import time
    from concurrent.futures import ThreadPoolExecutor
    from pyiron_workflow import Workflow
    from pyiron_workflow.channels import NOT_DATA
    from pyiron_workflow.storage import StorageInterface

    class Slow(StorageInterface):
        def _save(self, node, filename, /, **kw):
            time.sleep(case["delay"])

        def _load(self, filename, /, **kw):
            raise FileNotFoundError

        def _has_saved_content(self, filename, /, **kw):
            return False

        def _delete(self, filename, /, **kw):
            pass
    nodes.reset()
    wf = Workflow("wt", autoload=None)
    chain = []
    for i in range(case["n"]):
        node = nodes.Lin1(label=f"n{i}", tag=i, k=i + 1, **({"a": 2} if i == 0 else {}))
        wf.add_child(node)
        if i:
            node.inputs.a.connect(chain[-1].outputs.y)
        chain.append(node)
    ex = ThreadPoolExecutor(2)
    for i in case["threaded"]:
        chain[i].executor = ex
        chain[i].checkpoint = Slow()
    try:
        ret = dict(wf.run())
        ran = [c.outputs.y.value is not NOT_DATA for c in chain]
        res = ["ok", ran, [bool(c.running) for c in chain] + [bool(wf.running)], [t for t, a in nodes.CALLS]]
    except Exception as e:
        res = ["err", type(e).__name__]
    ex.shutdown(wait=True)
    return {"threaded": res}


def run_race(case):
    """the same workflows, but the parent runs on thread P and every completion on its own thread; the
    schedule interleaves them at the accesses to the parent's two bookkeeping lists (harness/baton.py)"""
    import pyiron_workflow.nodes.composite as comp
    from pyiron_workflow.channels import NOT_DATA
    from harness import baton
    nodes.reset()
    B = baton.Baton(case["sched"])
    cls = baton.probed_workflow_class()
    cls._baton = B
    wf, children, ex = build(case, cls=cls)
    box = {}

    def parent():
        try:
            ret = wf.run()
            box["res"] = ["ok", sorted([k, v if isinstance(v, int) else "nd"] for k, v in dict(ret).items())]
        except Exception as e:
            box["res"] = ["err", nodes.exc_kind(e) + [[str(e)[:80]]]]

    def outstanding():
        return [i for i, c in enumerate(children) if c.running and c.future is not None and not c.future.done()]

    def sleep(_dt):
        B.point("sleep")
        B.log("sleep")
        if B.hang:
            raise RuntimeError("hang: the parent sleeps although no job is out and no callback is unfinished")
    old = comp.sleep
    comp.sleep = sleep
    try:
        with nodes.event_log():
            B.drive(parent, outstanding, lambda j: ex.complete(children[j].future))
    except baton.Stuck as e:
        box.setdefault("res", ["err", [["Stuck"], [str(e)[:80]]]])
    finally:
        comp.sleep = old
    box.setdefault("res", ["err", [["no-result"]]])
    idx = {c.label: i for i, c in enumerate(children)}
    log = [[t, idx[c]] for (t, p, c) in nodes.EVENTS if p == wf.full_label]
    outs = [c.outputs.y.value if c.outputs.y.value is not NOT_DATA else "nd" for c in children]
    done = [(not c.running) and (not c.failed) and c.outputs.y.value is not NOT_DATA for c in children]
    wiring = [sorted({idx[o.owner.label] for o in c.signals.input.accumulate_and_run.connections}) for c in children]
    starting = [idx[s.label] for s in wf.starting_nodes]
    calls = [t for (t, a) in nodes.CALLS]
    flags = [[bool(c.running), bool(c.failed)] for c in children] + [[bool(wf.running), bool(wf.failed)]]
    # ---- the trace as a history of the Poll machine
    tr = B.trace
    appends = {}
    for th, kind, *a in tr:
        if th.startswith("W") and kind == "append_queue":
            appends[int(th[1:])] = appends.get(int(th[1:]), 0) + 1

    def effects(evs):
        enq, add, rem = 0, [], []
        for th, kind, *a in evs:
            if th != "P":
                continue
            if kind == "append_queue":
                enq += 1
            elif kind == "append_running":
                add.append(idx.get(a[0], 99))
            elif kind == "remove_running":
                rem.append(idx.get(a[0], 99))
        return enq, [[j, appends.get(j, 0)] for j in add if j not in rem]
    try:
        i0 = next(i for i, e in enumerate(tr) if e[1] == "loop_enter")
    except StopIteration:
        i0 = len(tr)
    enq0, starts0 = effects(tr[:i0])
    ops, seen = [], []
    i = i0 + 1
    exit_state = None
    while i < len(tr):
        th, kind, *a = tr[i]
        if th == "P" and kind in ("len_running", "len_queue"):
            ops.append("ORead")
            seen.append(["r" if kind == "len_running" else "q", a[0]])
        elif th == "P" and kind == "pop":
            j = i + 1
            while j < len(tr) and not (tr[j][0] == "P" and tr[j][1] in ("len_running", "len_queue", "loop_exit")):
                j += 1
            enq, starts = effects(tr[i + 1:j])
            ops.append(["OBody", enq, starts])
            seen.append(["pop", 1 if a[0] else 0])
        elif th == "P" and kind == "loop_exit":
            exit_state = a
        elif th.startswith("W") and kind in ("append_queue", "remove_running"):
            ops.append(["OW", int(th[1:])])
        i += 1
    unfinished = len([1 for j in appends if not any(e[0] == f"W{j}" and e[1] == "remove_running" for e in tr)])
    view = [seen, "exit" if exit_state is not None else "noexit", *(exit_state or [0, 0]), 0, 0]
    case["_poll"] = [enq0, starts0, ops]
    return {"model": [[log, outs, done], [wiring, sorted(starting)]], "res": box["res"], "calls": calls, "flags": flags,
            "run_conns": [len(c.signals.input.run.connections) for c in children], "poll_view": view,
            "hang": B.hang, "steps": len(tr), "preempted": sum(1 for a, b in zip(tr, tr[1:]) if a[0] != b[0])}


def run_impl(case):
    if case.get("fam") == "thread":
        return run_threaded(case)
    if case.get("fam") == "race":
        return run_race(case)
    from pyiron_workflow.channels import NOT_DATA
    nodes.reset()
    wf, children, ex = build(case)
    res = None
    rr = case.get("rerun")
    first = None
    if rr:
        from pyiron_workflow.nodes.composite import Composite
        # history prefix: a complete first run (its own completion order), then every constant input changes
        wf.use_cache = False
        for c in children:
            c.use_cache = False
            for cc in (list(c.children.values()) if isinstance(c, Composite) else []):
                cc.use_cache = False
        with nodes.poll_hook(make_hook(children, ex, rr["oracle0"])):
            try:
                wf.run()
                first = "ok"
            except Exception as e:
                first = ["err", nodes.exc_kind(e)]
        for c, nd in zip(children, case["nodes"]):
            for j, inp in enumerate(nd["ins"]):
                if inp[0] == "c":
                    c.inputs["x" if nd.get("macro") else nodes.ARG[j]].value = inp[1] + rr["bump"]
        # optional edit between the runs that ends in the very same graph: a child nobody consumes is swapped by hand
        # for an identical fresh node under the same label, or is disconnected and connected again
        ed = rr.get("edit")
        used = {u for nd in case["nodes"] for inp in nd["ins"] if inp[0] == "n" for u in inp[1]}
        if ed and ed[1] < len(children) and ed[1] not in used and not case["nodes"][ed[1]].get("macro"):
            i = ed[1]
            nd = eff(case)[i]
            if ed[0] == "swap":
                wf.remove_child(children[i])
                kw = {"tag": i, "k": nd["k"]}
                for j, inp in enumerate(nd["ins"]):
                    if inp[0] == "c":
                        kw[nodes.ARG[j]] = inp[1]
                new = nodes.LIN[len(nd["ins"])](label=f"n{i}", **kw)
                new.use_cache = False
                wf.add_child(new)
                children[i] = new
                if nd["ex"]:
                    new.executor = ex
            else:
                children[i].disconnect()
            for j, inp in enumerate(nd["ins"]):
                if inp[0] == "n":
                    for u in reversed(inp[1]):
                        children[i].inputs[nodes.ARG[j]].connect(children[u].outputs[_out(children[u])])
        nodes.reset()
    run_kw = {}
    if case.get("kwedge"):
        i, j, u = case["kwedge"]
        run_kw = {f"n{i}__{nodes.ARG[j]}": children[u].outputs.y}
    with nodes.poll_hook(make_hook(children, ex, case["oracle"])), nodes.event_log():
        try:
            ret = wf.run(**run_kw)
            res = ["ok", sorted([k, v if isinstance(v, int) else "nd"] for k, v in dict(ret).items())]
        except Exception as e:
            res = ["err", nodes.exc_kind(e)]
    idx = {c.label: i for i, c in enumerate(children)}
    log = [[t, idx[c]] for (t, p, c) in nodes.EVENTS if p == wf.full_label]
    outs = [c.outputs.y.value if c.outputs.y.value is not NOT_DATA else "nd" for c in children]
    done = [(not c.running) and (not c.failed) and c.outputs.y.value is not NOT_DATA for c in children]
    wiring = [sorted({idx[o.owner.label] for o in c.signals.input.accumulate_and_run.connections}) for c in children]
    starting = [idx[s.label] for s in wf.starting_nodes]
    case["_order"] = starting
    calls = [t for (t, a) in nodes.CALLS]
    flags = [[bool(c.running), bool(c.failed)] for c in children] + [[bool(wf.running), bool(wf.failed)]]
    runsig = [len(c.signals.input.run.connections) for c in children]
    return {"model": [[log, outs, done], [wiring, sorted(starting)]], "res": res, "calls": calls, "flags": flags,
            "run_conns": runsig, "first": first}


def model_view(case, obs):
    if case.get("fam") == "race" and isinstance(obs, dict):
        return obs["poll_view"]
    return obs["model"] if isinstance(obs, dict) else obs


def graph_coq(case):
    ns = []
    for nd in eff(case):
        ins = cl((f"IConst {cz(i[1])}" if i[0] == "c" else "IConn " + cl(cn(u) for u in i[1])) for i in nd["ins"])
        ns.append(f"{{| n_k := {cz(nd['k'])}; n_ins := {ins}; n_remote := {cb(nd['ex'])}; n_macro := {cb(bool(nd.get('macro')))} |}}")
    return cl(ns)


def model_term(case):
    if case.get("fam") == "race":
        if "_poll" not in case:
            return None
        enq0, starts0, ops = case["_poll"]
        pairs = lambda st: cl(f"({cn(j)}, {cn(k)})" for j, k in st)     # noqa: E731
        return (f"obs_poll {cn(enq0)} {pairs(starts0)} " +
                cl(o if o == "ORead" else (f"OW {cn(o[1])}" if o[0] == "OW" else f"OBody {cn(o[1])} {pairs(o[2])}")
                   for o in ops))
    if case.get("fam") == "thread" or "_order" not in case:
        return None
    if (case.get("rerun") or {}).get("edit"):
        # a swapped / re-connected child is wired anew, which changes the ORDER in which equally ready children are
        # delivered (one of the event sequences the theorems quantify over): judged by the oracle, not the FIFO refinement
        return None
    return (f"g_obs {graph_coq(case)} {cl(cn(u) for u in case['_order'])} "
            f"{cl(cn(u) for u in case['oracle'])}")


def expected_values(case):
    vals = []
    for nd in eff(case):
        args = [(i[1] if i[0] == "c" else vals[i[1][0]]) for i in nd["ins"]]
        v = (nd["k"] + sum((j + 1) * a for j, a in enumerate(args))) % nodes.M
        if nd.get("macro"):
            v = (5 + v + 2 * 7) % nodes.M
        vals.append(v)
    return vals


def oracle(case, obs):
    if not isinstance(obs, dict):
        return f"crash: driver observation {obs}"
    if "threaded" in obs:
        r = obs["threaded"]
        if r[0] != "ok":
            return f"raised: threaded run raised {r[1]}"
        if not all(r[1]):
            return "early-return: run() returned before every child had run (a thread-pool child was still in its epilogue)"
        if any(r[2]):
            return "left-running: something is still running after run() returned"
        if sorted(r[3]) != list(range(case["n"])):
            return "not-once: a child's function was not called exactly once"
        return None
    (log, outs, done), (wiring, starting) = obs["model"]
    n = len(case["nodes"])
    if obs.get("first") not in (None, "ok"):
        return f"raised: the first run of the re-run history raised {obs['first'][1]}"
    if obs.get("hang"):
        return "hang: the parent keeps sleeping although no job is out and no callback is unfinished"
    if obs["res"][0] != "ok":
        return f"raised: running an acyclic graph raised {obs['res'][1]}"
    for i in range(n):
        if log.count(["s", i]) != 1 or log.count(["f", i]) != 1:
            return f"not-once: child n{i} started {log.count(['s', i])}x / finished {log.count(['f', i])}x"
        if not case["nodes"][i].get("macro") and obs["calls"].count(i) != 1:
            return f"not-once: function of n{i} called {obs['calls'].count(i)}x"
    n_mac = sum(1 for nd in case["nodes"] if nd.get("macro"))
    if obs["calls"].count(-1) != n_mac or obs["calls"].count(-2) != n_mac:
        return "not-once: the children of a nested macro were not each called exactly once"
    for i in range(n):
        pass
    for i, nd in enumerate(eff(case)):
        if case.get("fam") == "race":
            break       # the callback enqueues before it un-registers (the logged "finish"): order is judged by the values
        for inp in nd["ins"]:
            if inp[0] == "n":
                for u in inp[1]:
                    if log.index(["f", u]) > log.index(["s", i]):
                        return f"early: n{i} started before its upstream n{u} finished"
    exp = expected_values(case)
    if outs != exp:
        bad = [i for i in range(n) if outs[i] != exp[i]]
        return f"wrong-value: outputs of {['n%d' % i for i in bad]} differ from plain composition"
    if any(r or f for r, f in obs["flags"]):
        return "left-running: a node is still running/failed after the run returned"
    # the returned dictionary = the unconnected outputs
    used = {u for nd in eff(case) for inp in nd["ins"] if inp[0] == "n" for u in inp[1]}
    exp_ret = sorted([f"n{i}__y", exp[i]] for i in range(n) if i not in used)
    if obs["res"][1] != exp_ret:
        return "wrong-return: run() did not return the open outputs' values"
    return None


def nontrivial(case, obs):
    if case.get("fam") == "thread":
        return True
    if case.get("fam") == "race":
        return isinstance(obs, dict) and obs.get("preempted", 0) >= 3
    ups = [set(u for inp in nd["ins"] if inp[0] == "n" for u in inp[1]) for nd in case["nodes"]]
    return any(ups) and (any(len(u) >= 2 for u in ups) or any(nd["ex"] for nd in case["nodes"]))


def key(case):
    if case.get("fam") == "race":
        return ["race", case["nodes"], case["sched"]]
    return case if case.get("fam") == "thread" else [case["nodes"], case["oracle"], case.get("pickle"), case.get("rerun")]


def shrink_candidates(case):
    if case.get("fam") == "thread":
        return
    if case.get("fam") == "race":
        sc = case["sched"]
        if sc:
            yield dict(case, sched=sc[:len(sc) // 2])
            yield dict(case, sched=sc[:-1])
            for i, v in enumerate(sc):
                if v:
                    yield dict(case, sched=sc[:i] + [0] + sc[i + 1:])
        ns = case["nodes"]
        if len(ns) > 1 and not any(u == len(ns) - 1 for nd in ns for inp in nd["ins"] if inp[0] == "n" for u in inp[1]):
            yield dict(case, nodes=ns[:-1])
        for i, nd in enumerate(ns):
            if nd["ex"] and sum(1 for x in ns if x["ex"]) > 1:
                new = [dict(x) for x in ns]
                new[i]["ex"] = False
                yield dict(case, nodes=new)
        return
    ns = case["nodes"]
    n = len(ns)
    extra = {k: case[k] for k in ("pickle", "rerun") if k in case}
    for k in extra:
        yield {kk: v for kk, v in case.items() if kk != k and not kk.startswith("_")}
    # drop the last node / a leaf node
    used = {u for nd in ns for inp in nd["ins"] if inp[0] == "n" for u in inp[1]}
    for d in reversed(range(n)):
        if d not in used and n > 1:
            new = []
            for i, nd in enumerate(ns):
                if i == d:
                    continue
                ins = []
                for inp in nd["ins"]:
                    if inp[0] == "n":
                        ins.append(["n", [u - (u > d) for u in inp[1]]])
                    else:
                        ins.append(inp)
                new.append(dict(nd, ins=ins))
            yield dict(extra, nodes=new, oracle=case["oracle"])
    for i, nd in enumerate(ns):
        if nd["ex"]:
            new = [dict(x) for x in ns]
            new[i]["ex"] = False
            yield dict(extra, nodes=new, oracle=case["oracle"])
        for j, inp in enumerate(nd["ins"]):
            new = [dict(x, ins=[list(y) for y in x["ins"]]) for x in ns]
            if inp[0] == "n" and len(inp[1]) > 1:
                new[i]["ins"][j] = ["n", inp[1][:-1]]
                yield dict(extra, nodes=new, oracle=case["oracle"])
            elif inp[0] == "n":
                new[i]["ins"][j] = ["c", 1]
                yield dict(extra, nodes=new, oracle=case["oracle"])
    if any(case["oracle"]):
        yield dict(extra, nodes=ns, oracle=[0] * len(case["oracle"]))


def distribution(results):
    import collections
    sizes = collections.Counter()
    remote = collections.Counter()
    edges = 0
    race = {"cases": 0, "list_accesses": 0, "thread_switches": 0, "loop_reads": 0}
    for c, enc, v, o in results:
        if c.get("fam") == "race":
            race["cases"] += 1
            if isinstance(o, dict):
                race["list_accesses"] += o.get("steps", 0)
                race["thread_switches"] += o.get("preempted", 0)
                race["loop_reads"] += len(o["poll_view"][0])
            continue
        if c.get("fam") == "thread":
            continue
        sizes[len(c["nodes"])] += 1
        remote[sum(1 for nd in c["nodes"] if nd["ex"])] += 1
        edges += sum(len(inp[1]) for nd in c["nodes"] for inp in nd["ins"] if inp[0] == "n")
    return {"nodes_per_graph": dict(sorted(sizes.items())), "executor_children_per_graph": dict(sorted(remote.items())),
            "data_connections_total": edges, "race_family": race}
