"""C05 -- caching is transparent: a run served from cache equals a real run.

leaf family : a history of assignments / local runs / executor submits and completions /
              flag clears on ONE real function node, once with caching (compared with
              Cache.obs_run true) -- and the SAME history on a twin with use_cache=False
              (compared with Cache.obs_run false).  The oracle is the twin comparison itself
              on the real library, independent of the model.
comp family : the twin comparison on real macros including histories with internal
              (silent) edits; no model term (the composite is the machine's [cfg]).
"""
from __future__ import annotations

from harness import lib, nodes
from harness.lib import cb, cl, cn, cz, copt

PROP = "C05"
IMPORTS = "Base Cache CacheKeys CacheWf"
RULE = ("leaf: histories of 5-25 ops (assign incl. negative = failing and repeated values, run local, submit, ops while "
        "in flight, complete, clear failed) on a 2-input node, inputs partly missing at the start; comp: histories of 4-14 "
        "ops on a two-child macro incl. child additions (cache reset) and silent internal edits. Non-trivial: >=1 cache hit "
        "and >=1 of {failure, refusal, executor run}. Distinct by content.")
TRUSTED = ["use_cache=False set as an instance attribute is the library's 'caching switched off'"]
ASSUMPTIONS = ["node functions deterministic (failure decided by the arguments) and not mutating their arguments",
               "an executor run is observed at completion (its eventual result); operations attempted while a job is out "
               "are refused on both twins or not applicable (C05_in_flight_frozen)"]
K = 5


def gen_leaf(rng):
    ins = [rng.choice([None, 1, 2, 3]), rng.choice([None, 0, 4])]
    if rng.random() < 0.12:
        # save/load cycles: the node writes a checkpoint at the end of every executed run; `reload` starts over from a
        # fresh object that loads the last checkpoint (local runs only)
        ops = [["run"]] if rng.random() < 0.5 else []
        for _ in range(rng.randint(4, 14)):
            r = rng.random()
            if r < 0.4:
                ops.append(["assign", rng.randint(0, 1), rng.choice([0, 1, 2, 3, -1])])
            elif r < 0.75:
                ops.append(["run"])
            elif r < 0.85:
                ops.append(["clear"])
            else:
                ops.append(["reload"])
        ins = [rng.choice([1, 2, 3]), rng.choice([0, 4])]
        if rng.random() < 0.5:
            # ... returning, after the reload, to the inputs of the run BEFORE the one whose checkpoint was loaded
            i = rng.randint(0, 1)
            ops = [["run"], ["assign", i, ins[i] + rng.choice([1, 2])], ["run"], ["reload"], ["assign", i, ins[i]], ["run"]] + ops[:rng.randint(0, 5)]
        return {"fam": "leaf", "ins": ins, "ops": ops, "ckpt": True}
    ops = []
    flying = False
    for _ in range(rng.randint(5, 25)):
        r = rng.random()
        if flying:
            if r < 0.08:
                ops.append(["cancel"])          # the pending job is withdrawn (future.cancel()): it never executes
                ops.append(["complete"])        # (a twin in which nothing was withdrawn lets its job finish)
                flying = False
            elif r < 0.5:
                ops.append(["complete"])
                flying = None   # unknown: depends on hit/miss; generator stays conservative
                flying = False
            elif r < 0.7:
                ops.append(["whileout", ["assign", rng.randint(0, 1), rng.choice([1, 2, -3])]])
            elif r < 0.85:
                ops.append(["whileout", ["run"]])
            else:
                ops.append(["whileout", ["submit"]])
            continue
        if r < 0.35:
            ops.append(["assign", rng.randint(0, 1), rng.choice([0, 1, 1, 2, 2, 3, -1, -5])])
        elif r < 0.65:
            ops.append(["run"])
        elif r < 0.8:
            ops.append(["submit"])
            flying = True
        elif r < 0.9:
            ops.append(["clear"])
        else:
            ops.append(["complete"])
    if flying:
        ops.append(["complete"])
    return {"fam": "leaf", "ins": ins, "ops": ops}


def gen_comp(rng):
    if rng.random() < 0.2:
        # revert / warm-replacement histories: the swapped-in instance has already run on the very inputs it is given
        tpl = rng.choice([[["run"], ["replace", "fresh", 1], ["run"], ["replace", "back", 1], ["run"]],
                          [["run"], ["replace", "prerun-equal", 1], ["run"]],
                          [["run"], ["replace", "fresh", 1], ["run"], ["assign", 2], ["run"], ["assign", 1], ["replace", "back", 1], ["run"]]])
        return {"fam": "comp", "x": 1, "ops": [list(o) for o in tpl]}
    if rng.random() < 0.15:
        # a child input that stands for the macro's input is overwritten by hand, then the macro's input is assigned again
        # (the very same object): the assignment has to travel down the value link again before the next run
        x = rng.choice([1, 2])
        how = rng.choice(["assign", "assign-panel", "run-kw"])
        ops = [["run"], ["inner-assign", rng.choice([7, 0, -2])]] + ([[how, x], ["run"]] if how != "run-kw" else [[how, x]])
        for _ in range(rng.randint(0, 4)):
            ops.append(rng.choice([["run"], ["assign", rng.choice([0, 1, 2])], ["inner-assign", 9], ["assign-panel", x], ["run-kw", x], ["clear"]]))
        return {"fam": "comp", "x": x, "ops": ops}
    ops = []
    for _ in range(rng.randint(4, 14)):
        r = rng.random()
        if r < 0.3:
            ops.append(["assign", rng.choice([0, 1, 2, 2, -2])])
        elif r < 0.7:
            ops.append(["run"])
        elif r < 0.74:
            ops.append(["pull", rng.choice(["a", "b", "b"])])   # pull a child: the macro runs in part (upstream only)
        elif r < 0.78:
            ops.append(["clear"])
        elif r < 0.82:
            ops.append(["add"])                       # add a dangling child: resets the macro's cache
        elif r < 0.86:
            # swap child b: for a fresh node with another function, for the node swapped out earlier (revert), or for an
            # instance that already ran standalone on some input (its own cache and outputs are warm)
            ops.append(["replace", rng.choice(["fresh", "back", "back", "prerun"]), rng.choice([1, 2, 3])])
        elif r < 0.93:
            ops.append(["silent-input", rng.choice([7, 9])])   # m.b.inputs.k = c : internal input without macro counterpart
        else:
            ops.append(["silent-rewire"])             # m.b.inputs.a now follows m.c instead of m.a
    return {"fam": "comp", "x": rng.choice([1, 2]), "ops": ops}


def gen_wfd(rng):
    """a Workflow (whose IO is its children's unconnected channels, so wiring changes its input KEYS) of three
    children: histories of assignments, runs, connects, disconnects and re-wirings"""
    ops = []
    for _ in range(rng.randint(3, 12)):
        r = rng.random()
        if r < 0.25:
            ops.append(["assign", rng.randrange(3), rng.choice([0, 1, 2, 5, -2])])
        elif r < 0.65:
            ops.append(["run"])
        elif r < 0.85:
            d = rng.choice([1, 2])
            ops.append(["connect", d, rng.randrange(d)])
        elif r < 0.95:
            ops.append(["disconnect", rng.choice([1, 2])])
        else:
            ops.append(["clear"])
    return {"fam": "wfd", "init": [rng.choice([1, 2, 3]) for _ in range(3)], "ops": ops}


def gen_comp_pull(rng):
    """round 7: the pull of a NON-terminal child (the macro runs in part: upstream children only) directly followed by a
    full run on unchanged macro inputs -- whatever the partial run remembers must not serve the full run"""
    ops = [["run"]] if rng.random() < 0.5 else []
    ops += [["assign", rng.choice([0, 2, 3, 5])], ["pull", rng.choice(["a", "a", "c", "b"])], ["run"]]
    for _ in range(rng.randint(0, 5)):
        ops.append(rng.choice([["run"], ["assign", rng.choice([0, 1, 2, 7])], ["pull", "a"], ["pull", "c"], ["clear"], ["run-kw", rng.choice([1, 2])]]))
    return {"fam": "comp", "x": rng.choice([1, 2]), "ops": ops}


def generate(ctx):
    rng = ctx.rng
    return ([gen_leaf(rng) for _ in range(ctx.n(500, 6000))] + [gen_comp(rng) for _ in range(ctx.n(200, 2500))] +
            [gen_wfd(rng) for _ in range(ctx.n(150, 2000))] + [gen_comp_pull(rng) for _ in range(ctx.n(60, 600))])


def corpus(ctx):
    import json
    out = []
    for p in sorted((lib.VERIF / "corpus" / PROP).glob("*.json")):
        out.extend(json.loads(p.read_text()))
    return out


# ---- leaf --------------------------------------------------------------------------------------
def _slot(v):
    from pyiron_workflow.channels import NOT_DATA
    return "nd" if v is NOT_DATA else int(v)


def _vis(n):
    return [[_slot(n.inputs.a.value), _slot(n.inputs.b.value)], _slot(n.outputs.y.value), bool(n.running), bool(n.failed)]


def leaf_trace(case, use_cache, cancel_mask=None, cancel_log=None):
    """cancel_log (out): for every `cancel` op, whether this twin had a job out and withdrew it; cancel_mask (in): the
    other twin's log -- a withdrawal is applied in lock-step only where BOTH twins have a job out (the cached twin's
    submit may have been served from the cache, in which case there is nothing to withdraw on either side)"""
    import concurrent.futures as cf
    from pyiron_workflow.mixin.run import ReadinessError
    nodes.reset()
    kw = {}
    if case["ins"][0] is not None:
        kw["a"] = case["ins"][0]
    if case["ins"][1] is not None:
        kw["b"] = case["ins"][1]
    ckpt = bool(case.get("ckpt"))
    label = "n" if not ckpt else ("nc" if use_cache else "nu")
    n = nodes.Chk2(label=label, tag=1, k=K, autoload=None, checkpoint="pickle" if ckpt else None, **kw)
    n.recovery = None
    if ckpt:
        n.delete_storage("pickle")       # nothing left over from another case
    if not use_cache:
        n.use_cache = False
    ex = nodes.ManualExecutor(pending=True)
    tr = []
    for op in case["ops"]:
        out = "done"
        if op[0] == "whileout":          # attempted only while a job is out
            if not n.running:
                tr.append([out, _vis(n)])
                continue
            op = op[1]
        try:
            if op[0] == "assign":
                n.inputs[["a", "b"][op[1]]].value = op[2]
            elif op[0] in ("run", "submit"):
                n.executor = ex if op[0] == "submit" else None
                r = n.run()
                out = "future" if isinstance(r, cf.Future) else ["val", _slot(r)]
            elif op[0] == "complete":
                if n.future is not None and not n.future.done():
                    fut = n.future
                    ex.complete(fut)
                    out = ["UserExc", 1] if fut.exception() is not None else ["val", _slot(n.outputs.y.value)]
            elif op[0] == "cancel":
                k = len(cancel_log) if cancel_log is not None else None
                can = n.future is not None and not n.future.done()
                allowed = cancel_mask is None or (k is not None and k < len(cancel_mask) and cancel_mask[k])
                if cancel_log is not None:
                    cancel_log.append(bool(can))
                if can and allowed:
                    out = ["cancelled", bool(ex.cancel(n.future))]
            elif op[0] == "clear":
                n.failed = False
            elif op[0] == "reload":
                # a new session: a fresh object of the same label picks up the last checkpoint (if one was written)
                n = nodes.Chk2(label=label, tag=1, k=K, autoload="pickle", checkpoint="pickle")
                n.recovery = None
                if not use_cache:
                    n.use_cache = False
        except ReadinessError:
            out = "Readiness"
        except nodes.UserExc:
            out = ["UserExc", 1]
        except RuntimeError:
            out = "Locked"
        tr.append([out, _vis(n)])
    if ckpt:
        n.delete_storage("pickle")
    return tr


def _op_coq(op):
    if op[0] == "whileout":
        return f"WhileOut ({_op_coq(op[1])})"
    return {"assign": lambda: f"Assign {cn(op[1])} {cz(op[2])}", "run": lambda: "RunLocal", "submit": lambda: "Submit",
            "complete": lambda: "Complete", "clear": lambda: "ClearFailed"}[op[0]]()


def leaf_term(case, uc):
    ops = [_op_coq(op) for op in case["ops"]]
    return f"obs_run {cb(uc)} {cl(copt(v, cz) for v in case['ins'])} {cz(K)} {cl(ops)}"


def twin_verdict(tc, tu):
    """compare the cached and the uncached trace: visible state whenever neither is running, returned values
    (an executor run: its eventual result)"""
    pend_c = pend_u = None
    for i, ((oc, vc), (ou, vu)) in enumerate(zip(tc, tu)):
        rc, ru = vc[2], vu[2]
        if not rc and not ru and vc != vu:
            return f"twin-state: after op {i} the cached node shows {vc}, its uncached twin {vu}"
        # eventual results of runs
        ec = oc if oc != "future" else None
        eu = ou if ou != "future" else None
        if oc == "future":
            pend_c = i
        if ou == "future":
            pend_u = i
        if isinstance(oc, list) and oc[0] in ("val", "UserExc") and isinstance(ou, list) and ou[0] in ("val", "UserExc"):
            if oc != ou and not (rc or ru):
                return f"twin-result: op {i} returned {oc} with caching and {ou} without"
        if oc == "Readiness" and isinstance(ou, list) and ou[0] == "val" and not ru:
            return f"twin-result: op {i} refused with caching but returned {ou} without"
        if ou == "Readiness" and isinstance(oc, list) and oc[0] == "val" and not vu[2]:
            return f"short-circuit: op {i} returned {oc} from cache where the uncached twin refuses to run"
    return None


# ---- comp --------------------------------------------------------------------------------------
from pyiron_workflow.nodes.macro import as_macro_node  # noqa: E402


@as_macro_node("out")
def CM(self, x):
    self.a = nodes.Chk1(tag=1, k=3, a=x)
    self.c = nodes.Chk1(tag=3, k=40, a=x)
    self.b = nodes.Chk1(tag=2, k=5, a=self.a)
    return self.b


def comp_trace(case, use_cache):
    from pyiron_workflow.mixin.run import ReadinessError
    from pyiron_workflow.nodes.composite import FailedChildError
    nodes.reset()
    m = CM(label="m", x=case["x"])
    m.recovery = None

    def uncache():
        # "caching switched off": on the macro and on every node inside it
        if not use_cache:
            m.use_cache = False
            for c in m:
                c.use_cache = False
    uncache()
    tr = []
    extra = 0
    spare = None
    for op in case["ops"]:
        out = "done"
        try:
            if op[0] == "assign":
                m.inputs.x.value = op[1]
            elif op[0] == "assign-panel":
                m.inputs.x = op[1]
            elif op[0] == "inner-assign":
                m.x.inputs.user_input.value = op[1]       # the child channel the macro's input x is value-linked to
            elif op[0] in ("run", "run-kw"):
                r = m.run() if op[0] == "run" else m.run(x=op[1])
                out = ["val", _slot(r["out"]) if hasattr(r, "keys") else _slot(r)]
            elif op[0] == "clear":
                m.failed = False
                for c in m:
                    c.failed = False
            elif op[0] == "pull":
                r = m.children[op[1]].pull()
                out = ["val", _slot(r)]
            elif op[0] == "add":
                extra += 1
                m.add_child(nodes.Lin0(label=f"x{extra}", tag=50 + extra, k=1))
                uncache()
            elif op[0] == "replace":
                how = op[1] if len(op) > 1 else "fresh"
                if how == "back" and spare is not None:
                    new = spare
                else:
                    cls = nodes.Chk1x if type(m.b).__name__ == "Chk1" else nodes.Chk1
                    new = cls(label="r", tag=2)
                    if how == "prerun-equal":
                        if not use_cache:
                            new.use_cache = False
                        new.recovery = None
                        try:
                            new.run(k=m.b.inputs.k.value, a=m.a.outputs.y.value)
                        except Exception:
                            pass
                    if how == "prerun":
                        if not use_cache:
                            new.use_cache = False
                        new.recovery = None
                        try:
                            new.run(k=5, a=3 + (op[2] if len(op) > 2 else 1))
                        except Exception:
                            pass
                old, _ = m.replace_child(m.b, new)
                spare = old
                uncache()
            elif op[0] == "silent-input":
                m.b.inputs.k.value = op[1]
            elif op[0] == "silent-rewire":
                m.b.inputs.a.disconnect_all()
                m.b.inputs.a.connect(m.c.outputs.y)
        except ReadinessError:
            out = "Readiness"
        except FailedChildError:
            out = "FailedChild"
        except nodes.UserExc:
            out = ["UserExc", 1]
        except RuntimeError:
            out = "Locked"
        tr.append([out, [[_slot(m.inputs.x.value)], _slot(m.outputs.out.value), bool(m.running), bool(m.failed)]])
    return tr


def wfd_trace(case, use_cache):
    from pyiron_workflow import Workflow
    from pyiron_workflow.mixin.run import ReadinessError
    from pyiron_workflow.nodes.composite import FailedChildError
    nodes.reset()
    wf = Workflow("w")
    wf.recovery = None
    kids = []
    for i in range(3):
        n = nodes.Chk1(label=f"n{i}", tag=i, k=3 + 10 * i, a=case["init"][i])
        wf.add_child(n)
        kids.append(n)
    if not use_cache:
        wf.use_cache = False
        for c in kids:
            c.use_cache = False
    tr = []
    hits = []
    mview = []
    for op in case["ops"]:
        out = "done"
        if use_cache:
            # Node.cache_hit against python dict equality (CacheKeys.v), on the dictionaries the history produced
            now = {k: _slot(v) for k, v in wf.inputs.to_value_dict().items()}
            cached = None if wf._cached_inputs is None else {k: _slot(v) for k, v in wf._cached_inputs.items()}
            hits.append([bool(wf.running), bool(wf.failed), now, cached, bool(wf.cache_hit)])
        try:
            if op[0] == "assign":
                kids[op[1]].inputs.a.value = op[2]
            elif op[0] == "run":
                r = wf.run()
                out = ["val", sorted([k, _slot(v)] for k, v in dict(r).items())]
            elif op[0] == "connect":
                kids[op[1]].inputs.a.disconnect_all()
                kids[op[1]].inputs.a.connect(kids[op[2]].outputs.y)
            elif op[0] == "disconnect":
                kids[op[1]].inputs.a.disconnect_all()
            elif op[0] == "clear":
                wf.failed = False
                for c in kids:
                    c.failed = False
        except ReadinessError:
            out = "Readiness"
        except FailedChildError:
            out = "FailedChild"
        except nodes.UserExc:
            out = ["UserExc", 1]
        except RuntimeError:
            out = "Locked"
        # the property speaks of what is returned and left in the OUTPUTS: a connected input that a cached run did not
        # re-fetch may show another value than its twin's, which is not part of the claim
        tr.append([out, [[], [_slot(c.outputs.y.value) for c in kids], bool(wf.running), bool(wf.failed)]])
        mview.append([out if isinstance(out, str) else out[0], [_slot(c.outputs.y.value) for c in kids],
                      [bool(c.failed) for c in kids], bool(wf.failed)])
    if use_cache:
        case["_hits"] = hits
    case["_wfview_" + ("c" if use_cache else "u")] = mview
    return tr


# ---- framework API -----------------------------------------------------------------------------
def run_impl(case):
    if case["fam"] == "leaf":
        log_c, log_u = [], []
        tc = leaf_trace(case, True, None, log_c)
        return {"cached": tc, "uncached": leaf_trace(case, False, log_c, log_u)}
    if case["fam"] == "wfd":
        return {"cached": wfd_trace(case, True), "uncached": wfd_trace(case, False)}
    return {"cached": comp_trace(case, True), "uncached": comp_trace(case, False)}


def model_view(case, obs):
    if case["fam"] == "wfd":
        return [[1 if h[4] else 0 for h in case.get("_hits", [])], case.get("_wfview_c"), case.get("_wfview_u")]
    return [obs["cached"], obs["uncached"]]


def _wop_coq(o):
    if o[0] == "assign":
        return f"WAssign {cn(o[1])} {cz(o[2])}"
    if o[0] == "connect":
        return f"WConnect {cn(o[1])} {cn(o[2])}"
    if o[0] == "disconnect":
        return f"WDisconnect {cn(o[1])}"
    return {"run": "WRun", "clear": "WClear"}[o[0]]


def _dict_coq(d):
    from harness.lib import cs
    slot = lambda v: "None" if v == "nd" else f"(Some {cz(v)})"     # noqa: E731
    return cl(f"({cs(k)}, {slot(v)})" for k, v in d.items())


def model_term(case):
    if case["fam"] == "wfd":
        if "_hits" not in case:
            return None
        hits = "OL " + cl(f"obs_hit {cb(r)} {cb(f)} {_dict_coq(now)} " +
                          ("None" if c is None else f"(Some {_dict_coq(c)})") for r, f, now, c, _ in case["_hits"])
        ks = cl(f"({cz(3 + 10 * i)}, {cz(v)})" for i, v in enumerate(case["init"]))
        ops = cl(_wop_coq(o) for o in case["ops"])
        return f"OL [{hits}; obs_wtrace true {ks} {ops}; obs_wtrace false {ks} {ops}]"
    if case["fam"] != "leaf" or any(op[0] == "cancel" for op in case["ops"]) or case.get("ckpt"):
        return None         # a withdrawn job / a reload from the checkpoint file is not an op of Cache.v: twin oracle only
    return f"OL [{leaf_term(case, True)}; {leaf_term(case, False)}]"


def oracle(case, obs):
    if not isinstance(obs, dict):
        return f"crash: {obs}"
    return twin_verdict(obs["cached"], obs["uncached"])


def _silent_before_run(case):
    seen = inner = False
    src, at_run = {}, None
    for op in case["ops"]:
        if case["fam"] == "wfd":
            # S5 for a Workflow: between two runs the internal wiring changed (directly, or by disconnecting and
            # connecting elsewhere) while the SET of connected inputs -- hence the input dictionary's keys -- is the same
            if op[0] == "connect":
                src[op[1]] = op[2]
            elif op[0] == "disconnect":
                src.pop(op[1], None)
            elif op[0] == "run":
                if at_run is not None and set(at_run) == set(src) and at_run != src:
                    seen = True
                if seen:
                    return True
                at_run = dict(src)
            continue
        if op[0].startswith("silent"):
            seen = True
        elif op[0] == "inner-assign":
            inner = True        # the macro's input and its child channel differ until the macro's input is assigned again
        elif op[0] in ("assign", "assign-panel", "run-kw") and not seen:
            inner = False
        if op[0] in ("run", "run-kw") and (seen or inner):
            return True
    return False


def _stale_assign_exposed(case):
    """an input that was assigned by hand (at any time) is connected, a run happens while it is connected (the uncached
    twin re-fetches over the assigned value; a run served from the workflow's cache runs no child and does not), and
    the input is disconnected afterwards: from then on the two twins compute from different own values"""
    src, dirty, ran_dirty = {}, set(), set()
    for op in case["ops"]:
        if op[0] == "connect":
            src[op[1]] = op[2]
        elif op[0] == "assign":
            dirty.add(op[1])
        elif op[0] == "run":
            ran_dirty |= {i for i in dirty if i in src}
        elif op[0] == "disconnect":
            if op[1] in ran_dirty and op[1] in src:
                return True
            src.pop(op[1], None)
    return False


def known(case, obs, verdict):
    if case["fam"] == "wfd" and _stale_assign_exposed(case):
        return "C05-cache-hit-skips-child-fetch"
    if case["fam"] in ("comp", "wfd") and _silent_before_run(case):
        return "S5-composite-cache-survives-internal-edit"
    return None


def nontrivial(case, obs):
    if not isinstance(obs, dict):
        return False
    tc, tu = obs["cached"], obs["uncached"]
    runs = [i for i, op in enumerate(case["ops"]) if op[0] in ("run", "submit")]
    if case["fam"] == "wfd":
        return sum(1 for op in case["ops"] if op[0] == "run") >= 2 and any(op[0] in ("connect", "disconnect") for op in case["ops"])
    if case["fam"] == "comp":
        return any(o[0] == "val" for o, _ in tc if isinstance(o, list)) and any(o == "FailedChild" or o == "Readiness" for o, _ in tc)
    # a hit: the cached twin returned a value on a submit, or the call logs differ ... approximated by outcomes
    hit = any(tc[i][0] != tu[i][0] or (isinstance(tc[i][0], list) and tc[i][0][0] == "val") for i in runs)
    hard = any(o in ("Readiness", "Locked", "future") or (isinstance(o, list) and o[0] == "UserExc") or o == "FailedChild"
               for o, _ in tc)
    return hit and hard


def key(case):
    return case


def shrink_candidates(case):
    ops = case["ops"]
    for i in range(len(ops)):
        if ops[i] == ["cancel"]:
            yield dict(case, ops=ops[:i] + ops[i + 2:])      # a withdrawal goes together with the `complete` after it
        elif ops[i] == ["complete"] and i and ops[i - 1] == ["cancel"]:
            continue
        elif ops[i][0] == "submit" and case["fam"] == "leaf":
            continue                                          # keeps the in-flight bracketing of the history intact
        else:
            yield dict(case, ops=ops[:i] + ops[i + 1:])


def distribution(results):
    d = {"leaf": 0, "comp": 0, "wfd": 0, "ops": 0, "values": 0, "futures": 0, "readiness": 0, "locked": 0, "failures": 0,
         "submit_served_from_cache": 0}
    for c, enc, v, o in results:
        d[c["fam"]] += 1
        if not isinstance(o, dict):
            continue
        for (oc, vc), (ou, vu) in zip(o["cached"], o["uncached"]):
            d["ops"] += 1
            d["values"] += isinstance(oc, list) and oc[0] == "val"
            d["futures"] += oc == "future"
            d["readiness"] += oc == "Readiness"
            d["locked"] += oc == "Locked"
            d["failures"] += (isinstance(oc, list) and oc[0] == "UserExc") or oc == "FailedChild"
            d["submit_served_from_cache"] += ou == "future" and isinstance(oc, list)
    return d
